//go:build verif

package bydbql

import "fmt"

// Accessors for property check C20 (read-only views of unexported state; no logic).

// VerifTemplate returns the shared parsed template of a prepared statement.
func VerifTemplate(ps *PreparedStatement) *Grammar { return ps.template }

// VerifSpecs renders the placeholder specs recorded by Prepare.
func VerifSpecs(ps *PreparedStatement) string { return fmt.Sprintf("%v", ps.specs) }

// VerifParamsBound reads Grammar.paramsBound.
func VerifParamsBound(g *Grammar) bool { return g.paramsBound }
