// Package simos is the disk seam of the simulator: pkg/fs is compiled against it instead of "os"
// (import rewrite in a scratch copy, bodies untouched). Every mutating call passes through to the real
// file on tmpfs AND is appended to a journal, from which crash states are materialised; calls can be
// failed with an injected error. Paths outside the active root are passed through silently.
package simos

import (
	"errors"
	"io/fs"
	"os"
	"strings"
	"sync"
	"syscall"
)

type (
	// FileMode is os.FileMode.
	FileMode = os.FileMode
	// FileInfo is os.FileInfo.
	FileInfo = os.FileInfo
	// DirEntry is os.DirEntry.
	DirEntry = os.DirEntry
)

// Flags re-exported for pkg/fs.
const (
	O_RDWR      = os.O_RDWR
	O_CREATE    = os.O_CREATE
	O_TRUNC     = os.O_TRUNC
	ModeSymlink = fs.ModeSymlink
)

// Kind of a journaled operation.
type Kind uint8

// Operation kinds.
const (
	OpCreate Kind = iota // open with O_CREATE|O_TRUNC: the file exists and is empty
	OpWrite              // append Data
	OpFsync              // fsync/fdatasync of a regular file
	OpFsyncDir           // fsync of a directory
	OpRename
	OpRemove
	OpRmAll
	OpMkdirAll
	OpLink
)

func (k Kind) String() string {
	return [...]string{"create", "write", "fsync", "fsyncdir", "rename", "remove", "rmall", "mkdirall", "link"}[k]
}

// Op is one journaled file-system operation (paths relative to the active root).
type Op struct {
	Path  string
	Path2 string
	Data  []byte
	Kind  Kind
}

// Journal is the ordered list of operations since Start.
type Journal struct {
	Ops []Op
}

var (
	mu      sync.Mutex
	root    string
	jr      *Journal
	fds     = map[uintptr]*File{}
	hook    func(index int, op *Op)          // called (outside the lock) right after op #index was journaled and applied
	failer  func(index int, op *Op) error    // called before op #index is applied; a non-nil error fails the call
	stopped bool
)

// Start begins journaling every mutating call on paths below rootDir.
func Start(rootDir string) *Journal {
	mu.Lock()
	defer mu.Unlock()
	root = strings.TrimSuffix(rootDir, "/") + "/"
	jr = &Journal{}
	hook, failer, stopped = nil, nil, false
	return jr
}

// SetHook installs a callback invoked after each journaled operation (crash-point capture).
func SetHook(h func(index int, op *Op)) { mu.Lock(); hook = h; mu.Unlock() }

// SetFailer installs a callback that may fail an operation before it is applied (disk-error injection).
func SetFailer(f func(index int, op *Op) error) { mu.Lock(); failer = f; mu.Unlock() }

// Stop ends journaling.
func Stop() {
	mu.Lock()
	root, jr, hook, failer = "", nil, nil, nil
	fds = map[uintptr]*File{}
	mu.Unlock()
}

// Len returns the number of journaled operations.
func Len() int {
	mu.Lock()
	defer mu.Unlock()
	if jr == nil {
		return 0
	}
	return len(jr.Ops)
}

func rel(p string) (string, bool) {
	if root == "" || !strings.HasPrefix(p, root) {
		return "", false
	}
	return p[len(root):], true
}

// before journals the operation and asks the failer; returns the index, or -1 if not journaled.
func before(k Kind, p, p2 string, data []byte) (int, error) {
	mu.Lock()
	r, ok := rel(p)
	if !ok || jr == nil {
		mu.Unlock()
		return -1, nil
	}
	op := Op{Kind: k, Path: r}
	if p2 != "" {
		if r2, ok2 := rel(p2); ok2 {
			op.Path2 = r2
		} else {
			op.Path2 = "!outside:" + p2
		}
	}
	if data != nil {
		op.Data = append([]byte(nil), data...)
	}
	idx := len(jr.Ops)
	f := failer
	mu.Unlock()
	if f != nil {
		if err := f(idx, &op); err != nil {
			return -1, err
		}
	}
	mu.Lock()
	if jr != nil {
		idx = len(jr.Ops)
		jr.Ops = append(jr.Ops, op)
	}
	mu.Unlock()
	return idx, nil
}

func after(idx int) {
	if idx < 0 {
		return
	}
	mu.Lock()
	h := hook
	var op *Op
	if jr != nil && idx < len(jr.Ops) {
		op = &jr.Ops[idx]
	}
	mu.Unlock()
	if h != nil && op != nil {
		h(idx, op)
	}
}

// File wraps *os.File; mutating methods are journaled.
type File struct {
	*os.File
	path  string
	isDir bool
}

func (f *File) Write(p []byte) (int, error) {
	idx, err := before(OpWrite, f.path, "", p)
	if err != nil {
		return 0, err
	}
	n, werr := f.File.Write(p)
	after(idx)
	return n, werr
}

// Sync journals an fsync of the file (or directory).
func (f *File) Sync() error {
	k := OpFsync
	if f.isDir {
		k = OpFsyncDir
	}
	idx, err := before(k, f.path, "", nil)
	if err != nil {
		return err
	}
	serr := f.File.Sync()
	after(idx)
	return serr
}

// Close forgets the descriptor.
func (f *File) Close() error {
	mu.Lock()
	delete(fds, f.File.Fd())
	mu.Unlock()
	return f.File.Close()
}

// FdSynced is called by simunix.Fdatasync.
func FdSynced(fd uintptr) error {
	mu.Lock()
	f := fds[fd]
	mu.Unlock()
	if f == nil {
		return nil
	}
	idx, err := before(OpFsync, f.path, "", nil)
	if err != nil {
		return err
	}
	after(idx)
	return nil
}

// OpenFile is os.OpenFile.
func OpenFile(name string, flag int, perm FileMode) (*File, error) {
	idx := -1
	if flag&os.O_CREATE != 0 || flag&os.O_TRUNC != 0 {
		var err error
		if idx, err = before(OpCreate, name, "", nil); err != nil {
			return nil, err
		}
	}
	f, err := os.OpenFile(name, flag, perm)
	if err != nil {
		return nil, err
	}
	sf := &File{File: f, path: name}
	mu.Lock()
	fds[f.Fd()] = sf
	mu.Unlock()
	after(idx)
	return sf, nil
}

// Open is os.Open.
func Open(name string) (*File, error) {
	f, err := os.Open(name)
	if err != nil {
		return nil, err
	}
	sf := &File{File: f, path: name}
	if st, serr := f.Stat(); serr == nil && st.IsDir() {
		sf.isDir = true
	}
	mu.Lock()
	fds[f.Fd()] = sf
	mu.Unlock()
	return sf, nil
}

// Rename is os.Rename.
func Rename(a, b string) error {
	idx, err := before(OpRename, a, b, nil)
	if err != nil {
		return err
	}
	rerr := os.Rename(a, b)
	after(idx)
	return rerr
}

// Remove is os.Remove.
func Remove(a string) error {
	idx, err := before(OpRemove, a, "", nil)
	if err != nil {
		return err
	}
	rerr := os.Remove(a)
	after(idx)
	return rerr
}

// RemoveAll is os.RemoveAll.
func RemoveAll(a string) error {
	idx, err := before(OpRmAll, a, "", nil)
	if err != nil {
		return err
	}
	rerr := os.RemoveAll(a)
	after(idx)
	return rerr
}

// MkdirAll is os.MkdirAll.
func MkdirAll(a string, m FileMode) error {
	idx, err := before(OpMkdirAll, a, "", nil)
	if err != nil {
		return err
	}
	rerr := os.MkdirAll(a, m)
	after(idx)
	return rerr
}

// Link is os.Link.
func Link(a, b string) error {
	idx, err := before(OpLink, b, a, nil)
	if err != nil {
		return err
	}
	rerr := os.Link(a, b)
	after(idx)
	return rerr
}

// Read-only pass-throughs.
func Stat(a string) (FileInfo, error)      { return os.Stat(a) }
func Lstat(a string) (FileInfo, error)     { return os.Lstat(a) }
func ReadFile(a string) ([]byte, error)    { return os.ReadFile(a) }
func ReadDir(a string) ([]DirEntry, error) { return os.ReadDir(a) }
func IsNotExist(err error) bool            { return os.IsNotExist(err) }
func IsExist(err error) bool               { return os.IsExist(err) }
func IsPermission(err error) bool          { return os.IsPermission(err) }

// Injectable errors.
var (
	ErrIO    = &os.PathError{Op: "sim", Path: "injected", Err: syscall.EIO}
	ErrNoSpc = &os.PathError{Op: "sim", Path: "injected", Err: syscall.ENOSPC}
)

// IsInjected reports whether err is one of the injected disk errors.
func IsInjected(err error) bool {
	return errors.Is(err, syscall.EIO) || errors.Is(err, syscall.ENOSPC)
}
