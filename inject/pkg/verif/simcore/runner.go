package simcore

import (
	"crypto/sha256"
	"encoding/hex"
	"encoding/json"
	"fmt"
	"os"
	"path/filepath"
	"runtime"
	"runtime/debug"
	"sort"
	"strconv"
	"strings"
	"sync"
	"testing"
	"time"
)

// Violation is a failed oracle. Class identifies the violation for shrinking ("same violation class
// persists") and for the known-findings file; it must not contain run-specific values.
type Violation struct {
	Oracle string `json:"oracle"`
	Class  string `json:"class"`
	Msg    string `json:"msg"`
}

// Env is what a scenario sees besides the tape.
type Env struct {
	T        *testing.T
	Seed     uint64
	Scenario string
	Verbose  bool
	Dir      string // scratch directory of this run (on tmpfs), removed afterwards

	mu       sync.Mutex
	h        [32]byte
	nEvents  int
	events   []string
	probes   map[string]int
	viol     *Violation
	simNanos int64
	steps    int
	sample   any
	nontriv  bool
	// inconclusive, when set, says why this run decides nothing (never a violation)
	inconclusive string
	// freeRunning marks a run in which goroutines of the system under test overlap under the real scheduler on
	// purpose (e.g. a stalled maintenance loop): its history is not a pure function of the tape, so it is left
	// out of the determinism self-test; an oracle failure there still has to reproduce in a fresh process.
	freeRunning bool
}

// FreeRunning marks the run as real-scheduler dependent (see Env.freeRunning).
func (e *Env) FreeRunning() { e.mu.Lock(); e.freeRunning = true; e.mu.Unlock() }

// Event appends one line to the canonical history. Everything written here must be a function of
// the tape alone (no goroutine ids, no wall-clock, no map order).
func (e *Env) Event(format string, a ...any) {
	s := fmt.Sprintf(format, a...)
	e.mu.Lock()
	hh := sha256.New()
	hh.Write(e.h[:])
	hh.Write([]byte(s))
	copy(e.h[:], hh.Sum(nil))
	e.nEvents++
	if e.Verbose {
		e.events = append(e.events, s)
	}
	e.mu.Unlock()
}

// Note appends a diagnostic line that is NOT part of the canonical history.
func (e *Env) Note(format string, a ...any) {
	if !e.Verbose {
		return
	}
	s := fmt.Sprintf(format, a...)
	e.mu.Lock()
	e.events = append(e.events, "  # "+s)
	e.mu.Unlock()
}

// Probe counts "this condition/fault actually happened".
func (e *Env) Probe(name string) { e.ProbeN(name, 1) }

// ProbeN adds n to a probe.
func (e *Env) ProbeN(name string, n int) {
	e.mu.Lock()
	e.probes[name] += n
	e.mu.Unlock()
}

// Fail records a violation (the first one wins).
func (e *Env) Fail(oracle, class, format string, a ...any) {
	e.mu.Lock()
	if e.viol == nil {
		e.viol = &Violation{Oracle: oracle, Class: oracle + ":" + class, Msg: fmt.Sprintf(format, a...)}
	}
	e.mu.Unlock()
}

// Known reports whether class is listed in the known-findings file for this property (the driver passes
// the list). A check that tolerates a known finding MUST count it with ProbeKnown so that the driver
// prints the KNOWN-FINDING line.
func (e *Env) Known(oracle, class string) bool {
	knownOnce.Do(func() {
		for _, c := range strings.Split(os.Getenv("VERIF_KNOWN_CLASSES"), "\n") {
			if c != "" {
				knownSet[c] = true
			}
		}
	})
	if knownSet[oracle+":"+class] {
		e.ProbeN("known:"+oracle+":"+class, 1)
		return true
	}
	return false
}

var (
	knownOnce sync.Once
	knownSet  = map[string]bool{}
)

// Failed reports whether a violation has been recorded.
func (e *Env) Failed() bool {
	e.mu.Lock()
	defer e.mu.Unlock()
	return e.viol != nil
}

// AddSim accounts simulated time.
func (e *Env) AddSim(d time.Duration) { e.mu.Lock(); e.simNanos += int64(d); e.mu.Unlock() }

// Step counts one driver step.
func (e *Env) Step() { e.mu.Lock(); e.steps++; e.mu.Unlock() }

// SetSample stores a human-readable description of what this run did.
func (e *Env) SetSample(v any) { e.mu.Lock(); e.sample = v; e.mu.Unlock() }

// Nontrivial marks the run as having reached the behaviour the property is about.
func (e *Env) Nontrivial() { e.mu.Lock(); e.nontriv = true; e.mu.Unlock() }

// Scenario is one workload+oracle.
type Scenario struct {
	Run    func(e *Env, tp *Tape)
	Name   string
	Weight int
}

type runRec struct {
	Probes     map[string]int `json:"probes,omitempty"`
	Viol       *Violation     `json:"viol,omitempty"`
	Sample     any            `json:"sample,omitempty"`
	T          string         `json:"t"`
	Scenario   string         `json:"scenario,omitempty"`
	Digest     string         `json:"digest,omitempty"`
	Replay     string         `json:"replay,omitempty"`
	Seed       uint64         `json:"seed"`
	SimNs      int64          `json:"sim_ns,omitempty"`
	Steps      int            `json:"steps,omitempty"`
	WallUs     int64          `json:"wall_us,omitempty"`
	TapeLen    int            `json:"tape_len,omitempty"`
	ShrunkLen  int            `json:"shrunk_len,omitempty"`
	ShrinkRuns int            `json:"shrink_runs,omitempty"`
	Nontrivial bool           `json:"nontrivial,omitempty"`
	Inconcl    string         `json:"inconclusive,omitempty"`
	FreeRun    bool           `json:"free_running,omitempty"`
}

// ReplayFile is the on-disk form of a (minimised) failing run.
type ReplayFile struct {
	Violation *Violation `json:"violation"`
	Property  string     `json:"property"`
	Scenario  string     `json:"scenario"`
	Note      string     `json:"note,omitempty"`
	Tape      []uint64   `json:"tape"`
	SideTape  []uint64   `json:"side_tape,omitempty"` // configuration knobs (Tape.Side); absent = all defaults
	Events    []string   `json:"events,omitempty"`
	Seed      uint64     `json:"seed"`
	OrigLen   int        `json:"orig_tape_len"`
	FromSeed  bool       `json:"from_seed,omitempty"` // replay by re-drawing from the seed (crash triage), tape ignored
}

var outMu sync.Mutex

func emit(f *os.File, r *runRec) {
	if f == nil {
		return
	}
	b, err := json.Marshal(r)
	if err != nil {
		b = []byte(fmt.Sprintf(`{"t":"error","msg":%q}`, err.Error()))
	}
	outMu.Lock()
	f.Write(append(b, '\n'))
	outMu.Unlock()
}

func envInt(name string, def int64) int64 {
	if s := os.Getenv(name); s != "" {
		if v, err := strconv.ParseInt(s, 10, 64); err == nil {
			return v
		}
	}
	return def
}

func pickScenario(scs []Scenario, seed uint64) *Scenario {
	if f := os.Getenv("VERIF_SCENARIO"); f != "" {
		for i := range scs {
			if scs[i].Name == f {
				return &scs[i]
			}
		}
	}
	sum := 0
	for _, s := range scs {
		sum += s.Weight
	}
	v := int((seed * 0x9E3779B97F4A7C15 >> 33) % uint64(sum))
	for i := range scs {
		if v < scs[i].Weight {
			return &scs[i]
		}
		v -= scs[i].Weight
	}
	return &scs[len(scs)-1]
}

func scenarioByName(scs []Scenario, name string) *Scenario {
	for i := range scs {
		if scs[i].Name == name {
			return &scs[i]
		}
	}
	return nil
}

var watch struct {
	sync.Mutex
	deadline time.Time
	what     string
}

func startWatchdog(out *os.File) {
	go func() {
		for {
			time.Sleep(500 * time.Millisecond)
			watch.Lock()
			dl, what := watch.deadline, watch.what
			watch.Unlock()
			if !dl.IsZero() && time.Now().After(dl) {
				emit(out, &runRec{T: "hang", Scenario: what})
				fmt.Fprintf(os.Stderr, "WATCHDOG: run did not finish: %s\n", what)
				if os.Getenv("VERIF_WATCHDOG_STACKS") != "" {
					buf := make([]byte, 1<<22)
					buf = buf[:runtime.Stack(buf, true)]
					os.Stderr.Write(buf)
				}
				os.Exit(3)
			}
		}
	}()
}

func setDeadline(d time.Duration, what string) {
	watch.Lock()
	if d == 0 {
		watch.deadline = time.Time{}
	} else {
		watch.deadline = time.Now().Add(d)
	}
	watch.what = what
	watch.Unlock()
}

var runCounter int

// execOne runs one scenario on one tape and returns its Env. A panic on the calling goroutine is a
// violation of the generic "never panics" oracle; a panic on another goroutine kills the process and
// is handled by the driver (crash triage).
func execOne(t *testing.T, sc *Scenario, seed uint64, tp *Tape, verbose bool) *Env {
	runCounter++
	base := os.Getenv("VERIF_TMP")
	if base == "" {
		base = "/dev/shm"
	}
	dir := filepath.Join(base, fmt.Sprintf("verif-%d", os.Getpid()), fmt.Sprintf("r%d", runCounter))
	os.RemoveAll(dir)
	if err := os.MkdirAll(dir, 0o755); err != nil {
		fmt.Fprintln(os.Stderr, "cannot create scratch dir:", err)
		os.Exit(2)
	}
	e := &Env{T: t, Seed: seed, Scenario: sc.Name, Verbose: verbose, Dir: dir, probes: map[string]int{}}
	func() {
		defer func() {
			if r := recover(); r != nil {
				st := string(debug.Stack())
				msg := fmt.Sprint(r)
				if strings.HasPrefix(msg, "deadlock: main bubble goroutine has exited but blocked goroutines remain") && e.viol == nil {
					// The scenario finished and passed its oracles, but a goroutine of the system under test was
					// still blocked when the bubble closed (a shutdown-order race decided by the real scheduler,
					// not by the tape). Not a statement about the property: counted as inconclusive.
					e.inconclusive = "bubble-closed-with-blocked-goroutines"
					return
				}
				e.Fail("no-panic", "panic:"+normalizePanic(msg), "panic: %v\n%s", r, st)
			}
		}()
		sc.Run(e, tp)
	}()
	ResetGates()
	os.RemoveAll(dir)
	return e
}

func normalizePanic(s string) string {
	// keep the leading words, drop numbers/addresses
	var b strings.Builder
	for _, r := range s {
		if r >= '0' && r <= '9' {
			continue
		}
		b.WriteRune(r)
		if b.Len() > 60 {
			break
		}
	}
	return b.String()
}

// Main is the entry point used by every property's test binary.
func Main(t *testing.T, property string, scs []Scenario) {
	mode := os.Getenv("VERIF_MODE")
	var out *os.File
	if p := os.Getenv("VERIF_OUT"); p != "" {
		f, err := os.OpenFile(p, os.O_CREATE|os.O_WRONLY|os.O_APPEND, 0o644)
		if err != nil {
			fmt.Fprintln(os.Stderr, err)
			os.Exit(2)
		}
		out = f
		defer f.Close()
	}
	startWatchdog(out)
	runTimeout := time.Duration(envInt("VERIF_RUN_TIMEOUT_S", 120)) * time.Second
	defer os.RemoveAll(filepath.Join("/dev/shm", fmt.Sprintf("verif-%d", os.Getpid())))
	switch mode {
	case "replay":
		path := os.Getenv("VERIF_REPLAY")
		b, err := os.ReadFile(path)
		if err != nil {
			fmt.Fprintln(os.Stderr, err)
			os.Exit(2)
		}
		var rf ReplayFile
		if err = json.Unmarshal(b, &rf); err != nil {
			fmt.Fprintln(os.Stderr, "bad replay file:", err)
			os.Exit(2)
		}
		sc := scenarioByName(scs, rf.Scenario)
		if sc == nil {
			fmt.Fprintln(os.Stderr, "unknown scenario", rf.Scenario)
			os.Exit(2)
		}
		setDeadline(runTimeout, fmt.Sprintf("replay %s", path))
		var tp *Tape
		if rf.FromSeed {
			tp = NewTape(rf.Seed)
		} else {
			tp = ReplayTape(rf.Tape).WithSide(rf.SideTape)
		}
		e := execOne(t, sc, rf.Seed, tp, true)
		setDeadline(0, "")
		if os.Getenv("VERIF_QUIET") == "" {
			for _, l := range e.events {
				fmt.Println(l)
			}
		}
		fmt.Printf("REPLAY digest=%s events=%d\n", hex.EncodeToString(e.h[:8]), e.nEvents)
		if e.viol == nil {
			fmt.Println("REPLAY-RESULT ok (no violation)")
			return
		}
		fmt.Printf("REPLAY-RESULT violation class=%q\n%s\n", e.viol.Class, e.viol.Msg)
		if rf.Violation == nil || rf.Violation.Class == e.viol.Class {
			os.Exit(1)
		}
		os.Exit(4)
	default:
		seed0 := uint64(envInt("VERIF_SEED0", 1))
		stride := uint64(envInt("VERIF_STRIDE", 1))
		index := uint64(envInt("VERIF_INDEX", 0))
		maxRuns := envInt("VERIF_MAXRUNS", 1<<40)
		budget := time.Duration(envInt("VERIF_BUDGET_S", 20)) * time.Second
		shrinkBudget := time.Duration(envInt("VERIF_SHRINK_S", 60)) * time.Second
		maxViol := int(envInt("VERIF_MAXVIOL", 3))
		replDir := os.Getenv("VERIF_REPLAYS_DIR")
		if replDir == "" {
			replDir = "."
		}
		begin := time.Now()
		samples := 0
		seenClass := map[string]bool{}
		knownClass := map[string]bool{}
		for _, c := range strings.Split(os.Getenv("VERIF_KNOWN_CLASSES"), "\n") {
			if c != "" {
				knownClass[c] = true
			}
		}
		var k int64
		for k = 0; k < maxRuns && time.Since(begin) < budget; k++ {
			seed := seed0 + index + uint64(k)*stride
			sc := pickScenario(scs, seed)
			emit(out, &runRec{T: "start", Seed: seed, Scenario: sc.Name})
			setDeadline(runTimeout, fmt.Sprintf("seed %d scenario %s", seed, sc.Name))
			t0 := time.Now()
			tp := NewTape(seed)
			e := execOne(t, sc, seed, tp, false)
			setDeadline(0, "")
			if d := os.Getenv("VERIF_DUMP_EVENTS_SEED"); d != "" && d == fmt.Sprint(seed) { // debugging aid for determinism mismatches
				_ = os.WriteFile(os.Getenv("VERIF_DUMP_EVENTS_FILE"), []byte(strings.Join(e.events, "\n")+"\n"), 0o644)
			}
			rec := &runRec{
				T: "run", Seed: seed, Scenario: sc.Name, Digest: hex.EncodeToString(e.h[:8]), Probes: e.probes,
				SimNs: e.simNanos, Steps: e.steps, WallUs: time.Since(t0).Microseconds(), TapeLen: tp.Pos(),
				Nontrivial: e.nontriv, Viol: e.viol, Inconcl: e.inconclusive, FreeRun: e.freeRunning,
			}
			if samples < 3 && e.sample != nil {
				rec.Sample = e.sample
				samples++
			}
			emit(out, rec)
			if e.viol != nil {
				if seenClass[e.viol.Class] || knownClass[e.viol.Class] {
					continue
				}
				seenClass[e.viol.Class] = true
				side := tp.SideRecorded()
				tape, side, nruns := shrink(t, sc, seed, tp.Recorded(), side, e.viol.Class, shrinkBudget, runTimeout)
				// final verbose run for the event log
				setDeadline(runTimeout, "final shrink run")
				fe := execOne(t, sc, seed, ReplayTape(tape).WithSide(side), true)
				setDeadline(0, "")
				v := fe.viol
				if v == nil {
					v = e.viol
					tape = tp.Recorded()
					side = tp.SideRecorded()
				}
				if tape == nil {
					tape = []uint64{}
				}
				rf := &ReplayFile{
					Property: property, Scenario: sc.Name, Seed: seed, Tape: tape, SideTape: side, OrigLen: tp.Pos(),
					Violation: v, Events: fe.events,
				}
				name := filepath.Join(replDir, fmt.Sprintf("%s-%s-%d.json", property, sc.Name, seed))
				b, _ := json.MarshalIndent(rf, "", " ")
				if err := os.WriteFile(name, b, 0o644); err != nil {
					fmt.Fprintln(os.Stderr, err)
					os.Exit(2)
				}
				emit(out, &runRec{T: "violation", Seed: seed, Scenario: sc.Name, Viol: v, Replay: name, TapeLen: tp.Pos(), ShrunkLen: len(tape), ShrinkRuns: nruns})
				if len(seenClass) >= maxViol {
					break
				}
			}
		}
		emit(out, &runRec{T: "done", Steps: int(k)})
	}
}

// shrink minimises a failing tape by delta debugging while the same violation class persists.
func shrink(t *testing.T, sc *Scenario, seed uint64, tape, side []uint64, class string, budget, runTimeout time.Duration) ([]uint64, []uint64, int) {
	begin := time.Now()
	runs := 0
	fails := func(cand []uint64) bool {
		if time.Since(begin) > budget {
			return false
		}
		runs++
		setDeadline(runTimeout, "shrinking")
		e := execOne(t, sc, seed, ReplayTape(cand).WithSide(side), false)
		setDeadline(0, "")
		return e.viol != nil && e.viol.Class == class
	}
	// first: does it fail with every configuration knob at its default (empty side tape)? then single knobs
	if len(side) > 0 {
		keep := side
		side = nil
		if !fails(tape) {
			side = append([]uint64(nil), keep...)
			for i := range side {
				if side[i] == 0 {
					continue
				}
				old := side[i]
				side[i] = 0
				if !fails(tape) {
					side[i] = old
				}
			}
		}
	}
	cur := append([]uint64(nil), tape...)
	// drop trailing zeros is always valid (exhausted tape reads zero)
	trim := func(s []uint64) []uint64 {
		for len(s) > 0 && s[len(s)-1] == 0 {
			s = s[:len(s)-1]
		}
		return s
	}
	improved := true
	for improved && time.Since(begin) < budget {
		improved = false
		// 1. truncate: binary search on prefix length
		lo, hi := 0, len(cur)
		for lo < hi {
			mid := (lo + hi) / 2
			if fails(cur[:mid]) {
				hi = mid
			} else {
				lo = mid + 1
			}
		}
		if hi < len(cur) && fails(cur[:hi]) {
			cur = append([]uint64(nil), cur[:hi]...)
			improved = true
		}
		// 2. delete blocks
		for bs := 16; bs >= 1; bs /= 2 {
			for i := 0; i+bs <= len(cur); {
				cand := append(append([]uint64(nil), cur[:i]...), cur[i+bs:]...)
				if fails(cand) {
					cur = cand
					improved = true
				} else {
					i += bs
				}
			}
		}
		// 3. zero blocks, then single values; 4. halve values
		for bs := 8; bs >= 1; bs /= 2 {
			for i := 0; i+bs <= len(cur); i += bs {
				allZero := true
				for _, v := range cur[i : i+bs] {
					if v != 0 {
						allZero = false
					}
				}
				if allZero {
					continue
				}
				cand := append([]uint64(nil), cur...)
				for j := i; j < i+bs; j++ {
					cand[j] = 0
				}
				if fails(cand) {
					cur = cand
					improved = true
				}
			}
		}
		for i := range cur {
			for cur[i] > 0 {
				cand := append([]uint64(nil), cur...)
				cand[i] = cur[i] / 2
				if fails(cand) {
					cur = cand
					improved = true
				} else {
					cand[i] = cur[i] - 1
					if fails(cand) {
						cur = cand
						improved = true
					} else {
						break
					}
				}
			}
		}
		cur = trim(cur)
	}
	return cur, side, runs
}

// SortedKeys returns the sorted keys of a map (helper to keep event logs free of map order).
func SortedKeys[V any](m map[string]V) []string {
	out := make([]string, 0, len(m))
	for k := range m {
		out = append(out, k)
	}
	sort.Strings(out)
	return out
}
