package simcore

import (
	"bytes"
	"runtime"
	"sort"
	"strconv"
	"sync"
)

// Gates are parking yield points inserted by tools/gaterw into scratch copies of engine files (and
// written by hand in harness code). A gate is a no-op unless the current run armed its site.

var (
	gmu     sync.Mutex
	enabled bool
	armed   func(actor, site string) bool
	depth   = map[uint64]int{}
	parked  []*Parked
	actors  = map[uint64]string{}
	spawnN  = map[string]int{}
	// hits counts gate arrivals per site (armed or not) while enabled.
	hits = map[string]int{}
)

// Parked is a goroutine waiting at a gate.
type Parked struct {
	ch    chan struct{}
	Site  string
	Actor string
	seq   int
}

var parkSeq int

// SetActor names the calling goroutine; parked goroutines are ordered by actor name, never by
// goroutine id or arrival order, so that schedules replay.
func SetActor(name string) {
	gmu.Lock()
	actors[goid()] = name
	gmu.Unlock()
}

// ClearActor forgets the calling goroutine.
func ClearActor() {
	gmu.Lock()
	g := goid()
	delete(actors, g)
	delete(depth, g)
	gmu.Unlock()
}

func goid() uint64 {
	var buf [64]byte
	n := runtime.Stack(buf[:], false)
	b := buf[:n]
	b = b[len("goroutine "):]
	i := bytes.IndexByte(b, ' ')
	id, _ := strconv.ParseUint(string(b[:i]), 10, 64)
	return id
}

// EnableGates turns gates on with an arming predicate.
func EnableGates(f func(actor, site string) bool) {
	gmu.Lock()
	defer gmu.Unlock()
	enabled = true
	armed = f
	parked = nil
	depth = map[uint64]int{}
	hits = map[string]int{}
	spawnN = map[string]int{}
}

// ResetGates turns gates off and releases everybody.
func ResetGates() {
	gmu.Lock()
	enabled = false
	armed = nil
	ps := parked
	parked = nil
	actors = map[uint64]string{}
	depth = map[uint64]int{}
	gmu.Unlock()
	for _, p := range ps {
		close(p.ch)
	}
}

// GatesEnabled reports whether gates are on.
func GatesEnabled() bool {
	gmu.Lock()
	defer gmu.Unlock()
	return enabled
}

// GateHits returns a copy of the per-site arrival counters.
func GateHits() map[string]int {
	gmu.Lock()
	defer gmu.Unlock()
	out := make(map[string]int, len(hits))
	for k, v := range hits {
		out[k] = v
	}
	return out
}

// LockDepth adjusts the calling goroutine's held-lock count (mode A instrumentation).
func LockDepth(d int) {
	gmu.Lock()
	if enabled {
		g := goid()
		depth[g] += d
		if depth[g] <= 0 {
			delete(depth, g)
		}
	}
	gmu.Unlock()
}

// Gate parks the caller if the site is armed for its actor and it holds no tracked lock.
func Gate(site string) {
	gmu.Lock()
	if !enabled {
		gmu.Unlock()
		return
	}
	hits[site]++
	g := goid()
	a, named := actors[g]
	if !named || depth[g] > 0 || armed == nil || !armed(a, site) {
		gmu.Unlock()
		return
	}
	parkSeq++
	p := &Parked{Site: site, Actor: a, ch: make(chan struct{}), seq: parkSeq}
	parked = append(parked, p)
	gmu.Unlock()
	<-p.ch
}

// ParkedList returns the currently parked goroutines sorted by (actor, site); call at quiescence.
func ParkedList() []*Parked {
	gmu.Lock()
	defer gmu.Unlock()
	out := make([]*Parked, len(parked))
	copy(out, parked)
	sort.SliceStable(out, func(i, j int) bool {
		if out[i].Actor != out[j].Actor {
			return out[i].Actor < out[j].Actor
		}
		return out[i].Site < out[j].Site
	})
	return out
}

// Release lets a parked goroutine continue.
func Release(p *Parked) {
	gmu.Lock()
	for i, q := range parked {
		if q == p {
			parked = append(parked[:i], parked[i+1:]...)
			break
		}
	}
	gmu.Unlock()
	close(p.ch)
}

// Go starts f as a named child actor of the calling goroutine: "<parent>/<site>#<n>".
func Go(site string, f func()) {
	gmu.Lock()
	on := enabled
	parent, named := actors[goid()]
	var name string
	if on && named {
		key := parent + "/" + site
		spawnN[key]++
		name = key + "#" + strconv.Itoa(spawnN[key])
	}
	gmu.Unlock()
	go func() {
		if name != "" {
			SetActor(name)
			defer ClearActor()
		}
		f()
	}()
}

// CoLock is a cooperative lock acquisition (mode B): contenders park instead of blocking inside the
// runtime, so a holder may park at a gate while holding the lock.
func CoLock(try func() bool, lock func()) {
	gmu.Lock()
	on := enabled
	g := goid()
	a, named := actors[g]
	gmu.Unlock()
	if !on || !named {
		lock()
		return
	}
	for !try() {
		gmu.Lock()
		if !enabled {
			gmu.Unlock()
			lock()
			return
		}
		parkSeq++
		p := &Parked{Site: "lock-wait", Actor: a, ch: make(chan struct{}), seq: parkSeq}
		parked = append(parked, p)
		gmu.Unlock()
		<-p.ch
	}
}
