// Package simcore is the core of the deterministic simulator: the choice tape (one integer decides
// everything), the event log / canonical-history digest, gates (parking yield points), the seeded
// search loop, the tape shrinker and replay files.
package simcore

// Tape is the single source of every choice made in a run. In search mode it draws from a
// splitmix64 stream seeded by the run's seed and records what it returned; in replay mode it reads a
// recorded list and returns 0 once the list is exhausted (so truncating a tape is a valid shrink).
type Tape struct {
	rec    []uint64
	replay []uint64
	state  uint64
	pos    int
	isRepl bool
	side   *Tape
	seed   uint64
}

// NewTape returns a search-mode tape for a seed.
func NewTape(seed uint64) *Tape {
	return &Tape{state: seed*0x9E3779B97F4A7C15 + 0x1234567, seed: seed}
}

// Side returns the run's SIDE tape: a second, independent choice stream for configuration knobs that were added to
// scenarios later (size thresholds of the engines, ...). It is recorded in the replay file separately ("side_tape"),
// so tapes recorded before a knob existed still replay (a missing side tape reads 0 = every knob at its default),
// and the shrinker can try "all knobs at default" in one step.
func (t *Tape) Side() *Tape {
	if t.side == nil {
		if t.isRepl {
			t.side = ReplayTape(nil)
		} else {
			t.side = NewTape(t.seed ^ 0x5EED51DE5EED51DE)
		}
	}
	return t.side
}

// WithSide attaches recorded side-tape values to a replay tape.
func (t *Tape) WithSide(vals []uint64) *Tape {
	t.side = ReplayTape(vals)
	return t
}

// SideRecorded returns the side-tape values handed out so far (nil when the side tape was never used).
func (t *Tape) SideRecorded() []uint64 {
	if t.side == nil {
		return nil
	}
	return t.side.Recorded()
}

// ReplayTape returns a replay-mode tape.
func ReplayTape(vals []uint64) *Tape {
	return &Tape{replay: vals, isRepl: true}
}

func (t *Tape) next() uint64 {
	t.state += 0x9E3779B97F4A7C15
	z := t.state
	z = (z ^ (z >> 30)) * 0xBF58476D1CE4E5B9
	z = (z ^ (z >> 27)) * 0x94D049BB133111EB
	return z ^ (z >> 31)
}

// Choose returns a value in [0,n). n<=1 returns 0 without consuming the tape.
func (t *Tape) Choose(n int) int {
	if n <= 1 {
		return 0
	}
	var v uint64
	if t.isRepl {
		if t.pos < len(t.replay) {
			v = t.replay[t.pos] % uint64(n)
		}
		t.pos++
	} else {
		v = t.next() % uint64(n)
	}
	t.rec = append(t.rec, v)
	return int(v)
}

// Bool is true with probability num/den; the zero tape value means false (the "simple" outcome).
func (t *Tape) Bool(num, den int) bool {
	if num <= 0 {
		return false
	}
	return t.Choose(den) >= den-num
}

// Range returns a value in [lo,hi] inclusive.
func (t *Tape) Range(lo, hi int) int {
	if hi <= lo {
		return lo
	}
	return lo + t.Choose(hi-lo+1)
}

// Weighted picks an index with the given non-negative weights; index 0 is the shrink target.
func (t *Tape) Weighted(w ...int) int {
	sum := 0
	for _, x := range w {
		sum += x
	}
	if sum <= 0 {
		return 0
	}
	v := t.Choose(sum)
	for i, x := range w {
		if v < x {
			return i
		}
		v -= x
	}
	return len(w) - 1
}

// U64 returns 64 tape-chosen bits (two draws so that replay values stay small-ish when shrunk).
func (t *Tape) U64() uint64 {
	hi := uint64(t.Choose(1 << 31))
	lo := uint64(t.Choose(1 << 31))
	top := uint64(t.Choose(4))
	return top<<62 | hi<<31 | lo
}

// Recorded returns the values handed out so far.
func (t *Tape) Recorded() []uint64 {
	out := make([]uint64, len(t.rec))
	copy(out, t.rec)
	return out
}

// Pos returns how many draws were made.
func (t *Tape) Pos() int { return len(t.rec) }

// Pick returns a tape-chosen element of s.
func Pick[T any](t *Tape, s []T) T {
	return s[t.Choose(len(s))]
}
