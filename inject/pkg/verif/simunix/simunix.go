// Package simunix stands in for golang.org/x/sys/unix below pkg/fs (see simos).
package simunix

import (
	"golang.org/x/sys/unix"

	"github.com/apache/skywalking-banyandb/pkg/verif/simos"
)

// Constants re-exported for pkg/fs.
const (
	FADV_DONTNEED = unix.FADV_DONTNEED
	LOCK_EX       = unix.LOCK_EX
	LOCK_NB       = unix.LOCK_NB
)

// Fadvise is a pass-through (advice only).
func Fadvise(fd int, offset, length int64, advice int) error {
	return unix.Fadvise(fd, offset, length, advice)
}

// Fdatasync journals the sync of the file behind fd.
func Fdatasync(fd int) error {
	if err := simos.FdSynced(uintptr(fd)); err != nil {
		return err
	}
	return unix.Fdatasync(fd)
}

// Flock is a pass-through.
func Flock(fd int, how int) error { return unix.Flock(fd, how) }
