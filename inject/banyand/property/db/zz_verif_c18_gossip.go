//go:build verif

package db

import (
	propertyv1 "github.com/apache/skywalking-banyandb/api/proto/banyandb/property/v1"
	"github.com/apache/skywalking-banyandb/banyand/property/gossip"
)

// Accessors for the C18 scenario "gossip-exchange". They only call existing unexported code; no logic
// of their own. The database must have been opened with Repair.Enabled.

// VerifGossipClient returns the real client side of the Merkle-tree repair exchange: the listener that
// repairScheduler.registerClientToGossip subscribes to the gossip messenger.
func VerifGossipClient(d Database) gossip.MessageListener {
	return newRepairGossipClient(d.(*database).repairScheduler)
}

// VerifGossipServer returns the real server side of the exchange: the RepairService implementation that
// repairScheduler.registerServerToGossip registers with the gossip gRPC server.
func VerifGossipServer(d Database) propertyv1.RepairServiceServer {
	return newRepairGossipServer(d.(*database).repairScheduler)
}

// VerifBuildTree runs what the build-tree cron task runs (repairScheduler.doBuildTree): snapshot the
// shards and rebuild the Merkle trees when the index has changed since the last build.
func VerifBuildTree(d Database) error {
	return d.(*database).repairScheduler.doBuildTree()
}
