//go:build verif

package db

import (
	"context"

	"github.com/apache/skywalking-banyandb/api/common"
	propertyv1 "github.com/apache/skywalking-banyandb/api/proto/banyandb/property/v1"
)

// Accessors for the C18 check. They only call existing unexported code; no logic of their own.

// VerifGossipLatest calls repairGossipBase.queryProperty: the function both gossip sides use to pick
// the document of one entity ("group/name/id") that is sent to the peer.
func VerifGossipLatest(ctx context.Context, d Database, group string, shardID uint32, entity string,
) (id []byte, p *propertyv1.Property, deleteTime int64, found bool, err error) {
	s, err := d.(*database).loadShard(ctx, group, common.ShardID(shardID))
	if err != nil {
		return nil, nil, 0, false, err
	}
	qp, prop, err := (&repairGossipBase{}).queryProperty(ctx, s, entity)
	if err != nil || qp == nil {
		return nil, nil, 0, false, err
	}
	return qp.id, prop, qp.deleteTime, true, nil
}

// VerifShardRepair calls shard.repair: the function both gossip sides (and Database.Repair) run for one
// received property. When the local side is not updated and holds a newer document, that document is
// returned (the gossip path sends it back to the peer).
func VerifShardRepair(ctx context.Context, d Database, shardID uint32, id []byte, p *propertyv1.Property, deleteTime int64,
) (updated bool, newerID, newerSource []byte, newerDeleteTime int64, hasNewer bool, err error) {
	s, err := d.(*database).loadShard(ctx, p.Metadata.Group, common.ShardID(shardID))
	if err != nil {
		return false, nil, nil, 0, false, err
	}
	updated, newer, err := s.repair(ctx, id, p, deleteTime)
	if newer != nil {
		return updated, newer.id, newer.source, newer.deleteTime, true, err
	}
	return updated, nil, nil, 0, false, err
}
