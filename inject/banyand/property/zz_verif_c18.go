//go:build verif

package property

import (
	"github.com/apache/skywalking-banyandb/banyand/property/db"
	"github.com/apache/skywalking-banyandb/pkg/bus"
	"github.com/apache/skywalking-banyandb/pkg/logger"
)

// VerifDataNodeListeners returns the real data-node listeners of the property service (the ones
// service.PreRun subscribes to TopicPropertyUpdate/Delete/Query/Repair) bound to an already opened
// database. Constructor only; no logic of its own.
func VerifDataNodeListeners(d db.Database, nodeID string) (update, del, query, repair bus.MessageListener) {
	s := &service{db: d, nodeID: nodeID, l: logger.GetLogger("property")}
	return &updateListener{s: s, l: s.l, maxDiskUsagePercent: 95}, &deleteListener{s: s}, &queryListener{s: s}, &repairListener{s: s}
}
