//go:build verif

package stream

import (
	"fmt"
	"sync/atomic"

	"github.com/apache/skywalking-banyandb/banyand/internal/storage"
)

// Accessors for property C05 (read-only views of a table's current snapshot; call at quiescent points).

// VerifC05Part is one part of a snapshot.
type VerifC05Part struct {
	ID        uint64
	Count     uint64
	Ref       int32
	Mem       bool
	Removable bool
}

// VerifC05Table is the current snapshot of one table (segment x shard).
type VerifC05Table struct {
	Segment string
	Root    string
	Parts   []VerifC05Part
	Epoch   uint64
	Shard   int
	Creator int
	Ref     int32
	HasSnap bool
	Busy    bool // the table's lock was held: nothing was read
}

// VerifC05Tables lists the current snapshot of every open table of a group.
func VerifC05Tables(svc Service, group string) ([]VerifC05Table, error) {
	s, ok := svc.(*standalone)
	if !ok {
		return nil, fmt.Errorf("not a standalone stream service: %T", svc)
	}
	g, ok := s.schemaRepo.LoadGroup(group)
	if !ok {
		return nil, fmt.Errorf("group %s not loaded", group)
	}
	db := g.SupplyTSDB()
	if db == nil {
		return nil, nil
	}
	var out []VerifC05Table
	for _, t := range storage.VerifC05Tables(db.(storage.TSDB[*tsTable, option])) {
		v := VerifC05Table{Segment: t.Suffix, Shard: t.Shard, Root: t.Table.root}
		if !t.Table.TryRLock() {
			v.Busy = true
			out = append(out, v)
			continue
		}
		if snp := t.Table.snapshot; snp != nil {
			v.HasSnap, v.Epoch, v.Ref, v.Creator = true, snp.epoch, atomic.LoadInt32(&snp.ref), int(snp.creator)
			for _, pw := range snp.parts {
				v.Parts = append(v.Parts, VerifC05Part{ID: pw.ID(), Count: pw.p.partMetadata.TotalCount, Ref: atomic.LoadInt32(&pw.ref), Mem: pw.mp != nil, Removable: pw.removable.Load()})
			}
		}
		t.Table.RUnlock()
		out = append(out, v)
	}
	return out, nil
}

// VerifC05ResetMergeSemaphore re-creates the package-level merge semaphore (made at init, i.e. outside any
// synctest bubble, sized by the CPU count) inside the calling bubble with a fixed size: contention on a
// non-bubble channel is not a durable block and would freeze the fake clock.
func VerifC05ResetMergeSemaphore(n int) { mergeMaxConcurrencyCh = make(chan struct{}, n) }
