//go:build verif

package backup

import (
	"context"

	"github.com/apache/skywalking-banyandb/pkg/fs/remote/local"
)

// Accessors for property C19: the real backup upload and the real restore download against the real
// file:// remote store. They only call the existing unexported functions.

// VerifC19Backup is backupSnapshot(ctx, local.NewFS(storeDir), snapshotDir, catalog, timeDir, concurrency).
func VerifC19Backup(ctx context.Context, storeDir, snapshotDir, catalog, timeDir string, concurrency int) error {
	fs, err := local.NewFS(storeDir)
	if err != nil {
		return err
	}
	defer fs.Close()
	return backupSnapshot(ctx, fs, snapshotDir, catalog, timeDir, concurrency)
}

// VerifC19Restore is restoreByName(local.NewFS(storeDir), timeDir, rootPath, catalog).
func VerifC19Restore(storeDir, timeDir, rootPath, catalog string) error {
	fs, err := local.NewFS(storeDir)
	if err != nil {
		return err
	}
	defer fs.Close()
	return restoreByName(fs, timeDir, rootPath, catalog)
}
