//go:build verif

package trace

import (
	"github.com/apache/skywalking-banyandb/banyand/internal/sidx"
	"github.com/apache/skywalking-banyandb/banyand/internal/storage"
	"github.com/apache/skywalking-banyandb/pkg/pipeline/sdk"
)

// Accessors for property C13. Each one only calls an existing registry function of this package
// (the same functions reconcilePipeline calls after it has loaded a plugin .so).

// VerifRegisterSampler registers an in-process sampler for group through registerSampler (which also marks
// the MERGE event enabled, as reconcilePipeline does) and returns the deregistration closure.
func VerifRegisterSampler(group string, s sdk.Sampler) func() { return registerSampler(group, s) }

// VerifSetMergeGrace stores the per-group merge_grace (0 removes it).
func VerifSetMergeGrace(group string, graceNs int64) { setMergeGraceForGroup(group, graceNs) }

// VerifEnableFinalize marks group for the background finalize scanner (what reconcilePipeline does when
// PIPELINE_EVENT_FINALIZE is enabled), with the threshold knobs the registry comment reserves for tests.
func VerifEnableFinalize(group string, finalizeGraceNs int64, floorBytes uint64, cooldownNs int64, maxRounds int) {
	setFinalizeGraceForGroup(group, finalizeGraceNs)
	setFinalizeConfigForGroup(group, &finalizeConfig{floorBytes: floorBytes, cooldownNs: cooldownNs, maxRounds: maxRounds})
}

// VerifDisableFinalize removes the group's finalize registration.
func VerifDisableFinalize(group string) {
	setFinalizeGraceForGroup(group, 0)
	setFinalizeConfigForGroup(group, nil)
}

// VerifLoadTSDB returns the group's TSDB of a standalone trace service (schemaRepo.loadTSDB).
func VerifLoadTSDB(svc Service, group string) (storage.TSDB[*tsTable, option], error) {
	return svc.(*standalone).schemaRepo.loadTSDB(group)
}

// VerifAllSidx returns the ordered secondary indexes of one table (tsTable.getAllSidx).
func VerifAllSidx(tst *tsTable) map[string]sidx.SIDX { return tst.getAllSidx() }

// VerifDecodeTraceID decodes the opaque element a trace writes into its ordered index (decodeTraceID).
func VerifDecodeTraceID(data []byte) (string, error) { return decodeTraceID(data) }

// VerifResetGlobalChannels re-creates the two process-global semaphores of this package (merge concurrency,
// sampler execution slots). They are created at package initialisation, i.e. outside any testing/synctest
// bubble: a bubble goroutine blocked on such a channel is not "durably blocked", so the bubble's fake clock
// stops for as long as a semaphore is contended (a merge waiting for a slot held by a sampler that sleeps on
// the fake clock never gets it). Called inside the bubble before the engine starts; sizes <= 0 keep the
// engine's own sizing (cgroups.CPUs()).
func VerifResetGlobalChannels(mergeConcurrency, samplerSlots int) {
	if mergeConcurrency <= 0 {
		mergeConcurrency = cap(mergeMaxConcurrencyCh)
	}
	if samplerSlots <= 0 {
		samplerSlots = cap(samplerExecutionSlots)
	}
	mergeMaxConcurrencyCh = make(chan struct{}, mergeConcurrency)
	samplerExecutionSlots = make(chan struct{}, samplerSlots)
}

// VerifSetStageBudgetOverride sets the package's own test seam testStageBudgetOverride (bytes staged per sampler
// decision batch; 0 = derive from the memory limit as in production). Returns the previous value.
func VerifSetStageBudgetOverride(n uint64) uint64 {
	old := testStageBudgetOverride
	testStageBudgetOverride = n
	return old
}
