//go:build verif

package trace

import (
	"fmt"

	"github.com/apache/skywalking-banyandb/banyand/internal/storage"
)

// VerifC19Segments lists the segments of a group's TSDB (accessor for property C19; read-only).
func VerifC19Segments(svc Service, group string) ([]storage.VerifC19Seg, error) {
	s, ok := svc.(*standalone)
	if !ok {
		return nil, fmt.Errorf("not a standalone trace service: %T", svc)
	}
	g, ok := s.schemaRepo.LoadGroup(group)
	if !ok {
		return nil, fmt.Errorf("group %s not loaded", group)
	}
	db := g.SupplyTSDB()
	if db == nil {
		return nil, nil
	}
	return storage.VerifC19Segments(db.(storage.TSDB[*tsTable, option])), nil
}
