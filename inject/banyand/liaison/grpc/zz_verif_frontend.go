//go:build verif

package grpc

import (
	"context"

	commonv1 "github.com/apache/skywalking-banyandb/api/proto/banyandb/common/v1"
	databasev1 "github.com/apache/skywalking-banyandb/api/proto/banyandb/database/v1"
	measurev1 "github.com/apache/skywalking-banyandb/api/proto/banyandb/measure/v1"
	streamv1 "github.com/apache/skywalking-banyandb/api/proto/banyandb/stream/v1"
	tracev1 "github.com/apache/skywalking-banyandb/api/proto/banyandb/trace/v1"
	"github.com/apache/skywalking-banyandb/banyand/metadata"
	"github.com/apache/skywalking-banyandb/banyand/metadata/schema"
	"github.com/apache/skywalking-banyandb/banyand/observability"
	"github.com/apache/skywalking-banyandb/banyand/queue"
	"github.com/apache/skywalking-banyandb/pkg/logger"
	"github.com/apache/skywalking-banyandb/pkg/partition"
)

// VerifFrontend is the liaison gRPC front-end (measure/stream/trace write and query services) wired
// exactly as NewServer+PreRun wire them, without the listening sockets. Accessor only: the services
// and their methods are the real ones.
type VerifFrontend struct {
	m *measureService
	s *streamService
	t *traceService
}

// VerifNewFrontend mirrors the service construction in NewServer and the registration in PreRun.
func VerifNewFrontend(repo metadata.Repo, pipeline, broadcaster queue.Client, nr NodeRegistries) (*VerifFrontend, error) {
	gr := &groupRepo{
		resourceOpts: make(map[string]*commonv1.ResourceOpts),
		inflight:     make(map[string]*groupInflight),
	}
	er := &entityRepo{entitiesMap: make(map[identity]partition.Locator), measureMap: make(map[identity]*databasev1.Measure)}
	f := &VerifFrontend{
		s: &streamService{
			discoveryService: newDiscoveryService(schema.KindStream, repo, nr.StreamLiaisonNodeRegistry, gr),
			pipeline:         pipeline, broadcaster: broadcaster, writeTimeout: defaultWriteTimeout,
		},
		m: &measureService{
			discoveryService: newDiscoveryServiceWithEntityRepo(schema.KindMeasure, repo, nr.MeasureLiaisonNodeRegistry, gr, er),
			pipeline:         pipeline, broadcaster: broadcaster, writeTimeout: defaultWriteTimeout,
		},
		t: &traceService{
			discoveryService: newDiscoveryService(schema.KindTrace, repo, nr.TraceLiaisonNodeRegistry, gr),
			pipeline:         pipeline, broadcaster: broadcaster, writeTimeout: defaultWriteTimeout,
		},
	}
	log := logger.GetLogger("liaison-grpc")
	f.s.setLogger(log.Named("stream-t1"))
	f.m.setLogger(log)
	f.t.setLogger(log.Named("trace"))
	// loggers first: the in-memory registry delivers the initial sync synchronously inside RegisterHandler
	for _, c := range []*discoveryService{f.s.discoveryService, f.m.discoveryService, f.t.discoveryService} {
		c.SetLogger(log)
	}
	repo.RegisterHandler("liaison", schema.KindGroup, gr)
	for _, c := range []*discoveryService{f.s.discoveryService, f.m.discoveryService, f.t.discoveryService} {
		if err := c.initialize(); err != nil {
			return nil, err
		}
	}
	mt := newMetrics(observability.BypassRegistry.With(liaisonGrpcScope))
	f.s.metrics, f.m.metrics, f.t.metrics = mt, mt, mt
	return f, nil
}

// MeasureWrite is measureService.Write.
func (f *VerifFrontend) MeasureWrite(st measurev1.MeasureService_WriteServer) error { return f.m.Write(st) }

// MeasureQuery is measureService.Query.
func (f *VerifFrontend) MeasureQuery(ctx context.Context, r *measurev1.QueryRequest) (*measurev1.QueryResponse, error) {
	return f.m.Query(ctx, r)
}

// MeasureTopN is measureService.TopN.
func (f *VerifFrontend) MeasureTopN(ctx context.Context, r *measurev1.TopNRequest) (*measurev1.TopNResponse, error) {
	return f.m.TopN(ctx, r)
}

// StreamWrite is streamService.Write.
func (f *VerifFrontend) StreamWrite(st streamv1.StreamService_WriteServer) error { return f.s.Write(st) }

// StreamQuery is streamService.Query.
func (f *VerifFrontend) StreamQuery(ctx context.Context, r *streamv1.QueryRequest) (*streamv1.QueryResponse, error) {
	return f.s.Query(ctx, r)
}

// TraceWrite is traceService.Write.
func (f *VerifFrontend) TraceWrite(st tracev1.TraceService_WriteServer) error { return f.t.Write(st) }

// TraceQuery is traceService.Query.
func (f *VerifFrontend) TraceQuery(ctx context.Context, r *tracev1.QueryRequest) (*tracev1.QueryResponse, error) {
	return f.t.Query(ctx, r)
}
