//go:build verif

package grpc

import (
	"github.com/apache/skywalking-banyandb/api/common"
	measurev1 "github.com/apache/skywalking-banyandb/api/proto/banyandb/measure/v1"
	pbv1 "github.com/apache/skywalking-banyandb/pkg/pb/v1"
)

// VerifMeasureRoute is the routing step of measureService.Write for one request: buildSpecLocators (when the
// request carries a DataPointSpec) followed by navigate. Accessor only.
func (f *VerifFrontend) VerifMeasureRoute(req *measurev1.WriteRequest) (pbv1.EntityValues, common.ShardID, error) {
	el, sl := f.m.buildSpecLocators(req.GetMetadata(), req.GetDataPointSpec())
	return f.m.navigate(req.GetMetadata(), req, el, sl)
}
