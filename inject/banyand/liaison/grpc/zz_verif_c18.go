//go:build verif

package grpc

import (
	commonv1 "github.com/apache/skywalking-banyandb/api/proto/banyandb/common/v1"
	propertyv1 "github.com/apache/skywalking-banyandb/api/proto/banyandb/property/v1"
	"github.com/apache/skywalking-banyandb/banyand/metadata"
	"github.com/apache/skywalking-banyandb/banyand/metadata/schema"
	"github.com/apache/skywalking-banyandb/banyand/observability"
	"github.com/apache/skywalking-banyandb/banyand/queue"
	"github.com/apache/skywalking-banyandb/pkg/logger"
)

// VerifNewPropertyServer wires a propertyServer the way NewServer/PreRun/Serve do (group repo handler,
// logger, metrics, repair queue) without the gRPC listener. Constructor only; no logic of its own.
// Closing stop ends the read-repair queue goroutine.
func VerifNewPropertyServer(repo metadata.Repo, pipeline queue.Client, nr NodeRegistry, repairQueueCount int, stop chan struct{},
) propertyv1.PropertyServiceServer {
	gr := &groupRepo{
		resourceOpts: make(map[string]*commonv1.ResourceOpts),
		inflight:     make(map[string]*groupInflight),
	}
	ps := &propertyServer{
		schemaRegistry:   repo,
		pipeline:         pipeline,
		nodeRegistry:     nr,
		discoveryService: newDiscoveryService(schema.KindProperty, repo, nr, gr),
		repairQueueCount: repairQueueCount,
	}
	ps.SetLogger(logger.GetLogger("liaison-grpc"))
	repo.RegisterHandler("liaison", schema.KindGroup, gr)
	ps.metrics = newMetrics(observability.NewBypassRegistry().With(liaisonGrpcScope))
	ps.startRepairQueue(stop)
	return ps
}
