//go:build verif

package grpc

import (
	"sort"

	"github.com/apache/skywalking-banyandb/banyand/observability"
	"github.com/apache/skywalking-banyandb/pkg/bydbql"
)

// VerifPreparedCache exposes the liaison's unexported prepared-statement cache to property check C20.
// Accessor only: every method calls or reads the real preparedCache.
type VerifPreparedCache struct{ c *preparedCache }

// VerifNewPreparedCache is newPreparedCache; with a non-nil factory the cache gets the real metrics
// struct built by newMetrics from that factory (the harness passes a factory whose instruments are
// schedule gates), with nil it runs without metrics like the upstream unit tests do.
func VerifNewPreparedCache(size, maxBytes int, f observability.Factory) *VerifPreparedCache {
	var m *metrics
	if f != nil {
		m = newMetrics(f)
	}
	return &VerifPreparedCache{c: newPreparedCache(size, maxBytes, m)}
}

// GetOrPrepare is preparedCache.getOrPrepare.
func (v *VerifPreparedCache) GetOrPrepare(query string) (*bydbql.PreparedStatement, string, error) {
	return v.c.getOrPrepare(query)
}

// Stats reads entry count, accounted bytes, hits and misses.
func (v *VerifPreparedCache) Stats() (entries int, curBytes int64, hits, misses uint64) {
	if v.c.lru != nil {
		entries = v.c.lru.Len()
	}
	return entries, v.c.curBytes.Load(), v.c.hits.Load(), v.c.misses.Load()
}

// Peek returns the cached statement for query without touching recency.
func (v *VerifPreparedCache) Peek(query string) *bydbql.PreparedStatement {
	if v.c.lru == nil {
		return nil
	}
	if x, ok := v.c.lru.Peek(query); ok {
		return x.(*cacheValue).ps
	}
	return nil
}

// Keys returns the cached query texts, sorted.
func (v *VerifPreparedCache) Keys() []string {
	if v.c.lru == nil {
		return nil
	}
	var out []string
	for _, k := range v.c.lru.Keys() {
		out = append(out, k.(string))
	}
	sort.Strings(out)
	return out
}
