//go:build verif

package sub

import (
	clusterv1 "github.com/apache/skywalking-banyandb/api/proto/banyandb/cluster/v1"
	"github.com/apache/skywalking-banyandb/banyand/queue"
)

// VerifSyncPart runs the real receive handler on a caller-supplied stream (accessor: constructs the unexported type, no logic).
func VerifSyncPart(s queue.Server, st clusterv1.ChunkedSyncService_SyncPartServer) error {
	return s.(*server).SyncPart(st)
}

// VerifSetChunkOrdering sets the receiver's chunk-ordering knobs (the same fields the flags set).
func VerifSetChunkOrdering(s queue.Server, enable bool, maxBuffer, maxGap uint32) {
	sv := s.(*server)
	sv.enableChunkReordering = enable
	sv.maxChunkBufferSize = maxBuffer
	sv.maxChunkGapSize = maxGap
}

// VerifSend runs the real message receive handler (Service.Send) on a caller-supplied stream.
func VerifSend(s queue.Server, st clusterv1.Service_SendServer) error {
	return s.(*server).Send(st)
}
