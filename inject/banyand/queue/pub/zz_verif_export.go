//go:build verif

package pub

import (
	"time"

	"github.com/apache/skywalking-banyandb/banyand/queue"
	"github.com/apache/skywalking-banyandb/pkg/logger"
)

// VerifNewChunkedSyncClient builds the real chunk sender on an idle connection (accessor: constructs the unexported type, no logic).
func VerifNewChunkedSyncClient(node string, chunkSize uint32) (queue.ChunkedSyncClient, error) {
	return &chunkedSyncClient{
		node: node, log: logger.GetLogger("verif-pub"), chunkSize: chunkSize,
		config: &ChunkedSyncClientConfig{ChunkSize: chunkSize, EnableRetryOnOOO: true, MaxOOORetries: 3, OOORetryDelay: 100 * time.Millisecond},
	}, nil
}
