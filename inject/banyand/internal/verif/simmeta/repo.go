// Package simmeta is an in-memory metadata.Repo (stub of the schema registry) for the simulator.
package simmeta

import (
	"context"
	"errors"
	"sort"
	"sync"

	commonv1 "github.com/apache/skywalking-banyandb/api/proto/banyandb/common/v1"
	databasev1 "github.com/apache/skywalking-banyandb/api/proto/banyandb/database/v1"
	"github.com/apache/skywalking-banyandb/banyand/metadata/schema"
)

var errNotFound = schema.ErrGRPCResourceNotFound

// Repo is an in-memory metadata.Repo.
type Repo struct {
	mu       sync.Mutex
	rev      int64
	groups   map[string]*commonv1.Group
	measures map[string]*databasev1.Measure
	streams  map[string]*databasev1.Stream
	traces   map[string]*databasev1.Trace
	rules    map[string]*databasev1.IndexRule
	bindings map[string]*databasev1.IndexRuleBinding
	handlers map[schema.Kind][]schema.EventHandler
}

// New returns an empty registry.
func New() *Repo {
	return &Repo{
		groups: map[string]*commonv1.Group{}, measures: map[string]*databasev1.Measure{},
		streams: map[string]*databasev1.Stream{}, traces: map[string]*databasev1.Trace{},
		rules: map[string]*databasev1.IndexRule{}, bindings: map[string]*databasev1.IndexRuleBinding{},
		handlers: map[schema.Kind][]schema.EventHandler{},
	}
}

func key(m *commonv1.Metadata) string { return m.GetGroup() + "/" + m.GetName() }

func (f *Repo) nextRev() int64 { f.rev++; return f.rev }

func (f *Repo) notify(kind schema.Kind, md *commonv1.Metadata, spec schema.Spec) {
	for _, h := range f.handlers[kind] {
		h.OnAddOrUpdate(schema.Metadata{TypeMeta: schema.TypeMeta{Kind: kind, Name: md.GetName(), Group: md.GetGroup(), ModRevision: md.GetModRevision()}, Spec: spec})
	}
}

// --- Repo facade.
func (f *Repo) StreamRegistry() schema.Stream                     { return f }
func (f *Repo) IndexRuleRegistry() schema.IndexRule               { return f }
func (f *Repo) IndexRuleBindingRegistry() schema.IndexRuleBinding { return f }
func (f *Repo) MeasureRegistry() schema.Measure                   { return f }
func (f *Repo) TraceRegistry() schema.Trace                       { return f }
func (f *Repo) GroupRegistry() schema.Group                       { return f }
func (f *Repo) TopNAggregationRegistry() schema.TopNAggregation   { return f }
func (f *Repo) NodeRegistry() schema.Node                         { return f }
func (f *Repo) PropertyRegistry() schema.Property                 { return f }
func (f *Repo) RegisterHandler(_ string, kind schema.Kind, h schema.EventHandler) {
	var kinds []schema.Kind
	for i := 0; i < schema.KindSize; i++ {
		k := schema.Kind(1 << i)
		if kind&k > 0 {
			kinds = append(kinds, k)
		}
	}
	h.OnInit(kinds)
	f.mu.Lock()
	for _, k := range kinds {
		f.handlers[k] = append(f.handlers[k], h)
	}
	// initial sync: a freshly registered watcher is told the current state, in a fixed order
	type ev struct {
		md   *commonv1.Metadata
		spec schema.Spec
		kind schema.Kind
	}
	var evs []ev
	for _, k := range kinds {
		switch k {
		case schema.KindGroup:
			for _, n := range sortedKeys(f.groups) {
				evs = append(evs, ev{kind: k, md: f.groups[n].Metadata, spec: f.groups[n]})
			}
		case schema.KindMeasure:
			for _, n := range sortedKeys(f.measures) {
				evs = append(evs, ev{kind: k, md: f.measures[n].Metadata, spec: f.measures[n]})
			}
		case schema.KindStream:
			for _, n := range sortedKeys(f.streams) {
				evs = append(evs, ev{kind: k, md: f.streams[n].Metadata, spec: f.streams[n]})
			}
		case schema.KindTrace:
			for _, n := range sortedKeys(f.traces) {
				evs = append(evs, ev{kind: k, md: f.traces[n].Metadata, spec: f.traces[n]})
			}
		case schema.KindIndexRule:
			for _, n := range sortedKeys(f.rules) {
				evs = append(evs, ev{kind: k, md: f.rules[n].Metadata, spec: f.rules[n]})
			}
		case schema.KindIndexRuleBinding:
			for _, n := range sortedKeys(f.bindings) {
				evs = append(evs, ev{kind: k, md: f.bindings[n].Metadata, spec: f.bindings[n]})
			}
		}
	}
	f.mu.Unlock()
	for _, x := range evs {
		h.OnAddOrUpdate(schema.Metadata{TypeMeta: schema.TypeMeta{Kind: x.kind, Name: x.md.GetName(), Group: x.md.GetGroup(), ModRevision: x.md.GetModRevision()}, Spec: x.spec})
	}
}
func (f *Repo) CollectDataInfo(context.Context, string) ([]*databasev1.DataInfo, []string, error) {
	return nil, nil, nil
}
func (f *Repo) CollectLiaisonInfo(context.Context, string) ([]*databasev1.LiaisonInfo, error) {
	return nil, nil
}
func (f *Repo) CollectGroupSchemaSnapshot(context.Context, string) ([]*databasev1.ObjectSnapshot, []*databasev1.IndexRule, bool, error) {
	return nil, nil, false, nil
}
func (f *Repo) AllCachedGroups() []string                                   { return nil }
func (f *Repo) DropGroup(context.Context, commonv1.Catalog, string) error { return nil }

// IndexFilter.
func (f *Repo) IndexRules(_ context.Context, subject *commonv1.Metadata) ([]*databasev1.IndexRule, error) {
	f.mu.Lock()
	defer f.mu.Unlock()
	var out []*databasev1.IndexRule
	for _, bk := range sortedKeys(f.bindings) {
		b := f.bindings[bk]
		if b.GetMetadata().GetGroup() != subject.GetGroup() || b.GetSubject().GetName() != subject.GetName() {
			continue
		}
		for _, rn := range b.GetRules() {
			if r, ok := f.rules[subject.GetGroup()+"/"+rn]; ok {
				out = append(out, r)
			}
		}
	}
	return out, nil
}
func (f *Repo) Subjects(context.Context, *databasev1.IndexRule, commonv1.Catalog) ([]schema.Spec, error) {
	return nil, nil
}

// Group.
func (f *Repo) GetGroup(_ context.Context, group string) (*commonv1.Group, error) {
	f.mu.Lock()
	defer f.mu.Unlock()
	if g, ok := f.groups[group]; ok {
		return g, nil
	}
	return nil, errNotFound
}
func (f *Repo) ListGroup(context.Context) ([]*commonv1.Group, error) {
	f.mu.Lock()
	defer f.mu.Unlock()
	var out []*commonv1.Group
	for _, gk := range sortedKeys(f.groups) {
		g := f.groups[gk]
		out = append(out, g)
	}
	return out, nil
}
func (f *Repo) DeleteGroup(context.Context, string) (bool, int64, error) { return false, 0, nil }
func (f *Repo) CreateGroup(_ context.Context, g *commonv1.Group) (int64, error) {
	f.mu.Lock()
	g.Metadata.ModRevision = f.nextRev()
	f.groups[g.Metadata.Name] = g
	f.mu.Unlock()
	f.notify(schema.KindGroup, g.Metadata, g)
	return g.Metadata.ModRevision, nil
}
func (f *Repo) UpdateGroup(ctx context.Context, g *commonv1.Group) (int64, error) {
	return f.CreateGroup(ctx, g)
}

// Measure.
func (f *Repo) GetMeasure(_ context.Context, md *commonv1.Metadata) (*databasev1.Measure, error) {
	f.mu.Lock()
	defer f.mu.Unlock()
	if m, ok := f.measures[key(md)]; ok {
		return m, nil
	}
	return nil, errNotFound
}
func (f *Repo) ListMeasure(_ context.Context, opt schema.ListOpt) ([]*databasev1.Measure, error) {
	f.mu.Lock()
	defer f.mu.Unlock()
	var out []*databasev1.Measure
	for _, mk := range sortedKeys(f.measures) {
		if m := f.measures[mk]; m.Metadata.Group == opt.Group {
			out = append(out, m)
		}
	}
	return out, nil
}
func (f *Repo) CreateMeasure(_ context.Context, m *databasev1.Measure) (int64, error) {
	f.mu.Lock()
	m.Metadata.ModRevision = f.nextRev()
	f.measures[key(m.Metadata)] = m
	f.mu.Unlock()
	f.notify(schema.KindMeasure, m.Metadata, m)
	return m.Metadata.ModRevision, nil
}
func (f *Repo) UpdateMeasure(ctx context.Context, m *databasev1.Measure) (int64, error) {
	return f.CreateMeasure(ctx, m)
}
func (f *Repo) DeleteMeasure(context.Context, *commonv1.Metadata) (bool, int64, error) {
	return false, 0, nil
}
func (f *Repo) TopNAggregations(context.Context, *commonv1.Metadata) ([]*databasev1.TopNAggregation, error) {
	return nil, nil
}

// Stream.
func (f *Repo) GetStream(_ context.Context, md *commonv1.Metadata) (*databasev1.Stream, error) {
	f.mu.Lock()
	defer f.mu.Unlock()
	if m, ok := f.streams[key(md)]; ok {
		return m, nil
	}
	return nil, errNotFound
}
func (f *Repo) ListStream(_ context.Context, opt schema.ListOpt) ([]*databasev1.Stream, error) {
	f.mu.Lock()
	defer f.mu.Unlock()
	var out []*databasev1.Stream
	for _, k := range sortedKeys(f.streams) {
		if m := f.streams[k]; m.Metadata.Group == opt.Group {
			out = append(out, m)
		}
	}
	return out, nil
}
func (f *Repo) CreateStream(_ context.Context, m *databasev1.Stream) (int64, error) {
	f.mu.Lock()
	m.Metadata.ModRevision = f.nextRev()
	f.streams[key(m.Metadata)] = m
	f.mu.Unlock()
	f.notify(schema.KindStream, m.Metadata, m)
	return m.Metadata.ModRevision, nil
}
func (f *Repo) UpdateStream(ctx context.Context, m *databasev1.Stream) (int64, error) {
	return f.CreateStream(ctx, m)
}
func (f *Repo) DeleteStream(context.Context, *commonv1.Metadata) (bool, int64, error) {
	return false, 0, nil
}

// Trace.
func (f *Repo) GetTrace(_ context.Context, md *commonv1.Metadata) (*databasev1.Trace, error) {
	f.mu.Lock()
	defer f.mu.Unlock()
	if m, ok := f.traces[key(md)]; ok {
		return m, nil
	}
	return nil, errNotFound
}
func (f *Repo) ListTrace(_ context.Context, opt schema.ListOpt) ([]*databasev1.Trace, error) {
	f.mu.Lock()
	defer f.mu.Unlock()
	var out []*databasev1.Trace
	for _, k := range sortedKeys(f.traces) {
		if m := f.traces[k]; m.Metadata.Group == opt.Group {
			out = append(out, m)
		}
	}
	return out, nil
}
func (f *Repo) CreateTrace(_ context.Context, m *databasev1.Trace) (int64, error) {
	f.mu.Lock()
	m.Metadata.ModRevision = f.nextRev()
	f.traces[key(m.Metadata)] = m
	f.mu.Unlock()
	f.notify(schema.KindTrace, m.Metadata, m)
	return m.Metadata.ModRevision, nil
}
func (f *Repo) UpdateTrace(ctx context.Context, m *databasev1.Trace) (int64, error) {
	return f.CreateTrace(ctx, m)
}
func (f *Repo) DeleteTrace(context.Context, *commonv1.Metadata) (bool, int64, error) {
	return false, 0, nil
}

func sortedKeys[V any](m map[string]V) []string {
	out := make([]string, 0, len(m))
	for k := range m {
		out = append(out, k)
	}
	sort.Strings(out)
	return out
}


// IndexRule.
func (f *Repo) GetIndexRule(_ context.Context, md *commonv1.Metadata) (*databasev1.IndexRule, error) {
	f.mu.Lock()
	defer f.mu.Unlock()
	if r, ok := f.rules[key(md)]; ok {
		return r, nil
	}
	return nil, errNotFound
}
func (f *Repo) ListIndexRule(_ context.Context, opt schema.ListOpt) ([]*databasev1.IndexRule, error) {
	f.mu.Lock()
	defer f.mu.Unlock()
	var out []*databasev1.IndexRule
	for _, rk := range sortedKeys(f.rules) {
		r := f.rules[rk]
		if r.Metadata.Group == opt.Group {
			out = append(out, r)
		}
	}
	return out, nil
}
func (f *Repo) CreateIndexRule(_ context.Context, r *databasev1.IndexRule) (int64, error) {
	f.mu.Lock()
	r.Metadata.ModRevision = f.nextRev()
	f.rules[key(r.Metadata)] = r
	f.mu.Unlock()
	f.notify(schema.KindIndexRule, r.Metadata, r)
	return r.Metadata.ModRevision, nil
}
func (f *Repo) UpdateIndexRule(ctx context.Context, r *databasev1.IndexRule) (int64, error) {
	return f.CreateIndexRule(ctx, r)
}
func (f *Repo) DeleteIndexRule(context.Context, *commonv1.Metadata) (bool, int64, error) {
	return false, 0, nil
}

// IndexRuleBinding.
func (f *Repo) GetIndexRuleBinding(_ context.Context, md *commonv1.Metadata) (*databasev1.IndexRuleBinding, error) {
	f.mu.Lock()
	defer f.mu.Unlock()
	if r, ok := f.bindings[key(md)]; ok {
		return r, nil
	}
	return nil, errNotFound
}
func (f *Repo) ListIndexRuleBinding(_ context.Context, opt schema.ListOpt) ([]*databasev1.IndexRuleBinding, error) {
	f.mu.Lock()
	defer f.mu.Unlock()
	var out []*databasev1.IndexRuleBinding
	for _, rk := range sortedKeys(f.bindings) {
		r := f.bindings[rk]
		if r.Metadata.Group == opt.Group {
			out = append(out, r)
		}
	}
	return out, nil
}
func (f *Repo) CreateIndexRuleBinding(_ context.Context, r *databasev1.IndexRuleBinding) (int64, error) {
	f.mu.Lock()
	r.Metadata.ModRevision = f.nextRev()
	f.bindings[key(r.Metadata)] = r
	f.mu.Unlock()
	f.notify(schema.KindIndexRuleBinding, r.Metadata, r)
	return r.Metadata.ModRevision, nil
}
func (f *Repo) UpdateIndexRuleBinding(ctx context.Context, r *databasev1.IndexRuleBinding) (int64, error) {
	return f.CreateIndexRuleBinding(ctx, r)
}
func (f *Repo) DeleteIndexRuleBinding(context.Context, *commonv1.Metadata) (bool, int64, error) {
	return false, 0, nil
}

// TopN.
func (f *Repo) GetTopNAggregation(context.Context, *commonv1.Metadata) (*databasev1.TopNAggregation, error) {
	return nil, errNotFound
}
func (f *Repo) ListTopNAggregation(context.Context, schema.ListOpt) ([]*databasev1.TopNAggregation, error) {
	return nil, nil
}
func (f *Repo) CreateTopNAggregation(context.Context, *databasev1.TopNAggregation) (int64, error) {
	return 0, nil
}
func (f *Repo) UpdateTopNAggregation(context.Context, *databasev1.TopNAggregation) (int64, error) {
	return 0, nil
}
func (f *Repo) DeleteTopNAggregation(context.Context, *commonv1.Metadata) (bool, int64, error) {
	return false, 0, nil
}

// Node.
func (f *Repo) ListNode(context.Context, databasev1.Role) ([]*databasev1.Node, error) {
	return nil, nil
}
func (f *Repo) RegisterNode(context.Context, *databasev1.Node, bool) error { return nil }
func (f *Repo) GetNode(context.Context, string) (*databasev1.Node, error) {
	return nil, errors.New("no node")
}
func (f *Repo) UpdateNode(context.Context, *databasev1.Node) error { return nil }

// Property.
func (f *Repo) GetProperty(context.Context, *commonv1.Metadata) (*databasev1.Property, error) {
	return nil, errNotFound
}
func (f *Repo) ListProperty(context.Context, schema.ListOpt) ([]*databasev1.Property, error) {
	return nil, nil
}
func (f *Repo) CreateProperty(context.Context, *databasev1.Property) error { return nil }
func (f *Repo) UpdateProperty(context.Context, *databasev1.Property) error { return nil }
func (f *Repo) DeleteProperty(context.Context, *commonv1.Metadata) (bool, int64, error) {
	return false, 0, nil
}

// Redeliver sends the current state of a stored group to the handlers again (a duplicated watch event).
func (f *Repo) Redeliver(kind schema.Kind, name string) {
	if kind != schema.KindGroup {
		return
	}
	f.mu.Lock()
	g, ok := f.groups[name]
	f.mu.Unlock()
	if ok {
		f.notify(schema.KindGroup, g.Metadata, g)
	}
}

// RemoveGroup deletes a group and notifies the handlers (OnDelete), whether or not it was present
// (a duplicated or late delete notification).
func (f *Repo) RemoveGroup(name string, spec *commonv1.Group) {
	f.mu.Lock()
	if g, ok := f.groups[name]; ok {
		spec = g
	}
	delete(f.groups, name)
	hs := append([]schema.EventHandler(nil), f.handlers[schema.KindGroup]...)
	f.mu.Unlock()
	for _, h := range hs {
		h.OnDelete(schema.Metadata{TypeMeta: schema.TypeMeta{Kind: schema.KindGroup, Name: name}, Spec: spec})
	}
}
