// Package simdisk turns a simos journal into crash states: the directory tree that a kill -9 (model K)
// or a power loss (model P) at journal operation k would leave behind.
//
// Model K: the OS survives, every completed call is in the state; operation k itself may be cut (a write
// keeps only a prefix of its bytes).
// Model P (ordered metadata, as ext4/xfs in their default modes and as the code's own comments assume):
// namespace operations (create/truncate, rename, remove, rmall, mkdir, link) are durable up to the last
// fsync/fdatasync/dir-fsync before the crash, and of the later ones a PREFIX of their own order
// survives; file data is durable up to the file's own last fsync, and of the bytes appended after that a
// prefix survives (possibly none: the zero-length / short file of delayed allocation), optionally with the
// lost tail zero-filled up to the length the file had reached.
package simdisk

import (
	"fmt"
	"os"
	"path/filepath"
	"sort"
	"strings"

	"github.com/apache/skywalking-banyandb/pkg/verif/simos"
)

// Spec selects one crash state.
type Spec struct {
	K        int  // crash after ops [0,K) completed; op K (if any) is in flight
	Partial  int  // bytes of op K's data that made it (only if op K is a write); -1 = op K not started
	Power    bool // model P instead of K
	NsKeep   int  // (P) how many namespace ops after the last sync survive (clamped)
	TailNum  int  // (P) un-synced tail of every file keeps TailNum/TailDen of its bytes
	TailDen  int
	ZeroFill bool // (P) lost tails are zero-filled to the reached length instead of cut
}

func (s Spec) String() string {
	if !s.Power {
		return fmt.Sprintf("kill-9@%d(partial=%d)", s.K, s.Partial)
	}
	return fmt.Sprintf("power-loss@%d(partial=%d,ns+%d,tail=%d/%d,zero=%v)", s.K, s.Partial, s.NsKeep, s.TailNum, s.TailDen, s.ZeroFill)
}

type vfile struct {
	data   []byte
	synced int
}

type vfs struct {
	files map[string]*vfile
	dirs  map[string]bool
}

func isNs(k simos.Kind) bool {
	switch k {
	case simos.OpCreate, simos.OpRename, simos.OpRemove, simos.OpRmAll, simos.OpMkdirAll, simos.OpLink:
		return true
	}
	return false
}

func (v *vfs) mkdirAll(p string) {
	for p != "" && p != "." && p != "/" {
		v.dirs[p] = true
		p = filepath.Dir(p)
	}
}

func under(p, dir string) bool { return p == dir || strings.HasPrefix(p, dir+"/") }

func (v *vfs) apply(op *simos.Op, dataLen int) {
	switch op.Kind {
	case simos.OpCreate:
		if v.dirs[filepath.Dir(op.Path)] || filepath.Dir(op.Path) == "." {
			v.files[op.Path] = &vfile{}
		}
	case simos.OpWrite:
		if f := v.files[op.Path]; f != nil {
			f.data = append(f.data, op.Data[:dataLen]...)
		}
	case simos.OpFsync:
		if f := v.files[op.Path]; f != nil {
			f.synced = len(f.data)
		}
	case simos.OpRename:
		if f, ok := v.files[op.Path]; ok {
			delete(v.files, op.Path)
			v.files[op.Path2] = f
			return
		}
		if v.dirs[op.Path] {
			for _, p := range keys(v.files) {
				if under(p, op.Path) {
					v.files[op.Path2+p[len(op.Path):]] = v.files[p]
					delete(v.files, p)
				}
			}
			for _, d := range keysB(v.dirs) {
				if under(d, op.Path) {
					v.dirs[op.Path2+d[len(op.Path):]] = true
					delete(v.dirs, d)
				}
			}
		}
	case simos.OpRemove:
		delete(v.files, op.Path)
		delete(v.dirs, op.Path)
	case simos.OpRmAll:
		for _, p := range keys(v.files) {
			if under(p, op.Path) {
				delete(v.files, p)
			}
		}
		for _, d := range keysB(v.dirs) {
			if under(d, op.Path) {
				delete(v.dirs, d)
			}
		}
	case simos.OpMkdirAll:
		v.mkdirAll(op.Path)
	case simos.OpLink:
		if f, ok := v.files[op.Path2]; ok {
			v.files[op.Path] = f
		}
	}
}

func keys(m map[string]*vfile) []string {
	out := make([]string, 0, len(m))
	for k := range m {
		out = append(out, k)
	}
	sort.Strings(out)
	return out
}

func keysB(m map[string]bool) []string {
	out := make([]string, 0, len(m))
	for k := range m {
		out = append(out, k)
	}
	sort.Strings(out)
	return out
}

// Materialize writes the crash state selected by s into dst (which must not exist yet) and returns a
// short description of what was lost. extra maps relative paths of files that never went through the
// journal (the series index writes its files itself) to their content; they are carried over when their
// directory exists in the crash state.
func Materialize(ops []simos.Op, s Spec, dst string, extra map[string][]byte) (string, error) {
	v := &vfs{files: map[string]*vfile{}, dirs: map[string]bool{}}
	k := min(s.K, len(ops))
	lastSync := -1
	if s.Power {
		for i := 0; i < k; i++ {
			if ops[i].Kind == simos.OpFsync || ops[i].Kind == simos.OpFsyncDir {
				lastSync = i
			}
		}
	}
	nsAfter, droppedNs := 0, 0
	for i := 0; i <= k && i < len(ops); i++ {
		op := &ops[i]
		inflight := i == k
		dataLen := len(op.Data)
		if inflight {
			if s.Partial < 0 {
				break
			}
			if op.Kind != simos.OpWrite {
				break // an in-flight non-write either happened entirely (i < K) or not at all
			}
			dataLen = min(s.Partial, len(op.Data))
		}
		if s.Power && isNs(op.Kind) && i > lastSync {
			nsAfter++
			if nsAfter > s.NsKeep {
				droppedNs++
				continue
			}
		}
		if s.Power && op.Kind == simos.OpFsync && i > lastSync {
			continue // cannot happen (lastSync is the last one), kept for clarity
		}
		v.apply(op, dataLen)
	}
	lostBytes := 0
	if s.Power {
		for _, p := range keys(v.files) {
			f := v.files[p]
			tail := len(f.data) - f.synced
			if tail <= 0 {
				continue
			}
			keep := 0
			if s.TailDen > 0 {
				keep = tail * s.TailNum / s.TailDen
			}
			lostBytes += tail - keep
			if s.ZeroFill {
				for i := f.synced + keep; i < len(f.data); i++ {
					f.data[i] = 0
				}
			} else {
				f.data = f.data[:f.synced+keep]
			}
		}
	}
	if err := os.MkdirAll(dst, 0o755); err != nil {
		return "", err
	}
	for _, d := range keysB(v.dirs) {
		if err := os.MkdirAll(filepath.Join(dst, d), 0o755); err != nil {
			return "", err
		}
	}
	for _, p := range keys(v.files) {
		full := filepath.Join(dst, p)
		if err := os.MkdirAll(filepath.Dir(full), 0o755); err != nil {
			return "", err
		}
		if err := os.WriteFile(full, v.files[p].data, 0o600); err != nil {
			return "", err
		}
	}
	carried := 0
	for _, p := range sortedKeys(extra) {
		if _, journaled := v.files[p]; journaled {
			continue
		}
		if !v.dirs[filepath.Dir(p)] && !parentIsExtraOfLiveDir(v, p) {
			continue
		}
		full := filepath.Join(dst, p)
		if err := os.MkdirAll(filepath.Dir(full), 0o755); err != nil {
			return "", err
		}
		if err := os.WriteFile(full, extra[p], 0o600); err != nil {
			return "", err
		}
		carried++
	}
	return fmt.Sprintf("files=%d dirs=%d dropped-namespace-ops=%d lost-unsynced-bytes=%d carried-unjournaled=%d", len(v.files), len(v.dirs), droppedNs, lostBytes, carried), nil
}

// parentIsExtraOfLiveDir: an unjournaled file may live in an unjournaled sub-directory (e.g. seg/sidx/...)
// of a directory that exists in the crash state.
func parentIsExtraOfLiveDir(v *vfs, p string) bool {
	d := filepath.Dir(p)
	for d != "." && d != "/" && d != "" {
		if v.dirs[d] {
			return true
		}
		d = filepath.Dir(d)
	}
	return false
}

func sortedKeys(m map[string][]byte) []string {
	out := make([]string, 0, len(m))
	for k := range m {
		out = append(out, k)
	}
	sort.Strings(out)
	return out
}

// Unjournaled returns the content of every regular file below root whose path never appears in ops.
func Unjournaled(root string, ops []simos.Op) map[string][]byte {
	seen := map[string]bool{}
	for i := range ops {
		seen[ops[i].Path] = true
		if ops[i].Path2 != "" {
			seen[ops[i].Path2] = true
		}
	}
	out := map[string][]byte{}
	_ = filepath.WalkDir(root, func(p string, d os.DirEntry, err error) error {
		if err != nil || d.IsDir() {
			return nil
		}
		rel, _ := filepath.Rel(root, p)
		if seen[rel] {
			return nil
		}
		if b, rerr := os.ReadFile(p); rerr == nil {
			out[rel] = b
		}
		return nil
	})
	return out
}
