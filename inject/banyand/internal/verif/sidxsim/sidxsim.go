// Package sidxsim drives the ordered secondary index (banyand/internal/sidx) through its PUBLIC step API:
// the simulator itself decides which memory parts are flushed and which ARBITRARY subset of flushed parts
// is merged, in any order, and after every step both query interfaces must return every entry ever
// written exactly once, in key order. Shared by C03 (maintenance is invisible, a merged part equals the
// union of its inputs) and C09 (ordered index: every matching entry in range once, in key order, through
// the streaming and the synchronous interface).
package sidxsim

import (
	"github.com/apache/skywalking-banyandb/banyand/internal/verif/simknobs"
	"context"
	"fmt"
	"path/filepath"
	"sort"
	"testing"
	"testing/synctest"

	"github.com/apache/skywalking-banyandb/api/common"
	modelv1 "github.com/apache/skywalking-banyandb/api/proto/banyandb/model/v1"
	"github.com/apache/skywalking-banyandb/banyand/internal/sidx"
	"github.com/apache/skywalking-banyandb/banyand/observability"
	"github.com/apache/skywalking-banyandb/banyand/protector"
	"github.com/apache/skywalking-banyandb/pkg/fs"
	"github.com/apache/skywalking-banyandb/pkg/index"
	"github.com/apache/skywalking-banyandb/pkg/verif/simcore"
)

type entry struct {
	data string
	sid  common.SeriesID
	key  int64
}

func (e entry) String() string { return fmt.Sprintf("(s%d,k%d,%s)", e.sid, e.key, e.data) }

// Run is the scenario body; oracle names the oracle in violation classes.
func Run(oracle string, checkOrder bool) func(e *simcore.Env, tp *simcore.Tape) {
	return func(e *simcore.Env, tp *simcore.Tape) {
		synctest.Test(e.T, func(*testing.T) {
			knobDesc, knobRestore := simknobs.Draw(tp, "sidx")
			defer knobRestore()
			simknobs.Record(e, knobDesc)
			run(e, tp, oracle, checkOrder)
		})
	}
}

func run(e *simcore.Env, tp *simcore.Tape, oracle string, checkOrder bool) {
	opts := sidx.NewDefaultOptions()
	opts.Memory = protector.NewMemory(observability.NewBypassRegistry())
	opts.Path = filepath.Join(e.Dir, "sidx")
	idx, err := sidx.NewSIDX(fs.NewLocalFileSystem(), opts)
	if err != nil {
		e.Fail("setup", "sidx-open-failed", "NewSIDX: %v", err)
		return
	}
	defer idx.Close()
	ctx := context.Background()
	var model []entry
	mem := map[uint64]bool{}     // memory parts
	flushed := map[uint64]bool{} // file parts
	nextPart := uint64(1)
	nextData := 0
	keyRange := []int{4, 40, 100000}[tp.Choose(3)]
	nSeries := tp.Range(1, 3)
	var sample []string
	ids := func(m map[uint64]bool) []uint64 {
		out := make([]uint64, 0, len(m))
		for k := range m {
			out = append(out, k)
		}
		sort.Slice(out, func(i, j int) bool { return out[i] < out[j] })
		return out
	}
	pickSubset := func(all []uint64, atLeast int) map[uint64]struct{} {
		out := map[uint64]struct{}{}
		for _, id := range all {
			if tp.Bool(1, 2) {
				out[id] = struct{}{}
			}
		}
		for _, id := range all {
			if len(out) >= atLeast {
				break
			}
			out[id] = struct{}{}
		}
		return out
	}
	// shared payloads: the trace engine stores one entry per SPAN with the trace id as payload, so several entries of a
	// series carry the same payload and the index returns a payload once per block. In this mode "every matching entry"
	// becomes "every payload that has a matching entry is returned at least once" (what a trace query needs).
	dupPayloads := tp.Side().Bool(1, 3)
	if dupPayloads {
		e.Probe("reach.entries_share_payloads")
		e.Event("entries share payloads (one entry per span, payload = trace id)")
	}
	nOps := tp.Range(3, 18)
	for op := 0; op < nOps && !e.Failed(); op++ {
		e.Step()
		switch tp.Weighted(5, 3, 3) {
		case 0: // a batch becomes a memory part
			n := []int{1, tp.Range(2, 10), tp.Range(11, 60)}[tp.Weighted(2, 4, 2)]
			var reqs []sidx.WriteRequest
			for i := 0; i < n; i++ {
				nextData++
				en := entry{sid: common.SeriesID(tp.Range(1, nSeries)), key: int64(tp.Choose(keyRange)) - int64(keyRange/4), data: fmt.Sprintf("d%06d", nextData)}
				if dupPayloads {
					en.data = fmt.Sprintf("trace-%02d", tp.Side().Choose(5))
				}
				model = append(model, en)
				reqs = append(reqs, sidx.WriteRequest{SeriesID: en.sid, Key: en.key, Data: []byte(en.data)})
			}
			mp, cerr := idx.ConvertToMemPart(reqs, 1, nil, nil)
			if cerr != nil {
				e.Fail(oracle, "sidx:write-rejected", "ConvertToMemPart of %d valid entries failed: %v", n, cerr)
				return
			}
			id := nextPart
			nextPart++
			idx.IntroduceMemPart(id, mp)
			synctest.Wait()
			mem[id] = true
			e.Event("write %d entries -> memory part %d", n, id)
			sample = append(sample, fmt.Sprintf("write %d", n))
		case 1: // flush a tape-chosen subset of the memory parts
			all := ids(mem)
			if len(all) == 0 {
				continue
			}
			sub := pickSubset(all, 1)
			intro, ferr := idx.Flush(sub)
			if ferr != nil {
				e.Fail(oracle, "sidx:flush-failed", "Flush(%v) failed: %v", keysOf(sub), ferr)
				return
			}
			if intro != nil {
				idx.IntroduceFlushed(intro)
				intro.Release()
			}
			synctest.Wait()
			for id := range sub {
				delete(mem, id)
				flushed[id] = true
			}
			e.Event("flush parts %v", keysOf(sub))
			e.Probe("reach.sidx_flush")
			sample = append(sample, fmt.Sprintf("flush %v", keysOf(sub)))
		default: // merge an ARBITRARY subset (>= 2) of the file parts
			all := ids(flushed)
			if len(all) < 2 {
				continue
			}
			sub := pickSubset(all, 2)
			id := nextPart
			nextPart++
			intro, merr := idx.Merge(nil, sub, id, nil)
			if merr != nil {
				e.Fail(oracle, "sidx:merge-failed", "Merge(%v) failed: %v", keysOf(sub), merr)
				return
			}
			if intro != nil {
				idx.IntroduceMerged(intro)()
			}
			synctest.Wait()
			for p := range sub {
				delete(flushed, p)
			}
			flushed[id] = true
			e.Event("merge parts %v -> %d", keysOf(sub), id)
			e.Probe("reach.sidx_merge_arbitrary_subset")
			if len(sub) < len(all) {
				e.Probe("reach.sidx_merge_proper_subset")
			}
			sample = append(sample, fmt.Sprintf("merge %v", keysOf(sub)))
		}
		// after every step: both interfaces, a tape-chosen request
		var sids []common.SeriesID
		for s := 1; s <= nSeries; s++ {
			if tp.Bool(2, 3) {
				sids = append(sids, common.SeriesID(s))
			}
		}
		if len(sids) == 0 {
			sids = []common.SeriesID{1}
		}
		req := sidx.QueryRequest{SeriesIDs: sids, MaxBatchSize: []int{0, 1, 2, 7, 1000}[tp.Choose(5)]}
		if !checkOrder {
			req.MaxBatchSize = 0 // completeness under maintenance is the subject; batching/top-N is C09's
		}
		asc := tp.Bool(1, 2)
		if asc {
			req.Order = &index.OrderBy{Sort: modelv1.Sort_SORT_ASC}
		} else {
			req.Order = &index.OrderBy{Sort: modelv1.Sort_SORT_DESC}
		}
		var lo, hi *int64
		if tp.Bool(1, 2) && len(model) > 0 {
			a, b := model[tp.Choose(len(model))].key, model[tp.Choose(len(model))].key
			if a > b {
				a, b = b, a
			}
			lo, hi = &a, &b
			req.MinKey, req.MaxKey = lo, hi
		}
		want := map[entry]int{}
		inS := map[common.SeriesID]bool{}
		for _, s := range sids {
			inS[s] = true
		}
		for _, en := range model {
			if inS[en.sid] && (lo == nil || (en.key >= *lo && en.key <= *hi)) {
				want[en]++
			}
		}
		stream, serr := collectStreaming(ctx, idx, req)
		if serr != nil {
			e.Fail(oracle, "sidx:streaming-query-error", "StreamingQuery failed: %v", serr)
			return
		}
		syncRes, qerr := idx.QuerySync(ctx, req)
		if qerr != nil {
			e.Fail(oracle, "sidx:sync-query-error", "QuerySync failed: %v", qerr)
			return
		}
		var syncList []entry
		for _, r := range syncRes {
			if r.Error != nil {
				e.Fail(oracle, "sidx:sync-query-error", "QuerySync response error: %v", r.Error)
				return
			}
			for i := range r.Keys {
				syncList = append(syncList, entry{sid: r.SIDs[i], key: r.Keys[i], data: string(r.Data[i])})
			}
		}
		for _, name := range []string{"streaming", "sync"} {
			got := stream
			budget := 0
			if name == "sync" {
				got = syncList
				budget = req.MaxBatchSize // the synchronous interface treats MaxBatchSize as a top-N budget
			}
			if cls, msg := compare(want, got, asc, budget, checkOrder, dupPayloads); cls != "" {
				msg += fmt.Sprintf("\n  returned: %v", got)
				mode := ":unbatched"
				if req.MaxBatchSize > 0 {
					mode = ":batched" // MaxBatchSize > 0: results are produced scan batch by scan batch
				} else if *sidx.VerifKnobs()["maxBlockLength"] < 64 || (len(mem)+len(flushed))*len(sids) > 32 {
					// (or so many parts that parts x queried series exceeds one scan batch of 32 blocks)
					// blocks of a few entries (size knob shrunk): one query touches more blocks than one scan batch holds
					// even without MaxBatchSize, the situation of a large index at the shipped block size
					mode = ":unbatched:tiny-blocks"
				}
				if e.Known(oracle, "sidx:"+cls+":"+name+mode) {
					continue
				}
				e.Fail(oracle, "sidx:"+cls+":"+name+mode, "after %q, %s interface, series %v keys [%s] asc=%v batch=%d: %s", last(sample), name, sids, rng(lo, hi), asc, req.MaxBatchSize, msg)
				return
			}
		}
		e.Event("query series=%v range=[%s] asc=%v batch=%d -> %d entries through both interfaces", sids, rng(lo, hi), asc, req.MaxBatchSize, len(stream))
	}
	if len(model) > 0 {
		e.Nontrivial()
	}
	e.SetSample(map[string]any{"engine": "sidx", "series": nSeries, "key_range": keyRange, "ops": sample})
}

func last(s []string) string {
	if len(s) == 0 {
		return ""
	}
	return s[len(s)-1]
}

func rng(lo, hi *int64) string {
	if lo == nil {
		return "all"
	}
	return fmt.Sprintf("%d,%d", *lo, *hi)
}

func keysOf(m map[uint64]struct{}) []uint64 {
	out := make([]uint64, 0, len(m))
	for k := range m {
		out = append(out, k)
	}
	sort.Slice(out, func(i, j int) bool { return out[i] < out[j] })
	return out
}

func collectStreaming(ctx context.Context, idx sidx.SIDX, req sidx.QueryRequest) ([]entry, error) {
	resCh, errCh := idx.StreamingQuery(ctx, req)
	var out []entry
	for r := range resCh {
		if r.Error != nil {
			return nil, r.Error
		}
		for i := range r.Keys {
			out = append(out, entry{sid: r.SIDs[i], key: r.Keys[i], data: string(r.Data[i])})
		}
	}
	if err, ok := <-errCh; ok && err != nil {
		return nil, err
	}
	return out, nil
}

// compare checks an answer: members only, no entry twice, key order; complete when budget == 0, otherwise the
// ordered top of the result: at least min(budget, all) entries and nothing skipped below the last returned key.
func compare(want map[entry]int, got []entry, asc bool, budget int, checkOrder, dupPayloads bool) (string, string) {
	if dupPayloads {
		// soundness and order as usual; completeness per payload (and only for unbudgeted requests)
		seenP := map[string]bool{}
		cnt := map[entry]int{}
		for i, en := range got {
			cnt[en]++
			seenP[en.data] = true
			if want[en] == 0 {
				return "entry-not-written-or-out-of-range", fmt.Sprintf("returned entry %s was never written / lies outside the request", en)
			}
			if cnt[en] > want[en] {
				return "entry-returned-twice", fmt.Sprintf("entry %s returned %d times, written %d times", en, cnt[en], want[en])
			}
			if i > 0 && checkOrder {
				if asc && got[i-1].key > en.key || !asc && got[i-1].key < en.key {
					return "not-in-key-order", fmt.Sprintf("entries %d and %d out of key order: %s then %s", i-1, i, got[i-1], en)
				}
			}
		}
		if budget == 0 {
			var miss []string
			for en := range want {
				if !seenP[en.data] {
					miss = append(miss, en.String())
				}
			}
			if len(miss) > 0 {
				sort.Strings(miss)
				return "payload-with-matching-entry-missing", fmt.Sprintf("%d matching entries belong to payloads the answer does not contain at all, first: %s", len(miss), miss[0])
			}
		}
		return "", ""
	}
	seen := map[entry]int{}
	for i, en := range got {
		seen[en]++
		if want[en] == 0 {
			return "entry-not-written-or-out-of-range", fmt.Sprintf("returned entry %s was never written / lies outside the request", en)
		}
		if seen[en] > want[en] {
			return "entry-returned-twice", fmt.Sprintf("entry %s returned %d times", en, seen[en])
		}
		if i > 0 && checkOrder {
			if asc && got[i-1].key > en.key || !asc && got[i-1].key < en.key {
				return "not-in-key-order", fmt.Sprintf("entries %d and %d out of key order: %s then %s", i-1, i, got[i-1], en)
			}
		}
	}
	var miss []string
	for en := range want {
		if seen[en] != 0 {
			continue
		}
		if budget > 0 && len(got) > 0 {
			lastKey := got[len(got)-1].key
			if asc && en.key >= lastKey || !asc && en.key <= lastKey {
				continue // beyond (or tied with) the end of the returned top: allowed to be cut off
			}
		}
		miss = append(miss, en.String())
	}
	if budget > 0 && len(got) < min(budget, len(want)) {
		return "top-n-too-short", fmt.Sprintf("budget %d, %d entries match, only %d returned", budget, len(want), len(got))
	}
	if len(miss) > 0 {
		sort.Strings(miss)
		return "entry-missing", fmt.Sprintf("%d of %d matching entries missing, first: %s", len(miss), len(want), miss[0])
	}
	return "", ""
}
