// Package simnode boots the REAL standalone data path (measure, stream, trace engines, query
// processors, liaison gRPC front-end services) inside a testing/synctest bubble, wired as
// pkg/cmdsetup/standalone.go wires them, without sockets. The metadata registry is simmeta.
package simnode

import (
	"context"
	"fmt"
	"io"
	"os"
	"strings"

	"google.golang.org/grpc/metadata"

	"github.com/apache/skywalking-banyandb/api/common"
	databasev1 "github.com/apache/skywalking-banyandb/api/proto/banyandb/database/v1"
	measurev1 "github.com/apache/skywalking-banyandb/api/proto/banyandb/measure/v1"
	streamv1 "github.com/apache/skywalking-banyandb/api/proto/banyandb/stream/v1"
	tracev1 "github.com/apache/skywalking-banyandb/api/proto/banyandb/trace/v1"
	"github.com/apache/skywalking-banyandb/banyand/internal/verif/simmeta"
	lgrpc "github.com/apache/skywalking-banyandb/banyand/liaison/grpc"
	"github.com/apache/skywalking-banyandb/banyand/measure"
	"github.com/apache/skywalking-banyandb/banyand/observability"
	"github.com/apache/skywalking-banyandb/banyand/protector"
	"github.com/apache/skywalking-banyandb/banyand/query"
	"github.com/apache/skywalking-banyandb/banyand/queue"
	"github.com/apache/skywalking-banyandb/banyand/stream"
	"github.com/apache/skywalking-banyandb/banyand/trace"
	"github.com/apache/skywalking-banyandb/pkg/compress/zstd"
	"github.com/apache/skywalking-banyandb/pkg/logger"
	"github.com/apache/skywalking-banyandb/pkg/run"
)

// InitLogging initialises the repo logger: silent unless VERIF_LOG names a level (debugging aid only).
func InitLogging() {
	lvl := os.Getenv("VERIF_LOG")
	if lvl == "" {
		lvl = "fatal"
	}
	_ = logger.Init(logger.Logging{Env: "prod", Level: lvl})
	Warmup()
}

// Warmup forces lazily created process-global helpers into existence OUTSIDE any synctest bubble: a
// channel created inside the first run's bubble must not be touched by later bubbles in the same process
// (klauspost zstd encoders/decoders create their worker channels on first use).
func Warmup() {
	for lvl := 1; lvl <= 3; lvl++ {
		c := zstd.Compress(nil, []byte("warm-up warm-up warm-up warm-up"), lvl)
		if _, err := zstd.Decompress(nil, c); err != nil {
			panic(err)
		}
	}
}

// Node is one standalone node incarnation.
type Node struct {
	Ctx      context.Context
	Repo     *simmeta.Repo
	Pipeline queue.Queue
	FE       *lgrpc.VerifFrontend
	Measure  measure.Service
	Stream   stream.Service
	Trace    trace.Service
	units    []run.Unit
	Dir      string
	stopped  bool
}

// Engines selects which engines to boot.
type Engines struct {
	Measure, Stream, Trace bool
}

// TraceMergeConcurrency and TraceSamplerSlots size the trace package's two process-global semaphores, which
// Boot re-creates inside the bubble (see trace.VerifResetGlobalChannels); 0 keeps the engine's sizing (CPUs).
var TraceMergeConcurrency, TraceSamplerSlots int

// Boot starts a standalone node on dir. flags are "--name=value" strings; each is applied to the unit
// that defines it (unknown flags are an error). Must be called inside the bubble.
func Boot(repo *simmeta.Repo, dir string, eng Engines, flags []string) (*Node, error) {
	ctx := context.WithValue(context.Background(), common.ContextNodeKey, common.Node{NodeID: "local"})
	ctx = context.WithValue(ctx, common.ContextNodeRolesKey, []databasev1.Role{databasev1.Role_ROLE_DATA})
	pipeline := queue.Local()
	omr := observability.BypassRegistry
	pm := protector.Nop{}
	n := &Node{Ctx: ctx, Repo: repo, Pipeline: pipeline, Dir: dir}
	var err error
	all := append([]string{
		"--measure-root-path=" + dir, "--stream-root-path=" + dir, "--trace-root-path=" + dir,
	}, flags...)
	if eng.Stream {
		if n.Stream, err = stream.NewService(repo, pipeline, omr, pm, nil); err != nil {
			return nil, err
		}
		n.units = append(n.units, n.Stream)
	}
	if eng.Trace {
		trace.VerifResetGlobalChannels(TraceMergeConcurrency, TraceSamplerSlots)
		if n.Trace, err = trace.NewService(repo, pipeline, omr, pm); err != nil {
			return nil, err
		}
		n.units = append(n.units, n.Trace)
	}
	if eng.Measure {
		if n.Measure, err = measure.NewStandalone(repo, pipeline, nil, omr, pm); err != nil {
			return nil, err
		}
		n.units = append(n.units, n.Measure)
	}
	q, err := query.NewService(ctx, n.Stream, n.Measure, n.Trace, repo, pipeline, omr, false)
	if err != nil {
		return nil, err
	}
	n.units = append(n.units, q)
	used := map[string]bool{}
	for _, u := range n.units {
		c, ok := u.(run.Config)
		if !ok {
			continue
		}
		fs := c.FlagSet()
		var mine []string
		for _, f := range all {
			name := strings.TrimPrefix(strings.SplitN(f, "=", 2)[0], "--")
			if fs.Lookup(name) != nil {
				mine = append(mine, f)
				used[f] = true
			}
		}
		if err = fs.Parse(mine); err != nil {
			return nil, fmt.Errorf("flags of %s: %w", u.Name(), err)
		}
	}
	for _, f := range flags {
		if !used[f] {
			return nil, fmt.Errorf("no booted unit defines flag %s", f)
		}
	}
	for _, u := range n.units {
		if c, ok := u.(run.Config); ok {
			if err = c.Validate(); err != nil {
				return nil, fmt.Errorf("validate %s: %w", u.Name(), err)
			}
		}
		if p, ok := u.(run.PreRunner); ok {
			if err = p.PreRun(ctx); err != nil {
				return nil, fmt.Errorf("prerun %s: %w", u.Name(), err)
			}
		}
	}
	nr := lgrpc.NewLocalNodeRegistry()
	n.FE, err = lgrpc.VerifNewFrontend(repo, pipeline, pipeline, lgrpc.NodeRegistries{
		MeasureLiaisonNodeRegistry: nr, StreamLiaisonNodeRegistry: nr, PropertyNodeRegistry: nr, TraceLiaisonNodeRegistry: nr,
	})
	if err != nil {
		return nil, err
	}
	return n, nil
}

// Stop shuts the node down gracefully (reverse order, as run.Group does).
func (n *Node) Stop() {
	if n.stopped {
		return
	}
	n.stopped = true
	for i := len(n.units) - 1; i >= 0; i-- {
		if s, ok := n.units[i].(run.Service); ok {
			s.GracefulStop()
		}
	}
	n.Pipeline.GracefulStop()
}

// bidi is an in-memory server side of a client-streaming/bidi RPC: the whole client batch is queued,
// then io.EOF (the client half-closed); responses are collected.
type bidi[Req any, Res any] struct {
	ctx context.Context
	in  []*Req
	out []*Res
	pos int
}

func (b *bidi[Req, Res]) Recv() (*Req, error) {
	if b.pos >= len(b.in) {
		return nil, io.EOF
	}
	r := b.in[b.pos]
	b.pos++
	return r, nil
}
func (b *bidi[Req, Res]) Send(r *Res) error            { b.out = append(b.out, r); return nil }
func (b *bidi[Req, Res]) SetHeader(metadata.MD) error  { return nil }
func (b *bidi[Req, Res]) SendHeader(metadata.MD) error { return nil }
func (b *bidi[Req, Res]) SetTrailer(metadata.MD)       {}
func (b *bidi[Req, Res]) Context() context.Context     { return b.ctx }
func (b *bidi[Req, Res]) SendMsg(any) error            { return nil }
func (b *bidi[Req, Res]) RecvMsg(any) error            { return io.EOF }

// WriteMeasure sends one client write stream (a batch) through the real front-end and returns the
// per-request responses (the acknowledgement = status SUCCEED for the message id).
func (n *Node) WriteMeasure(reqs []*measurev1.WriteRequest) ([]*measurev1.WriteResponse, error) {
	b := &bidi[measurev1.WriteRequest, measurev1.WriteResponse]{ctx: n.Ctx, in: reqs}
	err := n.FE.MeasureWrite(b)
	return b.out, err
}

// WriteStream is the stream counterpart of WriteMeasure.
func (n *Node) WriteStream(reqs []*streamv1.WriteRequest) ([]*streamv1.WriteResponse, error) {
	b := &bidi[streamv1.WriteRequest, streamv1.WriteResponse]{ctx: n.Ctx, in: reqs}
	err := n.FE.StreamWrite(b)
	return b.out, err
}

// WriteTrace is the trace counterpart of WriteMeasure.
func (n *Node) WriteTrace(reqs []*tracev1.WriteRequest) ([]*tracev1.WriteResponse, error) {
	b := &bidi[tracev1.WriteRequest, tracev1.WriteResponse]{ctx: n.Ctx, in: reqs}
	err := n.FE.TraceWrite(b)
	return b.out, err
}

// QueryMeasure runs a measure query through the front-end.
func (n *Node) QueryMeasure(r *measurev1.QueryRequest) (*measurev1.QueryResponse, error) {
	return n.FE.MeasureQuery(n.Ctx, r)
}

// TopNMeasure runs a top-N query through the front-end.
func (n *Node) TopNMeasure(r *measurev1.TopNRequest) (*measurev1.TopNResponse, error) {
	return n.FE.MeasureTopN(n.Ctx, r)
}

// QueryStream runs a stream query through the front-end.
func (n *Node) QueryStream(r *streamv1.QueryRequest) (*streamv1.QueryResponse, error) {
	return n.FE.StreamQuery(n.Ctx, r)
}

// QueryTrace runs a trace query through the front-end.
func (n *Node) QueryTrace(r *tracev1.QueryRequest) (*tracev1.QueryResponse, error) {
	return n.FE.TraceQuery(n.Ctx, r)
}

// QueryPath draws which query path a run uses for an engine ("measure", "stream", "trace"): the vectorized
// pipeline (the default of the tree, with a tape-chosen batch size) or the row-at-a-time path. It returns the
// flags and a short tag for violation classes.
func QueryPath(choose func(n int) int, engine string) (flags []string, tag string) {
	if choose(3) == 0 {
		return []string{"--" + engine + "-vectorized-enabled=false"}, "row-path"
	}
	bs := []int{1024, 1, 7, 64}[choose(4)]
	return []string{"--" + engine + "-vectorized-enabled=true", fmt.Sprintf("--%s-vectorized-batch-size=%d", engine, bs)}, "vectorized"
}
