package simnode

import (
	"context"
	"fmt"
	"path/filepath"
	"sort"
	"strings"

	"github.com/apache/skywalking-banyandb/api/common"
	"github.com/apache/skywalking-banyandb/api/data"
	databasev1 "github.com/apache/skywalking-banyandb/api/proto/banyandb/database/v1"
	measurev1 "github.com/apache/skywalking-banyandb/api/proto/banyandb/measure/v1"
	streamv1 "github.com/apache/skywalking-banyandb/api/proto/banyandb/stream/v1"
	tracev1 "github.com/apache/skywalking-banyandb/api/proto/banyandb/trace/v1"
	"github.com/apache/skywalking-banyandb/banyand/dquery"
	"github.com/apache/skywalking-banyandb/banyand/internal/verif/simmeta"
	"github.com/apache/skywalking-banyandb/banyand/internal/verif/simnet"
	lgrpc "github.com/apache/skywalking-banyandb/banyand/liaison/grpc"
	"github.com/apache/skywalking-banyandb/banyand/measure"
	"github.com/apache/skywalking-banyandb/banyand/observability"
	"github.com/apache/skywalking-banyandb/banyand/protector"
	"github.com/apache/skywalking-banyandb/banyand/query"
	"github.com/apache/skywalking-banyandb/banyand/queue"
	"github.com/apache/skywalking-banyandb/banyand/queue/sub"
	"github.com/apache/skywalking-banyandb/banyand/stream"
	"github.com/apache/skywalking-banyandb/banyand/trace"
	"github.com/apache/skywalking-banyandb/pkg/node"
	"github.com/apache/skywalking-banyandb/pkg/run"
)

// Cluster is one liaison plus n data nodes wired as pkg/cmdsetup/{liaison,data}.go wire them, over simnet.
type Cluster struct {
	Ctx      context.Context
	Repo     *simmeta.Repo
	FE       *lgrpc.VerifFrontend
	DataNet  *simnet.Net
	units    []run.Unit // stop order: reverse
	locals   []queue.Queue
	DataDirs []string
	stopped  bool
}

func applyFlags(units []run.Unit, all, must []string) error {
	used := map[string]bool{}
	for _, u := range units {
		c, ok := u.(run.Config)
		if !ok {
			continue
		}
		fs := c.FlagSet()
		var mine []string
		for _, f := range all {
			name := strings.TrimPrefix(strings.SplitN(f, "=", 2)[0], "--")
			if fs.Lookup(name) != nil {
				mine = append(mine, f)
				used[f] = true
			}
		}
		if err := fs.Parse(mine); err != nil {
			return fmt.Errorf("flags of %s: %w", u.Name(), err)
		}
	}
	for _, f := range must {
		if !used[f] {
			return fmt.Errorf("no booted unit defines flag %s", f)
		}
	}
	return nil
}

func prerun(ctx context.Context, units []run.Unit) error {
	for _, u := range units {
		if c, ok := u.(run.Config); ok {
			if err := c.Validate(); err != nil {
				return fmt.Errorf("validate %s: %w", u.Name(), err)
			}
		}
		if p, ok := u.(run.PreRunner); ok {
			if err := p.PreRun(ctx); err != nil {
				return fmt.Errorf("prerun %s: %w", u.Name(), err)
			}
		}
	}
	return nil
}

// BootCluster starts nData data nodes and one liaison. dataFlags / liaisonFlags are "--name=value" strings.
func BootCluster(repo *simmeta.Repo, dir string, nData int, eng Engines, dataFlags, liaisonFlags []string) (*Cluster, error) {
	omr := observability.BypassRegistry
	pm := protector.Nop{}
	c := &Cluster{Repo: repo, DataNet: simnet.New()}
	if eng.Trace {
		trace.VerifResetGlobalChannels(TraceMergeConcurrency, TraceSamplerSlots)
	}
	// ---- data nodes
	for i := 0; i < nData; i++ {
		name := fmt.Sprintf("d%d", i)
		ddir := filepath.Join(dir, name)
		c.DataDirs = append(c.DataDirs, ddir)
		ctx := context.WithValue(context.Background(), common.ContextNodeKey, common.Node{NodeID: name})
		ctx = context.WithValue(ctx, common.ContextNodeRolesKey, []databasev1.Role{databasev1.Role_ROLE_DATA})
		pipeline := sub.NewServerWithPorts(omr, "", 0, 0)
		metricsPipeline := queue.Local()
		c.locals = append(c.locals, metricsPipeline)
		var units []run.Unit
		units = append(units, pipeline)
		var ss stream.Service
		var ms measure.Service
		var ts trace.Service
		var err error
		if eng.Stream {
			if ss, err = stream.NewService(repo, pipeline, omr, pm, nil); err != nil {
				return nil, err
			}
			units = append(units, ss)
		}
		if eng.Measure {
			if ms, err = measure.NewDataSVC(repo, pipeline, metricsPipeline, omr, pm); err != nil {
				return nil, err
			}
			units = append(units, ms)
		}
		if eng.Trace {
			if ts, err = trace.NewService(repo, pipeline, omr, pm); err != nil {
				return nil, err
			}
			units = append(units, ts)
		}
		q, err := query.NewService(ctx, ss, ms, ts, repo, pipeline, omr, true)
		if err != nil {
			return nil, err
		}
		units = append(units, q)
		all := append([]string{"--measure-root-path=" + ddir, "--stream-root-path=" + ddir, "--trace-root-path=" + ddir}, dataFlags...)
		if err = applyFlags(units, all, nil); err != nil { // flags a role does not define are ignored (the roles differ in their knobs)
			return nil, err
		}
		if err = prerun(ctx, units); err != nil {
			return nil, fmt.Errorf("data node %s: %w", name, err)
		}
		c.units = append(c.units, units[1:]...) // the sub server is never served (no sockets), so it is not stopped either
		c.DataNet.AddNode(name, pipeline, databasev1.Role_ROLE_DATA)
	}
	// ---- liaison
	ldir := filepath.Join(dir, "liaison")
	ctx := context.WithValue(context.Background(), common.ContextNodeKey, common.Node{NodeID: "l0"})
	ctx = context.WithValue(ctx, common.ContextNodeRolesKey, []databasev1.Role{databasev1.Role_ROLE_LIAISON})
	c.Ctx = ctx
	liaisonNet := simnet.New()
	tire1 := liaisonNet.Client("l0")
	tire2 := c.DataNet.Client("l0")
	localPipeline := queue.Local()
	c.locals = append(c.locals, localPipeline)
	internalPipeline := sub.NewServerWithPorts(omr, "liaison-server", 0, 0)
	measureLiaisonNodeSel := node.NewRoundRobinSelector(data.TopicMeasureWrite.String(), repo)
	measureDataNodeSel := node.NewRoundRobinSelector(data.TopicMeasureWrite.String(), repo)
	streamLiaisonNodeSel := node.NewRoundRobinSelector(data.TopicStreamWrite.String(), repo)
	streamDataNodeSel := node.NewRoundRobinSelector(data.TopicStreamPartSync.String(), repo)
	traceLiaisonNodeSel := node.NewRoundRobinSelector(data.TopicTraceWrite.String(), repo)
	traceDataNodeSel := node.NewRoundRobinSelector(data.TopicTracePartSync.String(), repo)
	var lunits []run.Unit
	lunits = append(lunits, internalPipeline, measureLiaisonNodeSel, measureDataNodeSel, streamLiaisonNodeSel, streamDataNodeSel, traceLiaisonNodeSel, traceDataNodeSel)
	var lss stream.Service
	var lms measure.Service
	var lts trace.Service
	var err error
	if eng.Stream {
		if lss, err = stream.NewLiaison(repo, internalPipeline, omr, pm, streamDataNodeSel, tire2); err != nil {
			return nil, err
		}
		lunits = append(lunits, lss)
	}
	if eng.Measure {
		if lms, err = measure.NewLiaison(repo, internalPipeline, omr, pm, measureDataNodeSel, tire2); err != nil {
			return nil, err
		}
		lunits = append(lunits, lms)
	}
	if eng.Trace {
		if lts, err = trace.NewLiaison(repo, internalPipeline, omr, pm, traceDataNodeSel, tire2); err != nil {
			return nil, err
		}
		lunits = append(lunits, lts)
	}
	dq, err := dquery.NewService(repo, localPipeline, tire2, omr, lss, lms, lts)
	if err != nil {
		return nil, err
	}
	lunits = append(lunits, dq)
	all := append([]string{"--measure-root-path=" + ldir, "--stream-root-path=" + ldir, "--trace-root-path=" + ldir}, liaisonFlags...)
	// a flag that also configures the data nodes need not exist on the liaison
	var lmust []string
	for _, f := range liaisonFlags {
		shared := false
		for _, d := range dataFlags {
			if d == f {
				shared = true
			}
		}
		if !shared {
			lmust = append(lmust, f)
		}
	}
	_ = lmust
	if err = applyFlags(lunits, all, nil); err != nil {
		return nil, err
	}
	if err = prerun(ctx, lunits); err != nil {
		return nil, fmt.Errorf("liaison: %w", err)
	}
	c.units = append(c.units, lunits[1:]...)
	liaisonNet.AddNode("l0", internalPipeline, databasev1.Role_ROLE_LIAISON)
	c.FE, err = lgrpc.VerifNewFrontend(repo, tire1, localPipeline, lgrpc.NodeRegistries{
		MeasureLiaisonNodeRegistry: lgrpc.NewClusterNodeRegistry(data.TopicMeasureWrite, tire1, measureLiaisonNodeSel),
		StreamLiaisonNodeRegistry:  lgrpc.NewClusterNodeRegistry(data.TopicStreamWrite, tire1, streamLiaisonNodeSel),
		TraceLiaisonNodeRegistry:   lgrpc.NewClusterNodeRegistry(data.TopicTraceWrite, tire1, traceLiaisonNodeSel),
		PropertyNodeRegistry:       lgrpc.NewLocalNodeRegistry(),
	})
	if err != nil {
		return nil, err
	}
	return c, nil
}

// Stop shuts everything down.
func (c *Cluster) Stop() {
	if c.stopped {
		return
	}
	c.stopped = true
	for i := len(c.units) - 1; i >= 0; i-- {
		if s, ok := c.units[i].(run.Service); ok {
			s.GracefulStop()
		}
	}
	for _, l := range c.locals {
		l.GracefulStop()
	}
}

// WriteMeasure sends one client write stream through the liaison front-end.
func (c *Cluster) WriteMeasure(reqs []*measurev1.WriteRequest) ([]*measurev1.WriteResponse, error) {
	b := &bidi[measurev1.WriteRequest, measurev1.WriteResponse]{ctx: c.Ctx, in: reqs}
	err := c.FE.MeasureWrite(b)
	return b.out, err
}

// QueryMeasure runs a measure query through the liaison front-end (distributed plan).
func (c *Cluster) QueryMeasure(r *measurev1.QueryRequest) (*measurev1.QueryResponse, error) {
	return c.FE.MeasureQuery(c.Ctx, r)
}

// WriteStream sends one client write stream through the liaison front-end.
func (c *Cluster) WriteStream(reqs []*streamv1.WriteRequest) ([]*streamv1.WriteResponse, error) {
	b := &bidi[streamv1.WriteRequest, streamv1.WriteResponse]{ctx: c.Ctx, in: reqs}
	err := c.FE.StreamWrite(b)
	return b.out, err
}

// QueryStream runs a stream query through the liaison front-end (distributed plan).
func (c *Cluster) QueryStream(r *streamv1.QueryRequest) (*streamv1.QueryResponse, error) {
	return c.FE.StreamQuery(c.Ctx, r)
}

// WriteTrace sends one client write stream through the liaison front-end.
func (c *Cluster) WriteTrace(reqs []*tracev1.WriteRequest) ([]*tracev1.WriteResponse, error) {
	b := &bidi[tracev1.WriteRequest, tracev1.WriteResponse]{ctx: c.Ctx, in: reqs}
	err := c.FE.TraceWrite(b)
	return b.out, err
}

// QueryTrace runs a trace query through the liaison front-end (distributed plan).
func (c *Cluster) QueryTrace(r *tracev1.QueryRequest) (*tracev1.QueryResponse, error) {
	return c.FE.TraceQuery(c.Ctx, r)
}

// ShardsOnNodes OBSERVES, per data node, which shards of a group hold a directory on that node's disk
// (<root>/<engine>/data/<group>/seg-*/shard-N): the placement the cluster actually produced, sorted.
func (c *Cluster) ShardsOnNodes(engine, group string) [][]int {
	out := make([][]int, len(c.DataDirs))
	for i, d := range c.DataDirs {
		m, _ := filepath.Glob(filepath.Join(d, engine, "data", group, "seg-*", "shard-*"))
		seen := map[int]bool{}
		for _, p := range m {
			var id int
			if _, err := fmt.Sscanf(filepath.Base(p), "shard-%d", &id); err == nil && !seen[id] {
				seen[id] = true
				out[i] = append(out[i], id)
			}
		}
		sort.Ints(out[i])
	}
	return out
}
