// Package simnet is the simulated cluster transport: a queue.Client whose Publish / Broadcast /
// batch publishing / chunked part sync reach the REAL receive handlers of the target nodes' sub servers
// (banyand/queue/sub Service.Send and ChunkedSyncService.SyncPart) over in-memory streams. The wire is
// honoured: every request and response is serialised exactly as pub/sub do it (proto bytes, columnar
// frames under the raw wire modes) and deep-copied. pub's connection manager, health checks, retries
// and failover are NOT run (stub): membership is driven by the simulation.
package simnet

import (
	"context"
	"errors"
	"fmt"
	"io"
	"sort"
	"sync"
	"time"

	"google.golang.org/grpc"
	"google.golang.org/grpc/metadata"
	"google.golang.org/protobuf/proto"

	"github.com/apache/skywalking-banyandb/api/common"
	apidata "github.com/apache/skywalking-banyandb/api/data"
	apiversion "github.com/apache/skywalking-banyandb/api/proto/banyandb"
	clusterv1 "github.com/apache/skywalking-banyandb/api/proto/banyandb/cluster/v1"
	commonv1 "github.com/apache/skywalking-banyandb/api/proto/banyandb/common/v1"
	databasev1 "github.com/apache/skywalking-banyandb/api/proto/banyandb/database/v1"
	modelv1 "github.com/apache/skywalking-banyandb/api/proto/banyandb/model/v1"
	"github.com/apache/skywalking-banyandb/banyand/internal/storage"
	"github.com/apache/skywalking-banyandb/banyand/metadata/schema"
	"github.com/apache/skywalking-banyandb/banyand/queue"
	"github.com/apache/skywalking-banyandb/banyand/queue/pub"
	"github.com/apache/skywalking-banyandb/banyand/queue/sub"
	"github.com/apache/skywalking-banyandb/pkg/bus"
)

// Net is one tier of the cluster (e.g. "the data nodes").
type Net struct {
	mu       sync.Mutex
	nodes    map[string]*endpoint
	handlers []schema.EventHandler
	// Tap, when set, sees every response before the client decodes it and may return 0..n copies
	// (drop / duplicate); used for fault injection on the answer path.
	Tap func(from string, topic bus.Topic, resp *clusterv1.SendResponse) []*clusterv1.SendResponse
	// syncSem serialises chunked sync sessions (the in-memory stream hook is process-global).
	syncSem chan struct{}
}

type endpoint struct {
	srv  queue.Server
	md   *databasev1.Node
	name string
}

// New returns an empty tier. Must be called inside the bubble.
func New() *Net {
	return &Net{nodes: map[string]*endpoint{}, syncSem: make(chan struct{}, 1)}
}

// AddNode makes a node reachable and tells every registered membership handler (as pub does when a
// node becomes healthy).
func (n *Net) AddNode(name string, srv queue.Server, roles ...databasev1.Role) {
	md := &databasev1.Node{Metadata: &commonv1.Metadata{Name: name}, Roles: roles, GrpcAddress: name + ":17912"}
	n.mu.Lock()
	n.nodes[name] = &endpoint{name: name, srv: srv, md: md}
	hs := append([]schema.EventHandler(nil), n.handlers...)
	n.mu.Unlock()
	for _, h := range hs {
		h.OnAddOrUpdate(schema.Metadata{TypeMeta: schema.TypeMeta{Kind: schema.KindNode, Name: name}, Spec: md})
	}
}

func (n *Net) names() []string {
	n.mu.Lock()
	defer n.mu.Unlock()
	out := make([]string, 0, len(n.nodes))
	for k := range n.nodes {
		out = append(out, k)
	}
	sort.Strings(out)
	return out
}

func (n *Net) get(name string) *endpoint {
	n.mu.Lock()
	defer n.mu.Unlock()
	return n.nodes[name]
}

// Client returns a queue.Client of this tier for the node called self.
func (n *Net) Client(self string) *Client { return &Client{net: n, self: self} }

// Client implements queue.Client over a Net.
type Client struct {
	net  *Net
	self string
}

var _ queue.Client = (*Client)(nil)

// Name implements run.Unit.
func (c *Client) Name() string { return "simnet-client" }

// GracefulStop implements queue.Client.
func (c *Client) GracefulStop() {}

// SetSelfNode implements queue.Client.
func (c *Client) SetSelfNode(string, string, string) {}

// NewNodeSchemaStatusClient implements queue.Client.
func (c *Client) NewNodeSchemaStatusClient(string) (clusterv1.NodeSchemaStatusServiceClient, error) {
	return nil, queue.ErrNotImplemented
}

// GetRouteTable implements route.TableProvider.
func (c *Client) GetRouteTable() *databasev1.RouteTable { return &databasev1.RouteTable{} }

// Register implements queue.Client: the handler learns about every node of the tier.
func (c *Client) Register(_ bus.Topic, h schema.EventHandler) {
	c.net.mu.Lock()
	c.net.handlers = append(c.net.handlers, h)
	var mds []*databasev1.Node
	for _, k := range sortedKeys(c.net.nodes) {
		mds = append(mds, c.net.nodes[k].md)
	}
	c.net.mu.Unlock()
	for _, md := range mds {
		h.OnAddOrUpdate(schema.Metadata{TypeMeta: schema.TypeMeta{Kind: schema.KindNode, Name: md.Metadata.Name}, Spec: md})
	}
}

func sortedKeys(m map[string]*endpoint) []string {
	out := make([]string, 0, len(m))
	for k := range m {
		out = append(out, k)
	}
	sort.Strings(out)
	return out
}

// OnAddOrUpdate implements queue.Client (membership is driven through Net.AddNode).
func (c *Client) OnAddOrUpdate(schema.Metadata) {}

// HealthyNodes implements queue.Client.
func (c *Client) HealthyNodes() []string { return c.net.names() }

// ---- the in-memory Service.Send stream

type sendPipe struct {
	ctx    context.Context
	cancel context.CancelFunc
	c2s    chan *clusterv1.SendRequest
	s2c    chan *clusterv1.SendResponse
	once   sync.Once
}

type sendSrv struct{ p *sendPipe }

func (s sendSrv) Recv() (*clusterv1.SendRequest, error) {
	select {
	case r, ok := <-s.p.c2s:
		if !ok {
			return nil, io.EOF
		}
		return r, nil
	default:
	}
	select {
	case r, ok := <-s.p.c2s:
		if !ok {
			return nil, io.EOF
		}
		return r, nil
	case <-s.p.ctx.Done():
		return nil, s.p.ctx.Err()
	}
}

func (s sendSrv) Send(r *clusterv1.SendResponse) error {
	select {
	case s.p.s2c <- proto.Clone(r).(*clusterv1.SendResponse):
		return nil
	case <-s.p.ctx.Done():
		return s.p.ctx.Err()
	}
}
func (s sendSrv) SetHeader(metadata.MD) error  { return nil }
func (s sendSrv) SendHeader(metadata.MD) error { return nil }
func (s sendSrv) SetTrailer(metadata.MD)       {}
func (s sendSrv) Context() context.Context     { return s.p.ctx }
func (s sendSrv) SendMsg(any) error            { return errors.New("unused") }
func (s sendSrv) RecvMsg(any) error            { return errors.New("unused") }

func (n *Net) open(ctx context.Context, ep *endpoint) *sendPipe {
	cctx, cancel := context.WithCancel(ctx)
	p := &sendPipe{ctx: cctx, cancel: cancel, c2s: make(chan *clusterv1.SendRequest, 4096), s2c: make(chan *clusterv1.SendResponse, 4096)}
	go func() {
		_ = sub.VerifSend(ep.srv, sendSrv{p})
		close(p.s2c)
	}()
	return p
}

func (p *sendPipe) closeSend() { p.once.Do(func() { close(p.c2s) }) }

func toRequest(topic bus.Topic, m bus.Message, self string) (*clusterv1.SendRequest, error) {
	r := &clusterv1.SendRequest{
		Topic: topic.String(), MessageId: uint64(m.ID()), BatchMod: m.BatchModeEnabled(), SenderNode: self,
		VersionInfo: &clusterv1.VersionInfo{ApiVersion: apiversion.Version, FileFormatVersion: storage.GetCurrentVersion(), CompatibleFileFormatVersion: storage.GetCompatibleVersions()},
	}
	switch d := m.Data().(type) {
	case proto.Message:
		b, err := proto.Marshal(d)
		if err != nil {
			return nil, err
		}
		r.Body = b
		r.Group = apidata.GroupFromMessageData(topic, d)
	case []byte:
		r.Body = d
		r.Group = m.Group()
	default:
		return nil, fmt.Errorf("invalid message type %T", m.Data())
	}
	return r, nil
}

type pending struct {
	pipe  *sendPipe
	node  string
	topic bus.Topic
	extra []*clusterv1.SendResponse // duplicated responses injected by the tap
}

type future struct {
	net  *Net
	list []*pending
}

func (f *future) decode(p *pending, resp *clusterv1.SendResponse) (bus.Message, error) {
	if resp.Error != "" {
		return bus.Message{}, errors.New(resp.Error)
	}
	if resp.Body == nil {
		return bus.NewMessageWithNode(bus.MessageID(resp.MessageId), p.node, nil), nil
	}
	codec, ok := apidata.TopicResponseMap[p.topic]
	if !ok {
		return bus.Message{}, fmt.Errorf("invalid topic %s", p.topic)
	}
	m, err := codec.Unmarshal(resp.Body)
	if err != nil {
		return bus.Message{}, err
	}
	return bus.NewMessageWithNode(bus.MessageID(resp.MessageId), p.node, m), nil
}

// Get implements bus.Future.
func (f *future) Get() (bus.Message, error) {
	if len(f.list) == 0 {
		return bus.Message{}, io.EOF
	}
	p := f.list[0]
	if len(p.extra) > 0 {
		r := p.extra[0]
		p.extra = p.extra[1:]
		if len(p.extra) == 0 {
			f.list = f.list[1:]
		}
		return f.decode(p, r)
	}
	f.list = f.list[1:]
	defer func() { p.pipe.closeSend(); p.pipe.cancel() }()
	resp, ok := <-p.pipe.s2c
	if !ok {
		return bus.Message{}, fmt.Errorf("node %s closed the stream without a response", p.node)
	}
	if tap := f.net.Tap; tap != nil {
		out := tap(p.node, p.topic, resp)
		if len(out) == 0 {
			return bus.Message{}, fmt.Errorf("simulated: response from %s lost", p.node)
		}
		if len(out) > 1 {
			p.extra = out[1:]
			f.list = append([]*pending{p}, f.list...)
		}
		resp = out[0]
	}
	return f.decode(p, resp)
}

// GetAll implements bus.Future.
func (f *future) GetAll() ([]bus.Message, error) {
	var out []bus.Message
	var gerr error
	for {
		m, err := f.Get()
		if errors.Is(err, io.EOF) {
			return out, gerr
		}
		if err != nil {
			gerr = errors.Join(gerr, err)
			continue
		}
		out = append(out, m)
	}
}

// Publish implements bus.Publisher: each message goes to the node it names.
func (c *Client) Publish(ctx context.Context, topic bus.Topic, messages ...bus.Message) (bus.Future, error) {
	f := &future{net: c.net}
	for _, m := range messages {
		ep := c.net.get(m.Node())
		if ep == nil {
			return nil, fmt.Errorf("simnet: unknown or unreachable node %q", m.Node())
		}
		req, err := toRequest(topic, m, c.self)
		if err != nil {
			return nil, err
		}
		p := c.net.open(ctx, ep)
		p.c2s <- req
		f.list = append(f.list, &pending{pipe: p, node: ep.name, topic: topic})
	}
	return f, nil
}

// Broadcast implements bus.Broadcaster: the message goes to every node of the tier.
func (c *Client) Broadcast(timeout time.Duration, topic bus.Topic, message bus.Message) ([]bus.Future, error) {
	var out []bus.Future
	for _, name := range c.net.names() {
		ctx, cancel := context.WithTimeout(context.Background(), timeout)
		_ = cancel
		f, err := c.Publish(ctx, topic, bus.NewMessageWithNode(message.ID(), name, message.Data()))
		if err != nil {
			return nil, err
		}
		out = append(out, f)
	}
	return out, nil
}

// ---- batch publishing (write path)

type batch struct {
	c       *Client
	streams map[string]*sendPipe
	order   []string
	timeout time.Duration
}

// NewBatchPublisher implements queue.Client.
func (c *Client) NewBatchPublisher(timeout time.Duration) queue.BatchPublisher {
	return &batch{c: c, streams: map[string]*sendPipe{}, timeout: timeout}
}

// Publish implements bus.Publisher for a batch.
func (b *batch) Publish(ctx context.Context, topic bus.Topic, messages ...bus.Message) (bus.Future, error) {
	for _, m := range messages {
		ep := b.c.net.get(m.Node())
		if ep == nil {
			return nil, common.NewErrorWithStatus(modelv1.Status_STATUS_INTERNAL_ERROR, fmt.Sprintf("simnet: unknown node %q", m.Node()))
		}
		p := b.streams[ep.name]
		if p == nil {
			p = b.c.net.open(context.Background(), ep)
			b.streams[ep.name] = p
			b.order = append(b.order, ep.name)
		}
		req, err := toRequest(topic, m, b.c.self)
		if err != nil {
			return nil, err
		}
		req.BatchMod = true
		p.c2s <- req
	}
	return nil, nil
}

// Close implements queue.BatchPublisher: seals every per-node stream and collects the verdicts.
func (b *batch) Close() (map[string]*common.Error, error) {
	var errs map[string]*common.Error
	for _, name := range b.order {
		p := b.streams[name]
		p.closeSend()
		for resp := range p.s2c {
			if resp.Error != "" || (resp.Status != modelv1.Status_STATUS_UNSPECIFIED && resp.Status != modelv1.Status_STATUS_SUCCEED) {
				if errs == nil {
					errs = map[string]*common.Error{}
				}
				errs[name] = common.NewErrorWithStatus(resp.Status, resp.Error)
			}
		}
		p.cancel()
	}
	return errs, nil
}

// ---- chunked part sync: the REAL pub chunk sender against the REAL sub receiver

type syncWire struct {
	srv queue.Server
}

func (w *syncWire) SyncPart(ctx context.Context, _ ...grpc.CallOption) (grpc.BidiStreamingClient[clusterv1.SyncPartRequest, clusterv1.SyncPartResponse], error) {
	c, cancel := context.WithCancel(ctx)
	p := &syncPipe{ctx: c, cancel: cancel, c2s: make(chan *clusterv1.SyncPartRequest, 256), s2c: make(chan *clusterv1.SyncPartResponse, 256)}
	go func() {
		_ = sub.VerifSyncPart(w.srv, syncSrv{p})
		close(p.s2c)
	}()
	return syncCli{p}, nil
}

type syncPipe struct {
	ctx    context.Context
	cancel context.CancelFunc
	c2s    chan *clusterv1.SyncPartRequest
	s2c    chan *clusterv1.SyncPartResponse
	once   sync.Once
}

type syncCli struct{ p *syncPipe }

func (c syncCli) Send(r *clusterv1.SyncPartRequest) error {
	select {
	case c.p.c2s <- proto.Clone(r).(*clusterv1.SyncPartRequest):
		return nil
	case <-c.p.ctx.Done():
		return c.p.ctx.Err()
	}
}

func (c syncCli) Recv() (*clusterv1.SyncPartResponse, error) {
	select {
	case r, ok := <-c.p.s2c:
		if !ok {
			return nil, io.EOF
		}
		return r, nil
	default:
	}
	select {
	case r, ok := <-c.p.s2c:
		if !ok {
			return nil, io.EOF
		}
		return r, nil
	case <-c.p.ctx.Done():
		return nil, c.p.ctx.Err()
	}
}
func (c syncCli) Header() (metadata.MD, error) { return nil, nil }
func (c syncCli) Trailer() metadata.MD         { return nil }
func (c syncCli) CloseSend() error             { c.p.once.Do(func() { close(c.p.c2s) }); return nil }
func (c syncCli) Context() context.Context     { return c.p.ctx }
func (c syncCli) SendMsg(any) error            { return errors.New("unused") }
func (c syncCli) RecvMsg(any) error            { return errors.New("unused") }

type syncSrv struct{ p *syncPipe }

func (s syncSrv) Recv() (*clusterv1.SyncPartRequest, error) {
	select {
	case r, ok := <-s.p.c2s:
		if !ok {
			return nil, io.EOF
		}
		return r, nil
	default:
	}
	select {
	case r, ok := <-s.p.c2s:
		if !ok {
			return nil, io.EOF
		}
		return r, nil
	case <-s.p.ctx.Done():
		return nil, s.p.ctx.Err()
	}
}

func (s syncSrv) Send(r *clusterv1.SyncPartResponse) error {
	select {
	case s.p.s2c <- proto.Clone(r).(*clusterv1.SyncPartResponse):
		return nil
	case <-s.p.ctx.Done():
		return s.p.ctx.Err()
	}
}
func (s syncSrv) SetHeader(metadata.MD) error  { return nil }
func (s syncSrv) SendHeader(metadata.MD) error { return nil }
func (s syncSrv) SetTrailer(metadata.MD)       {}
func (s syncSrv) Context() context.Context     { return s.p.ctx }
func (s syncSrv) SendMsg(any) error            { return errors.New("unused") }
func (s syncSrv) RecvMsg(any) error            { return errors.New("unused") }

type chunked struct {
	net  *Net
	node string
	size uint32
}

// NewChunkedSyncClient implements queue.Client.
func (c *Client) NewChunkedSyncClient(node string, chunkSize uint32) (queue.ChunkedSyncClient, error) {
	if c.net.get(node) == nil {
		return nil, fmt.Errorf("simnet: unknown node %q", node)
	}
	return &chunked{net: c.net, node: node, size: chunkSize}, nil
}

func (c *chunked) SyncStreamingParts(ctx context.Context, parts []queue.StreamingPartData) (*queue.SyncResult, error) {
	ep := c.net.get(c.node)
	if ep == nil {
		return nil, fmt.Errorf("simnet: node %q is gone", c.node)
	}
	c.net.syncSem <- struct{}{} // one session at a time: the stream hook below is process-global
	defer func() { <-c.net.syncSem }()
	clusterv1.NewChunkedSyncServiceClientHook = func(grpc.ClientConnInterface) clusterv1.ChunkedSyncServiceClient { return &syncWire{srv: ep.srv} }
	defer func() { clusterv1.NewChunkedSyncServiceClientHook = nil }()
	real, err := pub.VerifNewChunkedSyncClient(c.node, c.size)
	if err != nil {
		return nil, err
	}
	defer real.Close()
	return real.SyncStreamingParts(ctx, parts)
}

func (c *chunked) Close() error { return nil }
