package c20

// Workload generation for C20: schemas served by the in-memory registry, statement templates with `?`
// in every position the grammar admits, parameter values, and the harness's OWN literal renderer
// (independent of pkg/bydbql: it follows the lexer rules in parser.go — String is '...' or "..." with
// backslash escapes decoded by strconv.UnquoteChar, Int is [-+]?\d+, NULL is a keyword).

import (
	"context"
	"fmt"
	"math"
	"strconv"
	"strings"
	"time"

	"google.golang.org/protobuf/types/known/timestamppb"

	commonv1 "github.com/apache/skywalking-banyandb/api/proto/banyandb/common/v1"
	databasev1 "github.com/apache/skywalking-banyandb/api/proto/banyandb/database/v1"
	modelv1 "github.com/apache/skywalking-banyandb/api/proto/banyandb/model/v1"
	"github.com/apache/skywalking-banyandb/banyand/internal/verif/simmeta"
	"github.com/apache/skywalking-banyandb/banyand/metadata/schema"
	"github.com/apache/skywalking-banyandb/pkg/verif/simcore"
)

// ---------------------------------------------------------------------------------------------
// Registry: simmeta.Repo plus the four resource kinds simmeta does not store. Every lookup is a gate
// site (a call-back from inside Transform/TransformBound into harness code).

type registry struct {
	*simmeta.Repo
	streams  map[string]*databasev1.Stream
	measures map[string]*databasev1.Measure
	traces   map[string]*databasev1.Trace
	props    map[string]*databasev1.Property
	topns    map[string]*databasev1.TopNAggregation
}

func mdKey(m *commonv1.Metadata) string { return m.GetGroup() + "/" + m.GetName() }

type (
	streamReg  struct{ *registry }
	measureReg struct{ *registry }
	traceReg   struct{ *registry }
	propReg    struct{ *registry }
	topnReg    struct{ *registry }
)

func (r *registry) StreamRegistry() schema.Stream                   { return streamReg{r} }
func (r *registry) MeasureRegistry() schema.Measure                 { return measureReg{r} }
func (r *registry) TraceRegistry() schema.Trace                     { return traceReg{r} }
func (r *registry) PropertyRegistry() schema.Property               { return propReg{r} }
func (r *registry) TopNAggregationRegistry() schema.TopNAggregation { return topnReg{r} }

func (s streamReg) GetStream(_ context.Context, md *commonv1.Metadata) (*databasev1.Stream, error) {
	simcore.Gate("registry.GetStream")
	if v, ok := s.streams[mdKey(md)]; ok {
		return v, nil
	}
	return nil, schema.ErrGRPCResourceNotFound
}

func (s measureReg) GetMeasure(_ context.Context, md *commonv1.Metadata) (*databasev1.Measure, error) {
	simcore.Gate("registry.GetMeasure")
	if v, ok := s.measures[mdKey(md)]; ok {
		return v, nil
	}
	return nil, schema.ErrGRPCResourceNotFound
}

func (s traceReg) GetTrace(_ context.Context, md *commonv1.Metadata) (*databasev1.Trace, error) {
	simcore.Gate("registry.GetTrace")
	if v, ok := s.traces[mdKey(md)]; ok {
		return v, nil
	}
	return nil, schema.ErrGRPCResourceNotFound
}

func (s propReg) GetProperty(_ context.Context, md *commonv1.Metadata) (*databasev1.Property, error) {
	simcore.Gate("registry.GetProperty")
	if v, ok := s.props[mdKey(md)]; ok {
		return v, nil
	}
	return nil, schema.ErrGRPCResourceNotFound
}

func (s topnReg) GetTopNAggregation(_ context.Context, md *commonv1.Metadata) (*databasev1.TopNAggregation, error) {
	simcore.Gate("registry.GetTopNAggregation")
	if v, ok := s.topns[mdKey(md)]; ok {
		return v, nil
	}
	return nil, schema.ErrGRPCResourceNotFound
}

type tagType int

const (
	tString tagType = iota
	tInt
	tStrArr
	tIntArr
	tTimestamp
	tBinary
)

func (t tagType) pb() databasev1.TagType {
	switch t {
	case tString:
		return databasev1.TagType_TAG_TYPE_STRING
	case tInt:
		return databasev1.TagType_TAG_TYPE_INT
	case tStrArr:
		return databasev1.TagType_TAG_TYPE_STRING_ARRAY
	case tIntArr:
		return databasev1.TagType_TAG_TYPE_INT_ARRAY
	case tTimestamp:
		return databasev1.TagType_TAG_TYPE_TIMESTAMP
	}
	return databasev1.TagType_TAG_TYPE_DATA_BINARY
}

type tagDef struct {
	name   string
	family string
	typ    tagType
}

type catalog struct {
	kind     string // stream measure trace property topn
	keyword  string // STREAM MEASURE TRACE PROPERTY
	resource string
	tags     []tagDef
	fields   []string
}

var catalogs = []*catalog{
	{kind: "stream", keyword: "STREAM", resource: "sw", tags: []tagDef{
		{"service_id", "searchable", tString}, {"duration", "searchable", tInt}, {"message", "searchable", tString},
		{"tags", "searchable", tStrArr}, {"codes", "searchable", tIntArr}, {"created_at", "searchable", tTimestamp},
		{"payload", "data", tBinary},
	}},
	{kind: "measure", keyword: "MEASURE", resource: "svc_metrics", tags: []tagDef{
		{"service", "default", tString}, {"code", "default", tInt}, {"instance", "default", tString}, {"labels", "extra", tStrArr},
	}, fields: []string{"value", "total"}},
	{kind: "trace", keyword: "TRACE", resource: "tr", tags: []tagDef{
		{"trace_id", "", tString}, {"dur", "", tInt}, {"span_id", "", tString}, {"kinds", "", tStrArr}, {"ts", "", tTimestamp},
	}},
	{kind: "property", keyword: "PROPERTY", resource: "sw_prop", tags: []tagDef{
		{"env", "", tString}, {"ver", "", tInt}, {"labels", "", tStrArr},
	}},
	{kind: "topn", keyword: "MEASURE", resource: "svc_topn", tags: []tagDef{
		{"service", "default", tString}, {"code", "default", tInt}, {"instance", "default", tString},
	}},
}

var groupNames = []string{"g1", "g2"}

func newRegistry() *registry {
	r := &registry{
		Repo: simmeta.New(), streams: map[string]*databasev1.Stream{}, measures: map[string]*databasev1.Measure{},
		traces: map[string]*databasev1.Trace{}, props: map[string]*databasev1.Property{}, topns: map[string]*databasev1.TopNAggregation{},
	}
	families := func(c *catalog) []*databasev1.TagFamilySpec {
		var out []*databasev1.TagFamilySpec
		for _, t := range c.tags {
			var f *databasev1.TagFamilySpec
			for _, x := range out {
				if x.Name == t.family {
					f = x
				}
			}
			if f == nil {
				f = &databasev1.TagFamilySpec{Name: t.family}
				out = append(out, f)
			}
			f.Tags = append(f.Tags, &databasev1.TagSpec{Name: t.name, Type: t.typ.pb()})
		}
		return out
	}
	for _, g := range groupNames {
		for _, c := range catalogs {
			md := &commonv1.Metadata{Group: g, Name: c.resource}
			switch c.kind {
			case "stream":
				r.streams[mdKey(md)] = &databasev1.Stream{Metadata: md, TagFamilies: families(c)}
			case "measure":
				m := &databasev1.Measure{Metadata: md, TagFamilies: families(c)}
				for _, f := range c.fields {
					m.Fields = append(m.Fields, &databasev1.FieldSpec{Name: f, FieldType: databasev1.FieldType_FIELD_TYPE_INT})
				}
				r.measures[mdKey(md)] = m
			case "trace":
				t := &databasev1.Trace{Metadata: md}
				for _, x := range c.tags {
					t.Tags = append(t.Tags, &databasev1.TraceTagSpec{Name: x.name, Type: x.typ.pb()})
				}
				r.traces[mdKey(md)] = t
			case "property":
				p := &databasev1.Property{Metadata: md}
				for _, x := range c.tags {
					p.Tags = append(p.Tags, &databasev1.TagSpec{Name: x.name, Type: x.typ.pb()})
				}
				r.props[mdKey(md)] = p
			case "topn":
				r.topns[mdKey(md)] = &databasev1.TopNAggregation{Metadata: md, SourceMeasure: &commonv1.Metadata{Group: g, Name: "svc_metrics"}, FieldName: "value"}
			}
		}
	}
	return r
}

// ---------------------------------------------------------------------------------------------
// Templates.

type slotKind int

const (
	skCount      slotKind = iota // LIMIT / OFFSET / TOP N: the position demands an in-range integer
	skTime                       // TIME value
	skScalar                     // right-hand side of a comparison
	skListElem                   // element of a parenthesised value list: IN (...), HAVING (...), MATCH((...))
	skSingleList                 // bare HAVING ? / MATCH(?): a scalar, or an array that turns it into a list
)

var slotKindNames = []string{"count", "time", "scalar", "list-elem", "single-or-list"}

type slot struct {
	where string // human-readable position
	tag   tagType
	max   int64
	kind  slotKind
}

func (s slot) String() string { return slotKindNames[s.kind] + "@" + s.where }

type template struct {
	cat   *catalog
	parts []string // len(slots)+1 text segments; a `?` stands between consecutive segments
	slots []slot
	star  bool // `SELECT *`: the engine builds the projection from a map, its order is unspecified
}

func (t *template) text() string { return strings.Join(t.parts, "?") }

type builder struct {
	tp    *simcore.Tape
	cat   *catalog
	parts []string
	slots []slot
	cur   strings.Builder
	// paramBias: numerator out of 8 for "this value position is a placeholder"
	paramBias int
}

func (b *builder) w(s string) { b.cur.WriteString(s) }

func (b *builder) ph(s slot) {
	b.parts = append(b.parts, b.cur.String())
	b.cur.Reset()
	b.slots = append(b.slots, s)
}

func (b *builder) isParam() bool { return b.tp.Choose(8) < b.paramBias }

var benignStrings = []string{"a", "svc-1", "prod", "it's", `q"q`, "x y", "1", "OR"}

// value writes one value position: a placeholder or a literal of a type that suits the tag.
func (b *builder) value(s slot) {
	if b.isParam() {
		b.ph(s)
		return
	}
	switch {
	case b.tp.Bool(1, 12):
		b.w("NULL")
	case s.tag == tInt || s.tag == tIntArr:
		b.w(strconv.Itoa(b.tp.Range(0, 9) - 2))
	default:
		b.w(quote(simcore.Pick(b.tp, benignStrings), b.tp.Bool(1, 3)))
	}
}

func (b *builder) pickTag(pref ...tagType) tagDef {
	var cands []tagDef
	for _, t := range b.cat.tags {
		for _, p := range pref {
			if t.typ == p {
				cands = append(cands, t)
			}
		}
	}
	if len(cands) == 0 || b.tp.Bool(1, 10) {
		cands = b.cat.tags
	}
	return simcore.Pick(b.tp, cands)
}

func (b *builder) valueList(tag tagDef, where string) {
	n := b.tp.Range(1, 3)
	b.w("(")
	for i := 0; i < n; i++ {
		if i > 0 {
			b.w(", ")
		}
		b.value(slot{kind: skListElem, tag: tag.typ, where: fmt.Sprintf("%s[%d]", where, i)})
	}
	b.w(")")
}

func (b *builder) predicate(depth int) {
	kind := b.tp.Weighted(8, 4, 3, 3, 2)
	if kind == 4 && depth >= 2 {
		kind = 0
	}
	switch kind {
	case 0: // comparison
		if b.cat.kind == "property" && b.tp.Bool(1, 4) {
			b.w("id = ")
			b.value(slot{kind: skScalar, tag: tString, where: "id="})
			return
		}
		tag := b.pickTag(tString, tInt)
		op := simcore.Pick(b.tp, []string{"=", "!=", ">", "<", ">=", "<="})
		b.w(tag.name + " " + op + " ")
		b.value(slot{kind: skScalar, tag: tag.typ, where: tag.name + op})
	case 1: // IN / NOT IN
		if b.cat.kind == "property" && b.tp.Bool(1, 4) {
			b.w("id IN ")
			b.valueList(tagDef{name: "id", typ: tString}, "id IN")
			return
		}
		tag := b.pickTag(tString, tInt)
		b.w(tag.name)
		if b.tp.Bool(1, 3) {
			b.w(" NOT")
		}
		b.w(" IN ")
		b.valueList(tag, tag.name+" IN")
	case 2: // HAVING / NOT HAVING
		tag := b.pickTag(tStrArr, tIntArr)
		b.w(tag.name)
		if b.tp.Bool(1, 3) {
			b.w(" NOT")
		}
		b.w(" HAVING ")
		if b.tp.Bool(1, 2) {
			b.valueList(tag, tag.name+" HAVING")
		} else {
			b.value(slot{kind: skSingleList, tag: tag.typ, where: tag.name + " HAVING"})
		}
	case 3: // MATCH
		tag := b.pickTag(tString)
		b.w(tag.name + " MATCH(")
		if b.tp.Bool(1, 3) {
			b.valueList(tag, tag.name+" MATCH")
		} else {
			b.value(slot{kind: skSingleList, tag: tString, where: tag.name + " MATCH"})
		}
		switch b.tp.Weighted(3, 1, 1) {
		case 1:
			b.w(", 'simple'")
		case 2:
			b.w(", 'keyword', " + simcore.Pick(b.tp, []string{"'AND'", "'OR'"}))
		}
		b.w(")")
	case 4:
		b.w("(")
		b.orExpr(depth + 1)
		b.w(")")
	}
}

func (b *builder) andExpr(depth int) {
	n := b.tp.Weighted(5, 3, 1)
	for i := 0; i <= n; i++ {
		if i > 0 {
			b.w(" AND ")
		}
		b.predicate(depth)
	}
}

func (b *builder) orExpr(depth int) {
	n := b.tp.Weighted(5, 2)
	for i := 0; i <= n; i++ {
		if i > 0 {
			b.w(" OR ")
		}
		b.andExpr(depth)
	}
}

var timeLiterals = []string{"-30m", "now", "2026-07-06T10:00:00Z", "-1h", "2000-01-01T00:00:00.123456789+08:00"}

func (b *builder) timeValue(where string) {
	if b.isParam() {
		b.ph(slot{kind: skTime, where: where})
		return
	}
	b.w(quote(simcore.Pick(b.tp, timeLiterals), false))
}

func (b *builder) timeClause() {
	switch b.tp.Weighted(3, 4, 3) {
	case 1:
		op := simcore.Pick(b.tp, []string{">", "<", "=", ">=", "<="})
		b.w(" TIME " + op + " ")
		b.timeValue("TIME" + op)
	case 2:
		b.w(" TIME BETWEEN ")
		b.timeValue("TIME BETWEEN begin")
		b.w(" AND ")
		b.timeValue("TIME BETWEEN end")
	}
}

func (b *builder) count(keyword, where string, max int64, lits []string) {
	b.w(keyword + " ")
	if b.isParam() {
		b.ph(slot{kind: skCount, where: where, max: max})
		return
	}
	b.w(simcore.Pick(b.tp, lits))
}

func (b *builder) from() {
	b.w(" FROM " + b.cat.keyword + " " + b.cat.resource + " IN ")
	switch b.tp.Weighted(4, 1, 1) {
	case 0:
		b.w(simcore.Pick(b.tp, groupNames))
	case 1:
		b.w("g1, g2")
	case 2:
		b.w("(g2, g1)")
	}
	switch b.tp.Weighted(6, 1, 1) {
	case 1:
		b.w(" ON hot STAGES")
	case 2:
		b.w(" ON (hot, warm) STAGES")
	}
}

// genTemplate draws one statement template. Clause order follows GrammarSelectStatement /
// GrammarTopNStatement; placeholders appear in every position whose grammar node has a Param field.
func genTemplate(tp *simcore.Tape) *template {
	b := &builder{tp: tp, cat: catalogs[tp.Choose(len(catalogs))]}
	b.paramBias = []int{5, 8, 3, 0}[tp.Weighted(6, 2, 2, 1)]
	t := &template{cat: b.cat}
	cat := b.cat
	if cat.kind == "topn" {
		b.count("SHOW TOP", "SHOW TOP", math.MaxInt32, []string{"5", "10", "1"})
		b.from()
		b.timeClause()
		if tp.Bool(2, 3) {
			b.w(" WHERE ")
			b.andExpr(0)
		}
		if tp.Bool(1, 3) {
			b.w(" AGGREGATE BY " + simcore.Pick(tp, []string{"SUM", "MAX", "MEAN", "COUNT", "MIN"}))
		}
		if tp.Bool(1, 3) {
			b.w(" ORDER BY " + simcore.Pick(tp, []string{"DESC", "ASC"}))
		}
		if tp.Bool(1, 6) {
			b.w(" WITH QUERY_TRACE")
		}
	} else {
		b.w("SELECT ")
		groupBy := ""
		switch {
		case cat.kind == "measure" && tp.Bool(1, 4):
			b.count("TOP", "SELECT TOP", math.MaxInt32, []string{"3", "10"})
			b.w(" value" + simcore.Pick(tp, []string{"", " DESC", " ASC"}) + ", service")
		case cat.kind == "measure" && tp.Bool(1, 5):
			b.w("service, value, " + simcore.Pick(tp, []string{"SUM", "MAX", "COUNT"}) + "(value)")
			groupBy = " GROUP BY service, value"
		case cat.kind != "trace" && cat.kind != "property" && tp.Bool(1, 3):
			b.w("*")
			t.star = true
		case cat.kind == "property" && tp.Bool(1, 5):
			b.w("*")
			t.star = true
		default:
			n := tp.Range(1, 3)
			var cols []string
			for i := 0; i < n && i < len(cat.tags); i++ {
				cols = append(cols, cat.tags[(i*2)%len(cat.tags)].name)
			}
			if cat.kind == "measure" && tp.Bool(1, 2) {
				cols = append(cols, "value")
			}
			b.w(strings.Join(cols, ", "))
		}
		b.from()
		if cat.kind != "property" {
			b.timeClause()
		}
		if tp.Bool(3, 4) {
			b.w(" WHERE ")
			b.orExpr(0)
		}
		b.w(groupBy)
		if tp.Bool(1, 4) {
			switch {
			case cat.kind == "stream" || cat.kind == "trace":
				b.w(" ORDER BY " + cat.tags[1].name + simcore.Pick(tp, []string{"", " DESC", " ASC"}))
			default:
				b.w(" ORDER BY " + simcore.Pick(tp, []string{"DESC", "ASC"}))
			}
		}
		if tp.Bool(1, 8) {
			b.w(" WITH QUERY_TRACE")
		}
		if tp.Bool(1, 2) {
			b.count(" LIMIT", "LIMIT", math.MaxUint32, []string{"10", "0", "4294967295"})
		}
		if tp.Bool(1, 3) {
			b.count(" OFFSET", "OFFSET", math.MaxUint32, []string{"5", "0"})
		}
	}
	t.parts = append(b.parts, b.cur.String())
	t.slots = b.slots
	return t
}

// ---------------------------------------------------------------------------------------------
// Parameter values.

func sv(s string) *modelv1.TagValue {
	return &modelv1.TagValue{Value: &modelv1.TagValue_Str{Str: &modelv1.Str{Value: s}}}
}

func iv(i int64) *modelv1.TagValue {
	return &modelv1.TagValue{Value: &modelv1.TagValue_Int{Int: &modelv1.Int{Value: i}}}
}

func nullv() *modelv1.TagValue { return &modelv1.TagValue{Value: &modelv1.TagValue_Null{}} }

func sarr(s ...string) *modelv1.TagValue {
	return &modelv1.TagValue{Value: &modelv1.TagValue_StrArray{StrArray: &modelv1.StrArray{Value: s}}}
}

func iarr(i ...int64) *modelv1.TagValue {
	return &modelv1.TagValue{Value: &modelv1.TagValue_IntArray{IntArray: &modelv1.IntArray{Value: i}}}
}

func tsv(sec int64, nanos int32) *modelv1.TagValue {
	return &modelv1.TagValue{Value: &modelv1.TagValue_Timestamp{Timestamp: &timestamppb.Timestamp{Seconds: sec, Nanos: nanos}}}
}

func binv(b []byte) *modelv1.TagValue {
	return &modelv1.TagValue{Value: &modelv1.TagValue_BinaryData{BinaryData: b}}
}

// describe renders a parameter for event logs and samples (deterministic, lossless enough to replay by eye).
func describe(p *modelv1.TagValue) string {
	if p == nil {
		return "<nil>"
	}
	switch v := p.Value.(type) {
	case nil:
		return "<novalue>"
	case *modelv1.TagValue_Str:
		return fmt.Sprintf("str(%q)", v.Str.GetValue())
	case *modelv1.TagValue_Int:
		return fmt.Sprintf("int(%d)", v.Int.GetValue())
	case *modelv1.TagValue_Null:
		return "null"
	case *modelv1.TagValue_StrArray:
		return fmt.Sprintf("strs(%q)", v.StrArray.GetValue())
	case *modelv1.TagValue_IntArray:
		return fmt.Sprintf("ints(%v)", v.IntArray.GetValue())
	case *modelv1.TagValue_Timestamp:
		if v.Timestamp == nil {
			return "ts(<nil>)"
		}
		return fmt.Sprintf("ts(%d,%d)", v.Timestamp.Seconds, v.Timestamp.Nanos)
	case *modelv1.TagValue_BinaryData:
		return fmt.Sprintf("bin(%x)", v.BinaryData)
	}
	return "?"
}

func describeAll(ps []*modelv1.TagValue) string {
	var out []string
	for _, p := range ps {
		out = append(out, describe(p))
	}
	return "[" + strings.Join(out, " ") + "]"
}

// nastyStrings try to escape the quoting, smuggle keywords, comments, statement separators or list syntax.
var nastyStrings = []string{
	"x", "", "it's", `say "hi"`, `back\slash`, `trailing\`, `\'`, `\\'`, `'`, `"`, `''`,
	"' OR '1'='1", "a' OR service_id = 'b", "x') OR (duration > 0", `x" OR "1"="1`, "' LIMIT 1 OFFSET 7 --",
	"1 LIMIT 1", "LIMIT", "OR", "AND", "NULL", "null", "?", "? ?", "-- c", "a -- b", "/* c */", "*/ x /*", ";",
	"a; SELECT * FROM STREAM sw IN g2", "(1,2)", "('a','b')", "a,b", ",", "1", "-5", "0", "9223372036854775808", "1.5", "1e3",
	"日本語", "ü'ü", "line\nbreak", "tab\there", "\x00nul", "now", "-30m", "2026-07-06T10:00:00Z", " ", "  lead", "TIME > 'x'", " ",
	"svc-1", "100",
}

var nastyInts = []int64{
	1, 0, -1, 2, 7, 42, 100, -5, math.MaxInt32, math.MaxInt32 + 1, math.MaxUint32, math.MaxUint32 + 1, math.MaxInt64, math.MinInt64, math.MinInt32,
}

var timeStrings = []string{"now", "-30m", "2026-07-06T10:00:00Z", "1h", "2026-07-06T10:00:00.5+02:00", "-15m", "NOW", "-2h", "2001-02-03T04:05:06Z", "yesterday", "", "now' OR '1'='1"}

func genString(tp *simcore.Tape) string { return simcore.Pick(tp, nastyStrings) }

func genInt(tp *simcore.Tape) int64 {
	if tp.Bool(1, 4) {
		return int64(tp.Range(0, 2000)) - 100
	}
	return simcore.Pick(tp, nastyInts)
}

// genParam draws a parameter for one slot: the natural, well-typed kind of value for the position (whose
// contents are still hostile strings and extreme integers), or, when wild, any type at all.
func genParam(tp *simcore.Tape, s slot, wild bool) *modelv1.TagValue {
	natural := func() *modelv1.TagValue {
		switch s.kind {
		case skCount:
			if tp.Bool(1, 5) {
				return iv(simcore.Pick(tp, nastyInts))
			}
			return iv(int64(tp.Range(1, 50)))
		case skTime:
			if tp.Bool(1, 4) {
				return tsv(int64(tp.Range(0, 4_000_000_000)), int32(tp.Choose(3))*499_999_999)
			}
			return sv(simcore.Pick(tp, timeStrings))
		}
		isInt := s.tag == tInt || s.tag == tIntArr
		if s.kind != skScalar && tp.Bool(1, 3) {
			n := tp.Range(1, 3)
			if isInt {
				var xs []int64
				for i := 0; i < n; i++ {
					xs = append(xs, genInt(tp))
				}
				return iarr(xs...)
			}
			var xs []string
			for i := 0; i < n; i++ {
				xs = append(xs, genString(tp))
			}
			return sarr(xs...)
		}
		if isInt && !tp.Bool(1, 5) {
			return iv(genInt(tp))
		}
		return sv(genString(tp))
	}
	if !wild {
		return natural()
	}
	switch tp.Weighted(4, 3, 2, 1, 1, 1, 1, 1, 1) {
	case 1:
		return sv(genString(tp))
	case 2:
		return iv(genInt(tp))
	case 3:
		return nullv()
	case 4:
		n := tp.Range(0, 3)
		xs := []string{}
		for i := 0; i < n; i++ {
			xs = append(xs, genString(tp))
		}
		return sarr(xs...)
	case 5:
		n := tp.Range(0, 3)
		xs := []int64{}
		for i := 0; i < n; i++ {
			xs = append(xs, genInt(tp))
		}
		return iarr(xs...)
	case 6:
		return tsv(int64(tp.Range(0, 2_000_000_000)), 0)
	case 7:
		return binv([]byte("ab'c"))
	case 8:
		switch tp.Choose(5) {
		case 0:
			return &modelv1.TagValue{} // no value set
		case 1:
			return nil
		case 2:
			return tsv(1, 2_000_000_000) // nanos out of range
		case 3:
			return tsv(300_000_000_000, 0) // year > 9999
		default:
			return &modelv1.TagValue{Value: &modelv1.TagValue_Timestamp{}} // nil inner timestamp
		}
	}
	return natural()
}

// genParams draws a parameter list for a template; malformed reports a deliberately wrong count.
func genParams(tp *simcore.Tape, t *template) (ps []*modelv1.TagValue, malformed string) {
	// mode 0: every parameter well-typed for its position; 1: one position gets an arbitrary type; 2: all arbitrary
	mode := tp.Weighted(5, 3, 2)
	wildAt := -1
	if mode == 1 && len(t.slots) > 0 {
		wildAt = tp.Choose(len(t.slots))
	}
	for i, s := range t.slots {
		ps = append(ps, genParam(tp, s, mode == 2 || i == wildAt))
	}
	switch tp.Weighted(10, 1, 1, 1) {
	case 1:
		if len(ps) > 0 {
			return ps[:len(ps)-1], "missing"
		}
		return append(ps, sv("x")), "surplus"
	case 2:
		return append(ps, iv(1)), "surplus"
	case 3:
		if len(ps) > 0 {
			return nil, "missing"
		}
	}
	return ps, ""
}

// ---------------------------------------------------------------------------------------------
// The harness's own literal renderer.

// quote writes s as a BydbQL String token: the lexer accepts '(?:[^'\\]|\\.)*' or the double-quoted
// twin and decodes escapes with strconv.UnquoteChar, so only the backslash and the active quote need
// escaping; every other byte (newline, NUL, the other quote, `?`, `--`) stands for itself.
func quote(s string, dbl bool) string {
	q := byte('\'')
	if dbl {
		q = '"'
	}
	var b strings.Builder
	b.WriteByte(q)
	for i := 0; i < len(s); i++ {
		if s[i] == '\\' || s[i] == q {
			b.WriteByte('\\')
		}
		b.WriteByte(s[i])
	}
	b.WriteByte(q)
	return b.String()
}

// literal classes.
const (
	litStrict  = iota // a literal spelling exists: bound result must equal the literal result (or both fail)
	litLenient        // a literal spelling exists but the position does not demand this type: binder may refuse
	litAgree          // no literal spelling, not clearly ill-typed (empty array): the two bound paths must only agree
	litNone           // ill-typed for the position: must be rejected at bind time
)

func scalarLiteral(p *modelv1.TagValue, dbl bool) (string, bool) {
	switch v := p.GetValue().(type) {
	case *modelv1.TagValue_Str:
		return quote(v.Str.GetValue(), dbl), true
	case *modelv1.TagValue_Int:
		return strconv.FormatInt(v.Int.GetValue(), 10), true
	case *modelv1.TagValue_Null:
		return "NULL", true
	}
	return "", false
}

func arrayLiterals(p *modelv1.TagValue, dbl bool) ([]string, bool) {
	switch v := p.GetValue().(type) {
	case *modelv1.TagValue_StrArray:
		out := []string{}
		for _, s := range v.StrArray.GetValue() {
			out = append(out, quote(s, dbl))
		}
		return out, true
	case *modelv1.TagValue_IntArray:
		out := []string{}
		for _, i := range v.IntArray.GetValue() {
			out = append(out, strconv.FormatInt(i, 10))
		}
		return out, true
	}
	return nil, false
}

func validTimestamp(ts *timestamppb.Timestamp) bool {
	return ts != nil && ts.Seconds >= -62135596800 && ts.Seconds <= 253402300799 && ts.Nanos >= 0 && ts.Nanos < 1_000_000_000
}

// literalFor spells parameter p as it would be written in place of the `?` of slot s.
func literalFor(s slot, p *modelv1.TagValue, dbl bool) (string, int) {
	if p == nil || p.GetValue() == nil {
		return "", litNone
	}
	switch s.kind {
	case skCount:
		if v, ok := p.GetValue().(*modelv1.TagValue_Int); ok {
			return strconv.FormatInt(v.Int.GetValue(), 10), litStrict
		}
		return "", litNone
	case skTime:
		switch v := p.GetValue().(type) {
		case *modelv1.TagValue_Str:
			return quote(v.Str.GetValue(), dbl), litStrict
		case *modelv1.TagValue_Timestamp:
			if !validTimestamp(v.Timestamp) {
				return "", litNone
			}
			return quote(time.Unix(v.Timestamp.Seconds, int64(v.Timestamp.Nanos)).UTC().Format(time.RFC3339Nano), dbl), litStrict
		case *modelv1.TagValue_Int:
			return strconv.FormatInt(v.Int.GetValue(), 10), litLenient
		}
		return "", litNone
	case skScalar:
		if l, ok := scalarLiteral(p, dbl); ok {
			return l, litStrict
		}
		return "", litNone
	case skListElem, skSingleList:
		if l, ok := scalarLiteral(p, dbl); ok {
			return l, litStrict
		}
		ls, ok := arrayLiterals(p, dbl)
		if !ok {
			return "", litNone
		}
		if len(ls) == 0 {
			return "", litAgree
		}
		if s.kind == skSingleList && len(ls) > 1 {
			return "(" + strings.Join(ls, ", ") + ")", litStrict
		}
		return strings.Join(ls, ", "), litStrict
	}
	return "", litNone
}

// literalText substitutes every placeholder; class is the weakest obligation among the parameters.
func literalText(t *template, ps []*modelv1.TagValue, dbl bool) (string, int) {
	class := litStrict
	var b strings.Builder
	for i, s := range t.slots {
		b.WriteString(t.parts[i])
		l, c := literalFor(s, ps[i], dbl)
		if c > class {
			class = c
		}
		b.WriteString(l)
	}
	b.WriteString(t.parts[len(t.slots)])
	return b.String(), class
}

// benignLike maps a parameter to an inert value of the same type and arity (for the shape oracle).
func benignLike(s slot, p *modelv1.TagValue) *modelv1.TagValue {
	switch v := p.GetValue().(type) {
	case *modelv1.TagValue_Str:
		if s.kind == skTime {
			return sv("now")
		}
		return sv("1")
	case *modelv1.TagValue_Int:
		if v.Int.GetValue() == 0 {
			return iv(0)
		}
		return iv(1)
	case *modelv1.TagValue_StrArray:
		out := make([]string, len(v.StrArray.GetValue()))
		for i := range out {
			out[i] = "1"
		}
		return sarr(out...)
	case *modelv1.TagValue_IntArray:
		out := make([]int64, len(v.IntArray.GetValue()))
		for i := range out {
			out[i] = 1
		}
		return iarr(out...)
	case *modelv1.TagValue_Timestamp:
		return tsv(946684800, 0)
	}
	return p
}
