// Package c20 decides property C20 (bound BydbQL parameters are data, never syntax).
//
// Differential core: for a statement template T with positional placeholders and a parameter list P,
// the request produced by (a) ParseQuery+BindParams+Transform and (b) Prepare+Bind+TransformBound must
// equal the request produced from the text of T in which every `?` is replaced by the literal spelling
// of its parameter (spelled by the harness's own renderer, c20_gen_test.go). Simulation part: prepared
// templates and the liaison's preparedCache are shared by 2-6 client goroutines whose interleaving is
// decided by the tape at gates; every execution must still produce the request of ITS OWN parameters and
// no template may change.
package c20

import (
	"context"
	"crypto/sha256"
	"encoding/hex"
	"encoding/json"
	"fmt"
	"sort"
	"strings"
	"sync"
	"testing"
	"testing/synctest"
	"time"

	"google.golang.org/protobuf/encoding/prototext"
	"google.golang.org/protobuf/proto"
	"google.golang.org/protobuf/reflect/protoreflect"

	measurev1 "github.com/apache/skywalking-banyandb/api/proto/banyandb/measure/v1"
	modelv1 "github.com/apache/skywalking-banyandb/api/proto/banyandb/model/v1"
	propertyv1 "github.com/apache/skywalking-banyandb/api/proto/banyandb/property/v1"
	streamv1 "github.com/apache/skywalking-banyandb/api/proto/banyandb/stream/v1"
	lgrpc "github.com/apache/skywalking-banyandb/banyand/liaison/grpc"
	"github.com/apache/skywalking-banyandb/pkg/bydbql"
	"github.com/apache/skywalking-banyandb/pkg/logger"
	"github.com/apache/skywalking-banyandb/pkg/meter"
	"github.com/apache/skywalking-banyandb/pkg/verif/simcore"
)

func TestSim(t *testing.T) {
	_ = logger.Init(logger.Logging{Env: "prod", Level: "error"})
	simcore.Main(t, "C20", []simcore.Scenario{
		{Name: "sequential-equivalence", Weight: 1, Run: runSequential},
		{Name: "concurrent-binds", Weight: 1, Run: runConcurrent},
	})
}

// bubble runs f inside a synctest bubble; a panic on the bubble's root goroutine becomes a violation
// instead of killing the worker.
func bubble(e *simcore.Env, f func()) {
	synctest.Test(e.T, func(*testing.T) {
		defer func() {
			if r := recover(); r != nil {
				e.Fail("no-panic", "panic-in-bubble", "panic: %v", r)
				simcore.ResetGates()
			}
		}()
		f()
	})
}

// ---------------------------------------------------------------------------------------------
// Outcomes, normalisation, shape.

type outcome struct {
	req   proto.Message
	err   error
	stage string // parse | bind | transform | "" (ok)
	// partial is set when a failed in-place bind left a grammar that Transform nevertheless accepted.
	partial bool
}

func (o outcome) ok() bool { return o.err == nil }

func (o outcome) String() string {
	if o.err != nil {
		return fmt.Sprintf("error at %s: %v", o.stage, o.err)
	}
	return prototext.MarshalOptions{}.Format(o.req)
}

func sortProjection(p *modelv1.TagProjection) {
	if p == nil {
		return
	}
	for _, f := range p.TagFamilies {
		sort.Strings(f.Tags)
	}
	sort.SliceStable(p.TagFamilies, func(i, j int) bool { return p.TagFamilies[i].Name < p.TagFamilies[j].Name })
}

// normalize clones a request; for `SELECT *` templates it sorts the projection, whose order the engine
// takes from a Go map (unspecified, and unrelated to parameters).
func normalize(m proto.Message, star bool) proto.Message {
	c := proto.Clone(m)
	if !star {
		return c
	}
	switch r := c.(type) {
	case *streamv1.QueryRequest:
		sortProjection(r.Projection)
	case *measurev1.QueryRequest:
		sortProjection(r.TagProjection)
		if r.FieldProjection != nil {
			sort.Strings(r.FieldProjection.Names)
		}
	case *propertyv1.QueryRequest:
		sort.Strings(r.TagProjection)
	}
	return c
}

func digest(o outcome) string {
	if o.err != nil {
		return "err@" + o.stage
	}
	b, err := proto.MarshalOptions{Deterministic: true}.Marshal(o.req)
	if err != nil {
		return "marshal-error"
	}
	h := sha256.Sum256(b)
	return string(o.req.ProtoReflect().Descriptor().Name()) + ":" + hex.EncodeToString(h[:6])
}

// blank replaces everything a parameter may legitimately influence by a constant: the contents (not
// the type or arity) of condition values, time-range instants, count magnitudes (zero stays zero) and
// property ids. What remains is the statement's shape: catalog, targets, projection, criteria tree with
// tag names and operators, ordering, aggregation, which clauses are present.
func blank(m protoreflect.Message) {
	switch m.Descriptor().FullName() {
	case "banyandb.model.v1.TagValue":
		tv := m.Interface().(*modelv1.TagValue)
		switch v := tv.Value.(type) {
		case *modelv1.TagValue_Str:
			v.Str = &modelv1.Str{Value: "s"}
		case *modelv1.TagValue_Int:
			v.Int = &modelv1.Int{Value: 1}
		case *modelv1.TagValue_StrArray:
			for i := range v.StrArray.Value {
				v.StrArray.Value[i] = "s"
			}
		case *modelv1.TagValue_IntArray:
			for i := range v.IntArray.Value {
				v.IntArray.Value[i] = 1
			}
		}
		return
	case "banyandb.model.v1.TimeRange":
		tr := m.Interface().(*modelv1.TimeRange)
		tr.Begin, tr.End = nil, nil
		return
	}
	m.Range(func(fd protoreflect.FieldDescriptor, v protoreflect.Value) bool {
		switch {
		case fd.IsMap():
		case fd.Message() != nil && fd.IsList():
			l := v.List()
			for i := 0; i < l.Len(); i++ {
				blank(l.Get(i).Message())
			}
		case fd.Message() != nil:
			blank(v.Message())
		case fd.Name() == "ids" && fd.IsList() && fd.Kind() == protoreflect.StringKind:
			l := v.List()
			for i := 0; i < l.Len(); i++ {
				l.Set(i, protoreflect.ValueOfString("s"))
			}
		case fd.Kind() == protoreflect.Uint32Kind && (fd.Name() == "limit" || fd.Name() == "offset"):
			if v.Uint() != 0 {
				m.Set(fd, protoreflect.ValueOfUint32(1))
			}
		case fd.Kind() == protoreflect.Int32Kind && (fd.Name() == "top_n" || fd.Name() == "number"):
			if v.Int() != 0 {
				m.Set(fd, protoreflect.ValueOfInt32(1))
			}
		}
		return true
	})
}

func shapeOf(m proto.Message) proto.Message {
	c := normalize(m, true)
	blank(c.ProtoReflect())
	return c
}

// ---------------------------------------------------------------------------------------------
// The three ways to obtain a request.

var ctx = context.Background()

// evalLiteral is the reference path: a statement without placeholders.
func evalLiteral(tr *bydbql.Transformer, text string) outcome {
	g, err := bydbql.ParseQuery(text)
	if err != nil {
		return outcome{err: err, stage: "parse"}
	}
	if err = bydbql.BindParams(g, nil); err != nil {
		return outcome{err: err, stage: "bind"}
	}
	r, err := tr.Transform(ctx, g)
	if err != nil {
		return outcome{err: err, stage: "transform"}
	}
	return outcome{req: r.QueryRequest}
}

// evalOneShot is the one-shot binder: ParseQuery + BindParams + Transform. between is called between
// the stages (gate sites of the concurrent scenario).
func evalOneShot(tr *bydbql.Transformer, text string, nslots int, ps []*modelv1.TagValue, between func(string)) outcome {
	g, err := bydbql.ParseQuery(text)
	if err != nil {
		return outcome{err: err, stage: "parse"}
	}
	between("after.Parse")
	if err = bydbql.BindParams(g, ps); err != nil {
		// rejected: the grammar must not be usable as if it were bound
		o := outcome{err: err, stage: "bind"}
		if bydbql.VerifParamsBound(g) {
			o.partial = true
		}
		// (a statement without placeholders has nothing to bind partially: it is still its literal self)
		if _, terr := tr.Transform(ctx, g); terr == nil && nslots > 0 {
			o.partial = true
		}
		return o
	}
	between("after.BindParams")
	r, err := tr.Transform(ctx, g)
	if err != nil {
		return outcome{err: err, stage: "transform"}
	}
	return outcome{req: r.QueryRequest}
}

// evalPrepared binds a (shared) prepared statement and transforms the bound query.
func evalPrepared(tr *bydbql.Transformer, stmt *bydbql.PreparedStatement, ps []*modelv1.TagValue, between func(string)) outcome {
	bq, err := stmt.Bind(ps)
	if err != nil {
		o := outcome{err: err, stage: "bind"}
		if bq != nil {
			if _, terr := tr.TransformBound(ctx, bq); terr == nil {
				o.partial = true
			}
		}
		return o
	}
	between("after.Bind")
	r, err := tr.TransformBound(ctx, bq)
	if err != nil {
		return outcome{err: err, stage: "transform"}
	}
	return outcome{req: r.QueryRequest}
}

func noGate(string) {}

// snapshot is the structural identity of a prepared template: every exported grammar field (values,
// Param flags, ParamIndex, list lengths, positions) plus the placeholder specs.
func snapshot(stmt *bydbql.PreparedStatement) string {
	b, err := json.Marshal(bydbql.VerifTemplate(stmt))
	if err != nil {
		return "json-error:" + err.Error()
	}
	return string(b) + "|" + bydbql.VerifSpecs(stmt) + "|bound=" + fmt.Sprint(bydbql.VerifParamsBound(bydbql.VerifTemplate(stmt)))
}

// ---------------------------------------------------------------------------------------------
// Expectation (computed sequentially, outside any race) and verdict.

type expectation struct {
	malformed string // "", missing, surplus
	lit       string
	want      outcome
	benign    outcome
	class     int
	hasBenign bool
}

func expect(tr *bydbql.Transformer, t *template, ps []*modelv1.TagValue, malformed string, dbl bool) *expectation {
	x := &expectation{malformed: malformed}
	if len(ps) != len(t.slots) {
		x.class = litNone
		if x.malformed == "" {
			x.malformed = "count"
		}
		return x
	}
	x.lit, x.class = literalText(t, ps, dbl)
	if x.class == litNone || x.class == litAgree {
		x.lit = ""
		return x
	}
	x.want = evalLiteral(tr, x.lit)
	bp := make([]*modelv1.TagValue, len(ps))
	for i, p := range ps {
		bp[i] = benignLike(t.slots[i], p)
	}
	bl, bc := literalText(t, bp, false)
	if bc == litStrict || bc == litLenient {
		x.benign = evalLiteral(tr, bl)
		x.hasBenign = x.benign.ok()
	}
	return x
}

var classNames = []string{"strict", "lenient", "agree", "must-reject"}

// judge applies the C20 oracles to one execution through one or two bound paths. Returns true when the
// execution was accepted and compared equal (the non-trivial case).
func judge(e *simcore.Env, t *template, ps []*modelv1.TagValue, x *expectation, paths map[string]outcome) bool {
	names := simcore.SortedKeys(paths)
	what := func() string {
		return fmt.Sprintf("statement: %s\nparams: %s\nliteral form: %s", t.text(), describeAll(ps), x.lit)
	}
	for _, n := range names {
		if paths[n].partial {
			e.Fail("rejected-whole", "partially-bound-after-reject:"+n, "%s path rejected the parameters (%v) but left a statement that transforms\n%s", n, paths[n].err, what())
			return false
		}
	}
	switch x.class {
	case litNone:
		for _, n := range names {
			o := paths[n]
			if o.ok() {
				e.Fail("ill-formed-rejected", "accepted-ill-formed-params:"+n+":"+rejectReason(t, ps, x),
					"%s path accepted an ill-formed parameter list (%s)\n%s\nresult: %s", n, rejectReason(t, ps, x), what(), o)
				return false
			}
			if o.stage != "bind" {
				e.Fail("ill-formed-rejected", "ill-formed-params-not-rejected-at-bind:"+n,
					"%s path failed at %s instead of rejecting the parameters at bind time (%s): %v\n%s", n, o.stage, rejectReason(t, ps, x), o.err, what())
				return false
			}
		}
		if x.malformed != "" {
			e.Probe("reach.rejected_param_count")
		} else {
			e.Probe("reach.rejected_ill_typed")
		}
		return false
	case litAgree:
		agree(e, t, names, paths, what)
		return false
	}
	// a literal spelling exists
	if x.class == litLenient {
		rejected := 0
		for _, n := range names {
			if !paths[n].ok() && paths[n].stage == "bind" {
				rejected++
			}
		}
		if rejected == len(names) {
			e.Probe("reach.rejected_lenient")
			return false
		}
		if rejected > 0 {
			agree(e, t, names, paths, what)
			return false
		}
	}
	if !x.want.ok() {
		for _, n := range names {
			if paths[n].ok() {
				e.Fail("literal-equivalence", "bound-accepts-what-literal-rejects:"+n,
					"the literal statement is rejected (%s: %v) but the %s path produced a request\n%s\nresult: %s", x.want.stage, x.want.err, n, what(), paths[n])
				return false
			}
		}
		e.Probe("reach.both_rejected_like_literal")
		return false
	}
	want := normalize(x.want.req, t.star)
	for _, n := range names {
		o := paths[n]
		if !o.ok() {
			e.Fail("literal-equivalence", "bound-rejects-what-literal-accepts:"+n+":"+o.stage,
				"the literal statement transforms but the %s path failed at %s: %v\n%s", n, o.stage, o.err, what())
			return false
		}
		got := normalize(o.req, t.star)
		if !proto.Equal(want, got) {
			e.Fail("literal-equivalence", "request-differs-from-literal:"+n,
				"%s path produced a different request than the literal statement\n%s\n--- literal:\n%s--- %s:\n%s", n, what(),
				prototext.MarshalOptions{Multiline: true}.Format(want), n, prototext.MarshalOptions{Multiline: true}.Format(got))
			return false
		}
	}
	if x.hasBenign {
		ws := shapeOf(x.benign.req)
		for _, n := range names {
			gs := shapeOf(paths[n].req)
			if !proto.Equal(ws, gs) {
				e.Fail("shape-invariant", "parameter-changed-shape:"+n,
					"%s path: the request shape depends on the parameter values\n%s\n--- shape with inert values:\n%s--- shape with these parameters:\n%s", n, what(),
					prototext.MarshalOptions{Multiline: true}.Format(ws), prototext.MarshalOptions{Multiline: true}.Format(gs))
				return false
			}
		}
		e.Probe("reach.shape_compared")
	}
	e.Probe("reach.equal_to_literal")
	return true
}

func agree(e *simcore.Env, t *template, names []string, paths map[string]outcome, what func() string) bool {
	for i := 1; i < len(names); i++ {
		a, b := paths[names[0]], paths[names[i]]
		if a.ok() != b.ok() || (a.ok() && !proto.Equal(normalize(a.req, t.star), normalize(b.req, t.star))) {
			e.Fail("paths-agree", "one-shot-and-prepared-disagree",
				"%s and %s disagree\n%s\n--- %s: %s\n--- %s: %s", names[0], names[i], what(), names[0], a, names[i], b)
			return false
		}
	}
	e.Probe("reach.paths_agree_no_literal")
	return true
}

func rejectReason(t *template, ps []*modelv1.TagValue, x *expectation) string {
	if len(ps) != len(t.slots) {
		if x.malformed != "" {
			return x.malformed + "-parameter"
		}
		return "count"
	}
	for i, s := range t.slots {
		if _, c := literalFor(s, ps[i], false); c == litNone {
			k := "ill-typed"
			if ps[i] == nil || ps[i].GetValue() == nil {
				k = "no-value"
			}
			return k + "-at-" + slotKindNames[s.kind]
		}
	}
	return "?"
}

func noteValues(e *simcore.Env, ps []*modelv1.TagValue) {
	for _, p := range ps {
		var ss []string
		switch v := p.GetValue().(type) {
		case *modelv1.TagValue_Str:
			ss = []string{v.Str.GetValue()}
		case *modelv1.TagValue_StrArray:
			ss = v.StrArray.GetValue()
			e.Probe("reach.array_param")
		case *modelv1.TagValue_IntArray:
			e.Probe("reach.array_param")
		}
		for _, s := range ss {
			if strings.ContainsAny(s, `'"\`) {
				e.Probe("reach.string_with_quote")
			}
			if strings.Contains(s, "--") || strings.Contains(s, "/*") || strings.Contains(s, ";") {
				e.Probe("reach.string_with_comment_or_separator")
			}
			up := strings.ToUpper(s)
			if strings.Contains(up, "OR") || strings.Contains(up, "LIMIT") || strings.Contains(up, "AND") || up == "NULL" {
				e.Probe("reach.string_with_keyword")
			}
		}
	}
}

// ---------------------------------------------------------------------------------------------
// Scenario (a): sequential equivalence.

func runSequential(e *simcore.Env, tp *simcore.Tape) { bubble(e, func() { sequential(e, tp) }) }

func sequential(e *simcore.Env, tp *simcore.Tape) {
	reg := newRegistry()
	tr := bydbql.NewTransformer(reg)
	nT := tp.Range(1, 3)
	var sample []map[string]any
	for ti := 0; ti < nT && !e.Failed(); ti++ {
		t := genTemplate(tp)
		text := t.text()
		e.Event("template %d: %s slots=%v", ti, text, t.slots)
		stmt, perr := bydbql.Prepare(text)
		_, gerr := bydbql.ParseQuery(text)
		if (perr != nil) != (gerr != nil) {
			e.Fail("paths-agree", "prepare-and-parse-disagree", "Prepare err=%v, ParseQuery err=%v for %s", perr, gerr, text)
			return
		}
		if perr != nil {
			e.Fail("harness", "generated-template-does-not-parse", "%s: %v", text, perr)
			return
		}
		if stmt.NumPlaceholders() != len(t.slots) {
			e.Fail("placeholder-count", "placeholders-miscounted", "%s: statement text has %d placeholders, Prepare counted %d", text, len(t.slots), stmt.NumPlaceholders())
			return
		}
		snap := snapshot(stmt)
		type held struct {
			bq   *bydbql.BoundQuery
			want proto.Message
			desc string
		}
		var deferred []held
		var execs []string
		nE := tp.Range(1, 6)
		for xi := 0; xi < nE && !e.Failed(); xi++ {
			if d := tp.Weighted(6, 2, 1, 1); d > 0 {
				dd := []time.Duration{0, time.Millisecond, 90 * time.Minute, 26 * time.Hour}[d]
				time.Sleep(dd)
				synctest.Wait()
				e.AddSim(dd)
			}
			ps, malformed := genParams(tp, t)
			dbl := tp.Bool(1, 3)
			x := expect(tr, t, ps, malformed, dbl)
			noteValues(e, ps)
			paths := map[string]outcome{
				"one-shot": evalOneShot(tr, text, len(t.slots), ps, noGate),
				"prepared": evalPrepared(tr, stmt, ps, noGate),
			}
			if tp.Bool(1, 4) {
				fresh, err := bydbql.Prepare(text)
				if err == nil {
					paths["prepared-fresh"] = evalPrepared(tr, fresh, ps, noGate)
				}
			}
			e.Step()
			e.Event("exec %d.%d params=%s class=%s literal=%q -> one-shot=%s prepared=%s want=%s", ti, xi, describeAll(ps), classNames[x.class], x.lit,
				digest(normOutcome(paths["one-shot"], t)), digest(normOutcome(paths["prepared"], t)), digest(normOutcome(x.want, t)))
			execs = append(execs, describeAll(ps)+" => "+classNames[x.class])
			if judge(e, t, ps, x, paths) {
				e.Nontrivial()
				// keep some bound queries around and transform them after later binds
				if tp.Bool(1, 3) {
					if bq, err := stmt.Bind(ps); err == nil {
						deferred = append(deferred, held{bq: bq, want: normalize(x.want.req, t.star), desc: describeAll(ps)})
					}
				}
			}
			if s := snapshot(stmt); s != snap {
				e.Fail("template-immutable", "template-changed-by-bind", "the prepared template changed after binding %s\nstatement: %s\nbefore: %s\nafter:  %s", describeAll(ps), text, snap, s)
				return
			}
		}
		for _, h := range deferred {
			if e.Failed() {
				break
			}
			r, err := tr.TransformBound(ctx, h.bq)
			e.Probe("reach.deferred_transform")
			if err != nil {
				e.Fail("no-leak", "held-bound-query-fails-later", "a bound query held across later binds failed: %v\nstatement: %s\nparams: %s", err, text, h.desc)
				return
			}
			// the clock may have moved: only clock-free statements are compared exactly
			if !strings.Contains(text, " TIME ") && !proto.Equal(h.want, normalize(r.QueryRequest, t.star)) {
				e.Fail("no-leak", "held-bound-query-changed", "a bound query held across later binds of the same statement produced a different request\nstatement: %s\nparams: %s\n--- want:\n%s--- got:\n%s",
					text, h.desc, prototext.MarshalOptions{Multiline: true}.Format(h.want), prototext.MarshalOptions{Multiline: true}.Format(normalize(r.QueryRequest, t.star)))
				return
			}
		}
		if fresh, err := bydbql.Prepare(text); err == nil && !e.Failed() {
			if s := snapshot(fresh); s != snap {
				e.Fail("template-immutable", "template-differs-from-fresh-prepare", "statement: %s\nused:  %s\nfresh: %s", text, snap, s)
				return
			}
		}
		sample = append(sample, map[string]any{"statement": text, "executions": execs})
	}
	e.SetSample(sample)
}

func normOutcome(o outcome, t *template) outcome {
	if o.err != nil || o.req == nil {
		if o.err == nil {
			return outcome{err: fmt.Errorf("none"), stage: "none"}
		}
		return o
	}
	return outcome{req: normalize(o.req, t.star)}
}

// ---------------------------------------------------------------------------------------------
// Scenario (b): concurrent binds over shared templates and the liaison's prepared-statement cache.

// gateFactory builds metric instruments that are schedule gates: the cache's emit() calls them from
// inside getOrPrepare (after the lookup on a hit, after store on a miss).
type gateFactory struct{}

type gateInstr struct{ site string }

func (g gateInstr) Inc(float64, ...string)     { gate(g.site) }
func (g gateInstr) Set(float64, ...string)     { gate(g.site) }
func (g gateInstr) Add(float64, ...string)     { gate(g.site) }
func (g gateInstr) Observe(float64, ...string) {}
func (g gateInstr) Delete(...string) bool      { return true }

func gate(site string) {
	if site != "" {
		simcore.Gate(site)
	}
}

func (gateFactory) instr(name string) gateInstr {
	if strings.HasPrefix(name, "bydbql_prepared_cache_") {
		return gateInstr{site: "cache.emit." + strings.TrimPrefix(name, "bydbql_prepared_cache_")}
	}
	return gateInstr{}
}
func (f gateFactory) NewCounter(name string, _ ...string) meter.Counter { return f.instr(name) }
func (f gateFactory) NewGauge(name string, _ ...string) meter.Gauge     { return f.instr(name) }
func (f gateFactory) NewHistogram(name string, _ meter.Buckets, _ ...string) meter.Histogram {
	return f.instr(name)
}
func (gateFactory) Close() {}

var gateSites = []string{
	"cache.emit.total", "cache.emit.hit_ratio", "cache.emit.count", "cache.emit.bytes",
	"after.getOrPrepare", "after.Bind", "after.Transform", "after.Parse", "after.BindParams",
	"registry.GetStream", "registry.GetMeasure", "registry.GetTrace", "registry.GetProperty", "registry.GetTopNAggregation",
}

type op struct {
	t      *template
	x      *expectation
	path   string // cached shared one-shot
	ps     []*modelv1.TagValue
	tIdx   int
	// results
	out          outcome
	cacheResult  string
	tmplMismatch string // template handed out differs structurally from a fresh Prepare of the same text
	interleaved  bool
	done         bool
}

func runConcurrent(e *simcore.Env, tp *simcore.Tape) { bubble(e, func() { concurrent(e, tp) }) }

func concurrent(e *simcore.Env, tp *simcore.Tape) {
	reg := newRegistry()
	tr := bydbql.NewTransformer(reg)
	// templates; some are textual near-twins (same statement, different spacing or one different
	// literal) so that a cache confusing two keys hands out the wrong statement.
	nT := tp.Range(1, 4)
	var tmpls []*template
	for len(tmpls) < nT {
		t := genTemplate(tp)
		if _, err := bydbql.Prepare(t.text()); err != nil {
			e.Fail("harness", "generated-template-does-not-parse", "%s: %v", t.text(), err)
			return
		}
		tmpls = append(tmpls, t)
		if len(tmpls) < nT && tp.Bool(1, 3) {
			tw := &template{cat: t.cat, star: t.star, slots: t.slots, parts: append([]string(nil), t.parts...)}
			last := len(tw.parts) - 1
			if tp.Bool(1, 2) {
				tw.parts[last] += " "
			} else {
				tw.parts[0] = strings.Replace(tw.parts[0], " IN g1", " IN g2", 1)
				if tw.parts[0] == t.parts[0] {
					tw.parts[0] = " " + tw.parts[0]
				}
			}
			tmpls = append(tmpls, tw)
			e.Probe("reach.twin_templates")
		}
	}
	fresh := make([]string, len(tmpls))
	shared := make([]*bydbql.PreparedStatement, len(tmpls))
	costs := make([]int, len(tmpls))
	for i, t := range tmpls {
		f, _ := bydbql.Prepare(t.text())
		fresh[i] = snapshot(f)
		shared[i], _ = bydbql.Prepare(t.text())
		costs[i] = len(t.text()) + f.EstimatedSize()
		e.Event("template %d: %s slots=%v", i, t.text(), t.slots)
	}
	sortedCosts := append([]int(nil), costs...)
	sort.Ints(sortedCosts)
	// cache configuration: count bound 0/1/2/n/large, byte bound none/too small for anything/one entry/two entries
	size := []int{2, 1, 0, len(tmpls), len(tmpls) + 5}[tp.Weighted(3, 3, 1, 2, 1)]
	maxBytes := 0
	switch tp.Weighted(4, 1, 2, 3, 1) {
	case 1:
		maxBytes = sortedCosts[0] - 1
	case 2:
		maxBytes = sortedCosts[0]
	case 3:
		maxBytes = sortedCosts[len(sortedCosts)-1] + sortedCosts[0]/2
	case 4:
		maxBytes = 1
	}
	// the cache's metric instruments are the gate sites inside getOrPrepare; some runs use no metrics
	var cache *lgrpc.VerifPreparedCache
	withMetrics := !tp.Bool(1, 5)
	if withMetrics {
		cache = lgrpc.VerifNewPreparedCache(size, maxBytes, gateFactory{})
	} else {
		cache = lgrpc.VerifNewPreparedCache(size, maxBytes, nil)
	}
	nClients := tp.Range(2, 6)
	armAll := tp.Bool(1, 3)
	armed := map[string]bool{}
	for _, s := range gateSites {
		armed[s] = armAll || tp.Bool(1, 2)
	}
	e.Event("config clients=%d cache.size=%d cache.maxBytes=%d metrics=%v costs=%v armed=%v", nClients, size, maxBytes, withMetrics, costs, armedList(armed))
	progs := make([][]*op, nClients)
	var sample []map[string]any
	for c := range progs {
		n := tp.Range(1, 4)
		for k := 0; k < n; k++ {
			ti := tp.Choose(len(tmpls))
			t := tmpls[ti]
			ps, malformed := genParams(tp, t)
			o := &op{t: t, tIdx: ti, ps: ps, path: []string{"cached", "shared", "one-shot"}[tp.Weighted(5, 3, 2)]}
			o.x = expect(tr, t, ps, malformed, tp.Bool(1, 3))
			noteValues(e, ps)
			progs[c] = append(progs[c], o)
			e.Event("client %d op %d: template %d via %s params=%s class=%s want=%s", c, k, ti, o.path, describeAll(ps), classNames[o.x.class], digest(normOutcome(o.x.want, t)))
			sample = append(sample, map[string]any{"client": c, "statement": t.text(), "path": o.path, "params": describeAll(ps), "class": classNames[o.x.class]})
		}
	}
	e.SetSample(map[string]any{"cache_size": size, "cache_max_bytes": maxBytes, "clients": nClients, "ops": sample})

	// bindSeq[t] counts binds on template t: an execution whose Bind..Transform window saw another
	// client's bind on the same template was really interleaved.
	var mu sync.Mutex
	bindSeq := make([]int, len(tmpls))
	bump := func(i int) int { mu.Lock(); defer mu.Unlock(); bindSeq[i]++; return bindSeq[i] }
	read := func(i int) int { mu.Lock(); defer mu.Unlock(); return bindSeq[i] }

	simcore.EnableGates(func(_, site string) bool { return site == "op.start" || armed[site] })
	var wg sync.WaitGroup
	for c := 0; c < nClients; c++ {
		wg.Add(1)
		go func(c int) {
			defer wg.Done()
			simcore.SetActor(fmt.Sprintf("c%d", c))
			defer simcore.ClearActor()
			defer func() {
				if r := recover(); r != nil {
					e.Fail("no-panic", "panic-in-client", "client %d panicked: %v", c, r)
				}
			}()
			for _, o := range progs[c] {
				simcore.Gate("op.start")
				text := o.t.text()
				var mine int
				between := func(site string) {
					if site == "after.Bind" || site == "after.BindParams" {
						mine = bump(o.tIdx)
					}
					simcore.Gate(site)
				}
				switch o.path {
				case "one-shot":
					o.out = evalOneShot(tr, text, len(o.t.slots), o.ps, between)
				default:
					stmt := shared[o.tIdx]
					if o.path == "cached" {
						var err error
						stmt, o.cacheResult, err = cache.GetOrPrepare(text)
						if err != nil {
							o.out = outcome{err: err, stage: "parse"}
							break
						}
						simcore.Gate("after.getOrPrepare")
					}
					if s := snapshot(stmt); s != fresh[o.tIdx] {
						o.tmplMismatch = "before bind: " + s
					}
					o.out = evalPrepared(tr, stmt, o.ps, between)
					if s := snapshot(stmt); s != fresh[o.tIdx] && o.tmplMismatch == "" {
						o.tmplMismatch = "after transform: " + s
					}
				}
				if mine != 0 && read(o.tIdx) != mine {
					o.interleaved = true
				}
				simcore.Gate("after.Transform")
				o.done = true
			}
		}(c)
	}
	// driver: at every quiescent point the tape picks which parked client proceeds
	steps := 0
	for {
		synctest.Wait()
		parked := simcore.ParkedList()
		if len(parked) == 0 {
			break
		}
		p := parked[tp.Choose(len(parked))]
		e.Event("release %s@%s (of %d parked)", p.Actor, p.Site, len(parked))
		e.Step()
		steps++
		simcore.Release(p)
		if steps > 20000 {
			e.Fail("harness", "driver-step-limit", "more than 20000 driver steps")
			simcore.ResetGates()
			break
		}
	}
	wg.Wait()
	simcore.ResetGates()

	// verdicts, in program order
	for c, prog := range progs {
		for k, o := range prog {
			if e.Failed() {
				return
			}
			if !o.done {
				e.Fail("harness", "op-did-not-finish", "client %d op %d did not finish", c, k)
				return
			}
			e.Event("result client %d op %d: %s cache=%q", c, k, digest(normOutcome(o.out, o.t)), o.cacheResult)
			switch o.cacheResult {
			case "hit":
				e.Probe("reach.cache_hit")
			case "miss":
				e.Probe("reach.cache_miss")
			case "reparse":
				e.Probe("reach.cache_reparse")
				if maxBytes <= 0 || costs[o.tIdx] <= maxBytes {
					e.Probe("reach.cache_evicted") // cacheable, was cached before, had to be compiled again
				} else {
					e.Probe("reach.cache_statement_too_big")
				}
			case "bypass":
				e.Probe("reach.cache_bypass")
			case "":
				if o.path == "cached" {
					e.Probe("reach.cache_disabled")
				}
			}
			if o.tmplMismatch != "" {
				e.Fail("template-immutable", "shared-template-not-identical-to-fresh-prepare:"+o.path,
					"client %d op %d (%s path): the template used for %q is not structurally identical to a fresh Prepare of the same text\nfresh: %s\n%s",
					c, k, o.path, o.t.text(), fresh[o.tIdx], o.tmplMismatch)
				return
			}
			if o.interleaved {
				e.Probe("reach.gate_interleaved_bind")
				e.Nontrivial()
			}
			if judge(e, o.t, o.ps, o.x, map[string]outcome{o.path: o.out}) && o.path != "one-shot" {
				e.Probe("reach.shared_template_execution_checked")
			}
		}
	}
	// every template still identical; whatever the cache holds is the statement of its key
	for i := range tmpls {
		if s := snapshot(shared[i]); s != fresh[i] {
			e.Fail("template-immutable", "shared-template-changed", "template %d (%s) changed\nfresh: %s\nnow:   %s", i, tmpls[i].text(), fresh[i], s)
			return
		}
	}
	entries, curBytes, hits, misses := cache.Stats()
	keys := cache.Keys()
	e.Event("cache end: entries=%d bytes=%d hits=%d misses=%d keys=%d", entries, curBytes, hits, misses, len(keys))
	for _, k := range keys {
		idx := -1
		for i, t := range tmpls {
			if t.text() == k {
				idx = i
			}
		}
		if idx < 0 {
			e.Fail("cache-keyed-by-text", "cache-holds-unknown-key", "cache holds key %q that no client sent", k)
			return
		}
		if s := snapshot(cache.Peek(k)); s != fresh[idx] {
			e.Fail("template-immutable", "cached-template-not-identical-to-fresh-prepare", "cached statement for %q\nfresh:  %s\ncached: %s", k, fresh[idx], s)
			return
		}
	}
	if size > 0 && entries > size {
		e.Fail("cache-bound", "cache-exceeds-count-bound", "cache holds %d entries with size %d", entries, size)
		return
	}
	_ = misses
}

func armedList(m map[string]bool) []string {
	var out []string
	for _, k := range simcore.SortedKeys(m) {
		if m[k] {
			out = append(out, k)
		}
	}
	return out
}
