// Package c09 decides property C09 (ordered results are globally sorted; limit/offset is a window of them).
package c09

import (
	"github.com/apache/skywalking-banyandb/banyand/internal/verif/simknobs"
	"fmt"
	"sort"
	"strings"
	"testing"
	"testing/synctest"
	"time"

	databasev1 "github.com/apache/skywalking-banyandb/api/proto/banyandb/database/v1"
	measurev1 "github.com/apache/skywalking-banyandb/api/proto/banyandb/measure/v1"
	modelv1 "github.com/apache/skywalking-banyandb/api/proto/banyandb/model/v1"
	"github.com/apache/skywalking-banyandb/banyand/internal/verif/sidxsim"
	"github.com/apache/skywalking-banyandb/banyand/internal/verif/simmeta"
	"github.com/apache/skywalking-banyandb/banyand/internal/verif/simnode"
	"github.com/apache/skywalking-banyandb/banyand/internal/verif/wl"
	"github.com/apache/skywalking-banyandb/pkg/verif/simcore"
)

func TestSim(t *testing.T) {
	simnode.InitLogging()
	simcore.Main(t, "C09", []simcore.Scenario{
		{Name: "stream-order", Weight: 3, Run: runStream},
		{Name: "measure-order", Weight: 2, Run: runMeasure},
		{Name: "sidx-steps", Weight: 2, Run: sidxsim.Run("ordered-window", true)},
		{Name: "cluster-measure-order", Weight: 1, Run: runMeasureCluster},
	})
}

// sortKey of a row: (kind, int, string); time keys use the int.
type sortKey struct {
	s string
	i int64
}

func less(a, b sortKey) bool {
	if a.i != b.i {
		return a.i < b.i
	}
	return a.s < b.s
}

type keyed struct {
	key sortKey
	wid int64
}

// checkWindow decides whether `got` (write ids in returned order) is the window [offset, offset+limit) of SOME
// admissible total order of `full` sorted by key (ties in any order). Returns class, message ("" = fine).
func checkWindow(full []keyed, got []int64, asc bool, offset, limit int) (string, string) {
	byWid := map[int64]sortKey{}
	for _, r := range full {
		byWid[r.wid] = r.key
	}
	seen := map[int64]bool{}
	var gk []sortKey
	for _, w := range got {
		k, ok := byWid[w]
		if !ok {
			return "row-outside-result", fmt.Sprintf("returned write #%d does not belong to the full result", w)
		}
		if seen[w] {
			return "duplicate-row", fmt.Sprintf("write #%d returned twice", w)
		}
		seen[w] = true
		gk = append(gk, k)
	}
	for i := 1; i < len(gk); i++ {
		bad := less(gk[i], gk[i-1])
		if !asc {
			bad = less(gk[i-1], gk[i])
		}
		if bad {
			return "not-sorted", fmt.Sprintf("rows %d and %d (writes #%d, #%d) are out of order: keys %v then %v", i-1, i, got[i-1], got[i], gk[i-1], gk[i])
		}
	}
	wantLen := min(limit, max(0, len(full)-offset))
	if len(got) != wantLen {
		return "wrong-window-size", fmt.Sprintf("full result has %d rows, offset %d limit %d must return %d rows, got %d", len(full), offset, limit, wantLen, len(got))
	}
	// per distinct key: how many rows with that key must fall inside the window
	sorted := append([]keyed(nil), full...)
	sort.SliceStable(sorted, func(i, j int) bool {
		if asc {
			return less(sorted[i].key, sorted[j].key)
		}
		return less(sorted[j].key, sorted[i].key)
	})
	gotPerKey := map[sortKey]int{}
	for _, k := range gk {
		gotPerKey[k]++
	}
	for i := 0; i < len(sorted); {
		j := i
		for j < len(sorted) && sorted[j].key == sorted[i].key {
			j++
		}
		lo, hi := max(i, offset), min(j, offset+wantLen)
		need := max(0, hi-lo)
		if gotPerKey[sorted[i].key] != need {
			return "not-the-window", fmt.Sprintf("rows with sort key %v occupy positions [%d,%d) of the ordered result; the window [%d,%d) must contain %d of them but the answer has %d",
				sorted[i].key, i, j, offset, offset+wantLen, need, gotPerKey[sorted[i].key])
		}
		i = j
	}
	return "", ""
}

func tagKey(v *modelv1.TagValue) sortKey {
	if iv := v.GetInt(); iv != nil {
		return sortKey{i: iv.GetValue()}
	}
	return sortKey{s: v.GetStr().GetValue()}
}

type oq struct {
	crit          *wl.Crit
	rule          string // index rule name, "" = time
	tag           string
	asc           bool
	offset, limit int
	lo, hi        int64
}

func (q oq) String() string {
	by := "time"
	if q.rule != "" {
		by = q.tag
	}
	d := "desc"
	if q.asc {
		d = "asc"
	}
	w := ""
	if q.crit != nil {
		w = " where " + q.crit.String()
	}
	return fmt.Sprintf("order by %s %s offset %d limit %d over [%d,%d]%s", by, d, q.offset, q.limit, q.lo, q.hi, w)
}

func genOrderQueries(tp *simcore.Tape, n int, orderTags [][2]string, tsOf []int64, tags []wl.TagSpec, rowTags []map[string]*modelv1.TagValue, skipping map[string]bool) []oq {
	lo, hi := int64(1<<62), int64(0)
	for _, t := range tsOf {
		lo, hi = min(lo, t), max(hi, t)
	}
	var qs []oq
	for i := 0; i < n; i++ {
		q := oq{asc: tp.Bool(1, 2), lo: lo, hi: hi}
		if len(orderTags) > 0 && tp.Bool(1, 2) {
			ot := orderTags[tp.Choose(len(orderTags))]
			q.rule, q.tag = ot[0], ot[1]
		}
		if tp.Bool(1, 3) {
			a, b := tsOf[tp.Choose(len(tsOf))], tsOf[tp.Choose(len(tsOf))]
			q.lo, q.hi = min(a, b), max(a, b)
		}
		if tp.Bool(1, 3) { // a filter on non-entity tags: the window is a window of the FILTERED ordered result
			q.crit = wl.GenEq(tp, tags, rowTags, func(t wl.TagSpec) bool { return !t.Entity && !t.Indexed && !skipping[t.Name] })
		}
		cnt := 0
		for i, t := range tsOf {
			if t >= q.lo && t <= q.hi && q.crit.Eval(rowTags[i]) {
				cnt++
			}
		}
		switch tp.Weighted(3, 2, 2, 1) {
		case 0:
			q.offset = 0
		case 1:
			q.offset = tp.Choose(max(cnt, 1))
		case 2:
			q.offset = max(0, cnt-tp.Choose(3))
		default:
			q.offset = cnt + tp.Choose(3)
		}
		switch tp.Weighted(2, 3, 2) {
		case 0:
			q.limit = tp.Range(1, 3)
		case 1:
			q.limit = tp.Range(1, max(cnt, 1))
		default:
			q.limit = max(1, cnt+tp.Range(0, 5))
		}
		qs = append(qs, q)
	}
	return qs
}

func runStream(e *simcore.Env, tp *simcore.Tape) {
	synctest.Test(e.T, func(*testing.T) {
		knobDesc, knobRestore := simknobs.Draw(tp, "stream")
		defer knobRestore()
		simknobs.Record(e, knobDesc)
		s := wl.GenStreamSchema(tp, wl.SchemaOpts{MaxShards: 3})
		repo := simmeta.New()
		s.Install(repo)
		flags := []string{"--stream-flush-timeout=" + []string{"1s", "5s"}[tp.Choose(2)], fmt.Sprintf("--stream-max-merge-parts=%d", tp.Range(2, 6))}
		qpFlags, qpTag := simnode.QueryPath(tp.Choose, "stream")
		flags = append(flags, qpFlags...)
		_ = qpTag
		n, err := simnode.Boot(repo, e.Dir, simnode.Engines{Stream: true}, flags)
		if err != nil {
			e.Fail("boot", "boot-failed", "boot: %v", err)
			return
		}
		defer n.Stop()
		m := wl.NewStreamModel(s)
		msgID := uint64(1)
		hist := ""
		for i, k := 0, tp.Range(2, 9); i < k; i++ {
			if tp.Weighted(3, 2) == 0 {
				time.Sleep(time.Millisecond)
				// late batches: a part may lie INSIDE the time range of an earlier, wider part, and the next one may overlap the
				// wide one again (nested and chained overlaps of parts within one segment)
				back := []int64{0, 0, 700, 1800_000, 40_000_000}[tp.Side().Choose(5)]
				rows := m.GenBatch(tp, wl.BatchOpts{BaseMs: time.Now().UnixMilli() - back, SpanMs: int64([]int{1000, 3600_000, 2 * 86400_000, 300}[tp.Side().Choose(4)+tp.Choose(3)*0]), MaxRows: 120, MaxSeries: 5, Plain: true}, i)
				reqs := m.ToRequests(rows, msgID)
				msgID += uint64(len(reqs))
				resps, werr := n.WriteStream(reqs)
				ok := werr == nil && len(resps) == len(reqs)
				for _, r := range resps {
					ok = ok && r.GetStatus() == "STATUS_SUCCEED"
				}
				if !ok {
					e.Fail("ack", "valid-write-not-acknowledged", "batch not acknowledged: %v", werr)
					return
				}
				m.Ack(rows)
				hist += fmt.Sprintf(" write(%d)", len(rows))
			} else {
				d := []time.Duration{time.Second, 6 * time.Second, 2 * time.Minute}[tp.Choose(3)]
				time.Sleep(d)
				synctest.Wait()
				e.AddSim(d)
				hist += fmt.Sprintf(" advance(%s)", d)
			}
		}
		if len(m.Rows) == 0 {
			return
		}
		var orderTags [][2]string
		for _, t := range s.Tags {
			if t.Indexed && (t.Type == databasev1.TagType_TAG_TYPE_INT || t.Type == databasev1.TagType_TAG_TYPE_STRING) {
				orderTags = append(orderTags, [2]string{"sidx_" + t.Name, t.Name})
			}
		}
		var tsOf []int64
		for _, r := range m.Rows {
			tsOf = append(tsOf, r.Ts)
		}
		var rowTags []map[string]*modelv1.TagValue
		for _, r := range m.Rows {
			rowTags = append(rowTags, r.Tags)
		}
		qs := genOrderQueries(tp, tp.Range(3, 10), orderTags, tsOf, s.Tags, rowTags, s.Skipping)
		e.Event("stream tags=%v flags=%v shards=%d rows=%d history:%s", s.Tags, flags, s.Shards, len(m.Rows), hist)
		for qi, q := range qs {
			e.Step()
			req := s.QueryRequest(q.lo, q.hi, wl.Projection{Tags: []string{"wid"}}, uint32(q.limit))
			req.Offset = uint32(q.offset)
			sortDir := modelv1.Sort_SORT_DESC
			if q.asc {
				sortDir = modelv1.Sort_SORT_ASC
			}
			req.OrderBy = &modelv1.QueryOrder{IndexRuleName: q.rule, Sort: sortDir}
			req.Criteria = q.crit.Proto()
			if q.crit != nil {
				e.Probe("reach.ordered_window_of_filtered_result")
			}
			resp, qerr := n.QueryStream(req)
			if qerr != nil {
				if strings.Contains(qerr.Error(), "unsupported") || strings.Contains(qerr.Error(), "invalid query message") {
					e.Probe("reach.query_shape_rejected")
					continue
				}
				e.Fail("query", "query-error", "query %d (%s) failed: %v", qi, q, qerr)
				return
			}
			var got []int64
			for _, el := range resp.GetElements() {
				for _, tf := range el.GetTagFamilies() {
					for _, t := range tf.GetTags() {
						if t.GetKey() == "wid" {
							got = append(got, t.GetValue().GetInt().GetValue())
						}
					}
				}
			}
			var full []keyed
			distinct := map[sortKey]bool{}
			for _, r := range m.Rows {
				if r.Ts < q.lo || r.Ts > q.hi || !q.crit.Eval(r.Tags) {
					continue
				}
				k := sortKey{i: r.Ts}
				if q.rule != "" {
					k = tagKey(r.Tags[q.tag])
				}
				full = append(full, keyed{key: k, wid: r.Wid})
				distinct[k] = true
			}
			if len(distinct) < len(full) {
				e.Probe("reach.duplicate_sort_keys")
			}
			if q.offset > 0 && q.offset < len(full) {
				e.Probe("reach.offset_inside_result")
			}
			if q.rule != "" {
				e.Probe("reach.order_by_indexed_tag")
			}
			if cls, msg := checkWindow(full, got, q.asc, q.offset, q.limit); cls != "" {
				by := "time"
				if q.rule != "" {
					by = "tag"
				}
				e.Fail("ordered-window", "stream:"+cls+":by-"+by+filteredTag(q)+":"+qpTag, "stream query %d (%s): %s\n  returned writes: %v", qi, q, msg, clipInts(got))
				return
			}
		}
		e.Nontrivial()
		e.SetSample(map[string]any{"engine": "stream", "shards": s.Shards, "rows": len(m.Rows), "history": hist, "first_query": qs[0].String()})
	})
}

func filteredTag(q oq) string {
	if q.crit != nil {
		return ":filtered"
	}
	return ""
}

func clipInts(v []int64) string {
	s := fmt.Sprint(v)
	if len(s) > 300 {
		return s[:300] + "..."
	}
	return s
}

// mnode is what the measure scenario needs from a standalone node or a cluster.
type mnode interface {
	WriteMeasure([]*measurev1.WriteRequest) ([]*measurev1.WriteResponse, error)
	QueryMeasure(*measurev1.QueryRequest) (*measurev1.QueryResponse, error)
	Stop()
}

func runMeasure(e *simcore.Env, tp *simcore.Tape) { runMeasureOn(e, tp, false) }

// runMeasureCluster: the same windows over 1 liaison + 1-4 data nodes (simnet): every data node returns its sorted
// rows, the liaison merges them (distributed plan) and applies offset/limit.
func runMeasureCluster(e *simcore.Env, tp *simcore.Tape) { runMeasureOn(e, tp, true) }

func runMeasureOn(e *simcore.Env, tp *simcore.Tape, cluster bool) {
	synctest.Test(e.T, func(*testing.T) {
		knobDesc, knobRestore := simknobs.Draw(tp, "measure")
		defer knobRestore()
		simknobs.Record(e, knobDesc)
		s := wl.GenMeasureSchema(tp, wl.SchemaOpts{MaxShards: 3})
		repo := simmeta.New()
		s.Install(repo)
		flags := []string{"--measure-flush-timeout=" + []string{"1s", "5s"}[tp.Choose(2)], fmt.Sprintf("--measure-max-merge-parts=%d", tp.Range(2, 6))}
		qpFlags, qpTag := simnode.QueryPath(tp.Choose, "measure")
		flags = append(flags, qpFlags...)
		_ = qpTag
		var n mnode
		var err error
		where := "measure"
		if cluster {
			where = "cluster"
			nData := tp.Range(1, 4)
			if nData >= 2 && tp.Bool(1, 3) {
				s.Replicas = uint32(tp.Range(1, min(2, nData-1)))
			}
			repo = simmeta.New()
			s.Install(repo)
			lflags := append(append([]string(nil), flags...), "--measure-sync-interval=1s")
			var cl *simnode.Cluster
			if cl, err = simnode.BootCluster(repo, e.Dir, nData, simnode.Engines{Measure: true}, flags, lflags); err == nil {
				n = cl
			}
			e.Event("cluster: %d data nodes, %d shards, %d replicas", nData, s.Shards, s.Replicas)
			if nData > 1 {
				e.Probe("reach.rows_spread_over_data_nodes")
			}
		} else {
			var sn *simnode.Node
			if sn, err = simnode.Boot(repo, e.Dir, simnode.Engines{Measure: true}, flags); err == nil {
				n = sn
			}
		}
		if err != nil {
			e.Fail("boot", "boot-failed", "boot: %v", err)
			return
		}
		defer n.Stop()
		m := wl.NewMeasureModel(s)
		msgID := uint64(1)
		hist := ""
		for i, k := 0, tp.Range(2, 9); i < k; i++ {
			if tp.Weighted(3, 2) == 0 {
				time.Sleep(time.Millisecond)
				// late batches: a part may lie INSIDE the time range of an earlier, wider part, and the next one may overlap the
				// wide one again (nested and chained overlaps of parts within one segment)
				back := []int64{0, 0, 700, 1800_000, 40_000_000}[tp.Side().Choose(5)]
				rows := m.GenBatch(tp, wl.BatchOpts{BaseMs: time.Now().UnixMilli() - back, SpanMs: int64([]int{1000, 3600_000, 2 * 86400_000, 300}[tp.Side().Choose(4)+tp.Choose(3)*0]), MaxRows: 120, MaxSeries: 5, Plain: true}, i)
				reqs := m.ToRequests(rows, msgID)
				msgID += uint64(len(reqs))
				resps, werr := n.WriteMeasure(reqs)
				ok := werr == nil && len(resps) == len(reqs)
				for _, r := range resps {
					ok = ok && r.GetStatus() == "STATUS_SUCCEED"
				}
				if !ok {
					e.Fail("ack", "valid-write-not-acknowledged", "batch not acknowledged: %v", werr)
					return
				}
				m.Ack(rows)
				hist += fmt.Sprintf(" write(%d)", len(rows))
			} else {
				d := []time.Duration{time.Second, 6 * time.Second, 2 * time.Minute}[tp.Choose(3)]
				time.Sleep(d)
				synctest.Wait()
				e.AddSim(d)
				hist += fmt.Sprintf(" advance(%s)", d)
			}
		}
		if len(m.Rows) == 0 {
			return
		}
		if cluster { // the liaison's write queue must have reached the data nodes before windows are compared
			time.Sleep(60 * time.Second)
			synctest.Wait()
			e.AddSim(60 * time.Second)
		}
		var tsOf []int64
		for _, r := range m.Rows {
			tsOf = append(tsOf, r.Ts)
		}
		var rowTags []map[string]*modelv1.TagValue
		for _, r := range m.Rows {
			rowTags = append(rowTags, r.Tags)
		}
		qs := genOrderQueries(tp, tp.Range(3, 10), nil, tsOf, nil, rowTags, nil)
		e.Event("measure tags=%v flags=%v shards=%d rows=%d history:%s", s.Tags, flags, s.Shards, len(m.Rows), hist)
		for qi, q := range qs {
			e.Step()
			req := s.QueryRequest(q.lo, q.hi, wl.Projection{Tags: []string{"wid"}}, uint32(q.limit))
			req.Offset = uint32(q.offset)
			sortDir := modelv1.Sort_SORT_DESC
			if q.asc {
				sortDir = modelv1.Sort_SORT_ASC
			}
			req.OrderBy = &modelv1.QueryOrder{Sort: sortDir}
			resp, qerr := n.QueryMeasure(req)
			if qerr != nil {
				if strings.Contains(qerr.Error(), "unsupported") || strings.Contains(qerr.Error(), "invalid query message") {
					e.Probe("reach.query_shape_rejected")
					continue
				}
				e.Fail("query", "query-error", "query %d (%s) failed: %v", qi, q, qerr)
				return
			}
			var got []int64
			for _, dp := range resp.GetDataPoints() {
				got = append(got, wl.Wid(dp))
			}
			var full []keyed
			distinct := map[sortKey]bool{}
			for _, r := range m.Rows {
				if r.Ts < q.lo || r.Ts > q.hi {
					continue
				}
				k := sortKey{i: r.Ts}
				full = append(full, keyed{key: k, wid: r.Wid})
				distinct[k] = true
			}
			if len(distinct) < len(full) {
				e.Probe("reach.duplicate_sort_keys")
			}
			if q.offset > 0 && q.offset < len(full) {
				e.Probe("reach.offset_inside_result")
			}
			if cls, msg := checkWindow(full, got, q.asc, q.offset, q.limit); cls != "" {
				e.Fail("ordered-window", where+":"+cls+":by-time:"+qpTag, "measure query %d (%s): %s\n  returned writes: %v", qi, q, msg, clipInts(got))
				return
			}
		}
		e.Nontrivial()
		e.SetSample(map[string]any{"engine": "measure", "shards": s.Shards, "rows": len(m.Rows), "history": hist, "first_query": qs[0].String()})
	})
}
