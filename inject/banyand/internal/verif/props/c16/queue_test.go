package c16

import (
	"context"
	"fmt"
	"path/filepath"
	"sort"

	"github.com/apache/skywalking-banyandb/api/common"
	commonv1 "github.com/apache/skywalking-banyandb/api/proto/banyandb/common/v1"
	databasev1 "github.com/apache/skywalking-banyandb/api/proto/banyandb/database/v1"
	"github.com/apache/skywalking-banyandb/banyand/internal/storage"
	"github.com/apache/skywalking-banyandb/banyand/internal/wqueue"
	"github.com/apache/skywalking-banyandb/banyand/metadata/schema"
	"github.com/apache/skywalking-banyandb/pkg/fs"
	"github.com/apache/skywalking-banyandb/pkg/logger"
	"github.com/apache/skywalking-banyandb/pkg/node"
	"github.com/apache/skywalking-banyandb/pkg/verif/simcore"
)

// qSub stands for a shard's write queue (a tsTable of the liaison): it keeps the getNodes callback the REAL
// wqueue.Queue hands over and the driver calls it as every sync cycle does.
type qSub struct{ getNodes func() []string }

func (*qSub) Close() error { return nil }

type qOpt struct{}

// runQueueTargets: the nodes a liaison ships the parts of a shard to (the callback its shard queue was created with)
// must follow the topology: after every node join/leave they equal what the selector assigns NOW - the same answer
// Queue.GetNodes gives for the series index, and the same any other coordinator with this topology computes -
// whenever the shard queue was created.
func runQueueTargets(e *simcore.Env, tp *simcore.Tape) {
	const group = "g"
	shardNum := uint32(tp.Range(1, 5))
	replicas := uint32(tp.Range(0, 2))
	sel := node.NewRoundRobinSelector("verif", nil)
	locateAll := func(shard uint32) []string {
		set := map[string]bool{}
		for r := uint32(0); r <= replicas; r++ {
			n, err := sel.Pick(group, "", shard, r)
			if err != nil {
				return nil
			}
			set[n] = true
		}
		out := make([]string, 0, len(set))
		for n := range set {
			out = append(out, n)
		}
		sort.Strings(out)
		return out
	}
	ctx := common.SetPosition(context.Background(), func(common.Position) common.Position { return common.Position{Module: "verif", Database: group} })
	q, err := wqueue.Open[*qSub, qOpt](ctx, wqueue.Opts[*qSub, qOpt]{
		Group: group, ShardNum: shardNum, Location: filepath.Join(e.Dir, "q"), SegmentInterval: storage.IntervalRule{Unit: storage.DAY, Num: 1},
		SubQueueCreator: func(_ fs.FileSystem, _ string, _ common.Position, _ *logger.Logger, _ qOpt, _ any, _ string, _ common.ShardID, getNodes func() []string) (*qSub, error) {
			return &qSub{getNodes: getNodes}, nil
		},
		GetNodes: func(shardID common.ShardID) []string { return locateAll(uint32(shardID)) }, // what the engines' queue suppliers install
	}, group)
	if err != nil {
		e.Fail("harness", "queue-open", "wqueue.Open: %v", err)
		return
	}
	defer q.Close()
	sel.(schema.EventHandler).OnAddOrUpdate(schema.Metadata{
		TypeMeta: schema.TypeMeta{Kind: schema.KindGroup, Name: group},
		Spec: &commonv1.Group{Metadata: &commonv1.Metadata{Name: group}, Catalog: commonv1.Catalog_CATALOG_MEASURE,
			ResourceOpts: &commonv1.ResourceOpts{ShardNum: shardNum, Replicas: replicas}},
	})
	live := map[string]bool{}
	created := map[uint32]bool{}
	dn := func(name string) *databasev1.Node { return &databasev1.Node{Metadata: &commonv1.Metadata{Name: name}} }
	e.Event("shards=%d replicas=%d", shardNum, replicas)
	for step, k := 0, tp.Range(4, 20); step < k && !e.Failed(); step++ {
		e.Step()
		switch tp.Weighted(3, 2, 4) {
		case 0:
			name := fmt.Sprintf("n%d", tp.Choose(5))
			sel.AddNode(dn(name))
			live[name] = true
			e.Event("node %s joins (live %v)", name, simcore.SortedKeys(live))
			if len(created) > 0 {
				e.Probe("reach.node_joined_after_shard_queue_was_used")
			}
		case 1:
			if len(live) == 0 {
				continue
			}
			name := simcore.SortedKeys(live)[tp.Choose(len(live))]
			sel.RemoveNode(dn(name))
			delete(live, name)
			e.Event("node %s leaves (live %v)", name, simcore.SortedKeys(live))
			if len(created) > 0 {
				e.Probe("reach.node_left_after_shard_queue_was_used")
			}
		default:
			s := uint32(tp.Choose(int(shardNum)))
			sh, gerr := q.GetOrCreateShard(common.ShardID(s))
			if gerr != nil {
				e.Fail("harness", "shard-create", "GetOrCreateShard(%d): %v", s, gerr)
				return
			}
			created[s] = true
			e.Event("sync cycle of shard %d ships to %v", s, sh.SubQueue().getNodes())
		}
		// after every event: every shard queue created so far targets the CURRENT assignment
		for _, s := range sortedU32(created) {
			sh, _ := q.GetOrCreateShard(common.ShardID(s))
			got := append([]string(nil), sh.SubQueue().getNodes()...)
			sort.Strings(got)
			want := locateAll(s)
			idx := append([]string(nil), q.GetNodes(common.ShardID(s))...)
			sort.Strings(idx)
			if fmt.Sprint(got) != fmt.Sprint(want) {
				e.Fail("same-assignment", "liaison-ships-parts-to-stale-nodes", "shard %d: the selector assigns %v (live nodes %v), the shard queue ships its parts to %v, the series index goes to %v",
					s, want, simcore.SortedKeys(live), got, idx)
				return
			}
			if fmt.Sprint(idx) != fmt.Sprint(want) {
				e.Fail("same-assignment", "series-index-and-assignment-differ", "shard %d: selector %v, Queue.GetNodes %v", s, want, idx)
				return
			}
		}
	}
	if len(created) > 0 {
		e.Nontrivial()
	}
}

func sortedU32(m map[uint32]bool) []uint32 {
	out := make([]uint32, 0, len(m))
	for k := range m {
		out = append(out, k)
	}
	sort.Slice(out, func(i, j int) bool { return out[i] < out[j] })
	return out
}
