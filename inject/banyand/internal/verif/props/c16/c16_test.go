// Package c16 decides property C16 (shard and node placement is deterministic and replica-disjoint).
package c16

import (
	"context"
	"fmt"
	"sort"
	"strings"
	"testing"

	commonv1 "github.com/apache/skywalking-banyandb/api/proto/banyandb/common/v1"
	databasev1 "github.com/apache/skywalking-banyandb/api/proto/banyandb/database/v1"
	measurev1 "github.com/apache/skywalking-banyandb/api/proto/banyandb/measure/v1"
	modelv1 "github.com/apache/skywalking-banyandb/api/proto/banyandb/model/v1"
	"github.com/apache/skywalking-banyandb/api/data"
	"github.com/apache/skywalking-banyandb/banyand/internal/verif/simmeta"
	lgrpc "github.com/apache/skywalking-banyandb/banyand/liaison/grpc"
	"github.com/apache/skywalking-banyandb/banyand/metadata/schema"
	"github.com/apache/skywalking-banyandb/banyand/queue"
	"github.com/apache/skywalking-banyandb/pkg/logger"
	"github.com/apache/skywalking-banyandb/pkg/node"
	"github.com/apache/skywalking-banyandb/pkg/partition"
	"github.com/apache/skywalking-banyandb/pkg/verif/simcore"
)

func TestSim(t *testing.T) {
	_ = logger.Init(logger.Logging{Env: "prod", Level: "error"})
	simcore.Main(t, "C16", []simcore.Scenario{
		{Name: "coordinators", Weight: 4, Run: runCoordinators},
		{Name: "shardid", Weight: 1, Run: runShardID},
		{Name: "write-routing", Weight: 1, Run: runWriteRouting},
		{Name: "liaison-queue-targets", Weight: 1, Run: runQueueTargets},
	})
}

type groupSpec struct {
	name     string
	shards   uint32
	replicas uint32
}

type event struct {
	kind   string // gadd gdel nadd ndel init
	group  groupSpec
	node   string
	origin string
}

func (e event) String() string {
	switch e.kind {
	case "gadd", "gdel":
		return fmt.Sprintf("%s(%s,shards=%d,replicas=%d)%s", e.kind, e.group.name, e.group.shards, e.group.replicas, e.origin)
	case "init":
		return "oninit-snapshot"
	}
	return fmt.Sprintf("%s(%s)%s", e.kind, e.node, e.origin)
}

func mkGroup(g groupSpec) *commonv1.Group {
	return &commonv1.Group{
		Metadata: &commonv1.Metadata{Name: g.name},
		Catalog:  commonv1.Catalog_CATALOG_MEASURE,
		ResourceOpts: &commonv1.ResourceOpts{
			ShardNum: g.shards, Replicas: g.replicas,
			SegmentInterval: &commonv1.IntervalRule{Unit: commonv1.IntervalRule_UNIT_DAY, Num: 1},
			Ttl:             &commonv1.IntervalRule{Unit: commonv1.IntervalRule_UNIT_DAY, Num: 7},
		},
	}
}

func mkNode(n string) *databasev1.Node {
	return &databasev1.Node{Metadata: &commonv1.Metadata{Name: n}, Roles: []databasev1.Role{databasev1.Role_ROLE_DATA}}
}

// entityHistory generates, for one entity (a group or a node), a sequence of events that ends in the
// target state `present` (with the final spec for groups). Intermediate states are arbitrary;
// delivered events may be repeated (the same notification arriving twice).
func groupHistory(tp *simcore.Tape, e *simcore.Env, final groupSpec, present bool) []event {
	var out []event
	n := tp.Weighted(5, 3, 2, 1) // extra intermediate transitions
	for i := 0; i < n; i++ {
		if tp.Bool(1, 3) {
			out = append(out, event{kind: "gdel", group: final})
		} else {
			g := groupSpec{name: final.name, shards: uint32(tp.Range(1, 5)), replicas: uint32(tp.Range(0, 2))}
			out = append(out, event{kind: "gadd", group: g})
		}
	}
	if present {
		out = append(out, event{kind: "gadd", group: final})
	} else {
		out = append(out, event{kind: "gdel", group: final})
	}
	return dupSome(tp, e, out)
}

func nodeHistory(tp *simcore.Tape, e *simcore.Env, name string, present bool) []event {
	var out []event
	n := tp.Weighted(5, 3, 2, 1)
	for i := 0; i < n; i++ {
		if tp.Bool(1, 2) {
			out = append(out, event{kind: "ndel", node: name})
		} else {
			out = append(out, event{kind: "nadd", node: name})
		}
	}
	if present {
		out = append(out, event{kind: "nadd", node: name})
	} else {
		out = append(out, event{kind: "ndel", node: name})
	}
	return dupSome(tp, e, out)
}

// dupSome re-delivers some events immediately after themselves (a duplicated notification).
func dupSome(tp *simcore.Tape, e *simcore.Env, in []event) []event {
	var out []event
	for _, ev := range in {
		out = append(out, ev)
		if tp.Bool(1, 6) {
			d := ev
			d.origin = "[dup]"
			out = append(out, d)
			e.Probe("fault.event_duplicated")
		}
	}
	return out
}

// interleave merges per-entity histories preserving each entity's own order.
func interleave(tp *simcore.Tape, hs [][]event) []event {
	var out []event
	for {
		var live []int
		for i, h := range hs {
			if len(h) > 0 {
				live = append(live, i)
			}
		}
		if len(live) == 0 {
			return out
		}
		i := live[tp.Choose(len(live))]
		out = append(out, hs[i][0])
		hs[i] = hs[i][1:]
	}
}

type coordinator struct {
	repo *simmeta.Repo
	sel  node.Selector
	reg  lgrpc.NodeRegistry
	h    schema.EventHandler
}

func newCoordinator(name string) *coordinator {
	repo := simmeta.New()
	sel := node.NewRoundRobinSelector(name, repo)
	if err := sel.PreRun(context.Background()); err != nil {
		panic(err)
	}
	reg := lgrpc.NewClusterNodeRegistry(data.TopicMeasureWrite, queue.Local(), sel)
	return &coordinator{repo: repo, sel: sel, reg: reg, h: reg.(schema.EventHandler)}
}

func (c *coordinator) apply(ev event) {
	ctx := context.Background()
	switch ev.kind {
	case "gadd":
		// the registry stores the group and notifies the registered selector (OnAddOrUpdate)
		if ev.origin == "[dup]" {
			c.repo.Redeliver(schema.KindGroup, ev.group.name)
		} else {
			_, _ = c.repo.CreateGroup(ctx, mkGroup(ev.group))
		}
	case "gdel":
		c.repo.RemoveGroup(ev.group.name, mkGroup(ev.group))
	case "nadd":
		c.h.OnAddOrUpdate(schema.Metadata{TypeMeta: schema.TypeMeta{Kind: schema.KindNode, Name: ev.node}, Spec: mkNode(ev.node)})
	case "ndel":
		c.h.OnDelete(schema.Metadata{TypeMeta: schema.TypeMeta{Kind: schema.KindNode, Name: ev.node}, Spec: mkNode(ev.node)})
	case "init":
		// a watcher re-sync: the selector rebuilds its table from a registry snapshot
		c.sel.OnInit([]schema.Kind{schema.KindGroup})
	}
}

func runCoordinators(e *simcore.Env, tp *simcore.Tape) {
	nGroups := tp.Range(1, 4)
	nNodes := tp.Range(1, 6)
	nCoord := tp.Range(2, 4)
	var groups []groupSpec
	var gPresent []bool
	for i := 0; i < nGroups; i++ {
		groups = append(groups, groupSpec{name: fmt.Sprintf("g%d", i), shards: uint32(tp.Range(1, 5)), replicas: uint32(tp.Range(0, 2))})
		gPresent = append(gPresent, !tp.Bool(1, 6))
	}
	var nodes []string
	var nPresent []bool
	for i := 0; i < nNodes; i++ {
		nodes = append(nodes, fmt.Sprintf("node-%c", 'a'+i))
		nPresent = append(nPresent, !tp.Bool(1, 5))
	}
	var live []string
	for i, n := range nodes {
		if nPresent[i] {
			live = append(live, n)
		}
	}
	sort.Strings(live)
	liveSet := map[string]bool{}
	for _, n := range live {
		liveSet[n] = true
	}
	e.Event("topology groups=%v present=%v nodes=%v live=%v coordinators=%d", groups, gPresent, nodes, live, nCoord)
	var coords []*coordinator
	var histories [][]string
	for c := 0; c < nCoord; c++ {
		co := newCoordinator(fmt.Sprintf("sel%d", c))
		var hs [][]event
		for i, g := range groups {
			hs = append(hs, groupHistory(tp, e, g, gPresent[i]))
		}
		for i, n := range nodes {
			hs = append(hs, nodeHistory(tp, e, n, nPresent[i]))
		}
		evs := interleave(tp, hs)
		var desc []string
		for _, ev := range evs {
			if tp.Bool(1, 12) {
				co.apply(event{kind: "init"})
				desc = append(desc, "oninit-snapshot")
				e.Probe("reach.oninit_mid_history")
			}
			co.apply(ev)
			desc = append(desc, ev.String())
			e.Step()
		}
		e.Event("coordinator %d history: %s", c, strings.Join(desc, " "))
		coords = append(coords, co)
		histories = append(histories, desc)
	}
	// the last coordinator learns the final topology directly (no detours): everybody must agree with it
	fresh := newCoordinator("fresh")
	for i, g := range groups {
		if gPresent[i] {
			fresh.apply(event{kind: "gadd", group: g})
		}
	}
	for i := len(live) - 1; i >= 0; i-- {
		fresh.apply(event{kind: "nadd", node: live[i]})
	}
	coords = append([]*coordinator{fresh}, coords...)
	e.SetSample(map[string]any{"groups": fmt.Sprint(groups), "present": gPresent, "live_nodes": live, "histories": histories})
	if len(live) > 0 {
		e.Nontrivial()
	}
	// Oracle.
	for gi, g := range groups {
		for s := uint32(0); s < g.shards; s++ {
			copies := g.replicas + 1
			var picked []string
			for r := uint32(0); r < copies; r++ {
				var first string
				var firstErr error
				for ci, co := range coords {
					n, err := co.reg.Locate(g.name, "", s, r)
					if ci == 0 {
						first, firstErr = n, err
					}
					e.Event("locate c%d %s/%d/%d -> %q err=%v", ci, g.name, s, r, n, err != nil)
					if (err != nil) != (firstErr != nil) || n != first {
						e.Fail("same-assignment", "coordinators-disagree",
							"coordinators 0 and %d disagree on %s shard %d replica %d: %q(err=%v) vs %q(err=%v)", ci, g.name, s, r, first, firstErr, n, err)
						return
					}
					if !gPresent[gi] || len(live) == 0 {
						continue
					}
					if err != nil {
						e.Fail("every-shard-assigned", "shard-unassigned", "coordinator %d: %s shard %d replica %d unassigned: %v", ci, g.name, s, r, err)
						return
					}
					if !liveSet[n] {
						e.Fail("live-node", "assigned-to-dead-node", "coordinator %d assigns %s/%d/%d to %q which is not live (%v)", ci, g.name, s, r, n, live)
						return
					}
				}
				if firstErr == nil {
					picked = append(picked, first)
				}
			}
			if gPresent[gi] && len(live) >= int(copies) && len(picked) == int(copies) {
				e.Probe("reach.replica_disjoint_checked")
				seen := map[string]bool{}
				for _, p := range picked {
					if seen[p] {
						e.Fail("replica-disjoint", "copies-share-a-node", "%s shard %d: copies %v share a node although %d nodes are live", g.name, s, picked, len(live))
						return
					}
					seen[p] = true
				}
				all, err := coords[0].reg.LocateAll(g.name, s, int(copies))
				if err != nil || len(all) != int(copies) {
					e.Fail("replica-disjoint", "locateall-short", "LocateAll(%s,%d,%d) = %v, %v", g.name, s, copies, all, err)
					return
				}
			}
		}
	}
}

var valuePool = []string{"", "a", "b", "svc|1", "svc\\|1", "|", "\\", "a|b", "a\\", "\x00", "svc-1", "svc-2", "服务", "x|", "|x"}

func runShardID(e *simcore.Env, tp *simcore.Tape) {
	families := []*databasev1.TagFamilySpec{{Name: "default", Tags: []*databasev1.TagSpec{
		{Name: "t0", Type: databasev1.TagType_TAG_TYPE_STRING},
		{Name: "t1", Type: databasev1.TagType_TAG_TYPE_INT},
		{Name: "t2", Type: databasev1.TagType_TAG_TYPE_STRING},
	}}}
	nEnt := tp.Range(1, 3)
	names := []string{"t0", "t1", "t2"}[:nEnt]
	// two coordinators build their locators independently
	l1 := partition.NewEntityLocator(families, &databasev1.Entity{TagNames: names}, 1)
	l2 := partition.NewEntityLocator(families, &databasev1.Entity{TagNames: names}, 7)
	shardNum := uint32(tp.Range(1, 16))
	seen := map[string]uint32{}
	for i := 0; i < 40; i++ {
		s0 := simcore.Pick(tp, valuePool)
		s2 := simcore.Pick(tp, valuePool)
		iv := int64(tp.Range(0, 6)) - 3
		if tp.Bool(1, 8) {
			iv = []int64{-1 << 63, 1<<63 - 1}[tp.Choose(2)]
		}
		tf := []*modelv1.TagFamilyForWrite{{Tags: []*modelv1.TagValue{
			{Value: &modelv1.TagValue_Str{Str: &modelv1.Str{Value: s0}}},
			{Value: &modelv1.TagValue_Int{Int: &modelv1.Int{Value: iv}}},
			{Value: &modelv1.TagValue_Str{Str: &modelv1.Str{Value: s2}}},
		}}}
		_, a, err1 := l1.Locate("m1", tf, shardNum)
		_, b, err2 := l2.Locate("m1", tf, shardNum)
		_, c, err3 := l1.Locate("m1", tf, shardNum)
		e.Event("locate %q %d %q shards=%d -> %d", s0, iv, s2, shardNum, a)
		e.Step()
		if err1 != nil || err2 != nil || err3 != nil {
			e.Fail("shard-total", "locate-error", "Locate failed: %v %v %v", err1, err2, err3)
			return
		}
		if a != b || a != c {
			e.Fail("shard-function", "not-deterministic", "same entity routed to %d, %d, %d", a, b, c)
			return
		}
		if uint32(a) >= shardNum {
			e.Fail("shard-range", "out-of-range", "shard %d with shardNum %d", a, shardNum)
			return
		}
		key := fmt.Sprintf("%q|%d|%q", s0, iv, s2)
		if nEnt < 3 {
			key = fmt.Sprintf("%q|%d", s0, iv)
		}
		if nEnt < 2 {
			key = fmt.Sprintf("%q", s0)
		}
		if prev, ok := seen[key]; ok && prev != uint32(a) {
			e.Fail("shard-function", "same-series-different-shard", "entity %s routed to %d and %d", key, prev, a)
			return
		}
		seen[key] = uint32(a)
		ts := partition.TraceShardID(s0, shardNum)
		if uint32(ts) >= shardNum || ts != partition.TraceShardID(s0, shardNum) {
			e.Fail("shard-range", "trace-shard", "trace shard %d of %d", ts, shardNum)
			return
		}
	}
	e.Nontrivial()
	e.SetSample(map[string]any{"entity_tags": names, "shard_num": shardNum, "distinct_entities": len(seen)})
}


// runWriteRouting: the liaison's routing step of a measure write (buildSpecLocators + navigate, the real code) must
// send one series to ONE shard however the client lays the request out: no DataPointSpec (tag families in schema
// order), a spec in schema order, a spec with families and tags permuted. Measures with and without a sharding key.
func runWriteRouting(e *simcore.Env, tp *simcore.Tape) {
	ctx := context.Background()
	repo := simmeta.New()
	shardNum := uint32(tp.Range(1, 9))
	_, _ = repo.CreateGroup(ctx, &commonv1.Group{
		Metadata: &commonv1.Metadata{Name: "g"}, Catalog: commonv1.Catalog_CATALOG_MEASURE,
		ResourceOpts: &commonv1.ResourceOpts{ShardNum: shardNum,
			SegmentInterval: &commonv1.IntervalRule{Unit: commonv1.IntervalRule_UNIT_DAY, Num: 1}, Ttl: &commonv1.IntervalRule{Unit: commonv1.IntervalRule_UNIT_DAY, Num: 7}},
	})
	type tg struct {
		name, fam string
		isInt     bool
	}
	tags := []tg{{"t0", "a", false}, {"t1", "a", true}, {"t2", "b", false}, {"t3", "b", true}}
	fams := []*databasev1.TagFamilySpec{
		{Name: "a", Tags: []*databasev1.TagSpec{{Name: "t0", Type: databasev1.TagType_TAG_TYPE_STRING}, {Name: "t1", Type: databasev1.TagType_TAG_TYPE_INT}}},
		{Name: "b", Tags: []*databasev1.TagSpec{{Name: "t2", Type: databasev1.TagType_TAG_TYPE_STRING}, {Name: "t3", Type: databasev1.TagType_TAG_TYPE_INT}}},
	}
	subset := func() []string { // a non-empty ordered selection of tag names
		var out []string
		for _, t := range tags {
			if tp.Bool(1, 2) {
				out = append(out, t.name)
			}
		}
		if len(out) == 0 {
			out = []string{tags[tp.Choose(len(tags))].name}
		}
		if len(out) > 1 && tp.Bool(1, 2) {
			out[0], out[len(out)-1] = out[len(out)-1], out[0]
		}
		return out
	}
	ms := &databasev1.Measure{
		Metadata: &commonv1.Metadata{Name: "m", Group: "g"}, TagFamilies: fams, Entity: &databasev1.Entity{TagNames: subset()},
		Fields: []*databasev1.FieldSpec{{Name: "f", FieldType: databasev1.FieldType_FIELD_TYPE_INT, EncodingMethod: databasev1.EncodingMethod_ENCODING_METHOD_GORILLA, CompressionMethod: databasev1.CompressionMethod_COMPRESSION_METHOD_ZSTD}},
	}
	if tp.Bool(2, 3) {
		ms.ShardingKey = &databasev1.ShardingKey{TagNames: subset()}
		e.Probe("reach.measure_with_sharding_key")
	}
	if _, err := repo.CreateMeasure(ctx, ms); err != nil {
		e.Fail("harness", "schema-rejected", "CreateMeasure: %v", err)
		return
	}
	nr := lgrpc.NewLocalNodeRegistry()
	fe, err := lgrpc.VerifNewFrontend(repo, queue.Local(), queue.Local(), lgrpc.NodeRegistries{
		MeasureLiaisonNodeRegistry: nr, StreamLiaisonNodeRegistry: nr, PropertyNodeRegistry: nr, TraceLiaisonNodeRegistry: nr,
	})
	if err != nil {
		e.Fail("harness", "frontend", "front end: %v", err)
		return
	}
	e.Event("shards=%d entity=%v sharding_key=%v", shardNum, ms.Entity.TagNames, ms.GetShardingKey().GetTagNames())
	for i := 0; i < 30 && !e.Failed(); i++ {
		e.Step()
		val := map[string]*modelv1.TagValue{}
		for _, t := range tags {
			if t.isInt {
				val[t.name] = &modelv1.TagValue{Value: &modelv1.TagValue_Int{Int: &modelv1.Int{Value: int64(tp.Range(0, 6)) - 3}}}
			} else {
				val[t.name] = &modelv1.TagValue{Value: &modelv1.TagValue_Str{Str: &modelv1.Str{Value: simcore.Pick(tp, valuePool)}}}
			}
		}
		build := func(famOrder []int, tagOrder [][]int, withSpec bool) *measurev1.WriteRequest {
			req := &measurev1.WriteRequest{Metadata: &commonv1.Metadata{Name: "m", Group: "g"}, DataPoint: &measurev1.DataPointValue{}}
			spec := &measurev1.DataPointSpec{FieldNames: []string{"f"}}
			for _, fi := range famOrder {
				f := fams[fi]
				tf := &modelv1.TagFamilyForWrite{}
				ts := &measurev1.TagFamilySpec{Name: f.Name}
				for _, ti := range tagOrder[fi] {
					tf.Tags = append(tf.Tags, val[f.Tags[ti].Name])
					ts.TagNames = append(ts.TagNames, f.Tags[ti].Name)
				}
				req.DataPoint.TagFamilies = append(req.DataPoint.TagFamilies, tf)
				spec.TagFamilySpec = append(spec.TagFamilySpec, ts)
			}
			if withSpec {
				req.DataPointSpec = spec
			}
			return req
		}
		schemaOrder := [][]int{{0, 1}, {0, 1}}
		famPerm := [][]int{{0, 1}, {1, 0}}[tp.Choose(2)]
		tagPerm := [][]int{[][]int{{0, 1}, {1, 0}}[tp.Choose(2)], [][]int{{0, 1}, {1, 0}}[tp.Choose(2)]}
		type lay struct {
			name string
			req  *measurev1.WriteRequest
		}
		lays := []lay{{"no spec", build([]int{0, 1}, schemaOrder, false)}, {"spec in schema order", build([]int{0, 1}, schemaOrder, true)},
			{fmt.Sprintf("spec permuted families=%v tags=%v", famPerm, tagPerm), build(famPerm, tagPerm, true)}}
		var shard0 string
		for k, l := range lays {
			ev, sid, rerr := fe.VerifMeasureRoute(l.req)
			if rerr != nil {
				e.Fail("write-routing", "route-error", "%s: %v", l.name, rerr)
				return
			}
			sig := fmt.Sprintf("shard=%d entity=%v", sid, ev)
			if k == 0 {
				shard0 = sig
			} else if sig != shard0 {
				e.Fail("write-routing", "layout-changes-the-route", "values %v: %q routes to %s, %q to %s (entity %v, sharding key %v, %d shards)",
					val, lays[0].name, shard0, l.name, sig, ms.Entity.TagNames, ms.GetShardingKey().GetTagNames(), shardNum)
				return
			}
		}
		e.Probe("reach.three_layouts_routed")
	}
	e.Nontrivial()
}
