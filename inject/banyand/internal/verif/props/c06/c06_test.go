// Package c06 decides property C06 (time segments partition the timeline; each point lives in exactly one).
package c06

import (
	"context"
	"fmt"
	"sort"
	"testing"
	"testing/synctest"
	"time"

	"github.com/apache/skywalking-banyandb/api/common"
	commonv1 "github.com/apache/skywalking-banyandb/api/proto/banyandb/common/v1"
	"github.com/apache/skywalking-banyandb/banyand/internal/storage"
	"github.com/apache/skywalking-banyandb/banyand/internal/verif/simnode"
	"github.com/apache/skywalking-banyandb/pkg/fs"
	"github.com/apache/skywalking-banyandb/pkg/logger"
	"github.com/apache/skywalking-banyandb/pkg/timestamp"
	"github.com/apache/skywalking-banyandb/pkg/verif/simcore"
)

func TestSim(t *testing.T) {
	simnode.InitLogging()
	simcore.Main(t, "C06", []simcore.Scenario{
		{Name: "tsdb-timeline", Weight: 3, Run: runTimeline},
	})
}

type tbl struct{}

func (*tbl) Close() error                            { return nil }
func (*tbl) Collect(storage.Metrics)                 {}
func (*tbl) TakeFileSnapshot(string) (bool, error)   { return false, nil }

var zones = []string{"UTC", "America/New_York", "Europe/Berlin", "Australia/Lord_Howe", "Asia/Kolkata", "America/Sao_Paulo"}

type rule struct {
	unit storage.IntervalUnit
	num  int
}

func (r rule) String() string { return fmt.Sprintf("%d%s", r.num, r.unit) }
func (r rule) ir() storage.IntervalRule { return storage.IntervalRule{Unit: r.unit, Num: r.num} }

type span struct{ start, end int64 }

// sig is appended to every violation class: findings are recorded per (unit, multiple class, zone) so that a
// known DST-related finding never hides a violation in another zone or under another kind of rule.
var (
	sig          string
	touch        func(time.Time)
	setSigGlobal func()
)

func runTimeline(e *simcore.Env, tp *simcore.Tape) {
	zone := zones[tp.Choose(len(zones))]
	loc, err := time.LoadLocation(zone)
	if err != nil {
		e.Fail("setup", "no-tzdata", "%v", err)
		return
	}
	oldLocal := time.Local
	time.Local = loc
	defer func() { time.Local = oldLocal }()
	defer func() {
		// after a panic inside the engine the run is abandoned with the database left as it is; the bubble
		// then complains about its blocked goroutines, which is not a finding of its own
		if r := recover(); r != nil && !e.Failed() {
			panic(r)
		}
	}()
	synctest.Test(e.T, func(*testing.T) {
		nums := []int{1, 2, 3, 6, 7, 12, 24}
		r := rule{unit: storage.DAY, num: nums[tp.Choose(4)]}
		if tp.Bool(1, 2) {
			r = rule{unit: storage.HOUR, num: nums[tp.Choose(len(nums))]}
		}
		// focus date: an ordinary day or a DST-change day of the chosen zone (year 2000/2001), local noon as anchor
		focus := time.Date(2000, time.Month(tp.Range(1, 12)), tp.Range(1, 28), 12, 0, 0, 0, time.UTC)
		if tp.Bool(1, 2) {
			focus = dstDays[tp.Choose(len(dstDays))]
		}
		ctx := common.SetPosition(context.Background(), func(p common.Position) common.Position { p.Database = "db"; return p })
		open := func(r rule) (storage.TSDB[*tbl, int], error) {
			return storage.OpenTSDB(ctx, storage.TSDBOpts[*tbl, int]{
				Location: e.Dir + "/db", SegmentInterval: r.ir(), TTL: storage.IntervalRule{Unit: storage.DAY, Num: 36500}, ShardNum: 1,
				SegmentIdleTimeout: time.Hour,
				TSTableCreator: func(fs.FileSystem, string, common.Position, *logger.Logger, timestamp.TimeRange, int, any) (*tbl, error) {
					return &tbl{}, nil
				},
			}, nil, "g")
		}
		db, err := open(r)
		if err != nil {
			e.Fail("open", "open-failed", "open: %v", err)
			return
		}
		defer func() {
			if db != nil {
				_ = db.Close()
			}
		}()
		// Signature of the run for violation classes. A run is "dst-affected" when any instant it touched
		// (requested timestamps, ticks, observed segment boundaries) lies in daylight-saving time or within one
		// interval (+2 days) of a DST transition of the zone. The local-time grid arithmetic and the local-time
		// directory names are known to be ambiguous there (known-findings.txt); such runs are reported under ONE
		// class per (unit, multiple class, zone). Everything else (fixed-offset zones, and DST zones well inside
		// standard time) keeps fine-grained classes, none of which is a known finding.
		everN := false
		affected := false
		maxNum := r.num
		touch = func(ts time.Time) {
			if affected {
				return
			}
			w := 48 * time.Hour
			if r.unit == storage.DAY {
				w += time.Duration(maxNum) * 24 * time.Hour
			} else {
				w += time.Duration(maxNum) * time.Hour
			}
			_, std1 := time.Date(ts.Year(), 1, 1, 12, 0, 0, 0, loc).Zone()
			_, std2 := time.Date(ts.Year(), 7, 1, 12, 0, 0, 0, loc).Zone()
			std := min(std1, std2)
			// the multi-hour grid is anchored at 1970-01-01 local: a zone whose standard offset has changed
			// since then (Lord_Howe: +10:00 -> +10:30) is off-grid all year round, same family of finding
			if _, off70 := time.Date(1970, 1, 1, 12, 0, 0, 0, loc).Zone(); off70 != std && r.unit == storage.HOUR && maxNum > 1 {
				affected = true
				return
			}
			for d := -w; d <= w; d += 6 * time.Hour {
				if _, off := ts.Add(d).In(loc).Zone(); off != std {
					affected = true
					return
				}
			}
		}
		setSig := func() {
			if r.num > 1 {
				everN = true // sticky: segments created under a multiple stay around as legacy ones
			}
			maxNum = max(maxNum, r.num)
			nc := "x1"
			if everN {
				nc = "xN"
			}
			sig = fmt.Sprintf(":%s%s:%s", r.unit, nc, zone)
			if affected {
				sig = ":dst-affected" + sig
			}
		}
		setSig()
		setSigGlobal = setSig
		abandoned := false
		e.Event("zone=%s rule=%s focus=%s", zone, r, focus.Format(time.RFC3339))
		known := map[int64]int64{} // start -> end of every segment ever observed
		var accepted []int64        // timestamps (unix nano) for which a segment was handed out
		var sample []string
		nOps := tp.Range(3, 20)
		for op := 0; op < nOps && !e.Failed(); op++ {
			e.Step()
			func() {
			defer func() {
				if p := recover(); p != nil {
					abandoned = true
					e.Fail(orc("no-panic"), cls("panic:"+panicWords(fmt.Sprint(p))), "zone %s rule %s: the engine panicked: %v", zone, r, p)
				}
			}()
			switch tp.Weighted(8, 2, 2, 2, 2) {
			case 0: // create on demand for a timestamp near the focus date
				// production callers hand over time.Unix(0, nanos), i.e. an instant in the process's local zone
				ts := time.Unix(0, genTimestamp(tp, focus, loc, r).UnixNano())
				touch(ts)
				setSig()
				seg, cerr := db.CreateSegmentIfNotExist(ts)
				if cerr != nil {
					e.Event("create(%s) -> error", ts.In(loc).Format(time.RFC3339Nano))
					e.Fail(orc("on-demand"), cls("create-failed"), "CreateSegmentIfNotExist(%s in %s, rule %s) failed: %v", ts.In(loc).Format(time.RFC3339Nano), zone, r, cerr)
					break
				}
				tr := seg.GetTimeRange()
				seg.DecRef()
				e.Event("create(%s) -> [%s, %s)", ts.In(loc).Format(time.RFC3339Nano), tr.Start.In(loc).Format(time.RFC3339), tr.End.In(loc).Format(time.RFC3339))
				sample = append(sample, "create "+ts.In(loc).Format(time.RFC3339))
				if ts.UnixNano() < tr.Start.UnixNano() || ts.UnixNano() >= tr.End.UnixNano() {
					e.Fail(orc("contains"), cls("segment-does-not-contain-its-timestamp"), "zone %s rule %s: the segment handed out for %s is [%s, %s), which does not contain it",
						zone, r, ts.In(loc).Format(time.RFC3339Nano), tr.Start.In(loc).Format(time.RFC3339), tr.End.In(loc).Format(time.RFC3339))
					break
				}
				accepted = append(accepted, ts.UnixNano())
			case 1: // tick: the rotation task may pre-create the next segment
				now := focus.Add(time.Duration(tp.Range(-48, 48)) * time.Hour).Add(time.Duration(tp.Range(0, 59)) * time.Minute)
				touch(now)
				setSig()
				db.Tick(now.UnixNano())
				synctest.Wait()
				e.Event("tick(%s)", now.In(loc).Format(time.RFC3339))
				sample = append(sample, "tick")
				e.Probe("reach.tick")
			case 2: // clock moves (idle ticker, cron)
				d := []time.Duration{11 * time.Minute, 3 * time.Hour, 26 * time.Hour}[tp.Choose(3)]
				time.Sleep(d)
				synctest.Wait()
				e.AddSim(d)
				e.Event("advance %s", d)
			case 3: // interval multiple changes at run time
				r = rule{unit: r.unit, num: nums[tp.Choose(len(nums))]}
				db.UpdateOptions(&commonv1.ResourceOpts{
					ShardNum:        1,
					SegmentInterval: &commonv1.IntervalRule{Unit: pbUnit(r.unit), Num: uint32(r.num)},
					Ttl:             &commonv1.IntervalRule{Unit: commonv1.IntervalRule_UNIT_DAY, Num: 36500},
				})
				e.Event("update-options rule=%s", r)
				sample = append(sample, "update "+r.String())
				e.Probe("reach.interval_changed")
			default: // close and reopen, possibly under a new multiple (existing segments become off-grid legacy ones)
				if cerr := db.Close(); cerr != nil {
					e.Fail(orc("reopen"), cls("close-failed"), "close: %v", cerr)
					db = nil
					break
				}
				if tp.Bool(1, 2) {
					r = rule{unit: r.unit, num: nums[tp.Choose(len(nums))]}
				}
				db, err = open(r)
				if err != nil {
					db = nil
					e.Fail(orc("reopen"), cls("reopen-failed"), "reopen under rule %s failed: %v", r, err)
					break
				}
				e.Event("reopen rule=%s", r)
				sample = append(sample, "reopen "+r.String())
				e.Probe("reach.reopen")
			}
			setSig()
			}()
			if abandoned {
				db = nil // do not touch it again (the panic may have left locks held)
				return
			}
			if e.Failed() || db == nil {
				break
			}
			checkTimeline(e, db, loc, zone, r, known, accepted)
		}
		if len(accepted) > 0 {
			e.Nontrivial()
		}
		e.SetSample(map[string]any{"zone": zone, "rule": r.String(), "focus": focus.Format(time.RFC3339), "ops": sample})
	})
}

// orc collapses the oracle name likewise.
func orc(o string) string {
	if len(sig) > 13 && sig[:13] == ":dst-affected" {
		return "dst"
	}
	return o
}

// cls collapses every oracle class of a dst-affected run into one class.
func cls(c string) string {
	if len(sig) > 13 && sig[:13] == ":dst-affected" {
		return "timeline" + sig
	}
	return c + sig
}

func panicWords(s string) string {
	out := []rune{}
	for _, c := range s {
		if c >= '0' && c <= '9' || c == '/' {
			continue
		}
		out = append(out, c)
		if len(out) > 40 {
			break
		}
	}
	return string(out)
}

func pbUnit(u storage.IntervalUnit) commonv1.IntervalRule_Unit {
	if u == storage.HOUR {
		return commonv1.IntervalRule_UNIT_HOUR
	}
	return commonv1.IntervalRule_UNIT_DAY
}

// DST change days (UTC noon of the civil date) for the zones above.
var dstDays = []time.Time{
	time.Date(2000, 4, 2, 12, 0, 0, 0, time.UTC), time.Date(2000, 10, 29, 12, 0, 0, 0, time.UTC), // US
	time.Date(2000, 3, 26, 12, 0, 0, 0, time.UTC), // EU, Lord Howe
	time.Date(2000, 8, 27, 12, 0, 0, 0, time.UTC), time.Date(2000, 10, 8, 12, 0, 0, 0, time.UTC), time.Date(2000, 2, 27, 12, 0, 0, 0, time.UTC), // AU/BR
	time.Date(2000, 10, 28, 15, 0, 0, 0, time.UTC), time.Date(2000, 3, 25, 15, 0, 0, 0, time.UTC),
}

func genTimestamp(tp *simcore.Tape, focus time.Time, loc *time.Location, r rule) time.Time {
	switch tp.Weighted(3, 3, 3, 1) {
	case 0: // anywhere within +-3 days
		return focus.Add(time.Duration(tp.Range(-72*60, 72*60)) * time.Minute).Add(time.Duration(tp.Choose(60000)) * time.Millisecond)
	case 1: // exactly on a local hour/midnight boundary, or one millisecond around it
		f := focus.In(loc)
		b := time.Date(f.Year(), f.Month(), f.Day()+tp.Range(-2, 2), tp.Choose(24), 0, 0, 0, loc)
		if r.unit == storage.DAY && tp.Bool(1, 2) {
			b = time.Date(f.Year(), f.Month(), f.Day()+tp.Range(-3, 3), 0, 0, 0, 0, loc)
		}
		return b.Add(time.Duration(tp.Range(-1, 1)) * time.Millisecond)
	case 2: // the small hours of the focus day (where DST shifts happen), at minute granularity
		f := focus.In(loc)
		return time.Date(f.Year(), f.Month(), f.Day(), 0, 0, 0, 0, loc).Add(time.Duration(tp.Range(0, 5*60)) * time.Minute)
	default: // far away
		return focus.AddDate(0, 0, tp.Range(-400, 400))
	}
}

func checkTimeline(e *simcore.Env, db storage.TSDB[*tbl, int], loc *time.Location, zone string, r rule, known map[int64]int64, accepted []int64) {
	all := timestamp.NewInclusiveTimeRange(time.Unix(1, 0), time.Date(2100, 1, 1, 0, 0, 0, 0, time.UTC))
	segs, err := db.SelectSegments(all, false)
	if err != nil {
		e.Fail(orc("select"), cls("select-failed"), "SelectSegments: %v", err)
		return
	}
	var spans []span
	for _, s := range segs {
		tr := s.GetTimeRange()
		touch(tr.Start)
		touch(tr.End)
		spans = append(spans, span{tr.Start.UnixNano(), tr.End.UnixNano()})
		s.DecRef()
	}
	setSigGlobal()
	sort.Slice(spans, func(i, j int) bool { return spans[i].start < spans[j].start })
	f := func(ns int64) string { return time.Unix(0, ns).In(loc).Format(time.RFC3339) }
	cur := map[int64]int64{}
	for i, sp := range spans {
		cur[sp.start] = sp.end
		if sp.end <= sp.start {
			e.Fail(orc("partition"), cls("empty-or-inverted-segment"), "zone %s rule %s: segment [%s, %s) is empty or inverted", zone, r, f(sp.start), f(sp.end))
			return
		}
		if i > 0 && spans[i-1].end > sp.start {
			e.Fail(orc("partition"), cls("segments-overlap"), "zone %s rule %s: segments [%s, %s) and [%s, %s) overlap", zone, r, f(spans[i-1].start), f(spans[i-1].end), f(sp.start), f(sp.end))
			return
		}
		if end, ok := known[sp.start]; ok && end != sp.end {
			e.Fail(orc("stable-boundaries"), cls("segment-end-changed"), "zone %s rule %s: segment starting %s used to end at %s and now ends at %s", zone, r, f(sp.start), f(end), f(sp.end))
			return
		}
	}
	for st, end := range known {
		if _, ok := cur[st]; !ok {
			e.Fail(orc("stable-boundaries"), cls("segment-vanished"), "zone %s rule %s: segment [%s, %s) is no longer listed (no retention is configured)", zone, r, f(st), f(end))
			return
		}
	}
	for st, end := range cur {
		known[st] = end
	}
	for _, ts := range accepted {
		n := 0
		for _, sp := range spans {
			if ts >= sp.start && ts < sp.end {
				n++
			}
		}
		if n != 1 {
			e.Fail(orc("partition"), cls("timestamp-not-in-exactly-one-segment"), "zone %s rule %s: accepted timestamp %s lies in %d segments", zone, r, time.Unix(0, ts).In(loc).Format(time.RFC3339Nano), n)
			return
		}
	}
	e.ProbeN("reach.segments_checked", len(spans))
}
