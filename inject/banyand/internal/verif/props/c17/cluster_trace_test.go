package c17

import (
	"fmt"
	"path/filepath"
	"sort"
	"testing"
	"testing/synctest"
	"time"

	tracev1 "github.com/apache/skywalking-banyandb/api/proto/banyandb/trace/v1"
	"github.com/apache/skywalking-banyandb/banyand/internal/verif/simmeta"
	"github.com/apache/skywalking-banyandb/banyand/internal/verif/simnode"
	"github.com/apache/skywalking-banyandb/banyand/internal/verif/wl"
	"github.com/apache/skywalking-banyandb/pkg/verif/simcore"
)

const dayMs = int64(86400_000)

func sortedDays[V any](m map[int64]V) []int64 {
	out := make([]int64, 0, len(m))
	for k := range m {
		out = append(out, k)
	}
	sort.Slice(out, func(i, j int) bool { return out[i] < out[j] })
	return out
}

// runClusterTrace (trace counterpart of runClusterStream): the same generated span batches go to a cluster (1 liaison
// with the real trace write queue, in-memory merge and syncer + 1-3 real data nodes over simnet) and to a standalone
// trace node. Span timestamps lie just before and just after midnights, so one write batch holds spans of two day
// segments; batches follow each other without clock advance (the liaison's flusher then sees memory parts of several
// segments in one window) or with the clock advanced in between. After the liaison's queue has been delivered every
// trace is queried by id over the whole time range and over ranges inside ONE day segment: the cluster must return what
// the standalone node returns and what the span model demands.
func runClusterTrace(e *simcore.Env, tp *simcore.Tape) {
	synctest.Test(e.T, func(*testing.T) {
		s := wl.GenTraceSchema(tp, wl.TraceSchemaOpts{MaxShards: 3})
		nData := tp.Range(1, 3)
		flush := []string{"1s", "3s"}[tp.Choose(2)]
		dataFlags := []string{"--trace-flush-timeout=" + flush}
		liaisonFlags := []string{"--trace-flush-timeout=" + flush, "--trace-sync-interval=" + []string{"1s", "5s"}[tp.Choose(2)]}
		repo := simmeta.New()
		s.Install(repo)
		cl, err := simnode.BootCluster(repo, filepath.Join(e.Dir, "cluster"), nData, simnode.Engines{Trace: true}, dataFlags, liaisonFlags)
		if err != nil {
			e.Fail("boot", "cluster-boot-failed", "boot: %v", err)
			return
		}
		defer cl.Stop()
		repo2 := simmeta.New()
		s.Install(repo2)
		sa, err := simnode.Boot(repo2, filepath.Join(e.Dir, "standalone"), simnode.Engines{Trace: true}, dataFlags)
		if err != nil {
			e.Fail("boot", "boot-failed", "boot: %v", err)
			return
		}
		defer sa.Stop()
		m := wl.NewTraceModel(s)
		m.TolerateTag = func(string) bool { return true } // value fidelity is judged by C13/C01
		e.Event("cluster data-nodes=%d shards=%d tags=%v durRule=%v tsRule=%v liaison flags=%v", nData, s.Shards, s.Tags, s.DurRule, s.TsRule, liaisonFlags)
		// the bubble's clock starts at 2000-01-01T00:00:00Z: span times are drawn around that midnight and the 0-2
		// midnights before it ("now" of the plan is one second past midnight, a trace's spans spread backwards from
		// its base time, so the spans of one trace and of one batch fall on both sides of a midnight)
		day0 := time.Date(2000, 1, 1, 0, 0, 0, 0, time.UTC).UnixMilli()
		plan := m.GenPlan(tp, wl.TracePlanOpts{
			NowMs: day0 + 1000, MaxDaysBack: tp.Choose(3), SpreadMs: int64([]int{2000, 0, 1000, 3600_000}[tp.Choose(4)]),
			MinTraces: 2, MaxTraces: 10, MaxSpans: 6, NullOK: tp.Bool(1, 2),
		})
		// some uptime first (all span times are then in the past)
		up := []time.Duration{10 * time.Second, 2 * time.Second, 60 * time.Second}[tp.Choose(3)]
		time.Sleep(up)
		synctest.Wait()
		e.AddSim(up)
		hist := fmt.Sprintf(" up(%s)", up)
		dayOf := func(ts int64) int64 { return (ts - day0 + 1000*dayMs) / dayMs } // day index (1000 = 2000-01-01)
		newerDays := map[int64]bool{}                                               // days that are the NEWER side of a batch holding spans of two segments
		ver := uint64(1)
		okAll := func(resps []*tracev1.WriteResponse, werr error, n int) bool {
			ok := werr == nil && len(resps) == n
			for _, r := range resps {
				ok = ok && r.GetStatus() == "STATUS_SUCCEED"
			}
			return ok
		}
		for bi, b := range plan.Batches {
			e.Step()
			time.Sleep(time.Millisecond)
			resps, werr := cl.WriteTrace(m.ToRequests(b, ver))
			if !okAll(resps, werr, len(b)) {
				e.Fail("ack", "valid-write-not-acknowledged:cluster", "cluster: batch %d of %d spans not acknowledged: %v", bi, len(b), werr)
				return
			}
			resps, werr = sa.WriteTrace(m.ToRequests(b, ver))
			if !okAll(resps, werr, len(b)) {
				e.Fail("ack", "valid-write-not-acknowledged:standalone", "standalone: batch %d of %d spans not acknowledged: %v", bi, len(b), werr)
				return
			}
			ver += uint64(len(b))
			m.Ack(b)
			days := map[int64]bool{}
			for _, sp := range b {
				days[dayOf(sp.Ts)] = true
			}
			dl := sortedDays(days)
			hist += fmt.Sprintf(" write(%d spans, %d segments)", len(b), len(dl))
			if len(dl) > 1 {
				e.Probe("reach.batch_straddles_segment_boundary")
				for _, d := range dl[1:] {
					newerDays[d] = true
				}
			}
			if k := tp.Weighted(3, 1, 1, 1); k > 0 {
				d := []time.Duration{time.Second, 4 * time.Second, 30 * time.Second}[k-1]
				time.Sleep(d)
				synctest.Wait()
				e.AddSim(d)
				hist += fmt.Sprintf(" advance(%s)", d)
			}
		}
		if len(m.IDs) == 0 {
			return
		}
		// faults have stopped (none injected here): the liaison's queue must drain within a bounded number of sync rounds
		drain := 60 * time.Second
		time.Sleep(drain)
		synctest.Wait()
		e.AddSim(drain)
		e.Event("history:%s; drained %s", hist, drain)
		now := time.Now().UnixMilli()
		wlo, whi := m.Bounds(now)
		// ask runs one request on both systems and groups the answers by trace id
		ask := func(desc string, req func() *tracev1.QueryRequest) (c, a map[string]*wl.Returned, ok bool) {
			e.Step()
			cr, cerr := cl.QueryTrace(req())
			if cerr != nil {
				e.Fail("query", "cluster-query-error", "cluster, %s: %v", desc, cerr)
				return nil, nil, false
			}
			sr, serr := sa.QueryTrace(req())
			if serr != nil {
				e.Fail("query", "standalone-query-error", "standalone, %s: %v", desc, serr)
				return nil, nil, false
			}
			a, cls, msg := m.Collect(sr.GetTraces())
			if cls != "" {
				e.Fail("cluster-equals-standalone", "standalone:"+cls, "standalone, %s: %s", desc, msg)
				return nil, nil, false
			}
			c, cls, msg = m.Collect(cr.GetTraces())
			if cls != "" {
				e.Fail("cluster-equals-standalone", "cluster:"+cls, "cluster of %d data nodes, %s: %s", nData, desc, msg)
				return nil, nil, false
			}
			return c, a, true
		}
		wids := func(r *wl.Returned) []int64 {
			if r == nil {
				return nil
			}
			return r.Wids
		}
		same := func(x, y []int64) bool {
			if len(x) != len(y) {
				return false
			}
			for i := range x {
				if x[i] != y[i] {
					return false
				}
			}
			return true
		}
		// inRange demands every acknowledged span of the trace stamped inside [lo,hi], once (spans of the trace stamped
		// outside the range are not judged against the model: only the comparison with the standalone node covers them)
		inRange := func(id string, lo, hi int64, have []int64) (string, string) {
			seen := map[int64]int{}
			for _, w := range have {
				seen[w]++
				if seen[w] == 2 {
					return "span-returned-twice-in-narrow-range", fmt.Sprintf("span w%d returned more than once (returned %v)", w, have)
				}
			}
			var missing []string
			for _, w := range m.AckedWids(id) {
				if sp := m.SpanByWid(w); sp.Ts >= lo && sp.Ts <= hi && seen[w] == 0 {
					missing = append(missing, fmt.Sprintf("w%d(batch %d, ts %s)", w, sp.Batch, time.UnixMilli(sp.Ts).UTC().Format("01-02T15:04:05.000")))
				}
			}
			if len(missing) > 0 {
				return "spans-missing-in-narrow-range", fmt.Sprintf("acknowledged spans stamped inside the range are missing: %v (returned %v)", missing, have)
			}
			return "", ""
		}
		nNarrow := 0
		for _, id := range m.IDs {
			proj := s.Projection(tp)
			desc := fmt.Sprintf("trace_id = %s over the whole range [%d,%d]", id, wlo, whi)
			c, a, ok := ask(desc, func() *tracev1.QueryRequest { return s.QueryByTraceID(id, wlo, whi, proj) })
			if !ok {
				return
			}
			if cls, msg := m.CompareWhole(id, a[id]); cls != "" {
				e.Fail("cluster-equals-standalone", "standalone:"+cls, "standalone, %s: %s", desc, msg)
				return
			}
			if cls, msg := m.CompareWhole(id, c[id]); cls != "" {
				e.Fail("cluster-equals-standalone", "cluster:"+cls, "cluster of %d data nodes (history:%s), %s: %s (the standalone node fed the same writes answers like the model)", nData, hist, desc, msg)
				return
			}
			e.Event("%s: cluster %d spans = standalone %d spans = model", desc, len(wids(c[id])), len(wids(a[id])))
			// ranges inside one day segment, for every day the trace has spans in
			perDay := map[int64][]int64{}
			for _, sp := range m.Traces[id] {
				perDay[dayOf(sp.Ts)] = append(perDay[dayOf(sp.Ts)], sp.Ts)
			}
			for _, d := range sortedDays(perDay) {
				ts := perDay[d]
				sort.Slice(ts, func(i, j int) bool { return ts[i] < ts[j] })
				start := day0 + (d-1000)*dayMs
				lo, hi := start, start+dayMs-1 // the whole day (time ranges are end-inclusive)
				switch tp.Weighted(3, 2, 1) {
				case 1: // exactly the trace's spans of that day
					lo, hi = ts[0], ts[len(ts)-1]
				case 2: // the first seconds after midnight
					hi = start + 1999
				}
				desc = fmt.Sprintf("trace_id = %s over [%s,%s] (inside one day segment)", id, time.UnixMilli(lo).UTC().Format("01-02T15:04:05.000"), time.UnixMilli(hi).UTC().Format("01-02T15:04:05.000"))
				c, a, ok = ask(desc, func() *tracev1.QueryRequest { return s.QueryByTraceID(id, lo, hi, proj) })
				if !ok {
					return
				}
				if cls, msg := inRange(id, lo, hi, wids(a[id])); cls != "" {
					e.Fail("cluster-equals-standalone", "standalone:"+cls, "standalone, %s: %s", desc, msg)
					return
				}
				if cls, msg := inRange(id, lo, hi, wids(c[id])); cls != "" {
					e.Fail("cluster-equals-standalone", "cluster:"+cls, "cluster of %d data nodes (history:%s), %s: %s (the standalone node fed the same writes returns them: %v)", nData, hist, desc, msg, wids(a[id]))
					return
				}
				if !same(wids(c[id]), wids(a[id])) {
					e.Fail("cluster-equals-standalone", "cluster:differs-from-standalone-in-narrow-range", "cluster of %d data nodes (history:%s), %s: cluster returns spans %v, the standalone node fed the same writes returns %v", nData, hist, desc, wids(c[id]), wids(a[id]))
					return
				}
				nNarrow++
				if newerDays[d] {
					e.Probe("reach.narrow_query_in_newer_segment_compared")
				}
				e.Event("%s: cluster %d spans = standalone %d spans, model satisfied", desc, len(wids(c[id])), len(wids(a[id])))
			}
		}
		e.Probe("reach.cluster_trace_answers_compared")
		if nData > 1 {
			e.Probe("reach.several_data_nodes")
		}
		e.Nontrivial()
		e.SetSample(map[string]any{"data_nodes": nData, "shards": s.Shards, "traces": len(m.IDs), "batches": len(plan.Batches), "narrow_queries": nNarrow, "history": hist})
	})
}
