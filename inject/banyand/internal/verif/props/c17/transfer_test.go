package c17

import (
	"bytes"
	"context"
	"fmt"
	"os"
	"sort"
	"strings"
	"testing"
	"testing/synctest"
	"time"

	"google.golang.org/grpc"
	"google.golang.org/protobuf/proto"

	"github.com/apache/skywalking-banyandb/api/common"
	"github.com/apache/skywalking-banyandb/api/data"
	clusterv1 "github.com/apache/skywalking-banyandb/api/proto/banyandb/cluster/v1"
	databasev1 "github.com/apache/skywalking-banyandb/api/proto/banyandb/database/v1"
	"github.com/apache/skywalking-banyandb/banyand/observability"
	"github.com/apache/skywalking-banyandb/banyand/queue"
	"github.com/apache/skywalking-banyandb/banyand/queue/pub"
	"github.com/apache/skywalking-banyandb/banyand/queue/sub"
	"github.com/apache/skywalking-banyandb/banyand/internal/verif/simnode"
	"github.com/apache/skywalking-banyandb/pkg/verif/simcore"
)

func TestSim(t *testing.T) {
	simnode.InitLogging()
	simcore.Main(t, "C17", scenarios)
}

var scenarios = []simcore.Scenario{
	{Name: "transfer-lockstep", Weight: 3, Run: runLockstep},
	{Name: "transfer-pipelined", Weight: 2, Run: runPipelined},
	{Name: "cluster-measure", Weight: 1, Run: runClusterMeasure},
	{Name: "cluster-stream", Weight: 1, Run: runClusterStream},
	{Name: "cluster-trace", Weight: 1, Run: runClusterTrace},
}

// ---- what is shipped

type simFile struct {
	name string
	data []byte
}

type simPart struct {
	ptype string
	files []simFile
	id    uint64
}

func (p simPart) key() string { return fmt.Sprintf("%d/%s", p.id, p.ptype) }

var fileNames = []string{"meta.bin", "primary.bin", "timestamps.bin", "fv.bin", "tf_a.tf", "tfm_a.tfm", "tag.type"}

func genParts(tp *simcore.Tape, chunk int) []simPart {
	nParts := tp.Weighted(6, 3, 1) + 1
	var parts []simPart
	id := uint64(40)
	sizes := []int{0, 1, chunk - 1, chunk, chunk + 1, 2 * chunk, 2*chunk + 1, 3}
	for i := 0; i < nParts; i++ {
		id++
		types := []string{"core"}
		if tp.Bool(1, 4) {
			types = append(types, "sidx_a")
			if tp.Bool(1, 3) {
				types = append(types, "sidx_b")
			}
		}
		for ti, pt := range types {
			nFiles := tp.Range(1, 5)
			p := simPart{id: id, ptype: pt}
			for f := 0; f < nFiles; f++ {
				var sz int
				if tp.Bool(1, 3) {
					sz = tp.Range(0, 700)
				} else {
					sz = sizes[tp.Choose(len(sizes))]
				}
				if sz < 0 {
					sz = 0
				}
				if f == 0 && sz == 0 {
					sz = 1 // a part (type) always has a non-empty first file (its metadata); other files may be empty
				}
				if sz > 5000 {
					sz = 5000
				}
				b := make([]byte, sz)
				salt := byte(int(id)*31 + ti*17 + f*7 + 1)
				for k := range b {
					b[k] = salt + byte(k*13) + byte(k/251)
				}
				p.files = append(p.files, simFile{name: fileNames[f], data: b})
			}
			parts = append(parts, p)
		}
	}
	return parts
}

func describeParts(parts []simPart) []string {
	var out []string
	for _, p := range parts {
		var fs []string
		for _, f := range p.files {
			fs = append(fs, fmt.Sprintf("%s:%d", f.name, len(f.data)))
		}
		out = append(out, fmt.Sprintf("part %d/%s [%s]", p.id, p.ptype, strings.Join(fs, " ")))
	}
	return out
}

// memReader is a part file. With shortCuts set (fault "short reads") a Read returns fewer bytes than asked for at
// the pre-drawn sizes, with a nil error, in the middle of the file: what io.Reader allows and what a buffered
// file reader does when its read-ahead buffer runs dry.
type memReader struct {
	*bytes.Reader
	cuts []int
	n    *int
}

func (memReader) Path() string { return "mem" }
func (memReader) Close() error { return nil }
func (m memReader) Read(p []byte) (int, error) {
	if len(m.cuts) > 0 && len(p) > 0 {
		c := m.cuts[*m.n%len(m.cuts)]
		*m.n++
		if c > 0 && c < len(p) {
			p = p[:c]
		}
	}
	return m.Reader.Read(p)
}

// shortCuts is set per run (nil = every Read fills the buffer or reaches the end of the file).
var shortCuts []int

func toStreaming(parts []simPart) []queue.StreamingPartData {
	var out []queue.StreamingPartData
	for _, p := range parts {
		var fi []queue.FileInfo
		for _, f := range p.files {
			fi = append(fi, queue.FileInfo{Name: f.name, Reader: memReader{Reader: bytes.NewReader(f.data), cuts: shortCuts, n: new(int)}})
		}
		out = append(out, queue.StreamingPartData{
			Group: "g1", Topic: data.TopicMeasurePartSync.String(), ShardID: 0, ID: p.id, Files: fi, PartType: p.ptype,
			TotalCount: 10, BlocksCount: 1, MinTimestamp: 1, MaxTimestamp: 2,
		})
	}
	return out
}

// ---- the receiving side: a recording handler behind the REAL sub.server.SyncPart state machine.
// FinishSync is the install point of the real engine handlers (they introduce the part there and
// remove the directory in Close otherwise); here an install records the bytes received so far.

type install struct {
	content map[string][]byte // "<ptype>/<file>" -> bytes
	id      uint64
}

type recvHandler struct {
	installs []install
	closedNoFinish int
}

type partH struct {
	h        *recvHandler
	bufs     map[string][]byte
	id       uint64
	finished bool
}

func (h *recvHandler) HandleFileChunk(ctx *queue.ChunkedSyncPartContext, chunk []byte) error {
	ph := ctx.Handler.(*partH)
	k := ctx.PartType + "/" + ctx.FileName
	ph.bufs[k] = append(ph.bufs[k], chunk...)
	return nil
}

func (h *recvHandler) CreatePartHandler(ctx *queue.ChunkedSyncPartContext) (queue.PartHandler, error) {
	return &partH{h: h, id: ctx.ID, bufs: map[string][]byte{}}, nil
}
func (p *partH) NewPartType(*queue.ChunkedSyncPartContext) error { return nil }
func (p *partH) FinishSync() error {
	c := map[string][]byte{}
	for k, v := range p.bufs {
		c[k] = append([]byte(nil), v...)
	}
	p.h.installs = append(p.h.installs, install{id: p.id, content: c})
	p.finished = true
	return nil
}

func (p *partH) Close() error {
	if !p.finished {
		p.h.closedNoFinish++
	}
	return nil
}

// expected content per part id
func expected(parts []simPart) map[uint64]map[string][]byte {
	out := map[uint64]map[string][]byte{}
	for _, p := range parts {
		m := out[p.id]
		if m == nil {
			m = map[string][]byte{}
			out[p.id] = m
		}
		for _, f := range p.files {
			if len(f.data) > 0 {
				m[p.ptype+"/"+f.name] = f.data
			}
		}
	}
	return out
}

func diffContent(want, got map[string][]byte) string {
	var ks []string
	seen := map[string]bool{}
	for k := range want {
		ks = append(ks, k)
		seen[k] = true
	}
	for k := range got {
		if !seen[k] {
			ks = append(ks, k)
		}
	}
	sort.Strings(ks)
	for _, k := range ks {
		w, g := want[k], got[k]
		if !bytes.Equal(w, g) {
			pos := 0
			for pos < len(w) && pos < len(g) && w[pos] == g[pos] {
				pos++
			}
			return fmt.Sprintf("file %s: sender has %d bytes, receiver installed %d bytes (first difference at offset %d)", k, len(w), len(g), pos)
		}
	}
	return ""
}

// checkInstalls: every install must be byte-identical to the sender's part.
func checkInstalls(e *simcore.Env, h *recvHandler, from int, want map[uint64]map[string][]byte, where string) map[uint64]int {
	count := map[uint64]int{}
	for _, in := range h.installs[from:] {
		count[in.id]++
		w, ok := want[in.id]
		if !ok {
			e.Fail("exact-install", "unknown-part-installed", "%s: receiver installed part %d which the sender never sent", where, in.id)
			return count
		}
		if d := diffContent(w, in.content); d != "" {
			e.Fail("exact-install", "installed-content-differs", "%s: receiver installed part %d with content different from the sender's: %s", where, in.id, d)
			return count
		}
	}
	return count
}

type srvEnv struct {
	srv queue.Server
	h   *recvHandler
	ctx context.Context
}

func newReceiver(e *simcore.Env, tp *simcore.Tape) *srvEnv {
	ctx := context.WithValue(context.Background(), common.ContextNodeKey, common.Node{NodeID: "d1"})
	ctx = context.WithValue(ctx, common.ContextNodeRolesKey, []databasev1.Role{databasev1.Role_ROLE_DATA})
	srv := sub.NewServerWithPorts(observability.BypassRegistry, "", 0, 0)
	if err := srv.(interface{ PreRun(context.Context) error }).PreRun(ctx); err != nil {
		panic(err)
	}
	// swarm: receiver ordering knobs (defaults: reordering on, buffer 10, gap 5)
	switch tp.Weighted(6, 2, 2) {
	case 1:
		sub.VerifSetChunkOrdering(srv, false, 10, 5)
		e.Event("receiver: reordering disabled")
	case 2:
		sub.VerifSetChunkOrdering(srv, true, uint32(tp.Range(1, 4)), uint32(tp.Range(1, 3)))
		e.Event("receiver: small reorder window")
	default:
		e.Event("receiver: default ordering config")
	}
	h := &recvHandler{}
	srv.RegisterChunkedSyncHandler(data.TopicMeasurePartSync, h)
	return &srvEnv{srv: srv, h: h, ctx: ctx}
}

type fault struct {
	kind string
	at   int
	arg  int
}

var reqFaultKinds = []string{"flip-data", "flip-checksum", "dup", "drop", "cut", "flip-index", "truncate-data"}

func applyReqFault(f fault, r *req) ([]*req, bool) {
	c := proto.Clone(r).(*req)
	switch f.kind {
	case "flip-data":
		if len(c.ChunkData) == 0 {
			return []*req{r}, false
		}
		c.ChunkData[f.arg%len(c.ChunkData)] ^= 1 << uint(f.arg%8)
		return []*req{c}, false
	case "truncate-data":
		if len(c.ChunkData) == 0 {
			return []*req{r}, false
		}
		c.ChunkData = c.ChunkData[:len(c.ChunkData)-1-(f.arg%len(c.ChunkData))]
		return []*req{c}, false
	case "flip-checksum":
		if len(c.ChunkChecksum) == 0 {
			return []*req{r}, false
		}
		b := []byte(c.ChunkChecksum)
		if b[0] == '0' {
			b[0] = '1'
		} else {
			b[0] = '0'
		}
		c.ChunkChecksum = string(b)
		return []*req{c}, false
	case "flip-index":
		c.ChunkIndex ^= 1 << uint(f.arg%3)
		return []*req{c}, false
	case "dup":
		return []*req{r, c}, false
	case "drop":
		return nil, false
	case "cut":
		return nil, true
	}
	return []*req{r}, false
}

// session runs the REAL sender against the REAL receiver state machine over the simulated wire.
func session(e *simcore.Env, rc *srvEnv, parts []simPart, chunk uint32, reqFaults, respFaults []fault, record *[]*req) (*queue.SyncResult, error, int) {
	srvDone := make(chan error, 4)
	fired := 0
	wc := &wireClient{srv: rc.srv, srvDone: srvDone}
	wc.onReq = func(i int, r *req) ([]*req, bool) {
		if record != nil {
			*record = append(*record, proto.Clone(r).(*req))
		}
		for _, f := range reqFaults {
			if f.at == i {
				out, cut := applyReqFault(f, r)
				fired++
				e.Probe("fault.req." + f.kind)
				e.Event("  wire: request #%d (chunk %d, completion=%v) <- %s", i, r.ChunkIndex, r.GetCompletion() != nil, f.kind)
				return out, cut
			}
		}
		return []*req{r}, false
	}
	wc.onResp = func(i int, r *resp) []*resp {
		for _, f := range respFaults {
			if f.at == i {
				fired++
				e.Probe("fault.resp." + f.kind)
				e.Event("  wire: response #%d (chunk %d, status %s) <- %s", i, r.ChunkIndex, r.Status, f.kind)
				if f.kind == "drop" {
					return nil
				}
				return []*resp{r, proto.Clone(r).(*resp)}
			}
		}
		return []*resp{r}
	}
	clusterv1.NewChunkedSyncServiceClientHook = func(grpc.ClientConnInterface) clusterv1.ChunkedSyncServiceClient { return wc }
	defer func() { clusterv1.NewChunkedSyncServiceClientHook = nil }()
	cl, err := pub.VerifNewChunkedSyncClient("d1", chunk)
	if err != nil {
		panic(err)
	}
	tctx, cancel := context.WithTimeout(rc.ctx, 30*time.Second)
	t0 := time.Now()
	res, serr := cl.SyncStreamingParts(tctx, toStreaming(parts))
	cancel()
	synctest.Wait() // receiver goroutine has finished (its defer closed the part context)
	e.AddSim(time.Since(t0))
	_ = cl.Close()
	return res, serr, fired
}

func failedSet(res *queue.SyncResult) map[string]bool {
	out := map[string]bool{}
	if res != nil {
		for _, f := range res.FailedParts {
			out[f.PartID] = true
		}
	}
	return out
}

func runLockstep(e *simcore.Env, tp *simcore.Tape) {
	synctest.Test(e.T, func(*testing.T) {
		chunkSizes := []int{1, 2, 3, 7, 16, 100, 255, 256, 1000, 4096, 1 << 20}
		chunk := chunkSizes[tp.Choose(len(chunkSizes))]
		parts := genParts(tp, min(chunk, 600))
		shortCuts = nil
		if tp.Side().Bool(1, 3) { // fault: short reads of the part files (sizes 0 = full read)
			for i, k := 0, tp.Side().Range(1, 5); i < k; i++ {
				shortCuts = append(shortCuts, []int{0, 1, 2, 5, 16, 100}[tp.Side().Choose(6)])
			}
			e.Probe("fault.short_reads_of_part_files")
			e.Event("part files are read with short reads %v", shortCuts)
		}
		defer func() { shortCuts = nil }()
		total := 0
		for _, p := range parts {
			for _, f := range p.files {
				total += len(f.data)
			}
		}
		if chunk < 7 && total > 400 { // keep 1-byte-chunk sessions short
			for i := range parts {
				for j := range parts[i].files {
					if len(parts[i].files[j].data) > 40 {
						parts[i].files[j].data = parts[i].files[j].data[:40]
					}
				}
			}
			total = 0
			for _, p := range parts {
				for _, f := range p.files {
					total += len(f.data)
				}
			}
		}
		nMsgs := (total+chunk-1)/chunk + 1
		rc := newReceiver(e, tp)
		var reqFaults, respFaults []fault
		// The property quantifies over single-chunk faults: one wire fault per session (plus the fault-free
		// case). Two independent faults in one session (e.g. a duplicated chunk 0 that de-synchronises the
		// lockstep sender from the responses, followed by a flipped chunk index) are outside the quantifier
		// and are only explored when VERIF_C17_MULTIFAULT is set (DESIGN.md, C17 triage notes).
		nFaults := tp.Weighted(2, 8)
		if os.Getenv("VERIF_C17_MULTIFAULT") != "" {
			nFaults += tp.Choose(2)
		}
		for i := 0; i < nFaults; i++ {
			if tp.Bool(1, 6) {
				respFaults = append(respFaults, fault{kind: []string{"drop", "dup"}[tp.Choose(2)], at: tp.Choose(nMsgs + 1)})
			} else {
				reqFaults = append(reqFaults, fault{kind: reqFaultKinds[tp.Choose(len(reqFaultKinds))], at: tp.Choose(nMsgs + 1), arg: tp.Choose(4096)})
			}
		}
		want := expected(parts)
		e.Event("lockstep chunk=%d total=%d parts=%v reqFaults=%v respFaults=%v", chunk, total, describeParts(parts), reqFaults, respFaults)
		e.SetSample(map[string]any{"chunk_size": chunk, "parts": describeParts(parts), "request_faults": fmt.Sprint(reqFaults), "response_faults": fmt.Sprint(respFaults)})
		res, serr, fired := session(e, rc, parts, uint32(chunk), reqFaults, respFaults, nil)
		e.Step()
		okSender := serr == nil && res != nil && res.Success
		e.Event("session 1: senderSuccess=%v err=%v installs=%d discarded=%d", okSender, serr != nil, len(rc.h.installs), rc.h.closedNoFinish)
		if fired > 0 {
			e.Nontrivial()
		}
		count := checkInstalls(e, rc.h, 0, want, "faulted session")
		if e.Failed() {
			return
		}
		if okSender {
			fs := failedSet(res)
			for id := range want {
				if fs[fmt.Sprint(id)] {
					continue
				}
				if count[id] == 0 {
					e.Fail("no-loss", "sender-success-receiver-missing", "sender was told the session succeeded (no failed part) but part %d was never installed: the sender will drop its copy", id)
					return
				}
				if count[id] > 1 {
					e.Fail("exactly-once", "installed-twice-in-one-session", "part %d installed %d times in one session", id, count[id])
					return
				}
			}
			if fired > 0 {
				e.Probe("reach.faulted_session_still_succeeded")
			}
		} else {
			e.Probe("reach.session_failed_cleanly")
			if fired == 0 {
				e.Fail("liveness", "clean-session-failed", "a fault-free session failed: res=%+v err=%v", res, serr)
				return
			}
		}
		// retry (faults stopped): the sender still has the part; it must now arrive exactly once
		if !okSender {
			before := len(rc.h.installs)
			res2, serr2, _ := session(e, rc, parts, uint32(chunk), nil, nil, nil)
			e.Step()
			ok2 := serr2 == nil && res2 != nil && res2.Success && len(res2.FailedParts) == 0
			e.Event("retry: senderSuccess=%v installs=%d", ok2, len(rc.h.installs)-before)
			if !ok2 {
				e.Fail("liveness", "retry-after-fault-failed", "retry without faults failed: res=%+v err=%v", res2, serr2)
				return
			}
			c2 := checkInstalls(e, rc.h, before, want, "retry session")
			if e.Failed() {
				return
			}
			for id := range want {
				if c2[id] != 1 {
					e.Fail("exactly-once", "retry-install-count", "retry installed part %d %d times", id, c2[id])
					return
				}
			}
		}
	})
}

// runPipelined replays a recorded clean request sequence of the real sender against a fresh receiver
// with the messages reordered / duplicated / dropped / corrupted / truncated on the wire, without
// waiting for acknowledgements (the receiver has a reorder buffer; this is what it is for).
func runPipelined(e *simcore.Env, tp *simcore.Tape) {
	synctest.Test(e.T, func(*testing.T) {
		chunkSizes := []int{7, 16, 100, 255, 256, 1000}
		chunk := chunkSizes[tp.Choose(len(chunkSizes))]
		parts := genParts(tp, min(chunk, 300))
		want := expected(parts)
		rc0 := newReceiver(e, simcore.ReplayTape(nil))
		var rec []*req
		res, serr, _ := session(e, rc0, parts, uint32(chunk), nil, nil, &rec)
		if serr != nil || res == nil || !res.Success {
			e.Fail("liveness", "clean-session-failed", "recording session failed: %+v %v", res, serr)
			return
		}
		checkInstalls(e, rc0.h, 0, want, "recording session")
		if e.Failed() {
			return
		}
		n := len(rec)
		// build the faulted sequence
		seq := make([]*req, n)
		copy(seq, rec)
		var desc []string
		nOps := tp.Weighted(1, 6, 3)
		eof := true
		for i := 0; i < nOps && len(seq) > 0; i++ {
			switch tp.Weighted(3, 3, 2, 2, 2, 1, 2) {
			case 0: // swap neighbours
				if len(seq) >= 2 {
					k := tp.Choose(len(seq) - 1)
					seq[k], seq[k+1] = seq[k+1], seq[k]
					desc = append(desc, fmt.Sprintf("swap(%d,%d)", k, k+1))
					e.Probe("fault.reorder_adjacent")
				}
			case 1: // delay one message by d positions
				if len(seq) >= 2 {
					k := tp.Choose(len(seq) - 1)
					d := tp.Range(1, 9)
					m := seq[k]
					rest := append(append([]*req(nil), seq[:k]...), seq[k+1:]...)
					pos := min(k+d, len(rest))
					seq = append(append(append([]*req(nil), rest[:pos]...), m), rest[pos:]...)
					desc = append(desc, fmt.Sprintf("delay(%d by %d)", k, pos-k))
					e.Probe("fault.reorder_delay")
				}
			case 2: // duplicate
				k := tp.Choose(len(seq))
				pos := k + 1 + tp.Choose(3)
				pos = min(pos, len(seq))
				c := proto.Clone(seq[k]).(*req)
				seq = append(append(append([]*req(nil), seq[:pos]...), c), seq[pos:]...)
				desc = append(desc, fmt.Sprintf("dup(%d at %d)", k, pos))
				e.Probe("fault.duplicate")
			case 3: // drop
				k := tp.Choose(len(seq))
				seq = append(append([]*req(nil), seq[:k]...), seq[k+1:]...)
				desc = append(desc, fmt.Sprintf("drop(%d)", k))
				e.Probe("fault.drop")
			case 4: // bit flip in data
				k := tp.Choose(len(seq))
				out, _ := applyReqFault(fault{kind: "flip-data", arg: tp.Choose(4096)}, seq[k])
				seq[k] = out[0]
				desc = append(desc, fmt.Sprintf("flip-data(%d)", k))
				e.Probe("fault.flip_data")
			case 5: // bit flip in checksum
				k := tp.Choose(len(seq))
				out, _ := applyReqFault(fault{kind: "flip-checksum"}, seq[k])
				seq[k] = out[0]
				desc = append(desc, fmt.Sprintf("flip-checksum(%d)", k))
				e.Probe("fault.flip_checksum")
			case 6: // early stream end
				k := tp.Choose(len(seq))
				seq = seq[:k]
				eof = tp.Bool(1, 2)
				desc = append(desc, fmt.Sprintf("stream-end-before(%d,eof=%v)", k, eof))
				e.Probe("fault.early_stream_end")
			}
		}
		var order []string
		for _, m := range seq {
			if m.GetCompletion() != nil {
				order = append(order, "C")
			} else {
				order = append(order, fmt.Sprint(m.ChunkIndex))
			}
		}
		e.Event("pipelined chunk=%d parts=%v recorded=%d ops=%v wire-order=%v", chunk, describeParts(parts), n, desc, order)
		e.SetSample(map[string]any{"chunk_size": chunk, "parts": describeParts(parts), "wire_faults": desc, "wire_order": strings.Join(order, ",")})
		if len(desc) > 0 {
			e.Nontrivial()
		}
		rc := newReceiver(e, tp)
		ctx, cancel := context.WithTimeout(rc.ctx, 30*time.Second)
		p := &pipe{ctx: ctx, cancel: cancel, c2s: make(chan *req, len(seq)+1), s2c: make(chan *resp, 4*len(seq)+16)}
		for _, m := range seq {
			p.c2s <- proto.Clone(m).(*req)
		}
		if eof {
			close(p.c2s)
		}
		done := make(chan error, 1)
		go func() { done <- sub.VerifSyncPart(rc.srv, sstream{p}) }()
		synctest.Wait()
		if !eof {
			cancel() // the connection breaks
		}
		<-done
		cancel()
		e.Step()
		var final *resp
		close(p.s2c)
		nResp := 0
		for r := range p.s2c {
			nResp++
			if r.GetSyncResult() != nil {
				final = r
			}
		}
		e.Event("receiver: responses=%d installs=%d discarded=%d finalSuccess=%v", nResp, len(rc.h.installs), rc.h.closedNoFinish, final != nil && final.GetSyncResult().GetSuccess())
		count := checkInstalls(e, rc.h, 0, want, "pipelined faulted session")
		if e.Failed() {
			return
		}
		if final != nil && final.GetSyncResult().GetSuccess() {
			for id := range want {
				if count[id] == 0 {
					e.Fail("no-loss", "receiver-reports-success-without-install", "receiver reported SYNC_COMPLETE success but part %d was not installed", id)
					return
				}
			}
			e.Probe("reach.faulted_pipelined_success")
		} else {
			e.Probe("reach.pipelined_failed_cleanly")
		}
		for id, c := range count {
			if c > 1 {
				e.Fail("exactly-once", "installed-twice-in-one-session", "part %d installed %d times in one stream", id, c)
				return
			}
		}
	})
}
