package c17

import (
	"fmt"
	"path/filepath"
	"testing"
	"testing/synctest"
	"time"

	"github.com/apache/skywalking-banyandb/banyand/internal/verif/simmeta"
	"github.com/apache/skywalking-banyandb/banyand/internal/verif/simnode"
	"github.com/apache/skywalking-banyandb/banyand/internal/verif/wl"
	"github.com/apache/skywalking-banyandb/pkg/verif/simcore"
)

// runClusterStream (stream counterpart of runClusterMeasure): the same generated writes go to a cluster (1 liaison with the real write queue and
// syncer + 1-3 real data nodes over simnet) and to a standalone node; after the liaison's queue has been
// delivered both must answer every query like the row model.
func runClusterStream(e *simcore.Env, tp *simcore.Tape) {
	synctest.Test(e.T, func(*testing.T) {
		s := wl.GenStreamSchema(tp, wl.SchemaOpts{MaxShards: 3})
		nData := tp.Range(1, 3)
		flushSec := []int{1, 3}[tp.Choose(2)]
		dataFlags := []string{fmt.Sprintf("--stream-flush-timeout=%ds", flushSec)}
		liaisonFlags := []string{fmt.Sprintf("--stream-flush-timeout=%ds", flushSec), "--stream-sync-interval=" + []string{"1s", "5s"}[tp.Choose(2)]}
		repo := simmeta.New()
		s.Install(repo)
		cl, err := simnode.BootCluster(repo, filepath.Join(e.Dir, "cluster"), nData, simnode.Engines{Stream: true}, dataFlags, liaisonFlags)
		if err != nil {
			e.Fail("boot", "cluster-boot-failed", "boot: %v", err)
			return
		}
		defer cl.Stop()
		repo2 := simmeta.New()
		s.Install(repo2)
		sa, err := simnode.Boot(repo2, filepath.Join(e.Dir, "standalone"), simnode.Engines{Stream: true}, dataFlags)
		if err != nil {
			e.Fail("boot", "boot-failed", "boot: %v", err)
			return
		}
		defer sa.Stop()
		m := wl.NewStreamModel(s)
		m.Tolerate = func(string) bool { return true } // value fidelity is C01's subject
		e.Event("cluster data-nodes=%d shards=%d tags=%v liaison flags=%v", nData, s.Shards, s.Tags, liaisonFlags)
		msgID := uint64(1)
		hist := ""
		// timestamps exactly on day-segment boundaries (the bubble's clock starts at 2000-01-01T00:00:00Z)
		day0 := time.Date(2000, 1, 1, 0, 0, 0, 0, time.UTC).UnixMilli()
		boundaries := []int64{day0, day0 - 86400_000, day0 + 86400_000}
		for i, k := 0, tp.Range(2, 8); i < k; i++ {
			e.Step()
			if tp.Weighted(3, 2) == 0 {
				time.Sleep(time.Millisecond)
				rows := m.GenBatch(tp, wl.BatchOpts{BaseMs: time.Now().UnixMilli(), SpanMs: int64([]int{1000, 3600_000, 2 * 86400_000}[tp.Choose(3)]), MaxRows: 100, MaxSeries: 6, NullOK: true, FixedTimes: boundaries}, i)
				for who, write := range map[string]func() (bool, error){
					"cluster": func() (bool, error) {
						resps, werr := cl.WriteStream(m.ToRequests(rows, msgID))
						ok := werr == nil && len(resps) == len(rows)
						for _, r := range resps {
							ok = ok && r.GetStatus() == "STATUS_SUCCEED"
						}
						return ok, werr
					},
					"standalone": func() (bool, error) {
						resps, werr := sa.WriteStream(m.ToRequests(rows, msgID))
						ok := werr == nil && len(resps) == len(rows)
						for _, r := range resps {
							ok = ok && r.GetStatus() == "STATUS_SUCCEED"
						}
						return ok, werr
					},
				} {
					if ok, werr := write(); !ok {
						e.Fail("ack", "valid-write-not-acknowledged:"+who, "%s: batch of %d rows not acknowledged: %v", who, len(rows), werr)
						return
					}
				}
				msgID += uint64(len(rows))
				m.Ack(rows)
				hist += fmt.Sprintf(" write(%d)", len(rows))
			} else {
				d := []time.Duration{time.Second, 4 * time.Second, 30 * time.Second}[tp.Choose(3)]
				time.Sleep(d)
				synctest.Wait()
				e.AddSim(d)
				hist += fmt.Sprintf(" advance(%s)", d)
			}
		}
		if len(m.Rows) == 0 {
			return
		}
		// faults have stopped (none injected here): the liaison's queue must drain within a bounded number of sync rounds
		drain := 60 * time.Second
		time.Sleep(drain)
		synctest.Wait()
		e.AddSim(drain)
		e.Event("history:%s; drained %s", hist, drain)
		lo, hi := int64(1<<62), int64(0)
		for _, r := range m.Rows {
			lo, hi = min(lo, r.Ts), max(hi, r.Ts)
		}
		type q struct {
			keep   func(*wl.SRow) bool
			p      wl.Projection
			lo, hi int64
		}
		qs := []q{{lo: lo, hi: hi, p: s.FullProjection()}}
		for i, k := 0, tp.Range(1, 3); i < k; i++ {
			a, b := m.Rows[tp.Choose(len(m.Rows))].Ts, m.Rows[tp.Choose(len(m.Rows))].Ts
			a, b = min(a, b), max(a, b)
			qs = append(qs, q{lo: a, hi: b, p: s.GenProjection(tp), keep: func(r *wl.SRow) bool { return r.Ts >= a && r.Ts <= b }})
		}
		for qi, qq := range qs {
			e.Step()
			req := s.QueryRequest(qq.lo, qq.hi, qq.p, 1000000)
			cr, cerr := cl.QueryStream(req)
			if cerr != nil {
				e.Fail("query", "cluster-query-error", "cluster query %d failed: %v", qi, cerr)
				return
			}
			sr, serr := sa.QueryStream(s.QueryRequest(qq.lo, qq.hi, qq.p, 1000000))
			if serr != nil {
				e.Fail("query", "standalone-query-error", "standalone query %d failed: %v", qi, serr)
				return
			}
			if cls, msg := m.Mismatch(sr.GetElements(), qq.p, qq.keep); cls != "" {
				e.Fail("cluster-equals-standalone", "standalone:"+cls, "standalone, query %d [%d,%d]: %s", qi, qq.lo, qq.hi, msg)
				return
			}
			if cls, msg := m.Mismatch(cr.GetElements(), qq.p, qq.keep); cls != "" {
				e.Fail("cluster-equals-standalone", "cluster:"+cls, "cluster of %d data nodes (history:%s), query %d [%d,%d]: %s (the standalone node fed the same writes answers like the model)", nData, hist, qi, qq.lo, qq.hi, msg)
				return
			}
			e.Event("query %d [%d,%d]: cluster %d rows = standalone %d rows = model", qi, qq.lo, qq.hi, len(cr.GetElements()), len(sr.GetElements()))
		}
		e.Probe("reach.cluster_answers_compared")
		if nData > 1 {
			e.Probe("reach.several_data_nodes")
		}
		e.Nontrivial()
		e.SetSample(map[string]any{"data_nodes": nData, "shards": s.Shards, "rows": len(m.Rows), "history": hist})
	})
}
