// Package c17 decides property C17 (a cluster answers like a standalone node; part transfer is exact).
package c17

import (
	"context"
	"errors"
	"io"
	"sync"

	"google.golang.org/grpc"
	"google.golang.org/grpc/metadata"
	"google.golang.org/protobuf/proto"

	clusterv1 "github.com/apache/skywalking-banyandb/api/proto/banyandb/cluster/v1"
	"github.com/apache/skywalking-banyandb/banyand/queue"
	"github.com/apache/skywalking-banyandb/banyand/queue/sub"
)

type (
	req  = clusterv1.SyncPartRequest
	resp = clusterv1.SyncPartResponse
)

// pipe is the simulated wire of one SyncPart stream: an in-memory pair of the generated gRPC stream
// interfaces. Every message passes through onReq / onResp, where the simulator may drop, duplicate,
// corrupt it or cut the stream.
type pipe struct {
	ctx    context.Context
	cancel context.CancelFunc
	c2s    chan *req
	s2c    chan *resp
	onReq  func(i int, r *req) (out []*req, cut bool)
	onResp func(i int, r *resp) []*resp
	mu     sync.Mutex
	nReq   int
	nResp  int
	closed bool
}

type cstream struct{ p *pipe }

func (c cstream) Send(r *req) error {
	p := c.p
	p.mu.Lock()
	i := p.nReq
	p.nReq++
	p.mu.Unlock()
	// gRPC serialises a message inside Send: the receiver never shares memory with the sender (which
	// reuses its chunk buffer as soon as Send returns). Model that with a deep copy.
	r = proto.Clone(r).(*req)
	out := []*req{r}
	cut := false
	if p.onReq != nil {
		out, cut = p.onReq(i, r)
	}
	for _, m := range out {
		select {
		case p.c2s <- m:
		case <-p.ctx.Done():
			return p.ctx.Err()
		}
	}
	if cut {
		p.cancel()
		return errors.New("simulated: stream cut")
	}
	return nil
}

func (c cstream) Recv() (*resp, error) {
	// a message that is already there is delivered before a cancellation is noticed (select would pick at random)
	select {
	case r, ok := <-c.p.s2c:
		if !ok {
			return nil, io.EOF
		}
		return r, nil
	default:
	}
	select {
	case r, ok := <-c.p.s2c:
		if !ok {
			return nil, io.EOF
		}
		return r, nil
	case <-c.p.ctx.Done():
		return nil, c.p.ctx.Err()
	}
}
func (c cstream) Header() (metadata.MD, error) { return nil, nil }
func (c cstream) Trailer() metadata.MD         { return nil }
func (c cstream) CloseSend() error {
	c.p.mu.Lock()
	defer c.p.mu.Unlock()
	if !c.p.closed {
		c.p.closed = true
		close(c.p.c2s)
	}
	return nil
}
func (c cstream) Context() context.Context { return c.p.ctx }
func (c cstream) SendMsg(any) error        { return errors.New("unused") }
func (c cstream) RecvMsg(any) error        { return errors.New("unused") }

type sstream struct{ p *pipe }

func (s sstream) Recv() (*req, error) {
	select {
	case r, ok := <-s.p.c2s:
		if !ok {
			return nil, io.EOF
		}
		return r, nil
	default:
	}
	select {
	case r, ok := <-s.p.c2s:
		if !ok {
			return nil, io.EOF
		}
		return r, nil
	case <-s.p.ctx.Done():
		return nil, s.p.ctx.Err()
	}
}

func (s sstream) Send(r *resp) error {
	p := s.p
	p.mu.Lock()
	i := p.nResp
	p.nResp++
	p.mu.Unlock()
	r = proto.Clone(r).(*resp)
	out := []*resp{r}
	if p.onResp != nil {
		out = p.onResp(i, r)
	}
	for _, m := range out {
		select {
		case p.s2c <- m:
		case <-p.ctx.Done():
			return p.ctx.Err()
		}
	}
	return nil
}
func (s sstream) SetHeader(metadata.MD) error  { return nil }
func (s sstream) SendHeader(metadata.MD) error { return nil }
func (s sstream) SetTrailer(metadata.MD)       {}
func (s sstream) Context() context.Context     { return s.p.ctx }
func (s sstream) SendMsg(any) error            { return errors.New("unused") }
func (s sstream) RecvMsg(any) error            { return errors.New("unused") }

// wireClient is what the generated NewChunkedSyncServiceClient returns under the simulation hook: it
// connects the real sender to the real receive handler of `srv` through a pipe.
type wireClient struct {
	srv     queue.Server
	onReq   func(i int, r *req) ([]*req, bool)
	onResp  func(i int, r *resp) []*resp
	srvDone chan error
}

func (w *wireClient) SyncPart(ctx context.Context, _ ...grpc.CallOption) (grpc.BidiStreamingClient[req, resp], error) {
	c, cancel := context.WithCancel(ctx)
	p := &pipe{ctx: c, cancel: cancel, c2s: make(chan *req, 256), s2c: make(chan *resp, 256), onReq: w.onReq, onResp: w.onResp}
	go func() {
		err := sub.VerifSyncPart(w.srv, sstream{p})
		close(p.s2c)
		w.srvDone <- err
	}()
	return cstream{p}, nil
}
