// Package c04 decides property C04 (a crash at any point recovers to a consistent durable prefix).
package c04

import (
	"github.com/apache/skywalking-banyandb/banyand/internal/verif/simknobs"
	"fmt"
	"path/filepath"
	"sort"
	"strings"
	"sync/atomic"
	"testing"
	"testing/synctest"
	"time"

	"github.com/apache/skywalking-banyandb/banyand/internal/verif/simdisk"
	"github.com/apache/skywalking-banyandb/banyand/internal/verif/simmeta"
	"github.com/apache/skywalking-banyandb/banyand/internal/verif/simnode"
	"github.com/apache/skywalking-banyandb/banyand/internal/verif/wl"
	"github.com/apache/skywalking-banyandb/pkg/verif/simcore"
	"github.com/apache/skywalking-banyandb/pkg/verif/simos"
)

func TestSim(t *testing.T) {
	simnode.InitLogging()
	simcore.Main(t, "C04", []simcore.Scenario{
		{Name: "measure-node-crash", Weight: 1, Run: runMeasureCrash},
		{Name: "stream-node-crash", Weight: 1, Run: runStreamCrash},
		{Name: "trace-node-crash", Weight: 1, Run: runTraceCrash},
	})
}

type batchInfo struct {
	wids   []int64
	ackIdx int // journal length when the acknowledgement returned
}

func runMeasureCrash(e *simcore.Env, tp *simcore.Tape) {
	synctest.Test(e.T, func(*testing.T) {
		knobDesc, knobRestore := simknobs.Draw(tp, "measure")
		defer knobRestore()
		simknobs.Record(e, knobDesc)
		s := wl.GenMeasureSchema(tp, wl.SchemaOpts{MaxShards: 1})
		repo := simmeta.New()
		s.Install(repo)
		flushSec := []int{1, 3, 10}[tp.Choose(3)]
		flags := []string{fmt.Sprintf("--measure-flush-timeout=%ds", flushSec), fmt.Sprintf("--measure-max-merge-parts=%d", tp.Range(2, 6))}
		dirA := filepath.Join(e.Dir, "a")
		journal := simos.Start(dirA)
		defer simos.Stop()
		n, err := simnode.Boot(repo, dirA, simnode.Engines{Measure: true}, flags)
		if err != nil {
			e.Fail("boot", "boot-failed", "boot: %v", err)
			return
		}
		m := wl.NewMeasureModel(s)
		m.Tolerate = func(string) bool { return true } // value fidelity is C01's subject
		// Stalled maintenance: the stallN-th creation of a part directory (the output of a flush or of a merge)
		// blocks until the driver has performed stallOps further operations, so that ingestion, flushes and merges
		// overlap (e.g. a newer part is flushed and published while an older merge is still writing its output).
		stallN := int32(tp.Choose(7)) // 0 = nobody is stalled
		stallOps := tp.Range(1, 3)
		if stallN > 0 {
			e.FreeRunning() // which creation is the stallN-th, and what overlaps it, is decided by the real scheduler
		}
		var partDirs atomic.Int32
		var noMoreStalls atomic.Bool // set before the final quiescent point: "faults have stopped"
		stallCh := make(chan struct{})
		stalled := make(chan struct{}, 1)
		simos.SetFailer(func(_ int, op *simos.Op) error {
			if stallN > 0 && !noMoreStalls.Load() && op.Kind == simos.OpMkdirAll && pathClass(op.Path) == "part-dir" && partDirs.Add(1) == stallN {
				stalled <- struct{}{}
				select {
				case <-stallCh:
				case <-time.After(3 * time.Minute): // never outlive the history (e.g. a stall that begins during shutdown)
				}
			}
			return nil
		})
		stallLeft := -1
		releaseStall := func() {
			if stallLeft >= 0 {
				close(stallCh)
				stallLeft = -1
				synctest.Wait()
			}
		}
		time.Sleep(time.Duration(tp.Range(1, 600)) * time.Minute)
		synctest.Wait()
		e.Event("schema tags=%v fields=%v flags=%v", s.Tags, s.Fields, flags)
		var batches []batchInfo
		msgID := uint64(1)
		var sample []string
		nOps := tp.Range(3, 12)
		for op := 0; op < nOps; op++ {
			e.Step()
			select {
			case <-stalled:
				stallLeft = stallOps
				e.Probe("fault.maintenance_stalled_at_part_directory_creation")
				e.Event("maintenance stalled at its part-directory creation for %d operations", stallOps)
			default:
			}
			if stallLeft == 0 {
				releaseStall()
				e.Event("stalled maintenance released")
			} else if stallLeft > 0 {
				stallLeft--
			}
			if tp.Weighted(3, 2) == 0 {
				time.Sleep(time.Duration(tp.Range(1, 3000)) * time.Microsecond)
				synctest.Wait()
				rows := m.GenBatch(tp, wl.BatchOpts{BaseMs: time.Now().UnixMilli(), SpanMs: int64([]int{1000, 600_000}[tp.Choose(2)]), MaxRows: 60, MaxSeries: 4, NullOK: true}, len(batches))
				reqs := m.ToRequests(rows, msgID)
				msgID += uint64(len(reqs))
				resps, werr := n.WriteMeasure(reqs)
				ok := werr == nil && len(resps) == len(reqs)
				for _, r := range resps {
					ok = ok && r.GetStatus() == "STATUS_SUCCEED"
				}
				if !ok {
					e.Fail("ack", "valid-write-not-acknowledged", "batch of %d rows not acknowledged: %v", len(rows), werr)
					n.Stop()
					return
				}
				m.Ack(rows)
				synctest.Wait() // observe the journal at a quiescent point only (background loops run in real parallel)
				// a batch whose rows fall into two segments is two sub-batches: tables flush independently, the
				// prefix claim is made per table (group, segment, shard)
				byDay := map[int64]*batchInfo{}
				var days []int64
				for _, r := range rows {
					d := r.Ts / 86400_000
					if byDay[d] == nil {
						byDay[d] = &batchInfo{ackIdx: simos.Len()}
						days = append(days, d)
					}
					byDay[d].wids = append(byDay[d].wids, r.Wid)
				}
				sort.Slice(days, func(i, j int) bool { return days[i] < days[j] })
				for _, d := range days {
					batches = append(batches, *byDay[d])
				}
				if len(days) > 1 {
					e.Probe("reach.batch_spans_segments")
				}
				e.Event("batch: %d rows in %d table(s) acknowledged at journal op %d", len(rows), len(days), simos.Len())
				sample = append(sample, fmt.Sprintf("write %d rows", len(rows)))
			} else {
				d := []time.Duration{500 * time.Millisecond, time.Duration(flushSec) * time.Second, time.Duration(2*flushSec+1) * time.Second, 90 * time.Second}[tp.Choose(4)]
				time.Sleep(d)
				synctest.Wait()
				e.AddSim(d)
				e.Event("advance %s (journal at %d)", d, simos.Len())
				sample = append(sample, "advance "+d.String())
			}
		}
		noMoreStalls.Store(true)
		synctest.Wait()
		select {
		case <-stalled:
			stallLeft = 0
		default:
		}
		releaseStall()
		// final quiescent point: everything acknowledged so far has had two flush periods
		lastAck := simos.Len()
		time.Sleep(time.Duration(2*flushSec+1) * time.Second)
		synctest.Wait()
		endIdx := simos.Len()
		n.Stop()
		synctest.Wait()
		ops := append([]simos.Op(nil), journal.Ops...)
		simos.Stop()
		extra := simdisk.Unjournaled(dirA, ops)
		if len(batches) == 0 || endIdx == 0 {
			e.SetSample(map[string]any{"ops": sample, "note": "no batch written"})
			return
		}
		e.Nontrivial()
		// the crash specifications, ascending in K
		var specs []simdisk.Spec
		nSpecs := tp.Range(4, 10)
		interesting := []int{}
		for i := 0; i < endIdx; i++ {
			switch ops[i].Kind {
			case simos.OpRename, simos.OpRemove, simos.OpRmAll, simos.OpFsyncDir:
				interesting = append(interesting, i, i+1)
			}
		}
		for i := 0; i < nSpecs; i++ {
			var k int
			if len(interesting) > 0 && tp.Bool(1, 2) {
				k = interesting[tp.Choose(len(interesting))]
			} else {
				k = tp.Choose(endIdx + 1)
			}
			sp := simdisk.Spec{K: k, Partial: -1}
			if k < len(ops) && ops[k].Kind == simos.OpWrite && tp.Bool(1, 2) {
				l := len(ops[k].Data)
				sp.Partial = []int{0, 1, l / 2, max(l-1, 0)}[tp.Choose(4)]
			}
			if tp.Bool(1, 2) {
				sp.Power = true
				sp.NsKeep = []int{0, 1, 3, 1 << 20}[tp.Choose(4)]
				sp.TailNum, sp.TailDen = []int{0, 1, 1}[tp.Choose(3)], []int{1, 2, 1}[tp.Choose(3)]
				sp.ZeroFill = tp.Bool(1, 4)
			}
			specs = append(specs, sp)
		}
		// always: both models at the final quiescent point, the harshest power cut included
		specs = append(specs, simdisk.Spec{K: endIdx, Partial: -1}, simdisk.Spec{K: endIdx, Partial: -1, Power: true, NsKeep: 0, TailNum: 0, TailDen: 1})
		sort.SliceStable(specs, func(i, j int) bool { return specs[i].K < specs[j].K })
		lowerK, lowerP := map[int]bool{}, map[int]bool{} // batches known durable under each model at an earlier point
		for i, sp := range specs {
			if e.Failed() {
				break
			}
			dst := filepath.Join(e.Dir, fmt.Sprintf("crash%d", i))
			desc, merr := simdisk.Materialize(ops, sp, dst, extra)
			if merr != nil {
				e.Fail("harness", "materialize-failed", "%v", merr)
				return
			}
			kind := "op-boundary"
			if sp.K < len(ops) {
				kind = "before-" + ops[sp.K].Kind.String() + ":" + pathClass(ops[sp.K].Path)
			}
			e.Event("crash %s [%s] -> %s", sp, kind, desc)
			e.Probe("fault.crash." + map[bool]string{false: "kill9", true: "powerloss"}[sp.Power])
			if sp.Partial >= 0 {
				e.Probe("fault.crash.inside_write")
			}
			got, cls, msg := recoverAndRead(e, repo, dst, flags, s, m)
			if cls != "" {
				e.Fail("recovery", cls+modelTag(sp), "crash %s [%s]: %s", sp, kind, msg)
				break
			}
			// which batches are present, and are they complete?
			present := map[int]bool{}
			for bi, b := range batches {
				cnt := 0
				for _, w := range b.wids {
					if got[w] {
						cnt++
					}
				}
				if cnt > 0 && cnt < len(b.wids) {
					e.Fail("durable-prefix", "batch-partially-recovered"+modelTag(sp), "crash %s [%s]: batch %d recovered with %d of %d rows", sp, kind, bi, cnt, len(b.wids))
				}
				if cnt == len(b.wids) {
					present[bi] = true
				}
			}
			if e.Failed() {
				break
			}
			// prefix of the batch sequence (one shard, per segment the order of batches is the global order)
			seenGap := -1
			for bi := range batches {
				if !present[bi] {
					if seenGap < 0 {
						seenGap = bi
					}
				} else if seenGap >= 0 && sameTables(m, batches[seenGap], batches[bi]) {
					e.Fail("durable-prefix", "not-a-prefix"+modelTag(sp), "crash %s [%s]: batch %d is recovered but the earlier batch %d of the same table is not", sp, kind, bi, seenGap)
					break
				}
			}
			if e.Failed() {
				break
			}
			// nothing that was durable at an earlier crash point may be missing at a later one
			need := lowerP
			if !sp.Power {
				need = union(lowerK, lowerP)
			}
			for bi := range need {
				if !present[bi] {
					e.Fail("durable-prefix", "durable-batch-lost-later"+modelTag(sp), "crash %s [%s]: batch %d was recoverable from an earlier crash point under a harsher model but is lost here", sp, kind, bi)
					break
				}
			}
			if e.Failed() {
				break
			}
			if !sp.Power {
				for bi := range present {
					lowerK[bi] = true
				}
			} else if sp.NsKeep == 0 && sp.TailNum == 0 {
				for bi := range present {
					lowerP[bi] = true
				}
			}
			if len(present) > 0 {
				e.Probe("reach.recovered_nonempty")
			}
			// absolute bound at the final quiescent point: whatever was acknowledged two flush periods before it
			if sp.K == endIdx {
				for bi, b := range batches {
					if b.ackIdx <= lastAck && !present[bi] {
						e.Fail("durable-prefix", "flushed-batch-not-durable"+modelTag(sp), "crash %s at the final quiescent point (two flush periods after the last acknowledgement): batch %d is not recovered", sp, bi)
						break
					}
				}
				e.Probe("reach.final_point_checked")
			}
		}
		e.SetSample(map[string]any{"flags": flags, "journal_ops": endIdx, "batches": len(batches), "crash_specs": fmt.Sprint(specs), "ops": sample})
	})
}

func modelTag(sp simdisk.Spec) string {
	if sp.Power {
		return ":power-loss"
	}
	return ":kill-9"
}

func union(a, b map[int]bool) map[int]bool {
	out := map[int]bool{}
	for k := range a {
		out[k] = true
	}
	for k := range b {
		out[k] = true
	}
	return out
}

// sameTables: both batches have rows in a common segment (one shard): then the table-level order applies.
func sameTables(m *wl.MeasureModel, a, b batchInfo) bool {
	days := map[int64]bool{}
	idx := map[int64]*wl.MRow{}
	for _, r := range m.Rows {
		idx[r.Wid] = r
	}
	for _, w := range a.wids {
		days[idx[w].Ts/86400_000] = true
	}
	for _, w := range b.wids {
		if !days[idx[w].Ts/86400_000] {
			return false
		}
	}
	return true
}

// pathClass reduces a journaled path to its role (stable across runs).
func pathClass(p string) string {
	base := filepath.Base(p)
	switch {
	case strings.HasSuffix(base, ".snp"):
		return "snapshot-manifest"
	case strings.HasSuffix(base, ".tmp"):
		return "tmp:" + strings.TrimSuffix(base, ".tmp")[max(0, len(base)-12):]
	case base == "metadata.json" || base == "metadata":
		return base
	case len(base) == 16 && !strings.Contains(base, "."):
		return "part-dir"
	}
	if i := strings.LastIndex(base, "."); i >= 0 {
		return "*" + base[i:]
	}
	return base
}

// recoverAndRead boots a fresh node incarnation on the crash state and reads everything back.
func recoverAndRead(e *simcore.Env, repo *simmeta.Repo, dir string, flags []string, s *wl.MeasureSchema, m *wl.MeasureModel) (got map[int64]bool, cls, msg string) {
	defer func() {
		if r := recover(); r != nil {
			cls, msg = "startup-panic", fmt.Sprintf("start-up on the crash state panicked: %v", r)
		}
	}()
	n, err := simnode.Boot(repo, dir, simnode.Engines{Measure: true}, flags)
	if err != nil {
		return nil, "startup-error", fmt.Sprintf("start-up on the crash state failed: %v", err)
	}
	defer n.Stop()
	now := time.Now().UnixMilli()
	p := s.FullProjection()
	resp, qerr := n.QueryMeasure(s.QueryRequest(now-40*86400_000, now+86400_000, p, 1000000))
	if qerr != nil {
		return nil, "query-error-after-recovery", fmt.Sprintf("query after recovery failed: %v", qerr)
	}
	known := map[int64]*wl.MRow{}
	for _, r := range m.Rows {
		known[r.Wid] = r
	}
	got = map[int64]bool{}
	for _, dp := range resp.GetDataPoints() {
		w := wl.Wid(dp)
		r, ok := known[w]
		if !ok {
			return nil, "garbage-row-after-recovery", fmt.Sprintf("recovered node returned a row that was never written: %s", wl.CanonDataPoint(dp, p))
		}
		if got[w] {
			return nil, "duplicate-row-after-recovery", fmt.Sprintf("recovered node returned write #%d twice", w)
		}
		got[w] = true
		if dp.GetTimestamp().AsTime().UnixMilli() != r.Ts {
			return nil, "garbage-row-after-recovery", fmt.Sprintf("write #%d came back with timestamp %d instead of %d", w, dp.GetTimestamp().AsTime().UnixMilli(), r.Ts)
		}
	}
	return got, "", ""
}
