package c04

import (
	"encoding/json"
	"fmt"
	"path/filepath"
	"runtime"
	"sort"
	"strings"
	"sync"
	"sync/atomic"
	"testing"
	"testing/synctest"
	"time"

	"github.com/apache/skywalking-banyandb/banyand/internal/verif/simdisk"
	"github.com/apache/skywalking-banyandb/banyand/internal/verif/simknobs"
	"github.com/apache/skywalking-banyandb/banyand/internal/verif/simmeta"
	"github.com/apache/skywalking-banyandb/banyand/internal/verif/simnode"
	"github.com/apache/skywalking-banyandb/banyand/internal/verif/wl"
	"github.com/apache/skywalking-banyandb/pkg/verif/simcore"
	"github.com/apache/skywalking-banyandb/pkg/verif/simos"
)

// Scenario trace-node-crash: the stream-node-crash history and oracles over the TRACE engine (core parts plus the
// ordered secondary index parts that the trace table flushes and merges along with them). The helpers below are
// copies of the stream ones adapted to the trace layout; the stream and measure scenarios are untouched.

// pubWrite is one publication of a table's snapshot manifest as the journal shows it: from the creation of
// <epoch>.snp.tmp to the rename that puts <epoch>.snp in place.
type pubWrite struct {
	names   map[string]bool // part directory names the manifest lists
	dir     string          // journal-relative path of the table
	kind    string          // which introduction wrote it (label for probes and the event log only)
	dropped []string        // journal paths of completely written part directories that the table's previous manifest lists and this one does not (the inputs of a merge)
	begin   int             // index of the creation of the tmp file
	end     int             // index of the rename (len(ops) if it never happened)
	// removedInside counts removals of dropped directories journaled inside [begin,end): inputs that are gone while
	// the previous manifest is still the durable one. Diagnostics only.
	removedInside int
}

// traceCaller labels the engine activity on whose stack the current file-system call runs (probes and event
// log only; no oracle depends on it).
func traceCaller() (maintenance, publication string) {
	pcs := make([]uintptr, 64)
	n := runtime.Callers(2, pcs)
	frames := runtime.CallersFrames(pcs[:n])
	var flusher, lane, merging, finalize bool
	for {
		f, more := frames.Next()
		switch {
		case strings.Contains(f.Function, "flusherLoop"):
			flusher = true
		case strings.Contains(f.Function, "mergeLaneWorker"):
			lane = true
		case strings.Contains(f.Function, "mergePartsThen"):
			merging = true
		case strings.Contains(f.Function, "Finalize"):
			finalize = true
		case strings.Contains(f.Function, "introduceMerged"):
			publication = "merged"
		case strings.Contains(f.Function, "introduceFlushed"):
			publication = "flushed"
		case strings.Contains(f.Function, "introduceMemPart") || strings.Contains(f.Function, "introducePart"):
			publication = "part"
		case strings.Contains(f.Function, "loadSnapshot"):
			publication = "startup"
		}
		if !more {
			break
		}
	}
	switch {
	case flusher && merging:
		maintenance = "mem-merge"
	case flusher:
		maintenance = "flush"
	case lane:
		maintenance = "merge"
	case finalize:
		maintenance = "finalize"
	default:
		maintenance = "other"
	}
	if publication == "" {
		publication = "other"
	}
	return maintenance, publication
}

// tracePartWritesOf reads the part creations (core parts: commit record metadata.json; secondary index parts:
// manifest.json) and the manifest publications out of the journal.
func tracePartWritesOf(ops []simos.Op, kinds, pubKinds map[string]string) (pws []*partWrite, pubs []*pubWrite) {
	open := map[string]*partWrite{}
	renamed := map[string]bool{}
	complete := map[string]bool{} // part directories whose creation was closed
	tmpData := map[string][]byte{}
	pending := map[string]*pubWrite{}      // by tmp path
	lastOf := map[string]map[string]bool{} // table -> names of its latest manifest in place
	for i := range ops {
		op := &ops[i]
		switch op.Kind {
		case simos.OpMkdirAll:
			if pathClass(op.Path) == "part-dir" && open[op.Path] == nil {
				k := kinds[op.Path]
				if k == "" {
					k = "other"
				}
				pw := &partWrite{dir: op.Path, kind: k, begin: i, end: len(ops)}
				pws = append(pws, pw)
				open[op.Path] = pw
				delete(complete, op.Path)
			}
		case simos.OpCreate:
			if pw := open[filepath.Dir(op.Path)]; pw != nil {
				pw.files = append(pw.files, i)
			}
			if strings.HasSuffix(op.Path, ".snp.tmp") {
				tmpData[op.Path] = nil
				k := pubKinds[op.Path]
				if k == "" {
					k = "other"
				}
				pb := &pubWrite{dir: filepath.Dir(op.Path), kind: k, begin: i, end: len(ops)}
				pubs = append(pubs, pb)
				pending[op.Path] = pb
			}
		case simos.OpWrite:
			if strings.HasSuffix(op.Path, ".snp.tmp") {
				tmpData[op.Path] = append(tmpData[op.Path], op.Data...)
			}
		case simos.OpRename:
			if b := filepath.Base(op.Path2); (b == "metadata.json" || b == "manifest.json") && open[filepath.Dir(op.Path2)] != nil {
				renamed[filepath.Dir(op.Path2)] = true
			}
			if strings.HasSuffix(op.Path2, ".snp") {
				if pb := pending[op.Path]; pb != nil {
					pb.end = i
					var names []string
					if json.Unmarshal(tmpData[op.Path], &names) == nil {
						pb.names = map[string]bool{}
						for _, nm := range names {
							pb.names[nm] = true
						}
						for _, nm := range simcore.SortedKeys(lastOf[pb.dir]) {
							if !pb.names[nm] && complete[filepath.Join(pb.dir, nm)] {
								pb.dropped = append(pb.dropped, filepath.Join(pb.dir, nm))
							}
						}
						lastOf[pb.dir] = pb.names
					}
					delete(pending, op.Path)
				}
				delete(tmpData, op.Path)
			}
		case simos.OpFsyncDir:
			if pw := open[op.Path]; pw != nil && renamed[op.Path] {
				pw.end = i
				complete[op.Path] = true
				delete(open, op.Path)
				delete(renamed, op.Path)
			}
		case simos.OpRmAll:
			if pw := open[op.Path]; pw != nil {
				pw.end = i
				delete(open, op.Path)
				delete(renamed, op.Path)
			}
		}
	}
	// inputs removed while the manifest that drops them is not in place yet
	for _, pb := range pubs {
		if pb.names == nil {
			// never renamed: what it would have dropped is unknown; nothing to count
			continue
		}
		for i := pb.begin; i < pb.end && i < len(ops); i++ {
			if ops[i].Kind != simos.OpRmAll {
				continue
			}
			for _, d := range pb.dropped {
				if ops[i].Path == d {
					pb.removedInside++
				}
			}
		}
	}
	return pws, pubs
}

// insidePubAt returns the manifest publications in flight when the process dies after ops [0,k): the tmp file may
// exist, the manifest is not in place.
func insidePubAt(pubs []*pubWrite, k int) []*pubWrite {
	var out []*pubWrite
	for _, pb := range pubs {
		if k >= pb.begin && k <= pb.end {
			out = append(out, pb)
		}
	}
	return out
}

func runTraceCrash(e *simcore.Env, tp *simcore.Tape) {
	synctest.Test(e.T, func(*testing.T) {
		knobDesc, knobRestore := simknobs.Draw(tp, "trace", "sidx")
		defer knobRestore()
		simknobs.Record(e, knobDesc)
		s := wl.GenTraceSchema(tp, wl.TraceSchemaOpts{MaxShards: 1})
		repo := simmeta.New()
		s.Install(repo)
		flushSec := []int{1, 3, 10}[tp.Choose(3)]
		flags := []string{fmt.Sprintf("--trace-flush-timeout=%ds", flushSec), fmt.Sprintf("--trace-max-merge-parts=%d", tp.Range(2, 6))}
		simnode.TraceMergeConcurrency = tp.Range(1, 3)
		defer func() { simnode.TraceMergeConcurrency = 0 }()
		dirA := filepath.Join(e.Dir, "a")
		journal := simos.Start(dirA)
		defer simos.Stop()
		n, err := simnode.Boot(repo, dirA, simnode.Engines{Trace: true}, flags)
		if err != nil {
			e.Fail("boot", "boot-failed", "boot: %v", err)
			return
		}
		m := wl.NewTraceModel(s)
		m.TolerateTag = func(string) bool { return true } // value fidelity is judged by C13/C01
		// Stalled maintenance: the stallN-th creation of a part directory (the output of a flush or of a merge, core
		// or secondary index) blocks until the driver has performed stallOps further operations, so that ingestion,
		// flushes and merges overlap.
		stallN := int32(tp.Choose(7)) // 0 = nobody is stalled
		stallOps := tp.Range(1, 3)
		if stallN > 0 {
			e.FreeRunning() // which creation is the stallN-th, and what overlaps it, is decided by the real scheduler
		}
		// Slow publisher: the goroutine that writes a snapshot manifest is descheduled for an instant of simulated
		// time (1 = right before it creates the tmp file, 2 = right before the rename that puts the manifest in place),
		// long enough for every other goroutine of the node to run until it blocks. Whatever the engine allows to happen
		// before the manifest is in place (removal of replaced part directories by their asynchronous removers, ...)
		// has then happened in the journal before it, and the crash points inside the publication see it.
		pubYield := tp.Weighted(1, 3, 2)
		var partDirs atomic.Int32
		var noMoreStalls atomic.Bool // set before the final quiescent point: "faults have stopped"
		var inYield, yields atomic.Int32
		stallCh := make(chan struct{})
		stalled := make(chan struct{}, 1)
		var kindMu sync.Mutex
		kinds := map[string]string{}    // part directory -> the maintenance that created it
		pubKinds := map[string]string{} // manifest tmp file -> the introduction that wrote it
		simos.SetFailer(func(_ int, op *simos.Op) error {
			isTmp := op.Kind == simos.OpCreate && strings.HasSuffix(op.Path, ".snp.tmp")
			if isTmp {
				_, pk := traceCaller()
				kindMu.Lock()
				pubKinds[op.Path] = pk
				kindMu.Unlock()
			}
			if (pubYield == 1 && isTmp) || (pubYield == 2 && op.Kind == simos.OpRename && strings.HasSuffix(op.Path2, ".snp")) {
				inYield.Add(1)
				yields.Add(1)
				time.Sleep(time.Microsecond)
				inYield.Add(-1)
				return nil
			}
			if op.Kind != simos.OpMkdirAll || pathClass(op.Path) != "part-dir" {
				return nil
			}
			k, _ := traceCaller()
			kindMu.Lock()
			if kinds[op.Path] == "" {
				kinds[op.Path] = k
			}
			kindMu.Unlock()
			if stallN > 0 && !noMoreStalls.Load() && partDirs.Add(1) == stallN {
				stalled <- struct{}{}
				select {
				case <-stallCh:
				case <-time.After(3 * time.Minute): // never outlive the history (e.g. a stall that begins during shutdown)
				}
			}
			return nil
		})
		stallLeft := -1
		releaseStall := func() {
			if stallLeft >= 0 {
				close(stallCh)
				stallLeft = -1
				synctest.Wait()
			}
		}
		// quiesce: every goroutine of the node is blocked and no publisher sits in its instant of descheduling
		quiesce := func() {
			synctest.Wait()
			for inYield.Load() > 0 {
				time.Sleep(10 * time.Microsecond)
				synctest.Wait()
			}
		}
		time.Sleep(time.Duration(tp.Range(1, 600)) * time.Minute)
		synctest.Wait()
		plan := m.GenPlan(tp, wl.TracePlanOpts{
			NowMs: time.Now().UnixMilli(), MaxDaysBack: tp.Weighted(3, 1), SpreadMs: []int64{0, 1000, 3600_000}[tp.Choose(3)],
			MinTraces: 2, MaxTraces: 8, MaxSpans: 6, NullOK: true,
		})
		e.Event("trace schema tags=%v durRule=%v tsRule=%v flags=%v merge-concurrency=%d publisher-yield=%d traces=%d batches=%d",
			s.Tags, s.DurRuleTags, s.TsRule, flags, simnode.TraceMergeConcurrency, pubYield, len(plan.TraceIDs), len(plan.Batches))
		var batches []batchInfo
		dayOf := map[int64]int64{}
		tables := map[int64]bool{}
		ver := uint64(1)
		var sample []string
		nextBatch := 0
		nOps := tp.Range(3, 12)
		for op := 0; op < nOps; op++ {
			e.Step()
			select {
			case <-stalled:
				stallLeft = stallOps
				e.Probe("fault.maintenance_stalled_at_part_directory_creation")
				e.Event("maintenance stalled at its part-directory creation for %d operations", stallOps)
			default:
			}
			if stallLeft == 0 {
				releaseStall()
				e.Event("stalled maintenance released")
			} else if stallLeft > 0 {
				stallLeft--
			}
			if tp.Weighted(3, 2) == 0 && nextBatch < len(plan.Batches) {
				time.Sleep(time.Duration(tp.Range(1, 3000)) * time.Microsecond)
				synctest.Wait()
				spans := plan.Batches[nextBatch]
				nextBatch++
				reqs := m.ToRequests(spans, ver)
				ver += uint64(len(reqs))
				resps, werr := n.WriteTrace(reqs)
				ok := werr == nil && len(resps) == len(reqs)
				for _, r := range resps {
					ok = ok && r.GetStatus() == "STATUS_SUCCEED"
				}
				if !ok {
					e.Fail("ack", "valid-write-not-acknowledged", "batch of %d spans not acknowledged: %v", len(spans), werr)
					n.Stop()
					return
				}
				m.Ack(spans)
				quiesce() // observe the journal at a quiescent point only (background loops run in real parallel)
				if stallLeft >= 0 {
					e.Probe("reach.batch_acknowledged_while_maintenance_is_stalled")
				}
				// a batch whose spans fall into two segments is two sub-batches: tables flush independently, the
				// prefix claim is made per table (group, segment, shard)
				byDay := map[int64]*batchInfo{}
				var days []int64
				traceIDs := map[string]bool{}
				for _, sp := range spans {
					d := sp.Ts / 86400_000
					dayOf[sp.Wid] = d
					traceIDs[sp.TraceID] = true
					if seen := tables[d]; !seen && len(tables) == 1 {
						// two tables flush, merge and publish on their own goroutines at the same simulated instants: the
						// order of their operations in the journal is decided by the real scheduler
						e.FreeRunning()
						e.Probe("reach.history_spans_tables")
					}
					tables[d] = true
					if byDay[d] == nil {
						byDay[d] = &batchInfo{ackIdx: simos.Len()}
						days = append(days, d)
					}
					byDay[d].wids = append(byDay[d].wids, sp.Wid)
				}
				sort.Slice(days, func(i, j int) bool { return days[i] < days[j] })
				for _, d := range days {
					batches = append(batches, *byDay[d])
				}
				if len(days) > 1 {
					e.Probe("reach.batch_spans_segments")
				}
				e.Event("batch: %d spans of %d trace(s) in %d table(s) acknowledged at journal op %d", len(spans), len(traceIDs), len(days), simos.Len())
				sample = append(sample, fmt.Sprintf("write %d spans", len(spans)))
			} else {
				d := []time.Duration{500 * time.Millisecond, time.Duration(flushSec) * time.Second, time.Duration(2*flushSec+1) * time.Second, 90 * time.Second}[tp.Choose(4)]
				time.Sleep(d)
				quiesce()
				e.AddSim(d)
				e.Event("advance %s (journal at %d)", d, simos.Len())
				sample = append(sample, "advance "+d.String())
			}
		}
		noMoreStalls.Store(true)
		synctest.Wait()
		select {
		case <-stalled:
			stallLeft = 0
		default:
		}
		releaseStall()
		quiesce()
		// final quiescent point: everything acknowledged so far has had two flush periods
		lastAck := simos.Len()
		time.Sleep(time.Duration(2*flushSec+1) * time.Second)
		quiesce()
		endIdx := simos.Len()
		n.Stop()
		synctest.Wait()
		ops := append([]simos.Op(nil), journal.Ops...)
		simos.Stop()
		extra := simdisk.Unjournaled(dirA, ops)
		if len(batches) == 0 || endIdx == 0 {
			e.SetSample(map[string]any{"ops": sample, "note": "no batch written"})
			return
		}
		e.Nontrivial()
		if y := int(yields.Load()); y > 0 {
			e.ProbeN("fault.manifest_writer_descheduled", y)
		}
		kindMu.Lock()
		pws, pubs := tracePartWritesOf(ops[:endIdx], kinds, pubKinds)
		kindMu.Unlock()
		var mergePubs []*pubWrite
		for _, pw := range pws {
			e.Probe("reach.part_written_by." + pw.kind)
			if strings.Contains(pw.dir, "/sidx/") {
				e.Probe("reach.secondary_index_part_written_by." + pw.kind)
			}
		}
		for _, pb := range pubs {
			if pb.names == nil {
				continue
			}
			e.Probe("reach.manifest_published")
			e.Probe("reach.manifest_published_by." + pb.kind)
			if len(pb.dropped) > 0 {
				mergePubs = append(mergePubs, pb)
				e.Probe("reach.manifest_replaces_file_parts")
			}
			if pb.removedInside > 0 {
				e.Probe("reach.replaced_part_removed_before_its_manifest_is_in_place")
			}
		}
		// the crash specifications, ascending in K
		type crashSpec struct {
			simdisk.Spec
			cut   int    // which prefix of the in-flight write survives (index into none/1 byte/half/all but one), -1 = op not started
			where string // how the crash op was chosen
		}
		var specs []crashSpec
		nSpecs := tp.Range(4, 10)
		interesting := []int{}
		for i := 0; i < endIdx; i++ {
			switch ops[i].Kind {
			case simos.OpRename, simos.OpRemove, simos.OpRmAll, simos.OpFsyncDir:
				interesting = append(interesting, i, i+1)
			}
		}
		harshest := func(k int) crashSpec {
			return crashSpec{Spec: simdisk.Spec{K: k, Partial: -1, Power: true, NsKeep: 0, TailNum: 0, TailDen: 1}, cut: -1, where: "reference point after the last completed part creation"}
		}
		for i := 0; i < nSpecs; i++ {
			var k int
			reference := -1
			chosen := "any op"
			switch where := tp.Weighted(2, 2, 3, 3); {
			case where == 1 && len(interesting) > 0:
				k = interesting[tp.Choose(len(interesting))]
				chosen = "namespace-op or dir-fsync boundary"
			case where == 2 && len(pws) > 0:
				chosen = "inside a part creation"
				// inside the creation of one part (flush or merge output): between two of its files, or anywhere
				pw := pws[tp.Choose(len(pws))]
				if len(pw.files) > 0 && tp.Bool(2, 3) {
					k = pw.files[tp.Choose(len(pw.files))]
				} else {
					k = pw.begin + 1 + tp.Choose(min(pw.end, endIdx)-pw.begin)
				}
			case where == 3 && len(pubs) > 0:
				chosen = "inside a manifest publication"
				// inside one publication: the tmp file of the manifest is being written, the manifest is not in place;
				// publications that replace file parts (merge publications) are preferred
				from := pubs
				if len(mergePubs) > 0 && tp.Bool(2, 3) {
					from = mergePubs
				}
				pb := from[tp.Choose(len(from))]
				k = pb.begin + tp.Choose(min(pb.end, endIdx)-pb.begin+1)
				// reference point for the "nothing durable is lost later" comparison: the harshest power cut right
				// after the last part creation that was completed before this crash point
				for _, pw := range pws {
					if pw.end < k && pw.end+1 > reference {
						reference = pw.end + 1
					}
				}
			default:
				k = tp.Choose(endIdx + 1)
			}
			sp := crashSpec{Spec: simdisk.Spec{K: k, Partial: -1}, cut: -1, where: chosen}
			if k < len(ops) && ops[k].Kind == simos.OpWrite && tp.Bool(1, 2) {
				l := len(ops[k].Data)
				sp.cut = tp.Choose(4)
				sp.Partial = []int{0, 1, l / 2, max(l-1, 0)}[sp.cut]
			}
			if tp.Bool(1, 2) {
				sp.Power = true
				sp.NsKeep = []int{0, 1, 3, 1 << 20}[tp.Choose(4)]
				sp.TailNum, sp.TailDen = []int{0, 1, 1}[tp.Choose(3)], []int{1, 2, 1}[tp.Choose(3)]
				sp.ZeroFill = tp.Bool(1, 4)
			}
			specs = append(specs, sp)
			if reference >= 0 {
				specs = append(specs, harshest(reference))
			}
		}
		// always: both models at the final quiescent point, the harshest power cut included
		final := harshest(endIdx)
		final.where = "final quiescent point"
		specs = append(specs, crashSpec{Spec: simdisk.Spec{K: endIdx, Partial: -1}, cut: -1, where: final.where}, final)
		sort.SliceStable(specs, func(i, j int) bool { return specs[i].K < specs[j].K })
		lowerK, lowerP := map[int]bool{}, map[int]bool{} // batches known durable under each model at an earlier point
		var specDesc []string
		done := map[string]bool{}
		for i, sp := range specs {
			if e.Failed() {
				break
			}
			if done[sp.Spec.String()] {
				continue // the same reference point drawn twice
			}
			done[sp.Spec.String()] = true
			dst := filepath.Join(e.Dir, fmt.Sprintf("crash%d", i))
			desc, merr := simdisk.Materialize(ops, sp.Spec, dst, extra)
			if merr != nil {
				e.Fail("harness", "materialize-failed", "%v", merr)
				return
			}
			kind := "op-boundary"
			if sp.K < len(ops) {
				kind = "before-" + ops[sp.K].Kind.String() + ":" + pathClass(ops[sp.K].Path)
			}
			// where the crash point lies relative to the maintenance work
			var in []string
			for _, pw := range insideAt(pws, sp.K) {
				in = append(in, pw.kind)
				e.Probe("reach.crash_inside." + pw.kind)
				if strings.Contains(pw.dir, "/sidx/") {
					e.Probe("reach.crash_inside_secondary_index_part_write")
				}
				for _, f := range pw.files {
					if f == sp.K {
						e.Probe("reach.crash_between_files_of_a_part")
					}
				}
				for _, pb := range pubs {
					if pb.names != nil && pb.end < sp.K && pb.names[filepath.Base(pw.dir)] {
						e.Probe("reach.crash_inside_write_of_a_part_already_named_by_a_manifest")
						break
					}
				}
			}
			for _, pb := range insidePubAt(pubs, sp.K) {
				in = append(in, "publication")
				e.Probe("reach.crash_inside.publication")
				if len(pb.dropped) > 0 {
					in = append(in, "merge-publication")
					e.Probe("reach.crash_inside.merge-publication")
				}
			}
			sort.Strings(in)
			// The order in which the engine walks its maps (tag files of a part, the secondary indexes of a table) moves
			// operations inside the journal: the index and the file of the crash op, the byte count of a cut write and the
			// byte/file totals of the crash state go to the diagnostics, not into the canonical history
			sd := map[bool]string{false: "kill-9", true: "power-loss"}[sp.Power]
			if sp.cut >= 0 {
				sd += fmt.Sprintf("(write cut at %s)", []string{"0", "1 byte", "half", "all but 1 byte"}[sp.cut])
			}
			if sp.Power {
				sd += fmt.Sprintf("(ns+%d,tail=%d/%d,zero=%v)", sp.NsKeep, sp.TailNum, sp.TailDen, sp.ZeroFill)
			}
			specDesc = append(specDesc, fmt.Sprintf("%s@%d", sd, sp.K))
			e.Event("crash %s (%s) inside=%v", sd, sp.where, in)
			e.Note("crash %s [%s] -> %s", sp.Spec, kind, desc)
			e.Probe("fault.crash." + map[bool]string{false: "kill9", true: "powerloss"}[sp.Power])
			if sp.Partial >= 0 {
				e.Probe("fault.crash.inside_write")
			}
			got, cls, msg := recoverAndReadTrace(repo, dst, flags, s, m)
			if cls != "" {
				e.Fail("recovery", cls+modelTag(sp.Spec), "crash %s [%s] inside=%v: %s", sp.Spec, kind, in, msg)
				break
			}
			// which batches are present, and are they complete?
			present := map[int]bool{}
			for bi, b := range batches {
				cnt := 0
				for _, w := range b.wids {
					if got[w] {
						cnt++
					}
				}
				if cnt > 0 && cnt < len(b.wids) {
					e.Fail("durable-prefix", "batch-partially-recovered"+modelTag(sp.Spec), "crash %s [%s] inside=%v: batch %d recovered with %d of %d spans", sp.Spec, kind, in, bi, cnt, len(b.wids))
				}
				if cnt == len(b.wids) {
					present[bi] = true
				}
			}
			if e.Failed() {
				break
			}
			e.Event("  recovered %d span(s), %d of %d batch(es) whole", len(got), len(present), len(batches))
			// prefix of the batch sequence (one shard, per segment the order of batches is the global order)
			seenGap := -1
			for bi := range batches {
				if !present[bi] {
					if seenGap < 0 {
						seenGap = bi
					}
				} else if seenGap >= 0 && sameDays(dayOf, batches[seenGap], batches[bi]) {
					e.Fail("durable-prefix", "not-a-prefix"+modelTag(sp.Spec), "crash %s [%s] inside=%v: batch %d is recovered but the earlier batch %d of the same table is not", sp.Spec, kind, in, bi, seenGap)
					break
				}
			}
			if e.Failed() {
				break
			}
			// nothing that was durable at an earlier crash point may be missing at a later one: a batch whose flush
			// had completed before the crash point stays readable
			need := lowerP
			if !sp.Power {
				need = union(lowerK, lowerP)
			}
			for _, bi := range sortedInts(need) {
				if !present[bi] {
					e.Fail("durable-prefix", "durable-batch-lost-later"+modelTag(sp.Spec), "crash %s [%s] inside=%v: batch %d was recoverable from an earlier crash point under a harsher model but is lost here", sp.Spec, kind, in, bi)
					break
				}
			}
			if e.Failed() {
				break
			}
			if !sp.Power {
				for bi := range present {
					lowerK[bi] = true
				}
			} else if sp.NsKeep == 0 && sp.TailNum == 0 {
				for bi := range present {
					lowerP[bi] = true
				}
			}
			if len(present) > 0 {
				e.Probe("reach.recovered_nonempty")
				if len(in) > 0 {
					e.Probe("reach.recovered_nonempty_from_crash_inside_maintenance")
				}
			}
			// absolute bound at the final quiescent point: whatever was acknowledged two flush periods before it
			if sp.K == endIdx {
				for bi, b := range batches {
					if b.ackIdx <= lastAck && !present[bi] {
						e.Fail("durable-prefix", "flushed-batch-not-durable"+modelTag(sp.Spec), "crash %s at the final quiescent point (two flush periods after the last acknowledgement): batch %d is not recovered", sp.Spec, bi)
						break
					}
				}
				e.Probe("reach.final_point_checked")
			}
		}
		e.SetSample(map[string]any{"engine": "trace", "flags": flags, "journal_ops": endIdx, "batches": len(batches), "part_writes": len(pws), "manifests": len(pubs),
			"manifests_replacing_file_parts": len(mergePubs), "publisher_yield": pubYield, "crash_specs": specDesc, "ops": sample})
	})
}

// recoverAndReadTrace boots a fresh node incarnation on the crash state and reads every acknowledged trace back by
// its id (all tags projected, so that every column file of a served part is read).
func recoverAndReadTrace(repo *simmeta.Repo, dir string, flags []string, s *wl.TraceSchema, m *wl.TraceModel) (got map[int64]bool, cls, msg string) {
	defer func() {
		if r := recover(); r != nil {
			cls, msg = "startup-panic", fmt.Sprintf("start-up on the crash state panicked: %v", r)
		}
	}()
	n, err := simnode.Boot(repo, dir, simnode.Engines{Trace: true}, flags)
	if err != nil {
		return nil, "startup-error", fmt.Sprintf("start-up on the crash state failed: %v", err)
	}
	defer n.Stop()
	lo, hi := m.Bounds(time.Now().UnixMilli())
	p := []string{wl.TraceWidTag}
	for _, t := range s.Tags {
		if t.Name != wl.TraceWidTag {
			p = append(p, t.Name)
		}
	}
	got = map[int64]bool{}
	for _, id := range m.IDs {
		resp, qerr := n.QueryTrace(s.QueryByTraceID(id, lo, hi, p))
		if qerr != nil {
			return nil, "query-error-after-recovery", fmt.Sprintf("query of trace %q after recovery failed: %v", id, qerr)
		}
		for _, tr := range resp.GetTraces() {
			if tr.GetTraceId() != id {
				return nil, "garbage-row-after-recovery", fmt.Sprintf("recovered node answered the query for trace %q with trace %q", id, tr.GetTraceId())
			}
		}
		ret, c, mm := m.Collect(resp.GetTraces())
		switch c {
		case "":
		case "span-never-written", "span-under-wrong-trace", "span-without-wid":
			return nil, "garbage-row-after-recovery", "recovered node returned a span that was never written: " + mm
		default:
			// a returned span is a span that was written: same payload bytes, same span id
			return nil, "recovered-row-differs-from-written:" + c, mm
		}
		if r := ret[id]; r != nil {
			for _, w := range r.Wids {
				if got[w] {
					return nil, "duplicate-row-after-recovery", fmt.Sprintf("recovered node returned span w%d of trace %q twice", w, id)
				}
				got[w] = true
			}
		}
	}
	return got, "", ""
}
