package c04

import (
	"encoding/json"
	"fmt"
	"path/filepath"
	"runtime"
	"sort"
	"strings"
	"sync"
	"sync/atomic"
	"testing"
	"testing/synctest"
	"time"

	"github.com/apache/skywalking-banyandb/banyand/internal/verif/simdisk"
	"github.com/apache/skywalking-banyandb/banyand/internal/verif/simknobs"
	"github.com/apache/skywalking-banyandb/banyand/internal/verif/simmeta"
	"github.com/apache/skywalking-banyandb/banyand/internal/verif/simnode"
	"github.com/apache/skywalking-banyandb/banyand/internal/verif/wl"
	"github.com/apache/skywalking-banyandb/pkg/verif/simcore"
	"github.com/apache/skywalking-banyandb/pkg/verif/simos"
)

// partWrite is one creation of a part directory as the journal shows it: from the mkdir of the directory to the
// directory fsync that follows the rename of its metadata.json (the commit record of the part).
type partWrite struct {
	dir   string // journal-relative path of the part directory
	kind  string // who wrote it: "flush", "mem-merge" (the flusher merging memory parts into one file part), "merge", "other"
	files []int  // journal indices of the file creations below dir (crash points BETWEEN the files of the part)
	begin int    // index of the mkdir
	end   int    // index of the closing directory fsync (or of the removal of a failed output; len(ops) if never closed)
}

// manifest is one snapshot manifest as the journal shows it.
type manifest struct {
	names map[string]bool // part directory names it lists
	at    int             // index of the rename that put it in place
}

// maintenanceKind names the engine loop on whose stack the current file-system call runs. It only labels probes
// and the event log (which kind of maintenance a crash point falls into); no oracle depends on it.
func maintenanceKind() string {
	pcs := make([]uintptr, 64)
	n := runtime.Callers(2, pcs)
	frames := runtime.CallersFrames(pcs[:n])
	var flusher, merger, merging bool
	for {
		f, more := frames.Next()
		switch {
		case strings.Contains(f.Function, "flusherLoop"):
			flusher = true
		case strings.Contains(f.Function, "mergeLoop"):
			merger = true
		case strings.Contains(f.Function, "mergeParts"):
			merging = true
		}
		if !more {
			break
		}
	}
	switch {
	case flusher && merging:
		return "mem-merge"
	case flusher:
		return "flush"
	case merger:
		return "merge"
	}
	return "other"
}

// partWritesOf reads the part creations and the manifests out of the journal.
func partWritesOf(ops []simos.Op, kinds map[string]string) (pws []*partWrite, mans []manifest) {
	open := map[string]*partWrite{}
	renamed := map[string]bool{}
	tmpData := map[string][]byte{}
	for i := range ops {
		op := &ops[i]
		switch op.Kind {
		case simos.OpMkdirAll:
			if pathClass(op.Path) == "part-dir" && open[op.Path] == nil {
				k := kinds[op.Path]
				if k == "" {
					k = "other"
				}
				pw := &partWrite{dir: op.Path, kind: k, begin: i, end: len(ops)}
				pws = append(pws, pw)
				open[op.Path] = pw
			}
		case simos.OpCreate:
			if pw := open[filepath.Dir(op.Path)]; pw != nil {
				pw.files = append(pw.files, i)
			}
			if strings.HasSuffix(op.Path, ".snp.tmp") {
				tmpData[op.Path] = nil
			}
		case simos.OpWrite:
			if strings.HasSuffix(op.Path, ".snp.tmp") {
				tmpData[op.Path] = append(tmpData[op.Path], op.Data...)
			}
		case simos.OpRename:
			if filepath.Base(op.Path2) == "metadata.json" && open[filepath.Dir(op.Path2)] != nil {
				renamed[filepath.Dir(op.Path2)] = true
			}
			if strings.HasSuffix(op.Path2, ".snp") {
				var names []string
				if json.Unmarshal(tmpData[op.Path], &names) == nil {
					mf := manifest{at: i, names: map[string]bool{}}
					for _, nm := range names {
						mf.names[nm] = true
					}
					mans = append(mans, mf)
				}
				delete(tmpData, op.Path)
			}
		case simos.OpFsyncDir:
			if pw := open[op.Path]; pw != nil && renamed[op.Path] {
				pw.end = i
				delete(open, op.Path)
				delete(renamed, op.Path)
			}
		case simos.OpRmAll:
			if pw := open[op.Path]; pw != nil {
				pw.end = i
				delete(open, op.Path)
				delete(renamed, op.Path)
			}
		}
	}
	return pws, mans
}

// insideAt returns the part creations in flight when the process dies after ops [0,k).
func insideAt(pws []*partWrite, k int) []*partWrite {
	var out []*partWrite
	for _, pw := range pws {
		if k > pw.begin && k <= pw.end {
			out = append(out, pw)
		}
	}
	return out
}

func runStreamCrash(e *simcore.Env, tp *simcore.Tape) {
	synctest.Test(e.T, func(*testing.T) {
		knobDesc, knobRestore := simknobs.Draw(tp, "stream")
		defer knobRestore()
		simknobs.Record(e, knobDesc)
		s := wl.GenStreamSchema(tp, wl.SchemaOpts{MaxShards: 1})
		repo := simmeta.New()
		s.Install(repo)
		flushSec := []int{1, 3, 10}[tp.Choose(3)]
		flags := []string{fmt.Sprintf("--stream-flush-timeout=%ds", flushSec), fmt.Sprintf("--stream-max-merge-parts=%d", tp.Range(2, 6))}
		dirA := filepath.Join(e.Dir, "a")
		journal := simos.Start(dirA)
		defer simos.Stop()
		n, err := simnode.Boot(repo, dirA, simnode.Engines{Stream: true}, flags)
		if err != nil {
			e.Fail("boot", "boot-failed", "boot: %v", err)
			return
		}
		m := wl.NewStreamModel(s)
		// value fidelity is C01's subject: its one recorded stream finding (an empty array comes back as null, crash
		// or no crash) is not a recovery matter; every other difference between a recovered element and the written
		// one is garbage served after the crash
		m.Tolerate = func(class string) bool { return class == "value-differs:emptyarr->null" }
		// Stalled maintenance: the stallN-th creation of a part directory (the output of a flush or of a merge)
		// blocks until the driver has performed stallOps further operations, so that ingestion, flushes and merges
		// overlap (a batch is acknowledged while an older flush is still writing; a manifest published by that flush
		// already names the memory part of the newer batch).
		stallN := int32(tp.Choose(7)) // 0 = nobody is stalled
		stallOps := tp.Range(1, 3)
		if stallN > 0 {
			e.FreeRunning() // which creation is the stallN-th, and what overlaps it, is decided by the real scheduler
		}
		var partDirs atomic.Int32
		var noMoreStalls atomic.Bool // set before the final quiescent point: "faults have stopped"
		stallCh := make(chan struct{})
		stalled := make(chan struct{}, 1)
		var kindMu sync.Mutex
		kinds := map[string]string{} // part directory -> the maintenance that created it
		simos.SetFailer(func(_ int, op *simos.Op) error {
			if op.Kind != simos.OpMkdirAll || pathClass(op.Path) != "part-dir" {
				return nil
			}
			k := maintenanceKind()
			kindMu.Lock()
			if kinds[op.Path] == "" {
				kinds[op.Path] = k
			}
			kindMu.Unlock()
			if stallN > 0 && !noMoreStalls.Load() && partDirs.Add(1) == stallN {
				stalled <- struct{}{}
				select {
				case <-stallCh:
				case <-time.After(3 * time.Minute): // never outlive the history (e.g. a stall that begins during shutdown)
				}
			}
			return nil
		})
		stallLeft := -1
		releaseStall := func() {
			if stallLeft >= 0 {
				close(stallCh)
				stallLeft = -1
				synctest.Wait()
			}
		}
		time.Sleep(time.Duration(tp.Range(1, 600)) * time.Minute)
		synctest.Wait()
		e.Event("stream schema tags=%v skipping=%v flags=%v", s.Tags, simcore.SortedKeys(s.Skipping), flags)
		var batches []batchInfo
		dayOf := map[int64]int64{}
		msgID := uint64(1)
		var sample []string
		nOps := tp.Range(3, 12)
		for op := 0; op < nOps; op++ {
			e.Step()
			select {
			case <-stalled:
				stallLeft = stallOps
				e.Probe("fault.maintenance_stalled_at_part_directory_creation")
				e.Event("maintenance stalled at its part-directory creation for %d operations", stallOps)
			default:
			}
			if stallLeft == 0 {
				releaseStall()
				e.Event("stalled maintenance released")
			} else if stallLeft > 0 {
				stallLeft--
			}
			if tp.Weighted(3, 2) == 0 {
				time.Sleep(time.Duration(tp.Range(1, 3000)) * time.Microsecond)
				synctest.Wait()
				rows := m.GenBatch(tp, wl.BatchOpts{BaseMs: time.Now().UnixMilli(), SpanMs: int64([]int{1000, 600_000}[tp.Choose(2)]), MaxRows: 60, MaxSeries: 4, NullOK: true}, len(batches))
				reqs := m.ToRequests(rows, msgID)
				msgID += uint64(len(reqs))
				resps, werr := n.WriteStream(reqs)
				ok := werr == nil && len(resps) == len(reqs)
				for _, r := range resps {
					ok = ok && r.GetStatus() == "STATUS_SUCCEED"
				}
				if !ok {
					e.Fail("ack", "valid-write-not-acknowledged", "batch of %d elements not acknowledged: %v", len(rows), werr)
					n.Stop()
					return
				}
				m.Ack(rows)
				synctest.Wait() // observe the journal at a quiescent point only (background loops run in real parallel)
				if stallLeft >= 0 {
					e.Probe("reach.batch_acknowledged_while_maintenance_is_stalled")
				}
				// a batch whose elements fall into two segments is two sub-batches: tables flush independently, the
				// prefix claim is made per table (group, segment, shard)
				byDay := map[int64]*batchInfo{}
				var days []int64
				for _, r := range rows {
					d := r.Ts / 86400_000
					dayOf[r.Wid] = d
					if byDay[d] == nil {
						byDay[d] = &batchInfo{ackIdx: simos.Len()}
						days = append(days, d)
					}
					byDay[d].wids = append(byDay[d].wids, r.Wid)
				}
				sort.Slice(days, func(i, j int) bool { return days[i] < days[j] })
				for _, d := range days {
					batches = append(batches, *byDay[d])
				}
				if len(days) > 1 {
					e.Probe("reach.batch_spans_segments")
				}
				e.Event("batch: %d elements in %d table(s) acknowledged at journal op %d", len(rows), len(days), simos.Len())
				sample = append(sample, fmt.Sprintf("write %d elements", len(rows)))
			} else {
				d := []time.Duration{500 * time.Millisecond, time.Duration(flushSec) * time.Second, time.Duration(2*flushSec+1) * time.Second, 90 * time.Second}[tp.Choose(4)]
				time.Sleep(d)
				synctest.Wait()
				e.AddSim(d)
				e.Event("advance %s (journal at %d)", d, simos.Len())
				sample = append(sample, "advance "+d.String())
			}
		}
		noMoreStalls.Store(true)
		synctest.Wait()
		select {
		case <-stalled:
			stallLeft = 0
		default:
		}
		releaseStall()
		// final quiescent point: everything acknowledged so far has had two flush periods
		lastAck := simos.Len()
		time.Sleep(time.Duration(2*flushSec+1) * time.Second)
		synctest.Wait()
		endIdx := simos.Len()
		n.Stop()
		synctest.Wait()
		ops := append([]simos.Op(nil), journal.Ops...)
		simos.Stop()
		extra := simdisk.Unjournaled(dirA, ops)
		if len(batches) == 0 || endIdx == 0 {
			e.SetSample(map[string]any{"ops": sample, "note": "no batch written"})
			return
		}
		e.Nontrivial()
		kindMu.Lock()
		pws, mans := partWritesOf(ops[:endIdx], kinds)
		kindMu.Unlock()
		for _, pw := range pws {
			e.Probe("reach.part_written_by." + pw.kind)
		}
		if len(mans) > 0 {
			e.ProbeN("reach.manifest_published", len(mans))
		}
		// the crash specifications, ascending in K
		type crashSpec struct {
			simdisk.Spec
			cut int // which prefix of the in-flight write survives (index into none/1 byte/half/all but one), -1 = op not started
		}
		var specs []crashSpec
		nSpecs := tp.Range(4, 10)
		interesting := []int{}
		for i := 0; i < endIdx; i++ {
			switch ops[i].Kind {
			case simos.OpRename, simos.OpRemove, simos.OpRmAll, simos.OpFsyncDir:
				interesting = append(interesting, i, i+1)
			}
		}
		for i := 0; i < nSpecs; i++ {
			var k int
			switch where := tp.Weighted(2, 2, 3); {
			case where == 1 && len(interesting) > 0:
				k = interesting[tp.Choose(len(interesting))]
			case where == 2 && len(pws) > 0:
				// inside the creation of one part (flush or merge output): between two of its files, or anywhere
				pw := pws[tp.Choose(len(pws))]
				if len(pw.files) > 0 && tp.Bool(2, 3) {
					k = pw.files[tp.Choose(len(pw.files))]
				} else {
					k = pw.begin + 1 + tp.Choose(min(pw.end, endIdx)-pw.begin)
				}
			default:
				k = tp.Choose(endIdx + 1)
			}
			sp := crashSpec{Spec: simdisk.Spec{K: k, Partial: -1}, cut: -1}
			if k < len(ops) && ops[k].Kind == simos.OpWrite && tp.Bool(1, 2) {
				l := len(ops[k].Data)
				sp.cut = tp.Choose(4)
				sp.Partial = []int{0, 1, l / 2, max(l-1, 0)}[sp.cut]
			}
			if tp.Bool(1, 2) {
				sp.Power = true
				sp.NsKeep = []int{0, 1, 3, 1 << 20}[tp.Choose(4)]
				sp.TailNum, sp.TailDen = []int{0, 1, 1}[tp.Choose(3)], []int{1, 2, 1}[tp.Choose(3)]
				sp.ZeroFill = tp.Bool(1, 4)
			}
			specs = append(specs, sp)
		}
		// always: both models at the final quiescent point, the harshest power cut included
		specs = append(specs, crashSpec{Spec: simdisk.Spec{K: endIdx, Partial: -1}, cut: -1},
			crashSpec{Spec: simdisk.Spec{K: endIdx, Partial: -1, Power: true, NsKeep: 0, TailNum: 0, TailDen: 1}, cut: -1})
		sort.SliceStable(specs, func(i, j int) bool { return specs[i].K < specs[j].K })
		lowerK, lowerP := map[int]bool{}, map[int]bool{} // batches known durable under each model at an earlier point
		var specDesc []string
		for i, sp := range specs {
			if e.Failed() {
				break
			}
			dst := filepath.Join(e.Dir, fmt.Sprintf("crash%d", i))
			desc, merr := simdisk.Materialize(ops, sp.Spec, dst, extra)
			if merr != nil {
				e.Fail("harness", "materialize-failed", "%v", merr)
				return
			}
			kind := "op-boundary"
			if sp.K < len(ops) {
				kind = "before-" + ops[sp.K].Kind.String() + ":" + pathClass(ops[sp.K].Path)
			}
			// where the crash point lies relative to the maintenance work
			var in []string
			for _, pw := range insideAt(pws, sp.K) {
				in = append(in, pw.kind)
				e.Probe("reach.crash_inside." + pw.kind)
				for _, f := range pw.files {
					if f == sp.K {
						e.Probe("reach.crash_between_files_of_a_part")
					}
				}
				for _, mf := range mans {
					if mf.at < sp.K && mf.names[filepath.Base(pw.dir)] {
						e.Probe("reach.crash_inside_write_of_a_part_already_named_by_a_manifest")
						break
					}
				}
			}
			sort.Strings(in)
			// the byte count of a cut write and the byte/file totals of the crash state depend on the order in which
			// the engine walks its tag-family maps: they go to the diagnostics, not into the canonical history
			sd := fmt.Sprintf("%s@%d", map[bool]string{false: "kill-9", true: "power-loss"}[sp.Power], sp.K)
			if sp.cut >= 0 {
				sd += fmt.Sprintf("(write cut at %s)", []string{"0", "1 byte", "half", "all but 1 byte"}[sp.cut])
			}
			if sp.Power {
				sd += fmt.Sprintf("(ns+%d,tail=%d/%d,zero=%v)", sp.NsKeep, sp.TailNum, sp.TailDen, sp.ZeroFill)
			}
			specDesc = append(specDesc, sd)
			e.Event("crash %s [%s] inside=%v", sd, kind, in)
			e.Note("crash %s -> %s", sp.Spec, desc)
			e.Probe("fault.crash." + map[bool]string{false: "kill9", true: "powerloss"}[sp.Power])
			if sp.Partial >= 0 {
				e.Probe("fault.crash.inside_write")
			}
			got, cls, msg := recoverAndReadStream(repo, dst, flags, s, m)
			if cls != "" {
				e.Fail("recovery", cls+modelTag(sp.Spec), "crash %s [%s] inside=%v: %s", sp.Spec, kind, in, msg)
				break
			}
			// which batches are present, and are they complete?
			present := map[int]bool{}
			for bi, b := range batches {
				cnt := 0
				for _, w := range b.wids {
					if got[w] {
						cnt++
					}
				}
				if cnt > 0 && cnt < len(b.wids) {
					e.Fail("durable-prefix", "batch-partially-recovered"+modelTag(sp.Spec), "crash %s [%s] inside=%v: batch %d recovered with %d of %d elements", sp.Spec, kind, in, bi, cnt, len(b.wids))
				}
				if cnt == len(b.wids) {
					present[bi] = true
				}
			}
			if e.Failed() {
				break
			}
			e.Event("  recovered %d element(s), %d of %d batch(es) whole", len(got), len(present), len(batches))
			// prefix of the batch sequence (one shard, per segment the order of batches is the global order)
			seenGap := -1
			for bi := range batches {
				if !present[bi] {
					if seenGap < 0 {
						seenGap = bi
					}
				} else if seenGap >= 0 && sameDays(dayOf, batches[seenGap], batches[bi]) {
					e.Fail("durable-prefix", "not-a-prefix"+modelTag(sp.Spec), "crash %s [%s] inside=%v: batch %d is recovered but the earlier batch %d of the same table is not", sp.Spec, kind, in, bi, seenGap)
					break
				}
			}
			if e.Failed() {
				break
			}
			// nothing that was durable at an earlier crash point may be missing at a later one: a batch whose flush
			// had completed before the crash point stays readable
			need := lowerP
			if !sp.Power {
				need = union(lowerK, lowerP)
			}
			for _, bi := range sortedInts(need) {
				if !present[bi] {
					e.Fail("durable-prefix", "durable-batch-lost-later"+modelTag(sp.Spec), "crash %s [%s] inside=%v: batch %d was recoverable from an earlier crash point under a harsher model but is lost here", sp.Spec, kind, in, bi)
					break
				}
			}
			if e.Failed() {
				break
			}
			if !sp.Power {
				for bi := range present {
					lowerK[bi] = true
				}
			} else if sp.NsKeep == 0 && sp.TailNum == 0 {
				for bi := range present {
					lowerP[bi] = true
				}
			}
			if len(present) > 0 {
				e.Probe("reach.recovered_nonempty")
				if len(in) > 0 {
					e.Probe("reach.recovered_nonempty_from_crash_inside_maintenance")
				}
			}
			// absolute bound at the final quiescent point: whatever was acknowledged two flush periods before it
			if sp.K == endIdx {
				for bi, b := range batches {
					if b.ackIdx <= lastAck && !present[bi] {
						e.Fail("durable-prefix", "flushed-batch-not-durable"+modelTag(sp.Spec), "crash %s at the final quiescent point (two flush periods after the last acknowledgement): batch %d is not recovered", sp.Spec, bi)
						break
					}
				}
				e.Probe("reach.final_point_checked")
			}
		}
		e.SetSample(map[string]any{"engine": "stream", "flags": flags, "journal_ops": endIdx, "batches": len(batches), "part_writes": len(pws), "manifests": len(mans), "crash_specs": specDesc, "ops": sample})
	})
}

func sortedInts(m map[int]bool) []int {
	out := make([]int, 0, len(m))
	for k := range m {
		out = append(out, k)
	}
	sort.Ints(out)
	return out
}

// sameDays: every element of b lies in a segment in which a has elements too (one shard): then the table-level
// order applies to the pair.
func sameDays(dayOf map[int64]int64, a, b batchInfo) bool {
	days := map[int64]bool{}
	for _, w := range a.wids {
		days[dayOf[w]] = true
	}
	for _, w := range b.wids {
		if !days[dayOf[w]] {
			return false
		}
	}
	return true
}

// recoverAndReadStream boots a fresh node incarnation on the crash state and reads everything back.
func recoverAndReadStream(repo *simmeta.Repo, dir string, flags []string, s *wl.StreamSchema, m *wl.StreamModel) (got map[int64]bool, cls, msg string) {
	defer func() {
		if r := recover(); r != nil {
			cls, msg = "startup-panic", fmt.Sprintf("start-up on the crash state panicked: %v", r)
		}
	}()
	n, err := simnode.Boot(repo, dir, simnode.Engines{Stream: true}, flags)
	if err != nil {
		return nil, "startup-error", fmt.Sprintf("start-up on the crash state failed: %v", err)
	}
	defer n.Stop()
	now := time.Now().UnixMilli()
	p := s.FullProjection()
	resp, qerr := n.QueryStream(s.QueryRequest(now-40*86400_000, now+86400_000, p, 1000000))
	if qerr != nil {
		return nil, "query-error-after-recovery", fmt.Sprintf("query after recovery failed: %v", qerr)
	}
	known := map[int64]*wl.SRow{}
	for _, r := range m.Rows {
		known[r.Wid] = r
	}
	got = map[int64]bool{}
	for _, el := range resp.GetElements() {
		w := wl.ElementWid(el)
		r, ok := known[w]
		if !ok {
			return nil, "garbage-row-after-recovery", fmt.Sprintf("recovered node returned an element that was never written: %s", wl.CanonElement(el, p))
		}
		if got[w] {
			return nil, "duplicate-row-after-recovery", fmt.Sprintf("recovered node returned write #%d twice", w)
		}
		got[w] = true
		if el.GetTimestamp().AsTime().UnixMilli() != r.Ts {
			return nil, "garbage-row-after-recovery", fmt.Sprintf("write #%d came back with timestamp %d instead of %d", w, el.GetTimestamp().AsTime().UnixMilli(), r.Ts)
		}
	}
	// a returned element is an element that was written: same content (a part served without some of its column
	// files answers with holes)
	if c, mm := m.Mismatch(resp.GetElements(), p, func(r *wl.SRow) bool { return got[r.Wid] }); c != "" {
		return nil, "recovered-row-differs-from-written:" + c, mm
	}
	return got, "", ""
}
