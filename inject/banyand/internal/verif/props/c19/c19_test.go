// Package c19 decides property C19 (a file snapshot is a consistent, openable point-in-time copy).
package c19

import (
	"context"
	"encoding/json"
	"fmt"
	"io"
	"os"
	"path/filepath"
	"regexp"
	"sort"
	"strings"
	"sync/atomic"
	"testing"
	"testing/synctest"
	"time"

	"github.com/apache/skywalking-banyandb/api/data"
	commonv1 "github.com/apache/skywalking-banyandb/api/proto/banyandb/common/v1"
	databasev1 "github.com/apache/skywalking-banyandb/api/proto/banyandb/database/v1"
	"github.com/apache/skywalking-banyandb/banyand/backup"
	"github.com/apache/skywalking-banyandb/banyand/internal/storage"
	"github.com/apache/skywalking-banyandb/banyand/internal/verif/simmeta"
	"github.com/apache/skywalking-banyandb/banyand/internal/verif/simnode"
	"github.com/apache/skywalking-banyandb/banyand/internal/verif/wl"
	"github.com/apache/skywalking-banyandb/banyand/measure"
	"github.com/apache/skywalking-banyandb/banyand/stream"
	"github.com/apache/skywalking-banyandb/banyand/trace"
	"github.com/apache/skywalking-banyandb/pkg/bus"
	"github.com/apache/skywalking-banyandb/pkg/verif/simcore"
	"github.com/apache/skywalking-banyandb/pkg/verif/simos"
)

func TestSim(t *testing.T) {
	simnode.InitLogging()
	simcore.Main(t, "C19", []simcore.Scenario{
		{Name: "measure-snapshot", Weight: 3, Run: func(e *simcore.Env, tp *simcore.Tape) { run(e, tp, newMeasureEng) }},
		{Name: "stream-snapshot", Weight: 2, Run: func(e *simcore.Env, tp *simcore.Tape) { run(e, tp, newStreamEng) }},
		{Name: "trace-snapshot", Weight: 2, Run: func(e *simcore.Env, tp *simcore.Tape) { run(e, tp, newTraceEng) }},
	})
}

// ---------------------------------------------------------------------------------------------
// engine abstraction (measure / stream / trace)

type row struct {
	series string
	wid    int64
	ts     int64
}

// answer is a full-range query result keyed by write id.
type answer struct {
	canon map[int64]string
	ts    map[int64]int64
	dup   int64 // a write id returned twice (0 = none)
	n     int
}

type engine interface {
	kind() string // directory / catalog name: "measure", "stream" or "trace"
	catalog() commonv1.Catalog
	group() string
	shards() int
	describe() string
	flags(flushSec, maxMerge int) []string
	// eagerFlags: what "merge eagerly" (parts of any size ratio) means for the engine; nil = the engine has no such switch.
	eagerFlags() []string
	install(repo *simmeta.Repo)
	boot(repo *simmeta.Repo, dir string, flags []string) (*simnode.Node, error)
	// gen draws a batch, registers it with the model and returns its rows and the function sending it.
	gen(tp *simcore.Tape, baseMs, spanMs int64, batchNo int) ([]row, func(n *simnode.Node) error)
	// query asks for everything; withModel additionally compares the answer with the row model.
	query(n *simnode.Node, withModel bool) (a *answer, class, msg string, err error)
	segments(n *simnode.Node) ([]storage.VerifC19Seg, error)
}

const dayMs = 86400_000

type measureEng struct {
	s     *wl.MeasureSchema
	m     *wl.MeasureModel
	msgID uint64
	minTs int64
}

func newMeasureEng(tp *simcore.Tape) engine {
	s := wl.GenMeasureSchema(tp, wl.SchemaOpts{MaxShards: 2})
	m := wl.NewMeasureModel(s)
	m.Tolerate = func(string) bool { return true } // value fidelity is C01's subject
	return &measureEng{s: s, m: m, msgID: 1, minTs: 1 << 62}
}

func (g *measureEng) kind() string              { return "measure" }
func (g *measureEng) catalog() commonv1.Catalog { return commonv1.Catalog_CATALOG_MEASURE }
func (g *measureEng) group() string             { return g.s.Group }
func (g *measureEng) shards() int               { return int(g.s.Shards) }
func (g *measureEng) describe() string {
	return fmt.Sprintf("measure shards=%d tags=%v fields=%v", g.s.Shards, g.s.Tags, g.s.Fields)
}

func (g *measureEng) flags(flushSec, maxMerge int) []string {
	return []string{fmt.Sprintf("--measure-flush-timeout=%ds", flushSec), fmt.Sprintf("--measure-max-merge-parts=%d", maxMerge)}
}
func (g *measureEng) eagerFlags() []string     { return []string{"--measure-min-merge-multiplier=1"} }
func (g *measureEng) install(repo *simmeta.Repo) { g.s.Install(repo) }
func (g *measureEng) boot(repo *simmeta.Repo, dir string, flags []string) (*simnode.Node, error) {
	return simnode.Boot(repo, dir, simnode.Engines{Measure: true}, flags)
}

func (g *measureEng) gen(tp *simcore.Tape, baseMs, spanMs int64, batchNo int) ([]row, func(n *simnode.Node) error) {
	rows := g.m.GenBatch(tp, wl.BatchOpts{BaseMs: baseMs, SpanMs: spanMs, MaxRows: 60, MaxSeries: 4, NullOK: true}, batchNo)
	reqs := g.m.ToRequests(rows, g.msgID)
	g.msgID += uint64(len(reqs))
	g.m.Ack(rows) // registered at generation so that concurrent batches never collide on (series, ts); queries are only compared once every write has returned
	out := make([]row, 0, len(rows))
	for _, r := range rows {
		out = append(out, row{series: r.Series, wid: r.Wid, ts: r.Ts})
		g.minTs = min(g.minTs, r.Ts)
	}
	return out, func(n *simnode.Node) error {
		resps, err := n.WriteMeasure(reqs)
		if err != nil {
			return err
		}
		if len(resps) != len(reqs) {
			return fmt.Errorf("%d responses for %d requests", len(resps), len(reqs))
		}
		for _, r := range resps {
			if r.GetStatus() != "STATUS_SUCCEED" {
				return fmt.Errorf("status %s", r.GetStatus())
			}
		}
		return nil
	}
}

func (g *measureEng) query(n *simnode.Node, withModel bool) (*answer, string, string, error) {
	p := g.s.FullProjection()
	lo := min(g.minTs, time.Now().UnixMilli()) - dayMs
	resp, err := n.QueryMeasure(g.s.QueryRequest(lo, time.Now().UnixMilli()+3*dayMs, p, 1000000))
	if err != nil {
		return nil, "", "", err
	}
	a := &answer{canon: map[int64]string{}, ts: map[int64]int64{}, n: len(resp.GetDataPoints())}
	for _, dp := range resp.GetDataPoints() {
		w := wl.Wid(dp)
		if _, seen := a.canon[w]; seen {
			a.dup = w
		}
		a.canon[w] = wl.CanonDataPoint(dp, p)
		a.ts[w] = dp.GetTimestamp().AsTime().UnixMilli()
	}
	if withModel {
		cls, msg := g.m.Mismatch(resp.GetDataPoints(), p, nil)
		return a, cls, msg, nil
	}
	return a, "", "", nil
}

func (g *measureEng) segments(n *simnode.Node) ([]storage.VerifC19Seg, error) {
	return measure.VerifC19Segments(n.Measure, g.s.Group)
}

type streamEng struct {
	s     *wl.StreamSchema
	m     *wl.StreamModel
	msgID uint64
	minTs int64
}

func newStreamEng(tp *simcore.Tape) engine {
	s := wl.GenStreamSchema(tp, wl.SchemaOpts{MaxShards: 2})
	m := wl.NewStreamModel(s)
	m.Tolerate = func(string) bool { return true }
	return &streamEng{s: s, m: m, msgID: 1, minTs: 1 << 62}
}

func (g *streamEng) kind() string              { return "stream" }
func (g *streamEng) catalog() commonv1.Catalog { return commonv1.Catalog_CATALOG_STREAM }
func (g *streamEng) group() string             { return g.s.Group }
func (g *streamEng) shards() int               { return int(g.s.Shards) }
func (g *streamEng) describe() string {
	return fmt.Sprintf("stream shards=%d tags=%v skipping=%v", g.s.Shards, g.s.Tags, simcore.SortedKeys(g.s.Skipping))
}

func (g *streamEng) flags(flushSec, maxMerge int) []string {
	return []string{fmt.Sprintf("--stream-flush-timeout=%ds", flushSec), fmt.Sprintf("--stream-max-merge-parts=%d", maxMerge)}
}
func (g *streamEng) eagerFlags() []string      { return []string{"--stream-min-merge-multiplier=1"} }
func (g *streamEng) install(repo *simmeta.Repo) { g.s.Install(repo) }
func (g *streamEng) boot(repo *simmeta.Repo, dir string, flags []string) (*simnode.Node, error) {
	return simnode.Boot(repo, dir, simnode.Engines{Stream: true}, flags)
}

func (g *streamEng) gen(tp *simcore.Tape, baseMs, spanMs int64, batchNo int) ([]row, func(n *simnode.Node) error) {
	rows := g.m.GenBatch(tp, wl.BatchOpts{BaseMs: baseMs, SpanMs: spanMs, MaxRows: 60, MaxSeries: 4, NullOK: true}, batchNo)
	reqs := g.m.ToRequests(rows, g.msgID)
	g.msgID += uint64(len(reqs))
	g.m.Ack(rows)
	out := make([]row, 0, len(rows))
	for _, r := range rows {
		out = append(out, row{series: r.Series, wid: r.Wid, ts: r.Ts})
		g.minTs = min(g.minTs, r.Ts)
	}
	return out, func(n *simnode.Node) error {
		resps, err := n.WriteStream(reqs)
		if err != nil {
			return err
		}
		if len(resps) != len(reqs) {
			return fmt.Errorf("%d responses for %d requests", len(resps), len(reqs))
		}
		for _, r := range resps {
			if r.GetStatus() != "STATUS_SUCCEED" {
				return fmt.Errorf("status %s", r.GetStatus())
			}
		}
		return nil
	}
}

func (g *streamEng) query(n *simnode.Node, withModel bool) (*answer, string, string, error) {
	p := g.s.FullProjection()
	lo := min(g.minTs, time.Now().UnixMilli()) - dayMs
	resp, err := n.QueryStream(g.s.QueryRequest(lo, time.Now().UnixMilli()+3*dayMs, p, 1000000))
	if err != nil {
		return nil, "", "", err
	}
	a := &answer{canon: map[int64]string{}, ts: map[int64]int64{}, n: len(resp.GetElements())}
	for _, el := range resp.GetElements() {
		w := wl.ElementWid(el)
		if _, seen := a.canon[w]; seen {
			a.dup = w
		}
		a.canon[w] = wl.CanonElement(el, p)
		a.ts[w] = el.GetTimestamp().AsTime().UnixMilli()
	}
	if withModel {
		cls, msg := g.m.Mismatch(resp.GetElements(), p, nil)
		return a, cls, msg, nil
	}
	return a, "", "", nil
}

func (g *streamEng) segments(n *simnode.Node) ([]storage.VerifC19Seg, error) {
	return stream.VerifC19Segments(n.Stream, g.s.Group)
}

// traceEng: the trace engine. A "row" is a span (attributed by its unique write id tag), its "series" is the trace id
// (the shard of a span is a function of its trace id, so (day, trace id) is a sound refinement of the table, as
// (day, series) is for the other two engines). A batch holds spans of 1-6 traces, old and new ones, so that traces
// grow over several batches, parts and segments. "Read everything" = ask for every trace id ever generated.
type traceEng struct {
	s       *wl.TraceSchema
	m       *wl.TraceModel
	ids     []string
	version uint64
	minTs   int64
	// uniform: every batch of the run has the same number of spans with equally sized bodies. The merge policy only
	// merges parts of similar size (the engine has no --trace-min-merge-multiplier), so such runs merge often.
	// hot (implies uniform): all traffic is "now" (timestamps within the last second) and every batch belongs to one
	// of two long-running traces, so that batch after batch lands in the same table.
	uniform     bool
	hot         bool
	uniformN    int
	uniformBody int
}

func newTraceEng(tp *simcore.Tape) engine {
	s := wl.GenTraceSchema(tp, wl.TraceSchemaOpts{MaxShards: 2})
	g := &traceEng{s: s, m: wl.NewTraceModel(s), version: 1, minTs: 1 << 62}
	g.m.TolerateTag = func(string) bool { return true } // value fidelity is judged by C13/C01
	shape := tp.Weighted(2, 1, 2)
	g.uniform, g.hot = shape >= 1, shape == 2
	g.uniformN = tp.Range(1, 12)
	g.uniformBody = 40 * tp.Range(0, 5)
	return g
}

func (g *traceEng) kind() string              { return "trace" }
func (g *traceEng) catalog() commonv1.Catalog { return commonv1.Catalog_CATALOG_TRACE }
func (g *traceEng) group() string             { return g.s.Group }
func (g *traceEng) shards() int               { return int(g.s.Shards) }
func (g *traceEng) describe() string {
	u := "varied"
	if g.uniform {
		u = fmt.Sprintf("uniform(%d spans x %d bytes)", g.uniformN, g.uniformBody)
	}
	if g.hot {
		u += "+hot"
	}
	return fmt.Sprintf("trace shards=%d tags=%v dur-rule=%v ts-rule=%v batches=%s", g.s.Shards, g.s.Tags, g.s.DurRuleTags, g.s.TsRule, u)
}

func (g *traceEng) flags(flushSec, maxMerge int) []string {
	return []string{fmt.Sprintf("--trace-flush-timeout=%ds", flushSec), fmt.Sprintf("--trace-max-merge-parts=%d", maxMerge)}
}
func (g *traceEng) eagerFlags() []string       { return nil }
func (g *traceEng) install(repo *simmeta.Repo) { g.s.Install(repo) }
func (g *traceEng) boot(repo *simmeta.Repo, dir string, flags []string) (*simnode.Node, error) {
	// the package's two process-global semaphores are sized by GOMAXPROCS in production: a fixed size here, so that a
	// run is the same at every GOMAXPROCS (seen as a determinism mismatch: a merge waiting for the only slot at GOMAXPROCS=1)
	simnode.TraceMergeConcurrency, simnode.TraceSamplerSlots = 4, 4
	defer func() { simnode.TraceMergeConcurrency, simnode.TraceSamplerSlots = 0, 0 }()
	return simnode.Boot(repo, dir, simnode.Engines{Trace: true}, flags)
}

func (g *traceEng) gen(tp *simcore.Tape, baseMs, spanMs int64, batchNo int) ([]row, func(n *simnode.Node) error) {
	n := g.uniformN
	if !g.uniform {
		switch tp.Weighted(3, 4, 2) {
		case 0:
			n = tp.Range(1, 3)
		case 1:
			n = tp.Range(4, 20)
		default:
			n = tp.Range(21, 60)
		}
	}
	// the traces of this batch: known ones (value 0) or new ones
	var batchIDs []string
	nIDs := tp.Range(1, 6)
	if g.hot {
		nIDs, spanMs = 1, min(spanMs, 1000)
	}
	for i := 0; i < nIDs; i++ {
		if g.hot && len(g.ids) >= 2 {
			batchIDs = append(batchIDs, g.ids[tp.Choose(2)])
			continue
		}
		if !g.hot && len(g.ids) > 0 && tp.Bool(1, 2) {
			batchIDs = append(batchIDs, g.ids[len(g.ids)-1-tp.Choose(len(g.ids))])
			continue
		}
		id := fmt.Sprintf("t%03d-%x", len(g.ids), uint16(tp.U64()))
		g.ids = append(g.ids, id)
		batchIDs = append(batchIDs, id)
	}
	spans := make([]*wl.Span, 0, n)
	out := make([]row, 0, n)
	for i := 0; i < n; i++ {
		id := batchIDs[tp.Choose(len(batchIDs))]
		ts := baseMs - int64(tp.Choose(int(spanMs)+1))
		sp := g.m.NewSpan(tp, id, ts, false, true)
		if g.uniform {
			sp.Payload = append([]byte(fmt.Sprintf("payload-of-w%08d/", sp.Wid)), wl.Blob(g.uniformBody, int(sp.Wid))...)
		}
		sp.Batch = batchNo
		spans = append(spans, sp)
		out = append(out, row{series: id, wid: sp.Wid, ts: ts})
		g.minTs = min(g.minTs, ts)
	}
	reqs := g.m.ToRequests(spans, g.version)
	g.version += uint64(len(reqs))
	g.m.Ack(spans) // registered at generation (see measureEng.gen)
	return out, func(n *simnode.Node) error {
		resps, err := n.WriteTrace(reqs)
		if err != nil {
			return err
		}
		if len(resps) != len(reqs) {
			return fmt.Errorf("%d responses for %d requests", len(resps), len(reqs))
		}
		for _, r := range resps {
			if r.GetStatus() != "STATUS_SUCCEED" {
				return fmt.Errorf("status %s", r.GetStatus())
			}
		}
		return nil
	}
}

var traceTags = os.Getenv("C19_TRACE_TAGS") == "1"

func (g *traceEng) query(n *simnode.Node, withModel bool) (*answer, string, string, error) {
	a := &answer{canon: map[int64]string{}, ts: map[int64]int64{}}
	if len(g.ids) == 0 {
		return a, "", "", nil
	}
	var proj []string
	for _, t := range g.s.Tags {
		proj = append(proj, t.Name)
	}
	lo := min(g.minTs, time.Now().UnixMilli()) - dayMs
	resp, err := n.QueryTrace(g.s.QueryByTraceIDs(g.ids, lo, time.Now().UnixMilli()+3*dayMs, proj))
	if err != nil {
		return nil, "", "", err
	}
	garbage := int64(0)
	for _, tr := range resp.GetTraces() {
		for _, sp := range tr.GetSpans() {
			a.n++
			w, ts := int64(0), int64(-1)
			var b strings.Builder
			fmt.Fprintf(&b, "trace=%s span-id=%s body=%x", tr.GetTraceId(), sp.GetSpanId(), sp.GetSpan())
			for _, t := range sp.GetTags() {
				switch t.GetKey() {
				case wl.TraceWidTag:
					w = t.GetValue().GetInt().GetValue()
				case wl.TraceTsTag:
					ts = t.GetValue().GetTimestamp().AsTime().UnixMilli()
				}
				// value fidelity of the other tags is C01's subject (C19_TRACE_TAGS=1 compares them too: debugging aid)
				if traceTags {
					fmt.Fprintf(&b, " %s=%s", t.GetKey(), wl.CanonTag(t.GetValue()))
					if ref := g.m.SpanByWid(w); ref != nil && ref.Tags[t.GetKey()] != nil && wl.CanonTag(ref.Tags[t.GetKey()]) != wl.CanonTag(t.GetValue()) {
						fmt.Fprintf(&b, "(written: %s)", wl.CanonTag(ref.Tags[t.GetKey()]))
					}
				}
			}
			if ref := g.m.SpanByWid(w); ref == nil || ref.TraceID != tr.GetTraceId() || ref.SpanID != sp.GetSpanId() || string(ref.Payload) != string(sp.GetSpan()) {
				// not attributable to a written span: a key no write ever had, so that the caller reports it as garbage
				garbage--
				w = garbage
			}
			if _, seen := a.canon[w]; seen {
				a.dup = w
			}
			a.canon[w] = b.String()
			a.ts[w] = ts
		}
	}
	if withModel {
		got, cls, msg := g.m.Collect(resp.GetTraces())
		if cls != "" {
			return a, cls, msg, nil
		}
		for _, id := range g.ids {
			if cls, msg = g.m.CompareWhole(id, got[id]); cls != "" {
				return a, cls, msg, nil
			}
		}
		for _, id := range simcore.SortedKeys(got) {
			if len(g.m.Traces[id]) == 0 {
				return a, "trace-never-written", fmt.Sprintf("trace %q returned but never written", id), nil
			}
		}
	}
	return a, "", "", nil
}

func (g *traceEng) segments(n *simnode.Node) ([]storage.VerifC19Seg, error) {
	return trace.VerifC19Segments(n.Trace, g.s.Group)
}

// ---------------------------------------------------------------------------------------------
// bookkeeping

// unit is the part of one batch that lands in one table (segment x shard): the engine turns it into exactly
// one memory part. With one shard the table is the day; with several shards rows of one series share a
// shard, so (day, series) is used as a sound refinement (the shard of a series is not observable from outside).
type unit struct {
	table     string
	wids      []int64
	batch     int
	invokeSeq int
	ackSeq    int // 0 = not acknowledged (yet)
	ackAt     time.Time
	mustHave  bool // acknowledged two flush periods before the quiescent point at which the race phase began
	mayHave   bool // invoked before the snapshot call returned
}

type writer struct {
	done  chan error
	name  string
	units []*unit
	fin   bool
}

type snapResult struct {
	pubErr     error
	getErr     error
	panicMsg   string
	snaps      []*databasev1.Snapshot
	invJournal int
	retJournal int
}

var partDirRe = regexp.MustCompile(`^[0-9a-f]{16}$`)

// listing returns "relative path -> size" of every file below root, and the relative directory paths.
func listing(root string) (files map[string]int64, dirs []string) {
	files = map[string]int64{}
	_ = filepath.Walk(root, func(p string, info os.FileInfo, err error) error {
		if err != nil || p == root {
			return nil
		}
		rel, _ := filepath.Rel(root, p)
		if info.IsDir() {
			dirs = append(dirs, rel)
		} else {
			files[rel] = info.Size()
		}
		return nil
	})
	sort.Strings(dirs)
	return files, dirs
}

func copyFile(src, dst string) error {
	if err := os.MkdirAll(filepath.Dir(dst), 0o755); err != nil {
		return err
	}
	in, err := os.Open(src)
	if err != nil {
		return err
	}
	defer in.Close()
	out, err := os.Create(dst)
	if err != nil {
		return err
	}
	if _, err = io.Copy(out, in); err != nil {
		out.Close()
		return err
	}
	return out.Close()
}

// ---------------------------------------------------------------------------------------------
// the scenario

func run(e *simcore.Env, tp *simcore.Tape, mk func(tp *simcore.Tape) engine) {
	synctest.Test(e.T, func(*testing.T) { scenario(e, tp, mk(tp)) })
}

func scenario(e *simcore.Env, tp *simcore.Tape, g engine) {
	repo := simmeta.New()
	g.install(repo)
	flushSec := []int{1, 3, 10}[tp.Choose(3)]
	flags := g.flags(flushSec, tp.Range(2, 6))
	if tp.Bool(1, 2) { // merge eagerly: parts of any size ratio
		flags = append(flags, g.eagerFlags()...)
	}
	flushed := time.Duration(2*flushSec+1) * time.Second
	dirA := filepath.Join(e.Dir, "a")
	dirR := filepath.Join(e.Dir, "r")
	snapshotsDir := filepath.Join(dirA, g.kind(), storage.SnapshotsDir)
	snapshotsRel := filepath.Join(g.kind(), storage.SnapshotsDir) + "/"

	// gates: armed only during the race phase, for a tape-chosen subset of sites
	var racing atomic.Bool
	// Which gates park (race phase only). The snapshot request and the concurrent writers park at EVERY site they
	// reach. Engine goroutines (introducer, flusher, merger, rotation, ...) park only in the middle of a maintenance
	// operation (flush: part files written, not yet introduced; merge; idle-close; retention), never in front of their
	// loop's select: a loop parked there while two senders pile up makes Go's select pick at random, and with an
	// arbitrary subset of sites armed the goroutines between two gates race freely (both were seen as determinism
	// mismatches). Everything else runs atomically between two driver steps.
	gatesOn := tp.Weighted(1, 4) == 1
	maint := tp.Choose(4) // 0 none, 1 flush/merge, 2 idle-close/retention/delete, 3 both
	maintSites := [][]string{nil,
		{"flusher.go:flush#", "merger.go:mergePartsThenSendIntroduction#", "merger.go:mergeParts#", "merger.go:mergeBlocks#"},
		{"segment.go:closeIfIdle#", "segment.go:closeResourcesLocked#", "segment.go:performDelete#", "segment.go:delete#", "segment.go:remove#", "segment.go:closeIdleSegments#", "segment.go:segments#", "segment.go:acquire#", "rotation.go:run#"},
	}
	maintSites = append(maintSites, append(append([]string{}, maintSites[1]...), maintSites[2]...))
	pct := fmt.Sprintf("%v/maint%d", gatesOn, maint)
	simcore.EnableGates(func(actor, site string) bool {
		if !gatesOn || !racing.Load() {
			return false
		}
		if actorRank(actor) < 2 {
			return true
		}
		for _, pre := range maintSites[maint] {
			if strings.HasPrefix(site, pre) {
				return true
			}
		}
		return false
	})
	// The driver goroutine itself never enters the engine: with cooperative locks a named actor parks on
	// contention and somebody has to release it. Every engine operation the driver issues runs on a helper
	// goroutine (actor "main"; the engine loops it spawns inherit "main/<site>#n") while the driver releases
	// whoever parks (outside the race phase only lock-waiters park).
	settle := func() {
		for i := 0; i < 100000; i++ {
			synctest.Wait()
			ps := simcore.ParkedList()
			if len(ps) == 0 {
				return
			}
			for _, p := range ps {
				simcore.Release(p)
			}
		}
	}
	call := func(f func()) {
		fin := make(chan struct{})
		var pv any
		go func() {
			simcore.SetActor("main")
			defer simcore.ClearActor()
			defer close(fin)
			defer func() { pv = recover() }()
			f()
		}()
		back := time.Millisecond
		for {
			synctest.Wait()
			select {
			case <-fin:
				if pv != nil {
					panic(pv)
				}
				return
			default:
			}
			ps := simcore.ParkedList()
			if len(ps) == 0 { // the operation waits for a timer
				time.Sleep(back)
				back = min(2*back, time.Second)
				continue
			}
			for _, p := range ps {
				simcore.Release(p)
			}
		}
	}
	// sleep advances the clock in slices so that a lock-waiter parked meanwhile is not held back for long
	sleep := func(d time.Duration) {
		for d > 0 {
			k := min(d, 10*time.Minute)
			time.Sleep(k)
			d -= k
			settle()
		}
	}

	journal := simos.Start(dirA)
	var live, restored *simnode.Node
	var writers []*writer
	drain := func() {
		racing.Store(false)
		for i := 0; i < 100000; i++ {
			synctest.Wait()
			ps := simcore.ParkedList()
			if len(ps) == 0 {
				return
			}
			for _, p := range ps {
				simcore.Release(p)
			}
		}
	}
	defer func() {
		drain()
		if restored != nil {
			call(restored.Stop)
		}
		if live != nil {
			call(live.Stop)
		}
		settle()
		simos.Stop()
		simcore.ResetGates()
	}()

	var n *simnode.Node
	var err error
	call(func() { n, err = g.boot(repo, dirA, flags) })
	if err != nil {
		e.Fail("boot", "boot-failed", "boot: %v", err)
		return
	}
	live = n
	sleep(time.Duration(tp.Range(1, 600)) * time.Minute)
	e.Event("%s flags=%v gates=%s", g.describe(), flags, pct)

	var units []*unit
	known := map[int64]row{}
	seq := 0
	nBatches := 0
	var sample []string
	multiShard := g.shards() > 1

	// newUnits splits a generated batch into its per-table units.
	newUnits := func(rows []row) []*unit {
		by := map[string]*unit{}
		var keys []string
		seq++
		for _, r := range rows {
			known[r.wid] = r
			day := r.ts / dayMs
			if r.ts < 0 && r.ts%dayMs != 0 {
				day--
			}
			k := fmt.Sprintf("day%d", day)
			if multiShard {
				k += "|" + r.series
			}
			if by[k] == nil {
				by[k] = &unit{table: k, batch: nBatches, invokeSeq: seq}
				keys = append(keys, k)
			}
			by[k].wids = append(by[k].wids, r.wid)
		}
		sort.Strings(keys)
		var out []*unit
		for _, k := range keys {
			out = append(out, by[k])
		}
		nBatches++
		return out
	}
	acked := func(us []*unit) {
		seq++
		for _, u := range us {
			u.ackSeq, u.ackAt = seq, time.Now()
		}
	}
	// writeNow: one sequential, acknowledged batch issued by the driver.
	writeNow := func(spanMs int64, what string) bool {
		sleep(time.Duration(tp.Range(1, 3000)) * time.Microsecond)
		rows, send := g.gen(tp, time.Now().UnixMilli(), spanMs, nBatches)
		us := newUnits(rows)
		var werr error
		call(func() { werr = send(n) })
		if werr != nil {
			e.Fail("ack", "valid-write-not-acknowledged", "%s batch of %d rows not acknowledged: %v", what, len(rows), werr)
			return false
		}
		acked(us)
		units = append(units, us...)
		e.Event("%s batch #%d: %d rows in %d table(s) acknowledged", what, nBatches-1, len(rows), len(us))
		sample = append(sample, fmt.Sprintf("%s: write %d rows / %d tables", what, len(rows), len(us)))
		return true
	}
	advance := func(d time.Duration, what string) {
		sleep(d)
		e.AddSim(d)
		e.Event("%s advance %s", what, d)
		sample = append(sample, what+": advance "+d.String())
	}
	spans := []int64{1000, 600_000, 2 * dayMs}

	// --- phase A: history
	steps := []time.Duration{500 * time.Millisecond, time.Duration(flushSec) * time.Second, flushed, 90 * time.Second, 11 * time.Minute, 75 * time.Minute, 26 * time.Hour}
	for op, nOps := 0, tp.Range(2, 9); op < nOps; op++ {
		e.Step()
		if tp.Weighted(3, 2) == 0 {
			if !writeNow(spans[tp.Choose(3)], "history") {
				return
			}
		} else {
			advance(steps[tp.Choose(len(steps))], "history")
		}
	}

	// --- phase B: the live node's answer before anything else happens
	var before *answer
	var cls, msg string
	var qerr error
	call(func() { before, cls, msg, qerr = g.query(n, true) })
	if qerr != nil {
		e.Fail("query", "query-error", "query before the snapshot: %v", qerr)
		return
	}
	if cls != "" {
		e.Fail("live-unaffected", "before:"+cls, "the live node disagrees with the model before the snapshot: %s", msg)
		return
	}
	e.Event("before: live node returns %d rows, agrees with the model", before.n)

	// --- fault: the leftover of a crashed atomic manifest write (WriteAtomic died between writing <epoch>.snp.tmp and the
	// rename; a later restart does not remove it from a shard root): a stale *.snp.tmp in some shard directories
	if tp.Side().Bool(1, 3) {
		shards, _ := filepath.Glob(filepath.Join(dirA, "*", "data", "*", "seg-*", "shard-*"))
		sort.Strings(shards)
		planted := 0
		for _, sd := range shards {
			if tp.Side().Bool(1, 2) {
				name := fmt.Sprintf("%016x.snp.tmp", []int{0, 1, 1 << 20}[tp.Side().Choose(3)])
				if os.WriteFile(filepath.Join(sd, name), []byte(`["00000000000000`), 0o600) == nil {
					planted++
				}
			}
		}
		if planted > 0 {
			e.Probe("fault.stale_manifest_tmp_in_shard_root")
			e.Event("fault: %d stale .snp.tmp file(s) planted in shard roots", planted)
		}
	}

	// --- phase C: optional idle period (older segments idle-close), optional late batches
	if tp.Bool(1, 2) {
		advance(time.Duration(tp.Range(75, 200))*time.Minute, "idle")
	}
	for i, k := 0, tp.Weighted(3, 2, 1); i < k; i++ {
		if !writeNow(spans[tp.Weighted(3, 1)], "late") {
			return
		}
		if tp.Bool(1, 2) {
			advance(steps[tp.Choose(3)], "late")
		}
	}

	// --- phase D: the race. Clean quiescent point first: what is flushed now must be in the snapshot.
	settle()
	now := time.Now()
	nMust := 0
	for _, u := range units {
		if now.Sub(u.ackAt) >= flushed {
			u.mustHave = true
			nMust++
		}
	}
	closedBefore := map[string]string{} // suffix -> journal-relative directory; read at the quiescent point at which the request is issued
	readClosed := func() int {
		segs, serr := g.segments(n)
		if serr != nil {
			e.Fail("harness", "segments-accessor", "%v", serr)
			return 0
		}
		for _, s := range segs {
			if !s.IndexOpen && !s.MustBeDeleted {
				rel, _ := filepath.Rel(dirA, s.Location)
				closedBefore[s.Suffix] = rel + "/"
			}
		}
		return len(segs)
	}
	e.Event("race: %d of %d unit(s) flushed before the call", nMust, len(units))

	var groups []*databasev1.SnapshotRequest_Group
	if tp.Bool(1, 2) {
		groups = []*databasev1.SnapshotRequest_Group{{Group: g.group(), Catalog: g.catalog()}}
	}
	faultKind := tp.Weighted(7, 2, 1) // 0 none, 1 link, 2 mkdir
	faultK := tp.Range(0, 15)
	var snapRunning, faultFired atomic.Bool
	var faultPath atomic.Value
	var depthFixed atomic.Bool
	cnt := 0
	simos.SetFailer(func(_ int, op *simos.Op) error {
		if !snapRunning.Load() || !strings.HasPrefix(op.Path, snapshotsRel) {
			return nil
		}
		// Only the request writes below the snapshots directory, so this runs on its goroutine. The listener holds
		// its snapshotMux for the whole call; gaterw's held-lock counter (mode A) would let every gate below it
		// pass. The mutex serialises snapshot requests only (one per run here): forget it from the first disk
		// operation of the request on, so that the request parks at the gates inside the segments and tables.
		if depthFixed.CompareAndSwap(false, true) {
			simcore.LockDepth(-1)
		}
		if faultKind == 0 || faultFired.Load() {
			return nil
		}
		if (faultKind == 1 && op.Kind == simos.OpLink) || (faultKind == 2 && op.Kind == simos.OpMkdirAll) {
			if cnt == faultK {
				faultFired.Store(true)
				faultPath.Store(op.Kind.String() + " " + pathRole(op.Path))
				return simos.ErrIO
			}
			cnt++
		}
		return nil
	})

	res := &snapResult{}
	snapCh := make(chan struct{})
	startSnapshot := func() {
		go func() {
			simcore.SetActor("snap")
			defer simcore.ClearActor()
			defer close(snapCh)
			defer snapRunning.Store(false)
			defer func() {
				if r := recover(); r != nil {
					res.panicMsg = fmt.Sprint(r)
				}
				res.retJournal = simos.Len()
			}()
			res.invJournal = simos.Len()
			snapRunning.Store(true)
			// exactly the body of the liaison Snapshot RPC (banyand/liaison/grpc/snapshot.go)
			f, perr := n.Pipeline.Publish(n.Ctx, data.TopicSnapshot, bus.NewMessage(bus.MessageID(0), groups))
			if perr != nil {
				res.pubErr = perr
				return
			}
			mm, gerr := f.GetAll()
			if gerr != nil {
				res.getErr = gerr
				return
			}
			for _, m := range mm {
				if d := m.Data(); d != nil {
					if s, ok := d.(*databasev1.Snapshot); ok && s != nil {
						res.snaps = append(res.snaps, s)
					}
				}
			}
		}()
	}
	done := func(ch chan struct{}) bool {
		select {
		case <-ch:
			return true
		default:
			return false
		}
	}
	collect := func() bool {
		for _, w := range writers {
			if w.fin {
				continue
			}
			select {
			case werr := <-w.done:
				w.fin = true
				if werr != nil {
					e.Fail("ack", "valid-write-not-acknowledged", "concurrent batch of %s not acknowledged: %v", w.name, werr)
					return false
				}
				acked(w.units)
				e.Event("%s acknowledged", w.name)
			default:
			}
		}
		return true
	}
	inFlight := func() int {
		k := 0
		for _, w := range writers {
			if !w.fin {
				k++
			}
		}
		return k
	}
	// Actor names carry spawn ordinals that shift with the number of schema-watcher workers (= GOMAXPROCS): order
	// parked actors numerically-aware and log run-local aliases, so that a run is the same at every GOMAXPROCS.
	aliases := map[string]string{}
	alias := func(a string) string {
		if actorRank(a) < 2 {
			return a
		}
		if _, ok := aliases[a]; !ok {
			aliases[a] = fmt.Sprintf("loop%d", len(aliases)+1)
		}
		return aliases[a]
	}
	canonParked := func() []*simcore.Parked {
		ps := simcore.ParkedList()
		sort.SliceStable(ps, func(i, j int) bool {
			ri, rj := actorRank(ps[i].Actor), actorRank(ps[j].Actor)
			if ri != rj {
				return ri < rj
			}
			if ps[i].Actor != ps[j].Actor {
				return naturalLess(ps[i].Actor, ps[j].Actor)
			}
			return ps[i].Site < ps[j].Site
		})
		return ps
	}
	writersLeft := tp.Weighted(3, 3, 2)
	advLeft := tp.Weighted(2, 2, 2, 2)
	maxSteps := []int{150, 400, 1000, 40}[tp.Choose(4)]
	var burstActor string
	burstLeft := 0
	// side-tape knob: once chosen, the request keeps running until it is parked inside a table's file snapshot (between
	// pinning the table's parts and writing the manifest), where the choice among "advance", writers and loops is made anew
	snapRunsToTable, toTable := tp.Side().Bool(1, 2), false
	inTable := func(ps []*simcore.Parked) bool {
		for _, p := range ps {
			if p.Actor == "snap" && (strings.HasPrefix(p.Site, "snapshot.go:TakeFileSnapshot#") || strings.HasPrefix(p.Site, "snapshot.go:createMetadata#")) {
				return true
			}
		}
		return false
	}
	snapStarted, interference := false, false
	racedWriter, racedMaint := false, false
	racing.Store(true)
	for step := 0; ; step++ {
		synctest.Wait()
		if !collect() {
			return
		}
		if snapStarted && done(snapCh) {
			break
		}
		if step >= maxSteps {
			e.Probe("reach.race_step_limit")
			break
		}
		// the snapshot's own gates first, then the writers', then the engine loops' (value 0 = the simplest run)
		parked := canonParked()
		nOpt := len(parked)
		optSnap, optWriter, optAdv := -1, -1, -1
		if !snapStarted {
			optSnap = nOpt
			nOpt++
		}
		if writersLeft > 0 {
			optWriter = nOpt
			nOpt++
		}
		if advLeft > 0 {
			optAdv = nOpt
			nOpt++
			if snapStarted { // maintenance in the middle of the request is what the race is about: three tickets,
				nOpt += 2 // eight while the request is between pinning a table's parts and writing its manifest
				for _, p := range parked {
					if p.Actor == "snap" && strings.HasPrefix(p.Site, "snapshot.go:") {
						nOpt += 5
					}
				}
			}
		}
		if nOpt == 0 {
			e.Fail("harness", "race-stuck", "snapshot call neither finished nor parked and nothing left to do (in flight writers: %d)", inFlight())
			return
		}
		// run-until-yield bursts: the actor chosen last keeps running for a tape-chosen number of gates
		c := -1
		if toTable && burstLeft > 0 && burstActor == "snap" && inTable(parked) {
			burstLeft, toTable = 0, false // arrived
		}
		if burstLeft > 0 {
			for i, p := range parked {
				if p.Actor == burstActor {
					c = i
					burstLeft--
					break
				}
			}
		}
		if c < 0 {
			burstLeft = 0
			// bias: starting the snapshot is choice 0 while it has not started
			c = tp.Choose(nOpt)
			if !snapStarted {
				c = (c + optSnap) % nOpt
			}
			if c < len(parked) {
				burstActor, burstLeft = parked[c].Actor, []int{0, 3, 12, 50}[tp.Weighted(3, 3, 2, 1)]
				if toTable = snapRunsToTable && burstActor == "snap" && !inTable(parked); toTable {
					burstLeft = 300
				}
			}
		}
		e.Step()
		switch {
		case c == optSnap:
			snapStarted = true
			if inFlight() > 0 {
				interference, racedWriter = true, true
			}
			nSeg := readClosed()
			e.Event("step %d: snapshot request issued (%d parked, %d writes in flight, %d segment(s), idle-closed=%v)", step, len(parked), inFlight(), nSeg, simcore.SortedKeys(closedBefore))
			sample = append(sample, "race: snapshot request")
			startSnapshot()
		case c == optWriter:
			writersLeft--
			time.Sleep(time.Duration(tp.Range(1, 3000)) * time.Microsecond)
			rows, send := g.gen(tp, time.Now().UnixMilli(), spans[tp.Weighted(3, 1, 1)], nBatches)
			w := &writer{name: fmt.Sprintf("w%d", len(writers)), done: make(chan error, 1), units: newUnits(rows)}
			units = append(units, w.units...)
			writers = append(writers, w)
			if snapStarted {
				interference, racedWriter = true, true
			}
			e.Event("step %d: %s starts batch #%d of %d rows in %d table(s)", step, w.name, nBatches-1, len(rows), len(w.units))
			sample = append(sample, fmt.Sprintf("race: %s writes %d rows", w.name, len(rows)))
			go func() {
				simcore.SetActor(w.name)
				defer simcore.ClearActor()
				defer func() {
					if r := recover(); r != nil {
						w.done <- fmt.Errorf("panic: %v", r)
					}
				}()
				w.done <- send(n)
			}()
		case optAdv >= 0 && c >= optAdv:
			advLeft--
			d := []time.Duration{time.Duration(flushSec) * time.Second, flushed, 500 * time.Millisecond, 11 * time.Minute}[tp.Choose(4)]
			var pb map[string][]string
			if snapStarted {
				interference = true
				for _, p := range parked {
					if p.Actor == "snap" && (strings.HasPrefix(p.Site, "snapshot.go:TakeFileSnapshot#") || strings.HasPrefix(p.Site, "snapshot.go:createMetadata#") || strings.HasPrefix(p.Site, "snapshot.go:decRef#")) {
						e.Probe("reach.advance_while_request_links_a_table")
					}
				}
				pb = partsOnDisk(filepath.Join(dirA, g.kind(), storage.DataDir))
			}
			time.Sleep(d)
			e.AddSim(d)
			if snapStarted {
				synctest.Wait()
				fl, mg := maintenanceSeen(pb, partsOnDisk(filepath.Join(dirA, g.kind(), storage.DataDir)))
				if fl {
					e.Probe("reach.flush_during_snapshot_request")
				}
				if mg {
					e.Probe("reach.merge_during_snapshot_request")
				}
			}
			e.Event("step %d: advance %s", step, d)
			sample = append(sample, "race: advance "+d.String())
		default:
			p := parked[c]
			if snapStarted && p.Actor != "snap" {
				interference = true
				if actorRank(p.Actor) == 1 {
					racedWriter = true
				} else {
					racedMaint = true
				}
			}
			e.Event("step %d: release %s @ %s (of %d parked)", step, alias(p.Actor), p.Site, len(parked))
			simcore.Release(p)
		}
	}
	if !snapStarted {
		snapStarted = true
		if inFlight() > 0 {
			interference, racedWriter = true, true
		}
		nSeg := readClosed()
		e.Event("snapshot request issued after the race steps (%d segment(s), idle-closed=%v)", nSeg, simcore.SortedKeys(closedBefore))
		startSnapshot()
	}
	// Everything invoked up to here may be in the snapshot. Let the request and the writers finish one gate at a
	// time in a fixed fair order (gates stay armed: released together, the real scheduler would decide who wins);
	// the engine loops that remain parked afterwards are released together.
	for _, u := range units {
		u.mayHave = true
	}
	var segsAtReturn []storage.VerifC19Seg
	fairSteps := 0
	for ; fairSteps < 200000; fairSteps++ {
		synctest.Wait()
		if !collect() {
			return
		}
		if done(snapCh) && segsAtReturn == nil {
			// the open/closed state at the quiescent point at which the call has returned (parked actors, e.g. a
			// rotation task about to reopen every segment, have not run yet)
			segsAtReturn, _ = g.segments(n)
		}
		if done(snapCh) && inFlight() == 0 {
			break
		}
		ps := canonParked()
		if len(ps) == 0 { // waiting for a timer
			if !done(snapCh) {
				interference = true
			}
			time.Sleep(time.Second)
			continue
		}
		p := ps[fairSteps%len(ps)]
		if !done(snapCh) && ps[0].Actor == "snap" && ps[0].Site != "lock-wait" {
			p = ps[0] // the request itself can proceed: nobody else has to run
		}
		if !done(snapCh) && p.Actor != "snap" {
			interference = true
			if actorRank(p.Actor) == 1 {
				racedWriter = true
			} else {
				racedMaint = true
			}
		}
		simcore.Release(p)
	}
	e.Event("request and writers finished after %d more gate(s)", fairSteps)
	drain()
	if !done(snapCh) {
		e.Fail("harness", "snapshot-did-not-return", "the snapshot request did not return after all gates were opened")
		return
	}
	if !collect() {
		return
	}
	if k := inFlight(); k > 0 {
		e.Fail("harness", "writer-did-not-finish", "%d concurrent write(s) did not return after all gates were opened", k)
		return
	}
	simos.SetFailer(nil)
	if racedWriter {
		e.Probe("reach.snapshot_raced_writer")
	}
	if racedMaint {
		e.Probe("reach.snapshot_raced_maintenance")
	}

	// --- verdict on the call itself
	fired := faultFired.Load()
	var snap *databasev1.Snapshot
	if len(res.snaps) > 1 {
		e.Fail("snapshot-call", "several-snapshots-reported", "%d snapshots reported for one catalog", len(res.snaps))
		return
	}
	if len(res.snaps) == 1 {
		snap = res.snaps[0]
	}
	reportedFailure := res.panicMsg != "" || res.pubErr != nil || res.getErr != nil || (snap != nil && snap.GetError() != "")
	left, _ := os.ReadDir(snapshotsDir)
	e.Event("snapshot returned: reported=%v failure=%v panic=%v fault-fired=%v entries-left=%d", snap != nil, reportedFailure, res.panicMsg != "", fired, len(left))
	if fired {
		fp, _ := faultPath.Load().(string)
		e.Probe(map[int]string{1: "fault.link_eio", 2: "fault.mkdir_eio"}[faultKind])
		e.Nontrivial()
		sample = append(sample, "fault: EIO on "+fp)
		switch {
		case res.panicMsg != "":
			// pkg/fs turns a failed mkdir into a panic; the deferred clean-up of TakeFileSnapshot only looks at the returned error
			e.Probe("reach.failed_snapshot_panicked")
			// pkg/fs is fail-stop on mkdir errors by design (the process is expected to die and restart); what a
			// panicking request leaves under snapshots/ is observed, not judged: the property speaks about
			// snapshots that were taken, not about requests that crashed the process.
			if len(left) > 0 {
				e.Probe("observe.panicked_request_left_partial_snapshot")
			}
		case !reportedFailure:
			e.Fail("failed-snapshot", "failure-not-reported", "EIO on %s during the snapshot, yet the request reported success (snapshot=%v)", fp, snap)
		default:
			e.Probe("reach.failed_snapshot_reported")
			files, dirs := listing(snapshotsDir)
			if len(files) > 0 {
				e.Fail("failed-snapshot", "failed-snapshot-leaves-files-behind", "EIO on %s: failure reported (%s) but %d file(s) stay below %s, e.g. %s", fp, snap.GetError(), len(files), snapshotsRel, firstKey(files))
			} else if len(dirs) > 0 {
				// an EMPTY <snapshots>/<name>/ directory after a reported failure holds no manifest and no part:
				// it cannot be mistaken for a snapshot's content. Observed, not judged.
				e.Probe("observe.failed_snapshot_left_empty_directory")
			} else {
				e.Probe("reach.failed_snapshot_cleaned")
			}
		}
	} else if res.panicMsg != "" {
		e.Fail("no-panic", "snapshot-request-panicked", "the snapshot request panicked without any injected fault: %s", res.panicMsg)
	} else if reportedFailure {
		e.Fail("snapshot-call", "failure-without-fault", "the snapshot request failed without any injected fault: pub=%v get=%v snapshot=%v", res.pubErr, res.getErr, snap)
	}
	if e.Failed() {
		return
	}

	// --- clause 4: idle-closed segments stay closed and untouched (only when nothing else ran during the call)
	if len(closedBefore) > 0 && !fired {
		if interference {
			e.Probe("reach.closed_segments_with_interference")
		} else {
			for _, s := range segsAtReturn {
				if _, was := closedBefore[s.Suffix]; was && s.IndexOpen {
					e.Fail("closed-stay-closed", "snapshot-reopened-idle-closed-segment", "segment %s was idle-closed before the snapshot request and is open after it (nothing else ran during the call)", s.Suffix)
					return
				}
			}
			for i := res.invJournal; i < res.retJournal && i < len(journal.Ops); i++ {
				op := journal.Ops[i]
				for _, sfx := range simcore.SortedKeys(closedBefore) {
					if strings.HasPrefix(op.Path, closedBefore[sfx]) {
						e.Fail("closed-stay-closed", "write-inside-idle-closed-segment", "%s %s inside idle-closed segment %s during the snapshot call", op.Kind, pathRole(op.Path), sfx)
						return
					}
				}
			}
			e.Probe("reach.closed_segments_stayed_closed")
		}
	}

	// --- clause 1: structure of the snapshot directory
	var snapDir string
	var listBefore map[string]int64
	if snap != nil && !fired {
		e.Probe("reach.snapshot_ok")
		snapDir = filepath.Join(snapshotsDir, snap.GetName())
		if len(left) != 1 || left[0].Name() != snap.GetName() {
			e.Fail("structure", "reported-name-is-not-the-directory", "reported snapshot %q, directory holds %d entries", snap.GetName(), len(left))
			return
		}
		if !checkStructure(e, g, snapDir, dirA, closedBefore) {
			return
		}
		listBefore, _ = listing(snapDir)
	} else if !fired {
		e.Probe("reach.snapshot_nothing_to_do")
		if len(left) > 0 {
			e.Fail("structure", "directory-without-reported-snapshot", "no snapshot reported but %d entries below %s", len(left), snapshotsRel)
			return
		}
		if nMust > 0 {
			e.Fail("point-in-time", "flushed-data-but-no-snapshot", "%d unit(s) were flushed before the request, yet no snapshot was produced", nMust)
			return
		}
	}

	// --- phase E: the node keeps working; what is written now must not show up in the snapshot
	nPost := 0
	for i, k := 0, tp.Weighted(2, 2, 1); i < k; i++ {
		if !writeNow(spans[tp.Weighted(3, 1, 1)], "post") {
			return
		}
		nPost++
	}
	if tp.Bool(2, 3) {
		advance(flushed, "post")
		if tp.Bool(1, 3) {
			advance(flushed, "post")
		}
	}

	// --- clause 5: the live node is unaffected
	var after *answer
	call(func() { after, cls, msg, qerr = g.query(n, true) })
	if qerr != nil {
		e.Fail("query", "query-error", "query after the snapshot: %v", qerr)
		return
	}
	if cls != "" {
		e.Fail("live-unaffected", "after:"+cls, "the live node disagrees with the model after the snapshot: %s", msg)
		return
	}
	for _, w := range sortedWids(before.canon) {
		if after.canon[w] != before.canon[w] {
			e.Fail("live-unaffected", "answer-changed", "write #%d is answered differently after the snapshot:\n  before: %s\n  after : %s", w, before.canon[w], after.canon[w])
			return
		}
	}
	e.Event("after: live node returns %d rows, agrees with the model and with the answer before", after.n)
	if snapDir == "" {
		e.SetSample(map[string]any{"engine": g.kind(), "flags": flags, "gates_pct": pct, "ops": sample})
		return
	}
	if listAfter, _ := listing(snapDir); !sameListing(listBefore, listAfter) {
		e.Fail("point-in-time", "snapshot-directory-changed-after-return", "the snapshot directory changed while the node kept working (%d -> %d files)", len(listBefore), len(listAfter))
		return
	}
	call(live.Stop)
	live = nil
	settle()
	simos.Stop()

	// --- restore: what the backup tool uploads and the restore tool downloads (files, relative to the snapshot directory, below <root>/<catalog>/data)
	viaTool := tp.Bool(1, 2)
	if viaTool {
		store := filepath.Join(e.Dir, "store")
		if berr := backup.VerifC19Backup(context.Background(), store, snapDir, g.kind(), "t1", 1+tp.Choose(4)); berr != nil {
			e.Fail("restore", "backup-upload-failed", "backupSnapshot: %v", berr)
			return
		}
		if rerr := backup.VerifC19Restore(store, "t1", dirR, g.kind()); rerr != nil {
			e.Fail("restore", "restore-download-failed", "restoreByName: %v", rerr)
			return
		}
		e.Probe("reach.restore_via_backup_tool")
	} else {
		files, _ := listing(snapDir)
		for _, rel := range sortedNames(files) {
			if cerr := copyFile(filepath.Join(snapDir, rel), filepath.Join(dirR, g.kind(), storage.DataDir, rel)); cerr != nil {
				e.Fail("harness", "copy-failed", "%v", cerr)
				return
			}
		}
		e.Probe("reach.restore_via_copy")
	}
	var got map[int64]bool
	call(func() { got, cls, msg = bootAndRead(g, repo, dirR, flags, known, &restored) })
	if cls != "" {
		e.Fail("restore", cls, "%s", msg)
		return
	}
	e.Event("restored node (via %s) returns %d rows", map[bool]string{true: "backup+restore", false: "copy"}[viaTool], len(got))

	// --- clause 3: whole units, a prefix per table, at least what was flushed, nothing written after the return
	present := make([]bool, len(units))
	nPresent := 0
	for i, u := range units {
		cnt := 0
		for _, w := range u.wids {
			if got[w] {
				cnt++
			}
		}
		switch {
		case cnt == len(u.wids):
			present[i] = true
			nPresent++
		case cnt > 0:
			// are all the missing rows of series that this very batch wrote first into that table? then it is the recorded
			// write-path finding (the data part is introduced before the batch's series documents reach the segment's
			// series index: the snapshot caught the part but not yet the documents), seen through a snapshot
			cls := "batch-partially-restored"
			earlier := map[string]bool{}
			for _, o := range units {
				if o.table == u.table && o.batch < u.batch {
					for _, w := range o.wids {
						earlier[known[w].series] = true
					}
				}
			}
			newOnly := true
			for _, w := range u.wids {
				if !got[w] && earlier[known[w].series] {
					newOnly = false
				}
			}
			if newOnly {
				cls += ":rows-of-new-series-missing"
			}
			e.Fail("point-in-time", cls, "batch #%d, table %s: %d of %d rows are in the restored copy", u.batch, tableClass(u.table), cnt, len(u.wids))
			return
		}
	}
	for i, u := range units {
		if u.mustHave && !present[i] {
			e.Fail("point-in-time", "flushed-batch-missing-from-snapshot", "batch #%d, table %s was acknowledged %s before the race began (flush timeout %ds) but is not in the restored copy", u.batch, tableClass(u.table), now.Sub(u.ackAt), flushSec)
			return
		}
		if present[i] && !u.mayHave {
			e.Fail("point-in-time", "batch-written-after-return-in-snapshot", "batch #%d, table %s was written after the snapshot request returned but is in the restored copy", u.batch, tableClass(u.table))
			return
		}
	}
	for j, u2 := range units {
		if !present[j] {
			continue
		}
		for i, u1 := range units {
			if !present[i] && u1.table == u2.table && u1.ackSeq != 0 && u1.ackSeq < u2.invokeSeq {
				e.Fail("point-in-time", "not-a-prefix", "table %s: batch #%d is in the restored copy but batch #%d, acknowledged before it was invoked, is not", tableClass(u2.table), u2.batch, u1.batch)
				return
			}
		}
	}
	e.Event("restored copy holds %d of %d unit(s): whole, prefix per table, flushed ones included, later ones excluded", nPresent, len(units))
	e.Probe("reach.restored_and_compared")
	if nPresent > 0 {
		e.Probe("reach.restored_nonempty")
	}
	if nPost > 0 {
		e.Probe("reach.post_snapshot_batches_excluded")
	}
	if nPresent < len(units)-countPost(units) {
		e.Probe("reach.snapshot_older_than_acknowledged_state")
	}
	e.Nontrivial()
	e.SetSample(map[string]any{"engine": g.kind(), "flags": flags, "gates_pct": pct, "restore": map[bool]string{true: "backup+restore", false: "copy"}[viaTool],
		"units": len(units), "units_in_snapshot": nPresent, "idle_closed_segments": len(closedBefore), "raced_writer": racedWriter, "raced_maintenance": racedMaint, "ops": sample})
}

// partsOnDisk lists the part directories per shard directory (model-free observation of maintenance, as in C03).
func partsOnDisk(root string) map[string][]string {
	out := map[string][]string{}
	_ = filepath.WalkDir(root, func(p string, d os.DirEntry, err error) error {
		if err != nil || !d.IsDir() {
			return nil
		}
		if partDirRe.MatchString(d.Name()) && shardRe.MatchString(filepath.Base(filepath.Dir(p))) {
			out[filepath.Dir(p)] = append(out[filepath.Dir(p)], d.Name())
			return filepath.SkipDir
		}
		return nil
	})
	return out
}

func maintenanceSeen(before, after map[string][]string) (flush, merge bool) {
	for shard, parts := range after {
		old := map[string]bool{}
		for _, p := range before[shard] {
			old[p] = true
		}
		added, kept := 0, 0
		for _, p := range parts {
			if old[p] {
				kept++
			} else {
				added++
			}
		}
		removed := len(before[shard]) - kept
		switch {
		case removed >= 2 && added >= 1:
			merge = true
		case added > 0 && removed == 0:
			flush = true
		}
	}
	return flush, merge
}

func countPost(us []*unit) int {
	k := 0
	for _, u := range us {
		if !u.mayHave {
			k++
		}
	}
	return k
}

// naturalLess compares strings with embedded decimal numbers numerically ("#9" < "#12").
func naturalLess(a, b string) bool {
	i, j := 0, 0
	for i < len(a) && j < len(b) {
		da, db := a[i] >= '0' && a[i] <= '9', b[j] >= '0' && b[j] <= '9'
		if da && db {
			si := i
			for i < len(a) && a[i] >= '0' && a[i] <= '9' {
				i++
			}
			sj := j
			for j < len(b) && b[j] >= '0' && b[j] <= '9' {
				j++
			}
			na, nb := strings.TrimLeft(a[si:i], "0"), strings.TrimLeft(b[sj:j], "0")
			if len(na) != len(nb) {
				return len(na) < len(nb)
			}
			if na != nb {
				return na < nb
			}
			continue
		}
		if a[i] != b[j] {
			return a[i] < b[j]
		}
		i++
		j++
	}
	return len(a)-i < len(b)-j
}

func actorRank(a string) int {
	switch {
	case a == "snap":
		return 0
	case strings.HasPrefix(a, "w") && !strings.Contains(a, "/"):
		return 1
	}
	return 2
}

func sortedWids(m map[int64]string) []int64 {
	out := make([]int64, 0, len(m))
	for w := range m {
		out = append(out, w)
	}
	sort.Slice(out, func(i, j int) bool { return out[i] < out[j] })
	return out
}

func sortedNames(m map[string]int64) []string {
	out := make([]string, 0, len(m))
	for k := range m {
		out = append(out, k)
	}
	sort.Strings(out)
	return out
}

func firstKey(m map[string]int64) string {
	if ks := sortedNames(m); len(ks) > 0 {
		return pathRole(ks[0])
	}
	return ""
}

func sameListing(a, b map[string]int64) bool {
	if len(a) != len(b) {
		return false
	}
	for k, v := range a {
		if w, ok := b[k]; !ok || w != v {
			return false
		}
	}
	return true
}

func firstLine(s string) string {
	if i := strings.IndexByte(s, '\n'); i >= 0 {
		s = s[:i]
	}
	if len(s) > 200 {
		s = s[:200]
	}
	return s
}

// tableClass drops the series from a table key (messages only).
func tableClass(t string) string { return t }

// tolerated: the class is a listed known finding (counted), or named in C19_TOLERATE (debugging aid: keep
// checking the other clauses while a finding is open).
func tolerated(e *simcore.Env, oracle, class string) bool {
	if e.Known(oracle, class) {
		return true
	}
	for _, c := range strings.Split(os.Getenv("C19_TOLERATE"), ",") {
		if c == oracle+":"+class {
			e.Probe("tolerated:" + c)
			return true
		}
	}
	return false
}

var (
	segRe   = regexp.MustCompile(`^seg-\d+$`)
	shardRe = regexp.MustCompile(`^shard-\d+$`)
)

// pathRole reduces a path to the roles of its components (stable across runs).
func pathRole(p string) string {
	parts := strings.Split(strings.Trim(p, "/"), "/")
	var out []string
	for _, c := range parts {
		switch {
		case segRe.MatchString(c):
			out = append(out, "seg")
		case shardRe.MatchString(c):
			out = append(out, "shard")
		case partDirRe.MatchString(c):
			out = append(out, "part")
		case strings.HasSuffix(c, ".snp"):
			out = append(out, "manifest")
		case len(c) > 14 && c[14] == '-' && strings.Trim(c[:14], "0123456789") == "":
			out = append(out, "snapshot")
		default:
			out = append(out, c)
		}
	}
	if len(out) > 5 {
		out = out[len(out)-5:]
	}
	return strings.Join(out, "/")
}

// checkStructure is clause 1: every shard directory of the snapshot has a manifest whose listed parts are all
// present and complete; no temporary file, no lock file.
func checkStructure(e *simcore.Env, g engine, snapDir, liveRoot string, closedBefore map[string]string) bool {
	files, dirs := listing(snapDir)
	for _, rel := range sortedNames(files) {
		base := filepath.Base(rel)
		if strings.HasSuffix(base, ".tmp") || strings.Contains(rel, ".tmp/") {
			e.Fail("structure", "temporary-file-in-snapshot", "the snapshot contains the temporary file %s", pathRole(rel))
			return false
		}
		if base == "lock" || strings.HasSuffix(base, ".pid") || strings.HasSuffix(base, ".lock") {
			e.Fail("structure", "lock-file-in-snapshot", "the snapshot contains the lock file %s", pathRole(rel))
			return false
		}
	}
	nShards, nSegs := 0, 0
	for _, d := range dirs {
		comps := strings.Split(d, "/")
		if len(comps) == 2 && comps[0] == g.group() && segRe.MatchString(comps[1]) {
			nSegs++
			if _, ok := files[filepath.Join(d, "metadata")]; !ok {
				e.Fail("structure", "segment-without-metadata", "segment directory %s of the snapshot has no metadata file", pathRole(d))
				return false
			}
			if _, was := closedBefore[strings.TrimPrefix(comps[1], "seg-")]; was {
				e.Probe("reach.closed_segment_in_snapshot")
			}
		}
		if len(comps) != 3 || comps[0] != g.group() || !shardRe.MatchString(comps[2]) {
			continue
		}
		nShards++
		shardDir := filepath.Join(snapDir, d)
		ents, _ := os.ReadDir(shardDir)
		var manifests, partDirs []string
		for _, en := range ents {
			switch {
			case en.IsDir() && partDirRe.MatchString(en.Name()):
				partDirs = append(partDirs, en.Name())
			case !en.IsDir() && strings.HasSuffix(en.Name(), ".snp"):
				manifests = append(manifests, en.Name())
			}
		}
		sort.Strings(manifests)
		if len(manifests) == 0 {
			if len(partDirs) > 0 {
				e.Fail("structure", "shard-with-parts-but-no-manifest", "shard %s of the snapshot holds %d part(s) but no manifest", pathRole(d), len(partDirs))
				return false
			}
			e.Probe("reach.empty_shard_in_snapshot")
			continue
		}
		// the manifest a start-up would load: the newest one
		mf := manifests[len(manifests)-1]
		raw, rerr := os.ReadFile(filepath.Join(shardDir, mf))
		var listed []string
		if rerr != nil || json.Unmarshal(raw, &listed) != nil {
			e.Fail("structure", "manifest-does-not-parse", "manifest of shard %s does not parse: %q (%v)", pathRole(d), string(raw), rerr)
			return false
		}
		for _, name := range listed {
			pd := filepath.Join(shardDir, name)
			st, serr := os.Stat(pd)
			if serr != nil || !st.IsDir() {
				onLive := "has no directory in the live data directory either: a memory part at the time of the request, or removed since"
				if lst, lerr := os.Stat(filepath.Join(liveRoot, g.kind(), storage.DataDir, d, name)); lerr == nil && lst.IsDir() {
					onLive = "exists in the live data directory now: it was a memory part at the time of the request and has been flushed since, or it was not linked"
				}
				if tolerated(e, "structure", "manifest-lists-missing-part") {
					continue
				}
				e.Fail("structure", "manifest-lists-missing-part", "manifest of shard %s lists %d part(s) %v; part %s is not in the snapshot (%d part directories present: %v; the part %s)", pathRole(d), len(listed), listed, name, len(partDirs), partDirs, onLive)
				return false
			}
			md, merr := os.ReadFile(filepath.Join(pd, "metadata.json"))
			var anyJSON map[string]any
			if merr != nil || json.Unmarshal(md, &anyJSON) != nil {
				e.Fail("structure", "part-without-valid-metadata", "part %s of shard %s has no parsable metadata.json (%v)", name, pathRole(d), merr)
				return false
			}
			pe, _ := os.ReadDir(pd)
			if len(pe) < 2 {
				e.Fail("structure", "part-incomplete", "part %s of shard %s holds only %d file(s)", name, pathRole(d), len(pe))
				return false
			}
			// where the source part still exists it must be the same set of files with the same sizes
			src := filepath.Join(liveRoot, g.kind(), storage.DataDir, d, name)
			if _, lerr := os.Stat(src); lerr == nil {
				sf, _ := listing(src)
				df, _ := listing(pd)
				if !sameListing(sf, df) {
					e.Fail("structure", "part-differs-from-source", "part %s of shard %s: snapshot has %d file(s), the live part %d", name, pathRole(d), len(df), len(sf))
					return false
				}
			}
		}
	}
	nData := 0 // the series index (bluge) decides by its own asynchronous merges how many files it is made of
	for rel := range files {
		if !strings.Contains(rel, "/sidx/") && !strings.Contains(rel, "/idx/") {
			nData++
		}
	}
	e.Event("snapshot directory: %d segment(s), %d shard(s), %d file(s) outside the indexes: structure is consistent", nSegs, nShards, nData)
	return true
}

// bootAndRead boots a new node on the restored directory and reads everything back.
func bootAndRead(g engine, repo *simmeta.Repo, dir string, flags []string, known map[int64]row, slot **simnode.Node) (got map[int64]bool, cls, msg string) {
	defer func() {
		if r := recover(); r != nil {
			cls, msg = "restored-startup-or-query-panic", fmt.Sprintf("node on the restored copy panicked: %v", firstLine(fmt.Sprint(r)))
		}
	}()
	n, err := g.boot(repo, dir, flags)
	if err != nil {
		return nil, "restored-startup-error", fmt.Sprintf("start-up on the restored copy failed: %v", err)
	}
	*slot = n
	a, _, _, qerr := g.query(n, false)
	if qerr != nil {
		return nil, "restored-query-error", fmt.Sprintf("query on the restored copy failed: %v", qerr)
	}
	if a.dup != 0 {
		return nil, "restored-duplicate-row", fmt.Sprintf("the restored copy returns write #%d twice", a.dup)
	}
	got = map[int64]bool{}
	for _, w := range sortedWids(a.canon) {
		r, ok := known[w]
		if !ok {
			return nil, "restored-garbage-row", fmt.Sprintf("the restored copy returns a row that was never written: %s", a.canon[w])
		}
		if a.ts[w] != r.ts {
			return nil, "restored-garbage-row", fmt.Sprintf("write #%d comes back with timestamp %d instead of %d", w, a.ts[w], r.ts)
		}
		got[w] = true
	}
	return got, "", ""
}
