package c05

import (
	"fmt"

	"github.com/apache/skywalking-banyandb/banyand/internal/verif/simmeta"
	"github.com/apache/skywalking-banyandb/banyand/internal/verif/simnode"
	"github.com/apache/skywalking-banyandb/banyand/internal/verif/wl"
	"github.com/apache/skywalking-banyandb/banyand/measure"
	"github.com/apache/skywalking-banyandb/banyand/stream"
	"github.com/apache/skywalking-banyandb/pkg/verif/simcore"
)

// ---------------------------------------------------------------------------------------------
// measure

type measureEng struct {
	s     *wl.MeasureSchema
	m     *wl.MeasureModel
	path  string
	msgID uint64
}

func newMeasureEng(tp *simcore.Tape) engine {
	s := wl.GenMeasureSchema(tp, wl.SchemaOpts{MaxShards: 2, NoIndexRules: true})
	if tp.Weighted(2, 1) == 0 { // one shard in two of three runs: table = day segment
		s.Shards = 1
	}
	m := wl.NewMeasureModel(s)
	m.Tolerate = func(string) bool { return true } // value fidelity is C01's subject
	return &measureEng{s: s, m: m, msgID: 1}
}

func (g *measureEng) kind() string  { return "measure" }
func (g *measureEng) group() string { return g.s.Group }
func (g *measureEng) shards() int   { return int(g.s.Shards) }
func (g *measureEng) describe() string {
	return fmt.Sprintf("measure shards=%d tags=%d fields=%d path=%s", g.s.Shards, len(g.s.Tags), len(g.s.Fields), g.path)
}

func (g *measureEng) flags(tp *simcore.Tape, flushSec, maxMerge int) []string {
	fl := []string{fmt.Sprintf("--measure-flush-timeout=%ds", flushSec), fmt.Sprintf("--measure-max-merge-parts=%d", maxMerge)}
	if tp.Weighted(1, 3) == 1 {
		fl = append(fl, "--measure-min-merge-multiplier=1")
	}
	qf, tag := simnode.QueryPath(tp.Choose, "measure")
	g.path = tag
	return append(fl, qf...)
}
func (g *measureEng) install(repo *simmeta.Repo) { g.s.Install(repo) }
func (g *measureEng) boot(repo *simmeta.Repo, dir string, flags []string) (*simnode.Node, error) {
	return simnode.Boot(repo, dir, simnode.Engines{Measure: true}, flags)
}

func (g *measureEng) gen(tp *simcore.Tape, baseMs, spanMs int64, maxRows, batchNo int) ([]row, func(n *simnode.Node) error) {
	rows := g.m.GenBatch(tp, wl.BatchOpts{BaseMs: baseMs, SpanMs: spanMs, MaxRows: maxRows, MaxSeries: 4, NullOK: true}, batchNo)
	reqs := g.m.ToRequests(rows, g.msgID)
	g.msgID += uint64(len(reqs))
	g.m.Ack(rows) // registered at generation so that concurrent batches never collide on (series, ts)
	out := make([]row, 0, len(rows))
	for _, r := range rows {
		out = append(out, row{series: r.Series, wid: r.Wid, ts: r.Ts})
	}
	return out, func(n *simnode.Node) error {
		resps, err := n.WriteMeasure(reqs)
		if err != nil {
			return err
		}
		if len(resps) != len(reqs) {
			return fmt.Errorf("%d responses for %d requests", len(resps), len(reqs))
		}
		for _, r := range resps {
			if r.GetStatus() != "STATUS_SUCCEED" {
				return fmt.Errorf("status %s", r.GetStatus())
			}
		}
		return nil
	}
}

func (g *measureEng) query(n *simnode.Node, loMs, hiMs int64) (*qres, error) {
	resp, err := n.QueryMeasure(g.s.QueryRequest(loMs, hiMs, wl.Projection{Tags: []string{"wid"}}, 1000000))
	if err != nil {
		return nil, err
	}
	out := &qres{}
	for _, dp := range resp.GetDataPoints() {
		out.wids = append(out.wids, wl.Wid(dp))
		out.ts = append(out.ts, dp.GetTimestamp().AsTime().UnixMilli())
	}
	return out, nil
}

func (g *measureEng) tables(n *simnode.Node) ([]tableView, error) {
	ts, err := measure.VerifC05Tables(n.Measure, g.s.Group)
	if err != nil {
		return nil, err
	}
	out := make([]tableView, 0, len(ts))
	for _, t := range ts {
		v := tableView{key: fmt.Sprintf("%s/%d", t.Segment, t.Shard), seg: t.Segment, root: t.Root, epoch: t.Epoch, creator: t.Creator, ref: t.Ref, has: t.HasSnap, busy: t.Busy}
		for _, p := range t.Parts {
			v.parts = append(v.parts, partView{id: p.ID, count: p.Count, ref: p.Ref, mem: p.Mem, removable: p.Removable})
		}
		out = append(out, v)
	}
	return out, nil
}

func (g *measureEng) resetGlobals(k int) { measure.VerifC05ResetMergeSemaphore(k) }

func (g *measureEng) holdSites() []string {
	return []string{"query.go:Pull#1", "query_batch.go:PullBatch#1"}
}

// ---------------------------------------------------------------------------------------------
// stream

type streamEng struct {
	s     *wl.StreamSchema
	m     *wl.StreamModel
	path  string
	msgID uint64
}

func newStreamEng(tp *simcore.Tape) engine {
	s := wl.GenStreamSchema(tp, wl.SchemaOpts{MaxShards: 2, NoIndexRules: true})
	if tp.Weighted(2, 1) == 0 {
		s.Shards = 1
	}
	m := wl.NewStreamModel(s)
	m.Tolerate = func(string) bool { return true }
	return &streamEng{s: s, m: m, msgID: 1}
}

func (g *streamEng) kind() string  { return "stream" }
func (g *streamEng) group() string { return g.s.Group }
func (g *streamEng) shards() int   { return int(g.s.Shards) }
func (g *streamEng) describe() string {
	return fmt.Sprintf("stream shards=%d tags=%d path=%s", g.s.Shards, len(g.s.Tags), g.path)
}

func (g *streamEng) flags(tp *simcore.Tape, flushSec, maxMerge int) []string {
	fl := []string{fmt.Sprintf("--stream-flush-timeout=%ds", flushSec), fmt.Sprintf("--stream-max-merge-parts=%d", maxMerge)}
	if tp.Weighted(1, 3) == 1 {
		fl = append(fl, "--stream-min-merge-multiplier=1")
	}
	qf, tag := simnode.QueryPath(tp.Choose, "stream")
	g.path = tag
	return append(fl, qf...)
}
func (g *streamEng) install(repo *simmeta.Repo) { g.s.Install(repo) }
func (g *streamEng) boot(repo *simmeta.Repo, dir string, flags []string) (*simnode.Node, error) {
	return simnode.Boot(repo, dir, simnode.Engines{Stream: true}, flags)
}

func (g *streamEng) gen(tp *simcore.Tape, baseMs, spanMs int64, maxRows, batchNo int) ([]row, func(n *simnode.Node) error) {
	rows := g.m.GenBatch(tp, wl.BatchOpts{BaseMs: baseMs, SpanMs: spanMs, MaxRows: maxRows, MaxSeries: 4, NullOK: true}, batchNo)
	reqs := g.m.ToRequests(rows, g.msgID)
	g.msgID += uint64(len(reqs))
	g.m.Ack(rows)
	out := make([]row, 0, len(rows))
	for _, r := range rows {
		out = append(out, row{series: r.Series, wid: r.Wid, ts: r.Ts})
	}
	return out, func(n *simnode.Node) error {
		resps, err := n.WriteStream(reqs)
		if err != nil {
			return err
		}
		if len(resps) != len(reqs) {
			return fmt.Errorf("%d responses for %d requests", len(resps), len(reqs))
		}
		for _, r := range resps {
			if r.GetStatus() != "STATUS_SUCCEED" {
				return fmt.Errorf("status %s", r.GetStatus())
			}
		}
		return nil
	}
}

func (g *streamEng) query(n *simnode.Node, loMs, hiMs int64) (*qres, error) {
	resp, err := n.QueryStream(g.s.QueryRequest(loMs, hiMs, wl.Projection{Tags: []string{"wid"}}, 1000000))
	if err != nil {
		return nil, err
	}
	out := &qres{}
	for _, el := range resp.GetElements() {
		out.wids = append(out.wids, wl.ElementWid(el))
		out.ts = append(out.ts, el.GetTimestamp().AsTime().UnixMilli())
	}
	return out, nil
}

func (g *streamEng) tables(n *simnode.Node) ([]tableView, error) {
	ts, err := stream.VerifC05Tables(n.Stream, g.s.Group)
	if err != nil {
		return nil, err
	}
	out := make([]tableView, 0, len(ts))
	for _, t := range ts {
		v := tableView{key: fmt.Sprintf("%s/%d", t.Segment, t.Shard), seg: t.Segment, root: t.Root, epoch: t.Epoch, creator: t.Creator, ref: t.Ref, has: t.HasSnap, busy: t.Busy}
		for _, p := range t.Parts {
			v.parts = append(v.parts, partView{id: p.ID, count: p.Count, ref: p.Ref, mem: p.Mem, removable: p.Removable})
		}
		out = append(out, v)
	}
	return out, nil
}

func (g *streamEng) resetGlobals(k int) { stream.VerifC05ResetMergeSemaphore(k) }

func (g *streamEng) holdSites() []string {
	return []string{"query_vectorized.go:fillFromScanner#2", "block_scanner.go:scan#1", "block_scanner.go:scan#2", "block_scanner.go:scan#3", "block_scanner.go:scan#4",
		"block_scanner.go:scan#5", "block_scanner.go:scan#6"}
}
