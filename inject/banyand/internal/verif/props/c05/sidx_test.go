package c05

// Scenario sidx-concurrent: queries on the ordered secondary index (banyand/internal/sidx) racing with the publications
// of memory parts, flushes, merges and part synchronisation. The REAL index is driven through the public step API the
// trace engine uses (ConvertToMemPart, Flush, Merge, Prepare*/snapshot.NewTransition/Commit/Release; 1 publication in 4
// through the one-shot Introduce* calls), by one maintenance actor at a time (the trace introducer serialises all
// transitions of a table) and 1-3 query actors. Every actor parks at gates (hand-written ones between the publication
// steps, tools/gaterw ones inside the index) and the tape decides who continues.
//
// Oracle (reference model = list of written entries with the number of the content state in which each appears /
// disappears; a content state = the entry set after a write or sync publication, flushes and merges do not change it):
//   - every entry acknowledged (written and introduced) before the query was invoked, inside the request and not removed
//     by a synchronisation that began before the query returned, is returned; nothing never written / outside the request;
//     no entry twice;
//   - the answer equals ONE content state published between invocation and return (a batch is never partially visible);
//   - the parts an answer came from never include a merged part together with one of its inputs;
//   - end state: both interfaces return exactly the final content state, the current snapshot holds exactly the parts the
//     model expects with idle reference counts, and the part directories on disk are exactly its file parts.

import (
	"context"
	"fmt"
	"math"
	"os"
	"path/filepath"
	"sort"
	"strconv"
	"strings"
	"sync"
	"sync/atomic"
	"testing"
	"testing/synctest"
	"time"

	"github.com/apache/skywalking-banyandb/api/common"
	modelv1 "github.com/apache/skywalking-banyandb/api/proto/banyandb/model/v1"
	"github.com/apache/skywalking-banyandb/banyand/internal/sidx"
	snapshotpkg "github.com/apache/skywalking-banyandb/banyand/internal/snapshot"
	"github.com/apache/skywalking-banyandb/banyand/observability"
	"github.com/apache/skywalking-banyandb/banyand/protector"
	"github.com/apache/skywalking-banyandb/pkg/fs"
	"github.com/apache/skywalking-banyandb/pkg/index"
	"github.com/apache/skywalking-banyandb/pkg/verif/simcore"
)

const (
	sxOracle = "sidx-consistent-view"

	sxPin        = "sidx.go:currentSnapshot#1"       // in front of the snapshot pin (queries, Flush, Merge, one-shot introductions)
	sxAfterPinS  = "query.go:QuerySync#1"            // between the pin and the part selection, synchronous interface
	sxAfterPinR  = "query.go:runStreamingQuery#1"    // ... streaming interface
	sxScan       = "block_scanner.go:checkContext#1" // parts selected, in front of the first / next block
	sxSnapDecRef = "snapshot.go:DecRef#1"            // in front of a snapshot release
	sxRemoval    = "part_wrapper.go:cleanup#1"       // in front of the removal of a part directory
	sxAcquire    = "part_wrapper.go:acquire#1"       // per kept part inside Snapshot.remove / copyAllTo / merge
	sxMgrCur     = "sidx.go:CurrentSnapshot#1"
	sxMgrReplace = "sidx.go:ReplaceSnapshot#1"
	sxReplace    = "introducer.go:replaceSnapshot#1"
	sxMaintBuilt = "maint:output-built"
	sxMaintPrep  = "maint:prepared"
	sxMaintDone  = "maint:committed"
)

type sxEntry struct {
	data string
	sid  common.SeriesID
	key  int64
}

func (e sxEntry) String() string { return fmt.Sprintf("(s%d,k%d,%s)", e.sid, e.key, e.data) }

// sxRec is a written entry in the reference model: member of content state k iff add <= k < del.
type sxRec struct {
	sxEntry
	add, del int
	part     uint64 // part it was written into
}

const sxNever = math.MaxInt32

type sxPart struct {
	id  uint64
	mem bool
}

const (
	sxStarted = iota
	sxBuilt
	sxPrepared
	sxCommitting
	sxCommitted
	sxFinished
)

type sxOp struct {
	kind     string // write | flush | merge | sync
	twoPhase bool
	ids      []uint64 // parts flushed / merged / synced
	newID    uint64   // part written / merge output
	recs     []int    // write: indices into the model
	reqs     []sidx.WriteRequest
	done     chan struct{}
	// written by the maintenance goroutine under sxSim.mu, read by the driver at quiescent points
	phase    int
	noop     bool // Flush / Merge returned no introduction
	err      error
	panicMsg string
	// driver side
	marked    bool // Snapshot.remove() has run (merge / sync): inputs are marked removable
	commitAll int  // value of sxSim.all after this publication (0 = not yet)
	seenPhase int
}

func (o *sxOp) content() bool { return o.kind == "write" || o.kind == "sync" }

func (o *sxOp) describe() string {
	api := "one-shot"
	if o.twoPhase {
		api = "two-phase"
	}
	switch o.kind {
	case "write":
		return fmt.Sprintf("write %d entries -> memory part %d (%s)", len(o.recs), o.newID, api)
	case "flush":
		return fmt.Sprintf("flush parts %v (%s)", o.ids, api)
	case "merge":
		return fmt.Sprintf("merge parts %v -> %d (%s)", o.ids, o.newID, api)
	}
	return fmt.Sprintf("sync (remove) parts %v (%s)", o.ids, api)
}

type sxQuery struct {
	name      string
	iface     string // sync | streaming
	req       sidx.QueryRequest
	inS       map[common.SeriesID]bool
	lo, hi    *int64
	done      chan struct{}
	invokePub int // content states completed when the query was invoked
	pinAll    int // publications completed when the driver let it into the pin (-1: not yet)
	holdLeft  int
	// written by the query goroutine before close(done)
	res      []sxEntry
	parts    map[uint64]bool
	err      error
	panicMsg string
	fin      bool
	overlap  map[string]bool
}

func (q *sxQuery) matches(r *sxRec) bool {
	return q.inS[r.sid] && (q.lo == nil || (r.key >= *q.lo && r.key <= *q.hi))
}

type sxSim struct {
	e   *simcore.Env
	tp  *simcore.Tape
	idx sidx.SIDX

	mu         sync.Mutex
	pub        int   // content states published (completed)
	all        int   // publications completed (any kind)
	committing *sxOp // publication whose commit has begun and not yet returned

	model     []*sxRec
	byEntry   map[sxEntry]int
	live      map[uint64]*sxPart
	ancestors map[uint64]map[uint64]bool // merge output -> all (transitive) inputs
	ops       []*sxOp
	queries   []*sxQuery
	op        *sxOp
	sample    []string
	nextPart  uint64
	nextData  int
	keyRange  int
	nSeries   int
	inRemove  atomic.Bool
}

func runSidx(e *simcore.Env, tp *simcore.Tape) {
	synctest.Test(e.T, func(*testing.T) { sidxScenario(e, tp) })
}

func sidxScenario(e *simcore.Env, tp *simcore.Tape) {
	opts := sidx.NewDefaultOptions()
	opts.Memory = protector.NewMemory(observability.NewBypassRegistry())
	root := filepath.Join(e.Dir, "sidx")
	opts.Path = root
	idx, err := sidx.NewSIDX(fs.NewLocalFileSystem(), opts)
	if err != nil {
		e.Fail("setup", "sidx-open-failed", "NewSIDX: %v", err)
		return
	}
	s := &sxSim{e: e, tp: tp, idx: idx, byEntry: map[sxEntry]int{}, live: map[uint64]*sxPart{}, ancestors: map[uint64]map[uint64]bool{}, nextPart: 1}
	s.keyRange = []int{4, 40, 100000}[tp.Choose(3)]
	s.nSeries = tp.Range(1, 3)

	// per-run arming knobs (swarm)
	fine := tp.Weighted(1, 1) == 1        // the maintenance actor also parks at the index's own gates inside the two-phase calls
	holdScan := tp.Weighted(1, 3) == 1    // queries park between their part selection and their first block read
	holdRelease := tp.Weighted(1, 1) == 1 // queries park in front of their snapshot release
	holdRemoval := tp.Weighted(1, 1) == 1 // part-directory removals park
	holdAcquire := tp.Weighted(2, 1) == 1 // the maintenance actor parks per kept part inside Snapshot.remove()
	maxQ := tp.Range(1, 3)
	knobs := fmt.Sprintf("fine=%v scan=%v release=%v removal=%v acquire=%v queries<=%d", fine, holdScan, holdRelease, holdRemoval, holdAcquire, maxQ)

	var racing atomic.Bool
	var holdMu sync.Mutex
	passedScan := map[string]bool{}
	simcore.EnableGates(func(actor, site string) bool {
		if !racing.Load() {
			return false
		}
		fam, child := actor, false
		if i := strings.IndexByte(actor, '/'); i >= 0 {
			fam, child = actor[:i], true
		}
		if site == sxRemoval {
			return holdRemoval
		}
		if fam == "maint" {
			if child {
				return false
			}
			if strings.HasPrefix(site, "maint:") || strings.HasPrefix(site, "introducer.go:Introduce") || site == sxReplace {
				return true
			}
			if site == sxAcquire {
				return holdAcquire && s.inRemove.Load()
			}
			if fine {
				switch site {
				case sxPin, sxMgrCur, sxMgrReplace, "sidx.go:PrepareMerged#1", "sidx.go:Flush#1", "merge.go:Merge#1", sxSnapDecRef:
					return true
				}
			}
			return false
		}
		switch site {
		case sxPin, sxAfterPinS, sxAfterPinR:
			return true
		case sxSnapDecRef:
			return holdRelease
		case sxScan:
			if !holdScan {
				return false
			}
			holdMu.Lock()
			first := !passedScan[fam]
			passedScan[fam] = true
			holdMu.Unlock()
			return first
		}
		return false
	})
	settle := func() {
		for i := 0; i < 100000; i++ {
			synctest.Wait()
			ps := simcore.ParkedList()
			if len(ps) == 0 {
				return
			}
			for _, p := range ps {
				simcore.Release(p)
			}
		}
	}
	closed := false
	defer func() {
		racing.Store(false)
		settle()
		if !closed {
			_ = idx.Close()
		}
		settle()
		simcore.ResetGates()
		takeRecovered()
	}()

	// --- prologue: a short scripted history with all gates open, so that the race starts on an index that already has file parts
	for i, n := 0, tp.Weighted(1, 2, 2, 2); i < n && !e.Failed(); i++ {
		e.Step()
		op := s.newWrite()
		s.startOp(op)
		<-op.done
		s.finishOp(-1, op)
		if tp.Weighted(1, 3) == 1 && !e.Failed() {
			op = s.newFlush()
			s.startOp(op)
			<-op.done
			s.finishOp(-1, op)
		}
	}
	if e.Failed() {
		return
	}
	e.Event("sidx series=%d key-range=%d knobs: %s; history: %d part(s), %d entries", s.nSeries, s.keyRange, knobs, len(s.live), len(s.model))

	// --- the race
	aliases := map[string]string{}
	roleN := map[string]int{}
	alias := func(p *simcore.Parked) string {
		i := strings.IndexByte(p.Actor, '/')
		if i < 0 {
			return p.Actor
		}
		if a, ok := aliases[p.Actor]; ok {
			return a
		}
		role := p.Actor[:i] + "/helper"
		if p.Site == sxRemoval {
			role = p.Actor[:i] + "/removal"
		}
		roleN[role]++
		aliases[p.Actor] = fmt.Sprintf("%s#%d", role, roleN[role])
		return aliases[p.Actor]
	}
	opsLeft := tp.Range(3, 12)
	queriesLeft := tp.Range(2, 8)
	maxSteps := []int{60, 100, 160}[tp.Choose(3)]
	idle := 0
	racing.Store(true)
	for step := 0; ; step++ {
		synctest.Wait()
		if msgs := takeRecovered(); len(msgs) > 0 {
			e.Fail("no-panic", "sidx:recovered-panic", "a goroutine of the index panicked (recovered by pkg/run): %s", strings.Join(msgs, "; "))
			return
		}
		s.harvest(step)
		if e.Failed() {
			return
		}
		// canonical order and names: the spawn ordinals of a query's helper goroutines depend on how many block workers it
		// started (one per CPU), so children are ordered naturally (spawn order) and named by role and order of appearance
		parked := simcore.ParkedList()
		sort.SliceStable(parked, func(i, j int) bool {
			if parked[i].Actor != parked[j].Actor {
				return naturalLess(parked[i].Actor, parked[j].Actor)
			}
			return parked[i].Site < parked[j].Site
		})
		for _, p := range parked {
			alias(p)
		}
		if step >= maxSteps {
			if opsLeft > 0 || queriesLeft > 0 {
				e.Probe("reach.sidx_race_step_limit")
			}
			opsLeft, queriesLeft = 0, 0
		}
		if step > maxSteps+2000 {
			e.Fail("harness", "sidx-drain-stuck", "%d quer(ies) in flight, maintenance busy=%v, %d steps after the step limit", s.inFlightQ(), s.op != nil, step-maxSteps)
			return
		}
		// what the driver sees of the publication in progress (one-shot calls: from the gate the actor is parked at)
		window := false
		for _, p := range parked {
			if p.Actor != "maint" || s.op == nil {
				continue
			}
			switch p.Site {
			case "introducer.go:IntroduceMerged#2", "introducer.go:IntroduceSynced#2", sxReplace:
				if s.op.kind == "merge" || s.op.kind == "sync" {
					s.op.marked = true
				}
			}
		}
		if s.op != nil && s.op.marked && s.op.commitAll == 0 {
			window = true // inputs marked removable, the new snapshot not yet published
		}
		type option struct {
			p    *simcore.Parked
			kind int // 0 release, 1 start a query, 2 start a maintenance operation
			w    int
		}
		var options []option
		held := false
		for _, p := range parked {
			w := 3
			if q := s.queryOf(p.Actor); q != nil && p.Site != sxRemoval && q.holdLeft > 0 {
				// a held query: maintenance is favoured over it for a while
				q.holdLeft--
				w, held = 1, true
			}
			options = append(options, option{p: p, w: w})
		}
		if queriesLeft > 0 && s.inFlightQ() < maxQ {
			w := 2
			if window || (s.op != nil && s.op.phase >= sxBuilt && s.op.commitAll == 0) {
				w = 6 // maintenance output built / inputs marked, not yet published: now a query
			}
			options = append(options, option{kind: 1, w: w})
		}
		if opsLeft > 0 && s.op == nil {
			w := 2
			if held {
				w = 5
			}
			options = append(options, option{kind: 2, w: w})
		}
		if held {
			for i := range options {
				if options[i].kind == 0 && strings.HasPrefix(options[i].p.Actor, "maint") {
					options[i].w = 5
				}
			}
		}
		if len(options) == 0 {
			if s.inFlightQ() == 0 && s.op == nil {
				break
			}
			idle++
			if idle > 20 {
				e.Fail("harness", "sidx-race-stuck", "%d quer(ies) in flight, maintenance busy=%v, nobody parked, nothing eligible", s.inFlightQ(), s.op != nil)
				return
			}
			time.Sleep(time.Millisecond)
			continue
		}
		ws := make([]int, len(options))
		for i, o := range options {
			ws[i] = o.w
		}
		c := 0
		if step < maxSteps {
			c = tp.Weighted(ws...)
		}
		e.Step()
		switch o := options[c]; o.kind {
		case 1:
			queriesLeft--
			q := s.newQuery()
			if window {
				e.Probe("reach.sidx_query_invoked_between_prepare_and_commit")
			}
			if s.op != nil && s.op.phase >= sxBuilt && s.op.commitAll == 0 {
				e.Probe("reach.sidx_query_invoked_between_publication_steps")
			}
			e.Event("step %d: %s (%s) starts at content state %d: series=%v keys=[%s] asc=%v (%d parked)", step, q.name, q.iface, q.invokePub, q.req.SeriesIDs, sxRng(q.lo, q.hi),
				q.req.Order.Sort == modelv1.Sort_SORT_ASC, len(parked))
			s.sample = append(s.sample, fmt.Sprintf("%s %s", q.name, q.iface))
			s.startQuery(q)
		case 2:
			opsLeft--
			op := s.pickOp()
			e.Event("step %d: maintenance starts: %s", step, op.describe())
			s.sample = append(s.sample, op.describe())
			s.startOp(op)
		default:
			p := o.p
			if q := s.queryOf(p.Actor); q != nil {
				switch p.Site {
				case sxPin:
					s.mu.Lock()
					q.pinAll = s.all
					s.mu.Unlock()
					if window {
						e.Probe("reach.sidx_query_pinned_between_prepare_and_commit")
					}
				case sxAfterPinS, sxAfterPinR:
					e.Probe("reach.sidx_query_parked_between_pin_and_part_selection")
					for _, op := range s.ops {
						if op.marked && (op.commitAll == 0 || op.commitAll > q.pinAll) && q.pinAll >= 0 {
							// it holds a snapshot that still contains the inputs, and they are marked removable by now
							e.Probe("reach.sidx_query_selects_parts_of_old_snapshot_after_inputs_marked_removable")
							break
						}
					}
				case sxScan:
					e.Probe("reach.sidx_query_parked_between_part_selection_and_first_read")
				case sxRemoval:
					e.Probe("reach.sidx_part_removal_released_by_tape")
				}
			} else if p.Actor == "maint" {
				switch p.Site {
				case sxAcquire:
					e.Probe("reach.sidx_maintenance_parked_inside_snapshot_remove")
				case sxMaintPrep:
					e.Probe("reach.sidx_maintenance_parked_between_prepare_and_commit")
				}
			}
			if p.Site == sxRemoval && s.inFlightQ() > 0 {
				e.Probe("reach.sidx_part_directory_removed_while_query_in_flight")
			}
			e.Event("step %d: release %s @ %s (of %d parked)", step, alias(p), p.Site, len(parked))
			simcore.Release(p)
		}
	}

	// --- everybody has finished; gates off, removal goroutines run out
	racing.Store(false)
	settle()
	if msgs := takeRecovered(); len(msgs) > 0 {
		e.Fail("no-panic", "sidx:recovered-panic", "a goroutine of the index panicked (recovered by pkg/run): %s", strings.Join(msgs, "; "))
		return
	}
	for _, q := range s.queries {
		if len(q.overlap) > 0 {
			e.Nontrivial()
		}
	}
	// --- end state
	full := &sxQuery{name: "final", inS: map[common.SeriesID]bool{}, pinAll: -1}
	for sid := 1; sid <= s.nSeries; sid++ {
		full.req.SeriesIDs = append(full.req.SeriesIDs, common.SeriesID(sid))
		full.inS[common.SeriesID(sid)] = true
	}
	full.req.Order = &index.OrderBy{Sort: modelv1.Sort_SORT_ASC}
	for _, iface := range []string{"sync", "streaming"} {
		fq := *full
		fq.iface, fq.invokePub, fq.done = iface, s.pub, make(chan struct{})
		s.runQuery(&fq)
		<-fq.done
		s.judge(-1, &fq)
		if e.Failed() {
			return
		}
	}
	settle()
	ref, parts, ok := sidx.VerifC05View(idx)
	if len(s.live) > 0 {
		if !ok {
			e.Fail(sxOracle, "sidx:final-snapshot-missing", "the index has no current snapshot although the model expects parts %v", s.liveIDs(false))
			return
		}
		if ref != 1 {
			e.Fail("refcounts", "sidx:snapshot-refcount-not-idle", "the current snapshot's reference count is %d after everything finished (idle value 1)", ref)
			return
		}
		var have []uint64
		for _, p := range parts {
			have = append(have, p.ID)
			if p.Ref != 1 {
				e.Fail("refcounts", "sidx:part-refcount-not-idle", "part %d has reference count %d after everything finished (idle value 1)", p.ID, p.Ref)
				return
			}
			if p.Removable {
				e.Fail("refcounts", "sidx:live-part-marked-removable", "part %d of the current snapshot is marked removable", p.ID)
				return
			}
			if lp := s.live[p.ID]; lp != nil && lp.mem != p.Mem {
				e.Fail(sxOracle, "sidx:final-part-kind-differs", "part %d: memory part=%v in the snapshot, %v in the model", p.ID, p.Mem, lp.mem)
				return
			}
		}
		sort.Slice(have, func(i, j int) bool { return have[i] < have[j] })
		if fmt.Sprint(have) != fmt.Sprint(s.liveIDs(false)) {
			e.Fail(sxOracle, "sidx:final-snapshot-parts-differ", "the final snapshot holds parts %v, the model expects %v", have, s.liveIDs(false))
			return
		}
	}
	wantDirs := s.liveIDs(true)
	var haveDirs []uint64
	ents, _ := os.ReadDir(root)
	for _, en := range ents {
		if en.IsDir() && partDirRe.MatchString(en.Name()) {
			id, _ := strconv.ParseUint(en.Name(), 16, 64)
			haveDirs = append(haveDirs, id)
		}
	}
	sort.Slice(haveDirs, func(i, j int) bool { return haveDirs[i] < haveDirs[j] })
	if fmt.Sprint(haveDirs) != fmt.Sprint(wantDirs) {
		cls := "sidx:replaced-part-never-removed"
		for _, id := range wantDirs {
			found := false
			for _, h := range haveDirs {
				found = found || h == id
			}
			if !found {
				cls = "sidx:snapshot-part-missing-on-disk"
			}
		}
		e.Fail("part-files", cls, "part directories on disk %v, file parts of the final snapshot %v (after all queries returned and all removals ran)", haveDirs, wantDirs)
		return
	}
	nMerge, nFlush, nSync, nTwo, nOne := 0, 0, 0, 0, 0
	for _, op := range s.ops {
		if op.noop {
			continue
		}
		switch op.kind {
		case "merge":
			nMerge++
		case "flush":
			nFlush++
		case "sync":
			nSync++
		}
		if op.twoPhase {
			nTwo++
		} else {
			nOne++
		}
	}
	e.ProbeN("reach.sidx_merge_published", nMerge)
	e.ProbeN("reach.sidx_flush_published", nFlush)
	e.ProbeN("reach.sidx_sync_published", nSync)
	e.ProbeN("reach.sidx_two_phase_publication", nTwo)
	e.ProbeN("reach.sidx_one_shot_publication", nOne)
	e.Event("final: content state %d, %d entries written, %d live in %d part(s): both interfaces agree, snapshot and disk equal the model, reference counts idle", s.pub, len(s.model), s.liveEntries(), len(s.live))
	closed = true
	_ = idx.Close()
	e.SetSample(map[string]any{"engine": "sidx", "series": s.nSeries, "key_range": s.keyRange, "knobs": knobs, "queries": len(s.queries), "merges": nMerge, "flushes": nFlush, "syncs": nSync, "ops": s.sample})
}

// ---------------------------------------------------------------------------------------------
// maintenance

func (s *sxSim) liveIDs(filesOnly bool) []uint64 {
	out := []uint64{}
	for id, p := range s.live {
		if filesOnly && p.mem {
			continue
		}
		out = append(out, id)
	}
	sort.Slice(out, func(i, j int) bool { return out[i] < out[j] })
	return out
}

func (s *sxSim) liveEntries() int {
	n := 0
	for _, r := range s.model {
		if r.add <= s.pub && r.del > s.pub {
			n++
		}
	}
	return n
}

func (s *sxSim) partIDs(mem bool) []uint64 {
	var out []uint64
	for id, p := range s.live {
		if p.mem == mem {
			out = append(out, id)
		}
	}
	sort.Slice(out, func(i, j int) bool { return out[i] < out[j] })
	return out
}

func (s *sxSim) subset(all []uint64, atLeast int) []uint64 {
	pick := map[uint64]bool{}
	for _, id := range all {
		if s.tp.Bool(1, 2) {
			pick[id] = true
		}
	}
	for _, id := range all {
		if len(pick) >= atLeast {
			break
		}
		pick[id] = true
	}
	var out []uint64
	for _, id := range all {
		if pick[id] {
			out = append(out, id)
		}
	}
	return out
}

func (s *sxSim) newWrite() *sxOp {
	tp := s.tp
	op := &sxOp{kind: "write", twoPhase: tp.Weighted(3, 1) == 0, newID: s.nextPart, done: make(chan struct{})}
	s.nextPart++
	n := []int{1, tp.Range(2, 10), tp.Range(11, 40)}[tp.Weighted(2, 4, 1)]
	for i := 0; i < n; i++ {
		s.nextData++
		en := sxEntry{sid: common.SeriesID(tp.Range(1, s.nSeries)), key: int64(tp.Choose(s.keyRange)) - int64(s.keyRange/4), data: fmt.Sprintf("d%06d", s.nextData)}
		s.byEntry[en] = len(s.model)
		op.recs = append(op.recs, len(s.model))
		s.model = append(s.model, &sxRec{sxEntry: en, add: sxNever, del: sxNever, part: op.newID})
		op.reqs = append(op.reqs, sidx.WriteRequest{SeriesID: en.sid, Key: en.key, Data: []byte(en.data)})
	}
	return op
}

func (s *sxSim) newFlush() *sxOp {
	mem := s.partIDs(true)
	if len(mem) == 0 {
		return s.newWrite()
	}
	return &sxOp{kind: "flush", twoPhase: s.tp.Weighted(3, 1) == 0, ids: s.subset(mem, 1), done: make(chan struct{})}
}

func (s *sxSim) pickOp() *sxOp {
	tp := s.tp
	files := s.partIDs(false)
	switch tp.Weighted(5, 3, 5, 1) {
	case 1:
		return s.newFlush()
	case 2:
		if len(files) < 2 {
			return s.newFlush()
		}
		op := &sxOp{kind: "merge", twoPhase: tp.Weighted(3, 1) == 0, ids: s.subset(files, 2), newID: s.nextPart, done: make(chan struct{})}
		s.nextPart++
		return op
	case 3:
		if len(files) < 1 {
			return s.newWrite()
		}
		return &sxOp{kind: "sync", twoPhase: tp.Weighted(3, 1) == 0, ids: s.subset(files, 1), done: make(chan struct{})}
	}
	return s.newWrite()
}

func idSet(ids []uint64) map[uint64]struct{} {
	m := make(map[uint64]struct{}, len(ids))
	for _, id := range ids {
		m[id] = struct{}{}
	}
	return m
}

func (s *sxSim) setPhase(op *sxOp, ph int) {
	s.mu.Lock()
	op.phase = ph
	s.mu.Unlock()
}

// beginCommit / endCommit bracket the call that replaces the current snapshot.
func (s *sxSim) beginCommit(op *sxOp) {
	s.mu.Lock()
	op.phase = sxCommitting
	s.committing = op
	switch op.kind { // the state in which the entries (dis)appear is known from here on: publications are serial
	case "write":
		for _, i := range op.recs {
			s.model[i].add = s.pub + 1
		}
	case "sync":
		for _, r := range s.model {
			if r.del == sxNever && s.inParts(r, op.ids) {
				r.del = s.pub + 1
			}
		}
	}
	s.mu.Unlock()
}

func (s *sxSim) endCommit(op *sxOp) {
	s.mu.Lock()
	op.phase = sxCommitted
	s.committing = nil
	s.all++
	if op.content() {
		s.pub++
	}
	op.commitAll = s.all
	s.mu.Unlock()
}

// inParts: does the entry currently live in one of the parts (its own part or a merge output that swallowed it)?
func (s *sxSim) inParts(r *sxRec, ids []uint64) bool {
	for _, id := range ids {
		if id == r.part || s.ancestors[id][r.part] {
			return true
		}
	}
	return false
}

func (s *sxSim) startOp(op *sxOp) {
	s.op = op
	s.ops = append(s.ops, op)
	go func() {
		simcore.SetActor("maint")
		defer simcore.ClearActor()
		defer close(op.done)
		defer func() {
			if r := recover(); r != nil {
				op.panicMsg = firstLine(fmt.Sprint(r))
			}
		}()
		s.runOp(op)
	}()
}

// publish is the publication of one prepared snapshot change, the way banyand/trace's introducer does it
// (snapshot.NewTransition -> Commit -> Release), with a gate between the steps.
func (s *sxSim) publish(op *sxOp, prepare func(cur *sidx.Snapshot) *sidx.Snapshot) {
	removes := op.kind == "merge" || op.kind == "sync"
	s.inRemove.Store(removes)
	t := snapshotpkg.NewTransition[*sidx.Snapshot](s.idx, prepare)
	s.inRemove.Store(false)
	s.mu.Lock()
	op.phase = sxPrepared
	op.marked = removes
	s.mu.Unlock()
	simcore.Gate(sxMaintPrep)
	s.beginCommit(op)
	t.Commit()
	s.endCommit(op)
	simcore.Gate(sxMaintDone)
	t.Release()
}

func (s *sxSim) runOp(op *sxOp) {
	idx := s.idx
	switch op.kind {
	case "write":
		mp, err := idx.ConvertToMemPart(op.reqs, 1, nil, nil)
		if err != nil {
			op.err = fmt.Errorf("ConvertToMemPart: %w", err)
			return
		}
		s.setPhase(op, sxBuilt)
		simcore.Gate(sxMaintBuilt)
		if op.twoPhase {
			s.publish(op, idx.PrepareMemPart(op.newID, mp))
		} else {
			s.beginCommit(op)
			idx.IntroduceMemPart(op.newID, mp)
			s.endCommit(op)
		}
	case "flush":
		intro, err := idx.Flush(idSet(op.ids))
		if err != nil {
			op.err = fmt.Errorf("Flush: %w", err)
			return
		}
		if intro == nil {
			op.noop = true
			return
		}
		s.setPhase(op, sxBuilt)
		simcore.Gate(sxMaintBuilt)
		if op.twoPhase {
			s.publish(op, idx.PrepareFlushed(intro))
		} else {
			s.beginCommit(op)
			idx.IntroduceFlushed(intro)
			s.endCommit(op)
		}
		intro.Release()
	case "merge":
		intro, err := idx.Merge(nil, idSet(op.ids), op.newID, nil)
		if err != nil {
			op.err = fmt.Errorf("Merge: %w", err)
			return
		}
		if intro == nil {
			op.noop = true
			return
		}
		s.setPhase(op, sxBuilt)
		simcore.Gate(sxMaintBuilt)
		if op.twoPhase {
			s.publish(op, idx.PrepareMerged(intro))
		} else {
			s.inRemove.Store(true)
			s.beginCommit(op)
			dec := idx.IntroduceMerged(intro)
			s.endCommit(op)
			s.inRemove.Store(false)
			simcore.Gate(sxMaintDone)
			if dec != nil {
				dec()
			}
		}
		intro.Release()
	case "sync":
		s.setPhase(op, sxBuilt)
		if op.twoPhase {
			s.publish(op, idx.PrepareSynced(idSet(op.ids)))
		} else {
			s.inRemove.Store(true)
			s.beginCommit(op)
			dec := idx.IntroduceSynced(idSet(op.ids))
			s.endCommit(op)
			s.inRemove.Store(false)
			simcore.Gate(sxMaintDone)
			if dec != nil {
				dec()
			}
		}
	}
	s.setPhase(op, sxFinished)
}

// finishOp applies a finished operation to the driver's part model.
func (s *sxSim) finishOp(step int, op *sxOp) {
	e := s.e
	s.op = nil
	if op.panicMsg != "" {
		e.Fail("no-panic", "sidx:maintenance-panicked:"+op.kind, "%s panicked: %s", op.describe(), op.panicMsg)
		return
	}
	if op.err != nil {
		e.Fail(sxOracle, "sidx:maintenance-failed:"+op.kind, "%s failed: %v", op.describe(), op.err)
		return
	}
	if op.noop {
		e.Fail(sxOracle, "sidx:maintenance-found-no-parts:"+op.kind, "%s found none of its parts in the current snapshot (the model expects all of them)", op.describe())
		return
	}
	switch op.kind {
	case "write":
		s.live[op.newID] = &sxPart{id: op.newID, mem: true}
	case "flush":
		for _, id := range op.ids {
			s.live[id].mem = false
		}
	case "merge":
		anc := map[uint64]bool{}
		for _, id := range op.ids {
			anc[id] = true
			for a := range s.ancestors[id] {
				anc[a] = true
			}
			delete(s.live, id)
		}
		s.ancestors[op.newID] = anc
		s.live[op.newID] = &sxPart{id: op.newID}
	case "sync":
		for _, id := range op.ids {
			delete(s.live, id)
		}
	}
	if step >= 0 {
		e.Event("step %d: maintenance finished: %s; content state %d, publication %d", step, op.describe(), s.pub, s.all)
	}
}

// ---------------------------------------------------------------------------------------------
// queries

func (s *sxSim) inFlightQ() int {
	n := 0
	for _, q := range s.queries {
		if !q.fin {
			n++
		}
	}
	return n
}

// queryOf maps an actor (the query's goroutine or one it spawned) to its query.
func (s *sxSim) queryOf(actor string) *sxQuery {
	if i := strings.IndexByte(actor, '/'); i >= 0 {
		actor = actor[:i]
	}
	for _, q := range s.queries {
		if q.name == actor {
			return q
		}
	}
	return nil
}

func (s *sxSim) newQuery() *sxQuery {
	tp := s.tp
	q := &sxQuery{name: fmt.Sprintf("q%d", len(s.queries)), iface: []string{"sync", "streaming"}[tp.Choose(2)], done: make(chan struct{}), inS: map[common.SeriesID]bool{}, pinAll: -1,
		overlap: map[string]bool{}, holdLeft: []int{0, 3, 8, 20}[tp.Weighted(2, 2, 2, 1)]}
	for sid := 1; sid <= s.nSeries; sid++ {
		if tp.Bool(2, 3) {
			q.req.SeriesIDs = append(q.req.SeriesIDs, common.SeriesID(sid))
		}
	}
	if len(q.req.SeriesIDs) == 0 {
		q.req.SeriesIDs = []common.SeriesID{1}
	}
	for _, sid := range q.req.SeriesIDs {
		q.inS[sid] = true
	}
	if tp.Bool(1, 2) {
		q.req.Order = &index.OrderBy{Sort: modelv1.Sort_SORT_ASC}
	} else {
		q.req.Order = &index.OrderBy{Sort: modelv1.Sort_SORT_DESC}
	}
	if tp.Bool(1, 3) && len(s.model) > 0 {
		a, b := s.model[tp.Choose(len(s.model))].key, s.model[tp.Choose(len(s.model))].key
		if a > b {
			a, b = b, a
		}
		q.lo, q.hi = &a, &b
		q.req.MinKey, q.req.MaxKey = q.lo, q.hi
	}
	s.mu.Lock()
	q.invokePub = s.pub
	s.mu.Unlock()
	s.queries = append(s.queries, q)
	return q
}

func (s *sxSim) startQuery(q *sxQuery) {
	go func() {
		simcore.SetActor(q.name)
		defer simcore.ClearActor()
		s.runQuery(q)
	}()
}

func (s *sxSim) runQuery(q *sxQuery) {
	defer close(q.done)
	defer func() {
		if r := recover(); r != nil {
			q.panicMsg = firstLine(fmt.Sprint(r))
		}
	}()
	ctx := context.Background()
	q.parts = map[uint64]bool{}
	take := func(r *sidx.QueryResponse) {
		for i := range r.Keys {
			q.res = append(q.res, sxEntry{sid: r.SIDs[i], key: r.Keys[i], data: string(r.Data[i])})
			if i < len(r.PartIDs) {
				q.parts[r.PartIDs[i]] = true
			}
		}
	}
	if q.iface == "sync" {
		rs, err := s.idx.QuerySync(ctx, q.req)
		if err != nil {
			q.err = err
			return
		}
		for _, r := range rs {
			if r.Error != nil {
				q.err = r.Error
				return
			}
			take(r)
		}
		return
	}
	resCh, errCh := s.idx.StreamingQuery(ctx, q.req)
	for r := range resCh {
		if r.Error != nil && q.err == nil {
			q.err = r.Error
		}
		take(r)
	}
	if err, ok := <-errCh; ok && err != nil && q.err == nil {
		q.err = err
	}
}

// harvest looks at what finished since the last quiescent point.
func (s *sxSim) harvest(step int) {
	e := s.e
	if op := s.op; op != nil {
		s.mu.Lock()
		ph := op.phase
		s.mu.Unlock()
		if ph >= sxCommitted && op.seenPhase < sxCommitted {
			for _, q := range s.queries {
				if !q.fin {
					q.overlap[op.kind] = true
					e.Probe("reach.sidx_query_overlapped_" + op.kind + "_publication")
				}
			}
		}
		op.seenPhase = ph
		select {
		case <-op.done:
			s.finishOp(step, op)
			if e.Failed() {
				return
			}
		default:
		}
	}
	for _, q := range s.queries {
		if q.fin {
			continue
		}
		select {
		case <-q.done:
			s.judge(step, q)
			if e.Failed() {
				return
			}
		default:
		}
	}
}

func sxRng(lo, hi *int64) string {
	if lo == nil {
		return "all"
	}
	return fmt.Sprintf("%d,%d", *lo, *hi)
}

// judge compares a returned query with the reference model.
func (s *sxSim) judge(step int, q *sxQuery) {
	e := s.e
	q.fin = true
	s.mu.Lock()
	a, b := q.invokePub, s.pub
	if s.committing != nil && s.committing.content() {
		b++ // a publication whose commit has begun may or may not be visible
	}
	s.mu.Unlock()
	where := fmt.Sprintf("%s (%s interface, series %v keys [%s], invoked at content state %d, returned at %d)", q.name, q.iface, q.req.SeriesIDs, sxRng(q.lo, q.hi), a, b)
	if q.panicMsg != "" {
		e.Fail("no-panic", "sidx:query-panicked:"+q.iface, "%s panicked: %s", where, q.panicMsg)
		return
	}
	if q.err != nil {
		e.Fail(sxOracle, "sidx:query-error:"+q.iface, "%s failed: %v", where, q.err)
		return
	}
	var ids []uint64
	for id := range q.parts {
		ids = append(ids, id)
	}
	sort.Slice(ids, func(i, j int) bool { return ids[i] < ids[j] })
	tail := fmt.Sprintf("\n  returned %d entries from parts %v: %s", len(q.res), ids, sxList(q.res))
	seen := map[int]int{}
	for _, en := range q.res {
		i, ok := s.byEntry[en]
		if !ok || !q.matches(s.model[i]) {
			e.Fail(sxOracle, "sidx:entry-not-written-or-out-of-request:"+q.iface, "%s: returned entry %s was never written / lies outside the request%s", where, en, tail)
			return
		}
		seen[i]++
		if seen[i] > 1 {
			e.Fail(sxOracle, "sidx:entry-returned-twice:"+q.iface, "%s: entry %s returned %d times%s", where, en, seen[i], tail)
			return
		}
	}
	// both a merged part and one of its inputs
	for _, m := range ids {
		for _, in := range ids {
			if s.ancestors[m][in] {
				e.Fail(sxOracle, "sidx:merged-part-and-its-input-both-visible:"+q.iface, "%s: the answer came from part %d and from part %d, which was merged into it%s", where, in, m, tail)
				return
			}
		}
	}
	// acknowledged before the invocation and not removed by a synchronisation that began before the return
	var miss []string
	for i, r := range s.model {
		if q.matches(r) && r.add <= a && r.del > b && seen[i] == 0 {
			miss = append(miss, fmt.Sprintf("%s[part %d]", r.sxEntry, r.part))
		}
	}
	if len(miss) > 0 {
		e.Fail(sxOracle, "sidx:acknowledged-entry-missing:"+q.iface, "%s: %d entr(ies) acknowledged before the invocation are missing, first: %s; live parts now %v; maintenance: %s%s", where, len(miss), miss[0], s.liveIDs(false), s.recentOps(), tail)
		return
	}
	// one content state
	state := -1
	for k := a; k <= b && state < 0; k++ {
		okk := true
		n := 0
		for i, r := range s.model {
			if !q.matches(r) {
				continue
			}
			in := r.add <= k && r.del > k
			if in {
				n++
			}
			if in != (seen[i] > 0) {
				okk = false
				break
			}
		}
		if okk && n == len(q.res) {
			state = k
		}
	}
	if state < 0 {
		cls := "sidx:answer-is-no-single-content-state:"
		for i := range seen {
			if s.model[i].del <= a {
				cls = "sidx:entry-of-removed-part-returned:"
			}
		}
		e.Fail(sxOracle, cls+q.iface, "%s: the answer equals none of the content states %d..%d published between invocation and return (a write batch or a synchronisation partially visible); maintenance: %s%s", where, a, b, s.recentOps(), tail)
		return
	}
	if q.pinAll >= 0 && q.pinAll < s.all {
		e.Probe("reach.sidx_query_returned_from_a_replaced_snapshot")
	}
	e.Probe("reach.sidx_query_judged")
	if step >= 0 {
		e.Event("step %d: %s returned %d entries from parts %v = content state %d (allowed %d..%d)", step, q.name, len(q.res), ids, state, a, b)
	} else {
		e.Event("final %s query: %d entries from parts %v = content state %d", q.iface, len(q.res), ids, state)
	}
}

func (s *sxSim) recentOps() string {
	var l []string
	for i := max(0, len(s.ops)-4); i < len(s.ops); i++ {
		op := s.ops[i]
		l = append(l, fmt.Sprintf("%s phase=%d", op.describe(), op.phase))
	}
	return strings.Join(l, " | ")
}

func sxList(es []sxEntry) string {
	var l []string
	for i, en := range es {
		if i == 24 {
			l = append(l, fmt.Sprintf("... (%d more)", len(es)-i))
			break
		}
		l = append(l, en.String())
	}
	return strings.Join(l, " ")
}
