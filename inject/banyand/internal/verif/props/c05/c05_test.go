package c05

import (
	"testing"

	"github.com/apache/skywalking-banyandb/banyand/internal/verif/simnode"
	"github.com/apache/skywalking-banyandb/pkg/verif/simcore"
)

func TestSim(t *testing.T) {
	simnode.InitLogging()
	simcore.Main(t, "C05", []simcore.Scenario{
		{Name: "measure-concurrent", Weight: 3, Run: func(e *simcore.Env, tp *simcore.Tape) {}},
	})
}
