// Package c05 decides property C05 (queries see one consistent snapshot while maintenance runs).
package c05

import (
	"context"
	"crypto/sha256"
	"fmt"
	"os"
	"path/filepath"
	"regexp"
	"sort"
	"strconv"
	"strings"
	"sync"
	"sync/atomic"
	"testing"
	"testing/synctest"
	"time"

	"github.com/apache/skywalking-banyandb/banyand/internal/storage"
	"github.com/apache/skywalking-banyandb/banyand/internal/verif/simmeta"
	"github.com/apache/skywalking-banyandb/banyand/internal/verif/simnode"
	"github.com/apache/skywalking-banyandb/pkg/panicdiag"
	"github.com/apache/skywalking-banyandb/pkg/verif/simcore"
	"github.com/apache/skywalking-banyandb/pkg/verif/simos"
)

func TestSim(t *testing.T) {
	simnode.InitLogging()
	// pkg/run.Go recovers panics of the engine loops (introducer, flusher, merger): without this hook a
	// panicking loop would only show up as a writer that never returns
	panicdiag.SetDefaultReporter(func(_ context.Context, r panicdiag.RecoveryResult) {
		if r.Record == nil {
			return
		}
		panicMu.Lock()
		recovered = append(recovered, r.Record.Component+": "+firstLine(r.Record.PanicValue))
		panicMu.Unlock()
	})
	simcore.Main(t, "C05", []simcore.Scenario{
		{Name: "measure-concurrent", Weight: 3, Run: func(e *simcore.Env, tp *simcore.Tape) { run(e, tp, newMeasureEng) }},
		{Name: "stream-concurrent", Weight: 2, Run: func(e *simcore.Env, tp *simcore.Tape) { run(e, tp, newStreamEng) }},
		{Name: "sidx-concurrent", Weight: 1, Run: runSidx},
	})
}

var (
	panicMu   sync.Mutex
	recovered []string
)

func takeRecovered() []string {
	panicMu.Lock()
	defer panicMu.Unlock()
	out := recovered
	recovered = nil
	return out
}

// ---------------------------------------------------------------------------------------------
// engine abstraction (measure / stream)

type row struct {
	series string
	wid    int64
	ts     int64
}

type partView struct {
	id        uint64
	count     uint64
	ref       int32
	mem       bool
	removable bool
}

// tableView is the current snapshot of one table (segment x shard) as the accessor shows it.
type tableView struct {
	key     string // "<segment suffix>/<shard>"
	seg     string
	root    string
	parts   []partView
	epoch   uint64
	creator int
	ref     int32
	has     bool
	busy    bool
}

func (t *tableView) fileIDs() map[uint64]bool {
	out := map[uint64]bool{}
	for _, p := range t.parts {
		if !p.mem {
			out[p.id] = true
		}
	}
	return out
}

type qres struct {
	wids []int64
	ts   []int64
}

type engine interface {
	kind() string
	group() string
	shards() int
	describe() string
	flags(tp *simcore.Tape, flushSec, maxMerge int) []string
	install(repo *simmeta.Repo)
	boot(repo *simmeta.Repo, dir string, flags []string) (*simnode.Node, error)
	gen(tp *simcore.Tape, baseMs, spanMs int64, maxRows, batchNo int) ([]row, func(n *simnode.Node) error)
	query(n *simnode.Node, loMs, hiMs int64) (*qres, error)
	tables(n *simnode.Node) ([]tableView, error)
	// resetGlobals re-creates process-global channels of the engine package inside the bubble
	resetGlobals(mergeSlots int)
	// holdSites: gate sites of the query actor between its last snapshot pin and its first block read
	holdSites() []string
}

const dayMs = 86400_000

// ---------------------------------------------------------------------------------------------
// bookkeeping

// unit is the part of one batch that lands in one table: the engine turns it into exactly one memory part and
// one introduction. With one shard the table is the day segment; with several shards rows of one series share a
// shard, so (day, series) is a sound refinement (the shard of a series is not observable from outside).
type unit struct {
	table     string
	seg       string
	rows      []row
	batch     int
	invokeSeq int
	ackSeq    int // 0 = not acknowledged (yet)
}

type writer struct {
	done  chan error
	name  string
	units []*unit
	fin   bool
}

// pin: one snapshot a full-range query pinned (attributed through the reference count of the table's current
// snapshot before and after the query passed currentSnapshot) and the journal position at which the driver let
// the query into the matching snapshot release (a query releases its snapshots in the order it pinned them).
type pin struct {
	parts      map[uint64]bool
	table      string
	journalAt  int
	releasedAt int // -1 = not yet
}

type query struct {
	done       chan struct{}
	res        *qres
	err        error
	name       string
	panicMsg   string
	pins       []pin
	lo, hi     int64
	invokeSeq  int
	retSeq     int
	holdLeft   int
	full       bool
	fin        bool
	pinUnknown bool
	heldProbe  bool
	overlapped bool
}

var (
	partPathRe = regexp.MustCompile(`/seg-(\d+)/shard-(\d+)/([0-9a-f]{16})$`)
	partDirRe  = regexp.MustCompile(`^[0-9a-f]{16}$`)
)

const (
	siteCur        = "snapshot.go:currentSnapshot#1"
	sitePinPrefix  = "snapshot.go:currentSnapshot#"
	siteSnapDecRef = "snapshot.go:decRef#1"
	siteIntroPub   = "introducer.go:replaceSnapshot#1"
	siteWriterSend = "tstable.go:mustAddMemPart#2"
	siteWriterPre  = "tstable.go:mustAddMemPart#1"
	siteFlushSend  = "flusher.go:flush#1"
	siteMergeStart = "merger.go:mergePartsThenSendIntroduction#1"
	siteMergeSend  = "merger.go:mergePartsThenSendIntroduction#2"
	siteRemoval    = "part.go:decRef#2"
	siteFlushWait  = "flusher.go:flush#2"
	siteMergeWait  = "merger.go:mergePartsThenSendIntroduction#3"
	siteMergerLoop = "merger.go:mergeLoop#2"
)

// isPreSend: the gate in front of a send to a table's introducer.
func isPreSend(site string) bool {
	return site == siteWriterSend || site == siteFlushSend || site == siteMergeSend
}

// isPostSend: the gate between that send and the wait for "applied" (flusher and merger only).
func isPostSend(site string) bool { return site == siteFlushWait || site == siteMergeWait }

// flusherOf: a table's loops are started back to back by one goroutine (introducer, flusher, merger), so their
// actor names differ in the trailing spawn ordinal only: the flusher is the merger's predecessor.
func flusherOf(merger string) string {
	i := strings.LastIndexByte(merger, '#')
	if i < 0 {
		return ""
	}
	k, err := strconv.Atoi(merger[i+1:])
	if err != nil || k < 2 {
		return ""
	}
	return merger[:i+1] + strconv.Itoa(k-1)
}

func actorRank(a string) int {
	if !strings.Contains(a, "/") {
		switch {
		case strings.HasPrefix(a, "q"):
			return 0
		case strings.HasPrefix(a, "w"):
			return 1
		}
	}
	return 2
}

// ---------------------------------------------------------------------------------------------
// the scenario

func run(e *simcore.Env, tp *simcore.Tape, mk func(tp *simcore.Tape) engine) {
	old := time.Local
	time.Local = time.UTC
	defer func() { time.Local = old }()
	takeRecovered()
	synctest.Test(e.T, func(*testing.T) { scenario(e, tp, mk(tp)) })
}

type sim struct {
	e         *simcore.Env
	tp        *simcore.Tape
	g         engine
	n         *simnode.Node
	journal   *simos.Journal
	units     []*unit
	writers   []*writer
	queries   []*query
	known     map[int64]row
	views     []tableView
	prevEpoch map[string]uint64
	removed   map[string]int
	sample    []string
	pending   *pendingPin
	jpos      int
	seq       int
	nBatches  int
	nFlush    int
	nMerge    int
	multi     bool
	stopped   bool
}

type pendingPin struct {
	q         *query
	before    []tableView
	journalAt int
}

func (s *sim) tolerated(oracle, class string) bool {
	return s.e.Known(oracle, class) // listed in known-findings.txt: counted, the run keeps checking
}

func segOf(ts int64) string { return time.UnixMilli(ts).UTC().Format("20060102") }

// newUnits splits a generated batch into its per-table units.
func (s *sim) newUnits(rows []row) []*unit {
	by := map[string]*unit{}
	var keys []string
	s.seq++
	segs := map[string]bool{}
	for _, r := range rows {
		s.known[r.wid] = r
		seg := segOf(r.ts)
		segs[seg] = true
		k := seg
		if s.multi {
			k += "|" + r.series
		}
		if by[k] == nil {
			by[k] = &unit{table: k, seg: seg, batch: s.nBatches, invokeSeq: s.seq}
			keys = append(keys, k)
		}
		by[k].rows = append(by[k].rows, r)
	}
	sort.Strings(keys)
	var out []*unit
	for _, k := range keys {
		out = append(out, by[k])
	}
	if len(segs) > 1 {
		s.e.Probe("reach.batch_spans_two_segments")
	}
	s.nBatches++
	return out
}

func (s *sim) acked(us []*unit) {
	s.seq++
	for _, u := range us {
		u.ackSeq = s.seq
	}
}

func (s *sim) inFlightW() int {
	k := 0
	for _, w := range s.writers {
		if !w.fin {
			k++
		}
	}
	return k
}

func (s *sim) inFlightQ() int {
	k := 0
	for _, q := range s.queries {
		if !q.fin {
			k++
		}
	}
	return k
}

func (s *sim) queryByName(name string) *query {
	for _, q := range s.queries {
		if q.name == name {
			return q
		}
	}
	return nil
}

func widDigest(ws []int64) string {
	c := append([]int64(nil), ws...)
	sort.Slice(c, func(i, j int) bool { return c[i] < c[j] })
	h := sha256.New()
	for _, w := range c {
		fmt.Fprintf(h, "%d,", w)
	}
	return fmt.Sprintf("%x", h.Sum(nil))[:10]
}

// judge compares one returned query with the batch history (oracles 1-3).
func (s *sim) judge(q *query, afterStop bool) {
	e := s.e
	if q.panicMsg != "" {
		e.Fail("no-panic", "query-panicked", "%s [%d,%d] panicked: %s", q.name, q.lo, q.hi, q.panicMsg)
		return
	}
	if q.err != nil {
		if afterStop && strings.Contains(q.err.Error(), "segment closed") {
			e.Probe("reach.query_error_after_stop")
			e.Event("%s failed after the node was stopped", q.name)
			e.Note("%s error after stop: %v", q.name, q.err)
			return
		}
		e.Fail("query-never-fails", "query-error", "%s [%d,%d] invoked at #%d failed: %v", q.name, q.lo, q.hi, q.invokeSeq, q.err)
		return
	}
	got := map[int64]bool{}
	for i, w := range q.res.wids {
		r, ok := s.known[w]
		if !ok {
			e.Fail("consistent-view", "garbage-row", "%s returned a row that was never written (wid %d)", q.name, w)
			return
		}
		if got[w] {
			e.Fail("consistent-view", "row-returned-twice", "%s returned write #%d (batch #%d) twice: a merged part and its input are both visible", q.name, w, s.batchOf(w))
			return
		}
		got[w] = true
		if q.res.ts[i] != r.ts {
			e.Fail("consistent-view", "garbage-row", "%s returned write #%d with timestamp %d instead of %d", q.name, w, q.res.ts[i], r.ts)
			return
		}
		if r.ts < q.lo || r.ts > q.hi {
			e.Fail("consistent-view", "row-outside-range", "%s [%d,%d] returned write #%d at %d", q.name, q.lo, q.hi, w, r.ts)
			return
		}
	}
	// (segment, series) pairs certainly in that segment's series index when the query looked it up: written by a batch acknowledged before the invocation
	indexed := map[string]bool{}
	for _, u := range s.units {
		if u.ackSeq != 0 && u.ackSeq < q.invokeSeq {
			for _, r := range u.rows {
				indexed[u.seg+"|"+r.series] = true
			}
		}
	}
	type verdict struct {
		u       *unit
		inRange int
		vis     int
		missOld int
	}
	var vs []verdict
	nVis, nUnacked := 0, 0
	for _, u := range s.units {
		if u.invokeSeq > q.retSeq {
			continue
		}
		v := verdict{u: u}
		var missNew, missOld int
		for _, r := range u.rows {
			if r.ts < q.lo || r.ts > q.hi {
				continue
			}
			v.inRange++
			if got[r.wid] {
				v.vis++
			} else if !indexed[u.seg+"|"+r.series] {
				missNew++
			} else {
				missOld++
			}
		}
		v.missOld = missOld
		if v.inRange == 0 {
			continue
		}
		if v.vis > 0 && v.vis < v.inRange {
			class := "batch-partially-visible"
			if missOld == 0 {
				// every missing row belongs to a series that no batch acknowledged before the query's invocation had written
				class = "batch-partially-visible:rows-of-new-series-missing"
			}
			if u.ackSeq != 0 && u.ackSeq < q.invokeSeq {
				class += ":acknowledged-before-query"
			}
			if !s.tolerated("consistent-view", class) {
				e.Fail("consistent-view", class, "%s [%d,%d] (invoked #%d, returned #%d) sees %d of the %d rows that batch #%d (invoked #%d, acknowledged #%d) put into table %s; %d missing row(s) of series first written by batches not acknowledged when the query was invoked, %d of series written before",
					q.name, q.lo, q.hi, q.invokeSeq, q.retSeq, v.vis, v.inRange, u.batch, u.invokeSeq, u.ackSeq, u.table, missNew, missOld)
				return
			}
			continue
		}
		if v.vis == 0 && u.ackSeq != 0 && u.ackSeq < q.invokeSeq {
			e.Fail("consistent-view", "acknowledged-batch-missing", "%s [%d,%d] invoked at #%d does not see batch #%d in table %s (%d rows in range), acknowledged at #%d before the query was invoked",
				q.name, q.lo, q.hi, q.invokeSeq, u.batch, u.table, v.inRange, u.ackSeq)
			return
		}
		if v.vis > 0 {
			nVis++
			if u.ackSeq == 0 || u.ackSeq > q.retSeq {
				nUnacked++
			}
		}
		vs = append(vs, v)
	}
	for _, v2 := range vs {
		if v2.vis == 0 {
			continue
		}
		for _, v1 := range vs {
			if v1.vis == 0 && v1.u.table == v2.u.table && v1.u.ackSeq != 0 && v1.u.ackSeq < v2.u.invokeSeq {
				class := "not-a-prefix"
				if v1.missOld == 0 {
					class = "not-a-prefix:rows-of-new-series-missing"
				}
				if s.tolerated("consistent-view", class) {
					continue
				}
				e.Fail("consistent-view", class, "%s sees batch #%d (invoked #%d) in table %s but not batch #%d, acknowledged at #%d before that one was invoked",
					q.name, v2.u.batch, v2.u.invokeSeq, v2.u.table, v1.u.batch, v1.u.ackSeq)
				return
			}
		}
	}
	if nUnacked > 0 {
		e.Probe("reach.query_saw_unacknowledged_batch")
	}
	e.Event("%s returned at #%d: %d rows (%s), %d unit(s) visible", q.name, q.retSeq, len(q.res.wids), widDigest(q.res.wids), nVis)
}

func (s *sim) batchOf(w int64) int {
	for _, u := range s.units {
		for _, r := range u.rows {
			if r.wid == w {
				return u.batch
			}
		}
	}
	return -1
}

// observe runs at every quiescent point: journal, table views, finished actors.
func (s *sim) observe(step int) bool {
	e := s.e
	if ps := takeRecovered(); len(ps) > 0 {
		e.Fail("no-panic", "engine-goroutine-panicked", "an engine goroutine panicked (recovered by pkg/run): %s", strings.Join(ps, " | "))
		return false
	}
	// --- removals journaled since the last quiescent point
	type removal struct {
		table string
		id    uint64
		idx   int
	}
	var rms []removal
	for ; s.jpos < len(s.journal.Ops); s.jpos++ {
		op := s.journal.Ops[s.jpos]
		if op.Kind != simos.OpRmAll {
			continue
		}
		m := partPathRe.FindStringSubmatch("/" + op.Path)
		if m == nil {
			continue
		}
		id, _ := strconv.ParseUint(m[3], 16, 64)
		sh, _ := strconv.Atoi(m[2])
		rms = append(rms, removal{table: fmt.Sprintf("%s/%d", m[1], sh), id: id, idx: s.jpos})
	}
	for _, rm := range rms {
		k := fmt.Sprintf("%s/%016x", rm.table, rm.id)
		s.removed[k]++
		if s.removed[k] > 1 {
			e.Fail("part-files", "part-directory-removed-twice", "part %016x of table %s was removed %d times (journal op %d)", rm.id, rm.table, s.removed[k], rm.idx)
			return false
		}
		if s.inFlightQ() > 0 {
			e.Probe("reach.gc_removed_part_while_query_in_flight")
		}
		for _, q := range s.queries {
			for _, p := range q.pins {
				if p.table != rm.table || !p.parts[rm.id] || p.journalAt > rm.idx {
					continue
				}
				stillPinned := (p.releasedAt < 0 && !q.fin) || (p.releasedAt >= 0 && rm.idx < p.releasedAt)
				if stillPinned {
					e.Fail("part-files", "part-removed-while-pinned", "part %016x of table %s was removed (journal op %d, step %d) while %s, which pinned a snapshot containing it at journal op %d, had not begun to release that snapshot",
						rm.id, rm.table, rm.idx, step, q.name, p.journalAt)
					return false
				}
				if p.releasedAt >= 0 {
					e.Probe("reach.pinned_part_removed_after_last_reader")
				}
			}
		}
	}
	// --- table views
	vs, err := s.g.tables(s.n)
	if err != nil {
		if !s.stopped {
			e.Fail("harness", "tables-accessor", "%v", err)
			return false
		}
		vs = nil
	}
	s.views = vs
	byKey := map[string]*tableView{}
	perSeg := map[string]uint64{}
	segBusy := map[string]bool{}
	for i := range vs {
		v := &vs[i]
		byKey[v.key] = v
		if v.busy {
			segBusy[v.seg] = true
			continue
		}
		for _, p := range v.parts {
			perSeg[v.seg] += p.count
		}
		if v.has && s.prevEpoch[v.key] != v.epoch {
			s.prevEpoch[v.key] = v.epoch
			switch v.creator {
			case 1:
				s.nFlush++
				s.markOverlap("flush")
			case 2, 3:
				s.nMerge++
				s.markOverlap("merge")
			}
		}
	}
	for _, rm := range rms {
		if v := byKey[rm.table]; v != nil && !v.busy && v.fileIDs()[rm.id] {
			e.Fail("part-files", "live-part-removed", "part %016x of table %s was removed (journal op %d) but is a member of the table's current snapshot (epoch %x)", rm.id, rm.table, rm.idx, v.epoch)
			return false
		}
	}
	if !s.stopped && os.Getenv("C05_NO_SNAPCOUNT") == "" { // (the switch is a drill aid: judge by the queries' answers alone)
		// what a query pinning now would see: every acknowledged row, no row twice
		ackedRows, invokedRows := map[string]uint64{}, map[string]uint64{}
		for _, u := range s.units {
			invokedRows[u.seg] += uint64(len(u.rows))
			if u.ackSeq != 0 {
				ackedRows[u.seg] += uint64(len(u.rows))
			}
		}
		for _, seg := range simcore.SortedKeys(invokedRows) {
			if segBusy[seg] {
				continue
			}
			have := perSeg[seg]
			if have < ackedRows[seg] {
				e.Fail("consistent-view", "current-snapshot-lacks-acknowledged-rows", "segment %s: the parts of the current snapshot(s) hold %d rows, but %d rows are acknowledged (%s): a query pinning now misses rows",
					seg, have, ackedRows[seg], s.describeSeg(seg))
				return false
			}
			if have > invokedRows[seg] {
				e.Fail("consistent-view", "current-snapshot-holds-rows-twice", "segment %s: the parts of the current snapshot(s) hold %d rows, but only %d rows were ever written (%s): a merged part and its inputs are visible together",
					seg, have, invokedRows[seg], s.describeSeg(seg))
				return false
			}
		}
	}
	// --- which snapshot did the query released last step pin?
	if pp := s.pending; pp != nil {
		s.pending = nil
		var hit []*tableView
		noSnap := false
		for i := range pp.before {
			b := &pp.before[i]
			a := byKey[b.key]
			if a == nil || a.busy || b.busy {
				continue
			}
			if !b.has {
				noSnap = true
				continue
			}
			if a.has && a.epoch == b.epoch && a.ref == b.ref+1 {
				hit = append(hit, b)
			}
		}
		switch {
		case len(hit) == 1 && len(hit[0].parts) == 0:
			pp.q.pinUnknown, pp.q.pins = true, nil // an empty snapshot is released at once: the release order is no longer the pin order
		case len(hit) == 1:
			pp.q.pins = append(pp.q.pins, pin{table: hit[0].key, parts: hit[0].fileIDs(), journalAt: pp.journalAt, releasedAt: -1})
			e.Probe("reach.query_pin_attributed")
			for _, p := range simcore.ParkedList() {
				if actorRank(p.Actor) == 2 && (p.Site == siteMergeSend || p.Site == siteMergeStart) {
					e.Probe("reach.query_pinned_while_merge_in_progress")
				}
				if actorRank(p.Actor) == 2 && p.Site == siteFlushSend {
					e.Probe("reach.query_pinned_while_flush_in_progress")
				}
				if actorRank(p.Actor) == 2 && p.Site == siteIntroPub {
					e.Probe("reach.query_pinned_while_introducer_mid_publication")
				}
				if actorRank(p.Actor) == 1 && p.Site == siteWriterSend {
					if w := s.writerByName(p.Actor); w != nil && len(w.units) > 1 {
						e.Probe("reach.query_pinned_while_writer_between_introductions")
					}
				}
			}
		case len(hit) == 0 && noSnap:
			// a table without a snapshot: nothing pinned
		default:
			pp.q.pinUnknown = true
			pp.q.pins = nil
			e.Probe("reach.query_pin_unattributed")
		}
	}
	for _, q := range s.queries {
		if q.fin || q.heldProbe {
			continue
		}
		for _, p := range q.pins {
			if p.releasedAt >= 0 {
				continue
			}
			if v := byKey[p.table]; v != nil && !v.busy {
				cur := v.fileIDs()
				for _, id := range sortedIDs(p.parts) {
					if !cur[id] {
						q.heldProbe = true
					}
				}
			}
		}
		if q.heldProbe {
			e.Probe("reach.query_holds_snapshot_whose_parts_were_replaced")
		}
	}
	// --- finished actors
	for _, w := range s.writers {
		if w.fin {
			continue
		}
		select {
		case werr := <-w.done:
			w.fin = true
			if werr != nil {
				if s.stopped {
					e.Event("%s failed after the node was stopped", w.name)
					continue
				}
				e.Fail("ack", "valid-write-not-acknowledged", "batch of %s not acknowledged: %v", w.name, werr)
				return false
			}
			s.acked(w.units)
			e.Event("%s acknowledged at #%d", w.name, s.seq)
		default:
		}
	}
	for _, q := range s.queries {
		if q.fin {
			continue
		}
		select {
		case <-q.done:
			q.fin = true
			s.seq++
			q.retSeq = s.seq
			s.judge(q, s.stopped)
			if e.Failed() {
				return false
			}
		default:
		}
	}
	return true
}

func (s *sim) markOverlap(what string) {
	for _, q := range s.queries {
		if !q.fin {
			q.overlapped = true
			s.e.Probe("reach.query_overlapped_" + what)
		}
	}
}

func (s *sim) writerByName(name string) *writer {
	for _, w := range s.writers {
		if w.name == name {
			return w
		}
	}
	return nil
}

func (s *sim) describeSeg(seg string) string {
	var parts []string
	for _, v := range s.views {
		if v.seg != seg {
			continue
		}
		var ps []string
		for _, p := range v.parts {
			k := "file"
			if p.mem {
				k = "mem"
			}
			ps = append(ps, fmt.Sprintf("%x:%s:%d", p.id, k, p.count))
		}
		parts = append(parts, fmt.Sprintf("table %s epoch-creator=%d parts[%s]", v.key, v.creator, strings.Join(ps, " ")))
	}
	return strings.Join(parts, "; ")
}

func sortedIDs(m map[uint64]bool) []uint64 {
	out := make([]uint64, 0, len(m))
	for k := range m {
		out = append(out, k)
	}
	sort.Slice(out, func(i, j int) bool { return out[i] < out[j] })
	return out
}

func scenario(e *simcore.Env, tp *simcore.Tape, g engine) {
	repo := simmeta.New()
	g.install(repo)
	flushSec := []int{1, 2, 5}[tp.Choose(3)]
	maxMerge := []int{2, 2, 3, 4}[tp.Choose(4)]
	flags := g.flags(tp, flushSec, maxMerge)
	flushed := time.Duration(2*flushSec+1) * time.Second
	dirA := filepath.Join(e.Dir, "a")

	// per-run arming knobs (swarm)
	holdPull := tp.Weighted(1, 3) == 1       // queries park between the last pin and the first block read
	holdIntro := tp.Weighted(1, 1) == 1      // the introducer parks before it publishes a snapshot
	holdMergeStart := tp.Weighted(1, 1) == 1 // merges park before they write their output
	holdRemoval := tp.Weighted(1, 1) == 1    // the goroutine removing a part directory parks in front of the removal
	writerPre := tp.Weighted(2, 1) == 1
	knobs := fmt.Sprintf("pull=%v intro=%v mergeStart=%v removal=%v writerPre=%v", holdPull, holdIntro, holdMergeStart, holdRemoval, writerPre)

	var racing atomic.Bool
	var holdMu sync.Mutex
	passedHold := map[string]bool{}
	hold := g.holdSites()
	simcore.EnableGates(func(actor, site string) bool {
		if !racing.Load() {
			return false
		}
		switch actorRank(actor) {
		case 0:
			// every preemption point inside currentSnapshot (the unchanged tree has one, in front of the lock; the
			// after-unlock gates of tools/gaterw add one wherever a version of it leaves the lock before it is done)
			if strings.HasPrefix(site, sitePinPrefix) || site == siteSnapDecRef {
				return true
			}
			if holdPull {
				for _, h := range hold {
					if site == h { // once per query: in front of its first block read
						holdMu.Lock()
						first := !passedHold[actor]
						passedHold[actor] = true
						holdMu.Unlock()
						return first
					}
				}
			}
			return false
		case 1:
			return site == siteWriterSend || (writerPre && site == siteWriterPre)
		}
		switch site {
		case siteFlushSend, siteMergeSend, siteWriterSend, siteFlushWait, siteMergeWait, siteMergerLoop:
			return true
		case siteIntroPub:
			return holdIntro
		case siteMergeStart:
			return holdMergeStart
		case siteRemoval:
			return holdRemoval
		}
		return false
	})
	settle := func() {
		for i := 0; i < 100000; i++ {
			synctest.Wait()
			ps := simcore.ParkedList()
			if len(ps) == 0 {
				return
			}
			for _, p := range ps {
				simcore.Release(p)
			}
		}
	}
	// The driver goroutine never enters the engine (cooperative locks in banyand/internal/storage): operations it
	// issues run on a helper goroutine, actor "main"; the engine loops it spawns inherit "main/<site>#n".
	call := func(f func()) {
		fin := make(chan struct{})
		var pv any
		go func() {
			simcore.SetActor("main")
			defer simcore.ClearActor()
			defer close(fin)
			defer func() { pv = recover() }()
			f()
		}()
		back := time.Millisecond
		for {
			synctest.Wait()
			select {
			case <-fin:
				if pv != nil {
					panic(pv)
				}
				return
			default:
			}
			ps := simcore.ParkedList()
			if len(ps) == 0 {
				time.Sleep(back)
				back = min(2*back, time.Second)
				continue
			}
			for _, p := range ps {
				simcore.Release(p)
			}
		}
	}
	sleep := func(d time.Duration) {
		for d > 0 {
			k := min(d, 10*time.Minute)
			time.Sleep(k)
			d -= k
			settle()
		}
	}

	s := &sim{e: e, tp: tp, g: g, known: map[int64]row{}, prevEpoch: map[string]uint64{}, removed: map[string]int{}, multi: g.shards() > 1}
	s.journal = simos.Start(dirA)
	var live *simnode.Node
	defer func() {
		racing.Store(false)
		settle()
		if live != nil {
			call(live.Stop)
		}
		settle()
		simos.Stop()
		simcore.ResetGates()
	}()
	var n *simnode.Node
	var err error
	mergeSlots := []int{8, 1, 2}[tp.Choose(3)]
	g.resetGlobals(mergeSlots)
	call(func() { n, err = g.boot(repo, dirA, flags) })
	if err != nil {
		e.Fail("boot", "boot-failed", "boot: %v", err)
		return
	}
	live, s.n = n, n
	sleep(time.Duration(tp.Range(1, 600)) * time.Minute)
	e.Event("%s flags=%v merge-slots=%d knobs=%s", g.describe(), flags, mergeSlots, knobs)

	spans := []int64{1000, 60_000, 2 * dayMs}
	// --- phase A (prologue of the driver loop below): a short scripted history, so that the race starts on tables that
	// already have file parts. It runs with the gates armed and the first eligible actor released at every step until
	// everything (engine loops included) has come to rest: left to the Go scheduler, the start-up handshakes of a new table's
	// loops and its first introduction resolve in different orders, and the race would begin in different states.
	var prologue []int // 2 = a writer's batch, 3 = advance by two flush periods
	for op, nOps := 0, tp.Weighted(1, 2, 2, 2, 1); op < nOps; op++ {
		prologue = append(prologue, 2)
		if tp.Weighted(1, 3) == 1 {
			prologue = append(prologue, 3)
		}
	}

	// --- phase B: the race
	aliases := map[string]string{}
	alias := func(a string) string {
		if actorRank(a) < 2 {
			return a
		}
		if _, ok := aliases[a]; !ok {
			aliases[a] = fmt.Sprintf("loop%d", len(aliases)+1)
		}
		return aliases[a]
	}
	canonParked := func() []*simcore.Parked {
		ps := simcore.ParkedList()
		sort.SliceStable(ps, func(i, j int) bool {
			ri, rj := actorRank(ps[i].Actor), actorRank(ps[j].Actor)
			if ri != rj {
				return ri < rj
			}
			if ps[i].Actor != ps[j].Actor {
				return naturalLess(ps[i].Actor, ps[j].Actor)
			}
			return ps[i].Site < ps[j].Site
		})
		return ps
	}
	isHold := func(site string) bool {
		for _, h := range hold {
			if site == h {
				return true
			}
		}
		return false
	}
	writersLeft := tp.Range(1, 5)
	queriesLeft := tp.Range(2, 6)
	advLeft := tp.Range(1, 6)
	maxSteps := []int{50, 80, 110}[tp.Choose(3)]
	// "Stop the node while a query is parked" is an exploration aid only (C05_STOP=1): simnode.Stop closes the engines without
	// draining in-flight requests first, which a real node does (the gRPC server stops gracefully before the engines), and what a
	// query released into a closing node returns is decided by the Go scheduler (stream queries pin segment by segment).
	stopWanted := tp.Weighted(4, 1) == 1 && os.Getenv("C05_STOP") != ""
	stopDone := false
	var burstActor string
	burstLeft := 0
	idle := 0
	mergers := map[string]bool{} // actors seen at the merge loop's own gate
	draining := false
	inPrologue, raceStart := true, 0
	startWriter := func(step int, phase string) {
		time.Sleep(time.Duration(tp.Range(1, 3000)) * time.Microsecond)
		rows, send := g.gen(tp, time.Now().UnixMilli(), spans[tp.Weighted(4, 2, 2)], 12, s.nBatches)
		w := &writer{name: fmt.Sprintf("w%d", len(s.writers)), done: make(chan error, 1), units: s.newUnits(rows)}
		s.units = append(s.units, w.units...)
		s.writers = append(s.writers, w)
		e.Event("step %d: %s starts batch #%d at #%d: %d rows in %d table(s)", step, w.name, s.nBatches-1, w.units[0].invokeSeq, len(rows), len(w.units))
		s.sample = append(s.sample, fmt.Sprintf("%s: %s writes %d rows / %d tables", phase, w.name, len(rows), len(w.units)))
		go func() {
			simcore.SetActor(w.name)
			defer simcore.ClearActor()
			defer func() {
				if r := recover(); r != nil {
					w.done <- fmt.Errorf("panic: %v", firstLine(fmt.Sprint(r)))
				}
			}()
			w.done <- send(n)
		}()
	}
	advance := func(step int, phase string, d time.Duration) {
		time.Sleep(d)
		e.AddSim(d)
		e.Event("step %d: advance %s", step, d)
		s.sample = append(s.sample, phase+": advance "+d.String())
	}
	racing.Store(true)
	for step := 0; ; step++ {
		synctest.Wait()
		for r := 0; r < 3; r++ { // lock waiters (cooperative locks of the storage package) simply try again
			any := false
			for _, p := range simcore.ParkedList() {
				if p.Site == "lock-wait" {
					simcore.Release(p)
					any = true
				}
			}
			if !any {
				break
			}
			e.Probe("reach.lock_wait_retried")
			synctest.Wait()
		}
		if !s.observe(step) {
			return
		}
		if stopDone {
			break
		}
		if !inPrologue && !draining && step >= raceStart+maxSteps {
			// Step limit: no new actors, no clock advances; whoever is in flight finishes gate by gate (gates stay armed:
			// released together, the Go scheduler would decide who wins), always the first eligible actor in canonical order.
			e.Probe("reach.race_step_limit")
			draining = true
		}
		if draining && s.inFlightQ() == 0 && s.inFlightW() == 0 {
			break
		}
		if step > raceStart+maxSteps+800 {
			e.Fail("harness", "drain-stuck", "%d quer(ies) and %d writer(s) still in flight %d steps after the step limit", s.inFlightQ(), s.inFlightW(), step-maxSteps)
			return
		}
		parked := canonParked()
		if e.Verbose {
			var l []string
			for _, p := range parked {
				l = append(l, p.Actor+"@"+p.Site)
			}
			e.Note("step %d parked: %s", step, strings.Join(l, " "))
			segs := map[string]bool{}
			for _, v := range s.views {
				segs[v.seg] = true
			}
			for _, seg := range simcore.SortedKeys(segs) {
				e.Note("    %s", s.describeSeg(seg))
			}
		}
		introBusy, mergePending, flushPending := false, false, false
		var heldQ *query
		for _, p := range parked {
			switch {
			case p.Site == siteIntroPub:
				introBusy = true
			case p.Site == siteMergeSend && actorRank(p.Actor) == 2:
				mergePending = true
			case p.Site == siteFlushSend:
				flushPending = true
			}
			if actorRank(p.Actor) == 0 && isHold(p.Site) {
				if q := s.queryByName(p.Actor); q != nil && q.holdLeft > 0 && heldQ == nil {
					heldQ = q
				}
			}
		}
		type option struct {
			p    *simcore.Parked
			kind int // 0 release, 1 start query, 2 start writer, 3 advance
			w    int
		}
		var opts []option
		parkedActor := map[string]bool{}
		for _, p := range parked {
			parkedActor[p.Actor] = true
			if p.Site == siteMergerLoop {
				mergers[p.Actor] = true
			}
		}
		for _, p := range parked {
			if p.Site == "lock-wait" { // retried at the top of every step
				continue
			}
			// Go's select picks at random among ready cases, so no engine loop may ever find two of them ready.
			// (1) While an introducer is in the middle of a publication nobody is let into a send to it, and nobody who
			// has sent continues past the introducer's own wake-ups (the flusher's epoch watcher).
			if introBusy && (isPreSend(p.Site) || isPostSend(p.Site)) {
				continue
			}
			// (2) A merger re-registers with its table's flusher when it continues after its introduction (or at once when
			// it finds nothing to merge): that must
			// meet the flusher waiting in a select, not parked in the middle of a cycle (it would come back to a
			// select with both the registration and its epoch watcher ready).
			if (p.Site == siteMergeWait || p.Site == siteMergerLoop) && mergers[p.Actor] && parkedActor[flusherOf(p.Actor)] {
				continue
			}
			w := 2
			if heldQ != nil {
				if p.Actor == heldQ.name {
					w = 1
				} else if actorRank(p.Actor) == 2 {
					w = 5
				}
			}
			opts = append(opts, option{p: p, w: w})
		}
		if inPrologue && len(opts) == 0 {
			switch {
			case s.inFlightW() > 0: // waits for a timer
				idle++
				if idle > 50 {
					e.Fail("harness", "prologue-stuck", "a history batch neither finished nor parked")
					return
				}
				time.Sleep(100 * time.Millisecond)
			case len(prologue) > 0:
				op := prologue[0]
				prologue = prologue[1:]
				e.Step()
				if op == 2 {
					startWriter(step, "history")
				} else {
					advance(step, "history", flushed)
				}
			default:
				inPrologue, raceStart = false, step+1
				e.Event("step %d: the race begins", step)
			}
			continue
		}
		if draining {
			queriesLeft, writersLeft, advLeft, stopWanted = 0, 0, 0, false
		}
		if !inPrologue && queriesLeft > 0 && s.inFlightQ() < 3 {
			w := 2
			if mergePending || flushPending {
				w = 8 // maintenance output written, not yet introduced: now a query
			}
			opts = append(opts, option{kind: 1, w: w})
		}
		if !inPrologue && writersLeft > 0 && s.inFlightW() < 2 {
			opts = append(opts, option{kind: 2, w: 2})
		}
		if !inPrologue && advLeft > 0 {
			w := 1
			if heldQ != nil {
				w = 4
			}
			opts = append(opts, option{kind: 3, w: w})
		}
		if stopWanted && s.inFlightW() == 0 && s.inFlightQ() > 0 {
			// offered only while every query in flight is parked behind its pins (at its first block read or at a release):
			// what it returns is then decided, whatever order the closing loops take
			behind := 0
			for _, p := range parked {
				if actorRank(p.Actor) == 0 && (isHold(p.Site) || p.Site == siteSnapDecRef) {
					behind++
				}
			}
			if behind == s.inFlightQ() {
				opts = append(opts, option{kind: 4, w: 3})
			}
		}
		if heldQ != nil {
			heldQ.holdLeft--
		}
		if len(opts) == 0 {
			if s.inFlightQ() == 0 && s.inFlightW() == 0 && len(parked) == 0 {
				break
			}
			idle++
			if idle > 20 {
				e.Fail("harness", "race-stuck", "%d quer(ies) and %d writer(s) in flight, %d parked, nothing eligible", s.inFlightQ(), s.inFlightW(), len(parked))
				return
			}
			time.Sleep(100 * time.Millisecond)
			continue
		}
		c := -1
		if draining || inPrologue {
			c, burstLeft = 0, 0
		}
		if burstLeft > 0 {
			for i, o := range opts {
				if o.kind == 0 && o.p.Actor == burstActor {
					c = i
					burstLeft--
					break
				}
			}
		}
		if c < 0 {
			burstLeft = 0
			ws := make([]int, len(opts))
			for i, o := range opts {
				ws[i] = o.w
			}
			c = tp.Weighted(ws...)
			if o := opts[c]; o.kind == 0 && actorRank(o.p.Actor) == 2 {
				burstActor, burstLeft = o.p.Actor, []int{0, 2, 5}[tp.Weighted(3, 2, 1)]
			}
		}
		e.Step()
		o := opts[c]
		switch o.kind {
		case 1:
			queriesLeft--
			time.Sleep(time.Duration(tp.Range(1, 3000)) * time.Microsecond)
			q := &query{name: fmt.Sprintf("q%d", len(s.queries)), done: make(chan struct{}), full: true, holdLeft: []int{0, 4, 10, 25}[tp.Weighted(2, 2, 3, 2)]}
			q.lo, q.hi = s.fullRange()
			if len(s.known) > 1 && tp.Weighted(3, 1) == 1 {
				a, b := s.pickTs(tp), s.pickTs(tp)
				q.lo, q.hi, q.full = min(a, b), max(a, b), false
			}
			s.seq++
			q.invokeSeq = s.seq
			s.queries = append(s.queries, q)
			if mergePending {
				e.Probe("reach.merge_output_written_before_query")
			}
			if flushPending {
				e.Probe("reach.flush_output_written_before_query")
			}
			e.Event("step %d: %s starts at #%d full=%v (%d parked)", step, q.name, q.invokeSeq, q.full, len(parked))
			s.sample = append(s.sample, fmt.Sprintf("race: %s full=%v", q.name, q.full))
			go func() {
				simcore.SetActor(q.name)
				defer simcore.ClearActor()
				defer close(q.done)
				defer func() {
					if r := recover(); r != nil {
						q.panicMsg = firstLine(fmt.Sprint(r))
					}
				}()
				q.res, q.err = g.query(n, q.lo, q.hi)
			}()
		case 2:
			writersLeft--
			startWriter(step, "race")
		case 4:
			nq := s.inFlightQ()
			e.Event("step %d: stop the node (%d quer(ies) parked behind their pins)", step, nq)
			e.Probe("reach.stop_while_query_parked")
			s.sample = append(s.sample, fmt.Sprintf("race: stop the node, %d queries parked", nq))
			s.stopped, stopDone = true, true
			racing.Store(false)
			s.pending = nil
			for _, q := range s.queries {
				if !q.fin {
					q.pins, q.pinUnknown = nil, true
				}
			}
			call(live.Stop)
			live = nil
		case 3:
			advLeft--
			advance(step, "race", []time.Duration{time.Duration(flushSec) * time.Second, flushed, 300 * time.Millisecond}[tp.Weighted(3, 2, 1)])
		default:
			p := o.p
			if actorRank(p.Actor) == 0 {
				q := s.queryByName(p.Actor)
				switch {
				case q == nil:
				case strings.HasPrefix(p.Site, sitePinPrefix) && q.full && !q.pinUnknown:
					s.pending = &pendingPin{q: q, before: s.views, journalAt: simos.Len()}
					if p.Site != siteCur {
						e.Probe("reach.query_parked_inside_pin")
					}
				case p.Site == siteSnapDecRef && q.full && !q.pinUnknown:
					k := -1
					for i := range q.pins {
						if q.pins[i].releasedAt < 0 {
							k = i
							break
						}
					}
					if k < 0 { // a release without an attributed pin
						q.pinUnknown, q.pins = true, nil
						e.Probe("reach.query_release_unattributed")
					} else {
						q.pins[k].releasedAt = simos.Len()
					}
				}
				if isHold(p.Site) && len(q.pins) > 0 {
					e.Probe("reach.query_parked_between_pin_and_first_read")
				}
			}
			e.Event("step %d: release %s @ %s (of %d parked)", step, alias(p.Actor), p.Site, len(parked))
			simcore.Release(p)
		}
	}

	// --- phase C: everybody finishes (gates off), maintenance quiesces
	racing.Store(false)
	s.pending = nil
	for _, q := range s.queries {
		if !q.fin { // its releases are no longer observed
			q.pins, q.pinUnknown = nil, true
		}
	}
	for i := 0; i < 50; i++ {
		settle()
		if !s.observe(-1) {
			return
		}
		if s.inFlightQ() == 0 && s.inFlightW() == 0 {
			break
		}
		time.Sleep(100 * time.Millisecond)
	}
	if k := s.inFlightQ(); k > 0 {
		e.Fail("harness", "query-did-not-return", "%d quer(ies) did not return after all gates were opened", k)
		return
	}
	if k := s.inFlightW(); k > 0 {
		e.Fail("harness", "writer-did-not-finish", "%d write(s) did not return after all gates were opened", k)
		return
	}
	for _, q := range s.queries {
		if q.overlapped {
			e.Nontrivial()
		}
	}
	if stopDone {
		// the node is down (what a graceful stop leaves on disk is the subject of C03/C04: a manifest may name memory parts)
		e.Event("final (stopped): %d rows written", len(s.known))
		e.SetSample(map[string]any{"engine": g.kind(), "flags": flags, "knobs": knobs, "batches": s.nBatches, "queries": len(s.queries), "stopped": true, "ops": s.sample})
		return
	}
	// maintenance quiesces: a merge may enable the next one, and a flusher that saw an introduction holds a snapshot for
	// one more flush period; wait until a whole period passes without any publication and without any extra reference
	for i := 0; i < 10; i++ {
		before := s.epochSig()
		sleep(flushed)
		e.AddSim(flushed)
		if !s.observe(-1) {
			return
		}
		if i > 0 && s.epochSig() == before && s.refsIdle() {
			break
		}
	}
	// the final answer: exactly the acknowledged rows
	fq := &query{name: "final", full: true}
	fq.lo, fq.hi = s.fullRange()
	s.seq++
	fq.invokeSeq = s.seq
	call(func() { fq.res, fq.err = g.query(n, fq.lo, fq.hi) })
	s.seq++
	fq.retSeq = s.seq
	s.judge(fq, false)
	if e.Failed() {
		return
	}
	if len(fq.res.wids) != len(s.known) {
		e.Fail("consistent-view", "final-answer-incomplete", "the final full-range query returns %d rows, %d were acknowledged", len(fq.res.wids), len(s.known))
		return
	}
	settle()
	if !s.observe(-1) {
		return
	}
	// --- final disk state: exactly the parts of the final snapshots; reference counts back at idle
	nParts := 0
	for _, v := range s.views {
		if v.busy {
			continue
		}
		want := v.fileIDs()
		have := map[uint64]bool{}
		ents, _ := os.ReadDir(v.root)
		for _, en := range ents {
			if en.IsDir() && partDirRe.MatchString(en.Name()) {
				id, _ := strconv.ParseUint(en.Name(), 16, 64)
				have[id] = true
			}
		}
		for _, id := range sortedIDs(want) {
			if !have[id] {
				e.Fail("part-files", "snapshot-part-missing-on-disk", "table %s: part %016x of the final snapshot has no directory", v.key, id)
				return
			}
		}
		for _, id := range sortedIDs(have) {
			if !want[id] {
				e.Fail("part-files", "replaced-part-never-removed", "table %s: directory %016x is not part of the final snapshot (parts %v) after all queries returned and maintenance quiesced", v.key, id, sortedIDs(want))
				return
			}
		}
		nParts += len(want)
		if v.has && v.ref != 1 {
			e.Fail("refcounts", "snapshot-refcount-not-idle", "table %s: the current snapshot's reference count is %d after everything finished (idle value 1)", v.key, v.ref)
			return
		}
		for _, p := range v.parts {
			if p.ref != 1 {
				e.Fail("refcounts", "part-refcount-not-idle", "table %s: part %016x has reference count %d after everything finished (idle value 1)", v.key, p.id, p.ref)
				return
			}
			if p.removable {
				e.Fail("refcounts", "live-part-marked-removable", "table %s: part %016x of the current snapshot is marked removable", v.key, p.id)
				return
			}
		}
	}
	nRemoved := len(s.removed)
	// (how many flushes and merges the loops needed once all gates were open is decided by the Go scheduler: kept out of the canonical history)
	e.Event("final: %d rows in %d table(s): disk state equals the final snapshots, reference counts idle", len(s.known), len(s.views))
	e.Note("%d part(s) on disk, %d part(s) removed, %d flush and %d merge introduction(s) observed", nParts, nRemoved, s.nFlush, s.nMerge)
	if s.nMerge > 0 {
		e.Probe("reach.merge_happened")
	}
	if nRemoved > 0 {
		e.Probe("reach.part_directory_removed")
	}
	e.SetSample(map[string]any{"engine": g.kind(), "flags": flags, "knobs": knobs, "batches": s.nBatches, "queries": len(s.queries), "flush_introductions": s.nFlush, "merge_introductions": s.nMerge,
		"parts_removed": nRemoved, "ops": s.sample})
}

// fullRange covers every row that exists or can still be generated (batches reach at most two days back): every
// non-empty snapshot a full-range query pins has parts in range, so the query keeps it until its result is released.
func (s *sim) fullRange() (int64, int64) {
	lo := time.Now().UnixMilli()
	for _, r := range s.known {
		lo = min(lo, r.ts)
	}
	return lo - 5*dayMs, time.Now().UnixMilli() + 3*dayMs
}

func (s *sim) epochSig() string {
	var sb strings.Builder
	for _, v := range s.views {
		fmt.Fprintf(&sb, "%s=%x;", v.key, v.epoch)
	}
	return sb.String()
}

func (s *sim) refsIdle() bool {
	for _, v := range s.views {
		if v.busy || (v.has && v.ref != 1) {
			return false
		}
		for _, p := range v.parts {
			if p.ref != 1 || p.mem {
				return false
			}
		}
	}
	return true
}

func (s *sim) pickTs(tp *simcore.Tape) int64 {
	ws := make([]int64, 0, len(s.known))
	for w := range s.known {
		ws = append(ws, w)
	}
	sort.Slice(ws, func(i, j int) bool { return ws[i] < ws[j] })
	return s.known[ws[tp.Choose(len(ws))]].ts
}

// naturalLess compares strings with embedded decimal numbers numerically ("#9" < "#12").
func naturalLess(a, b string) bool {
	i, j := 0, 0
	for i < len(a) && j < len(b) {
		da, db := a[i] >= '0' && a[i] <= '9', b[j] >= '0' && b[j] <= '9'
		if da && db {
			si := i
			for i < len(a) && a[i] >= '0' && a[i] <= '9' {
				i++
			}
			sj := j
			for j < len(b) && b[j] >= '0' && b[j] <= '9' {
				j++
			}
			na, nb := strings.TrimLeft(a[si:i], "0"), strings.TrimLeft(b[sj:j], "0")
			if len(na) != len(nb) {
				return len(na) < len(nb)
			}
			if na != nb {
				return na < nb
			}
			continue
		}
		if a[i] != b[j] {
			return a[i] < b[j]
		}
		i++
		j++
	}
	return len(a)-i < len(b)-j
}

func firstLine(s string) string {
	if i := strings.IndexByte(s, '\n'); i >= 0 {
		s = s[:i]
	}
	if len(s) > 300 {
		s = s[:300]
	}
	return s
}

var _ = storage.DataDir
