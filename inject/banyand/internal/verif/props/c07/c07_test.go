// Package c07 decides property C07 (retention removes only fully expired segments and hides them at once).
package c07

import (
	"context"
	"fmt"
	"os"
	"path/filepath"
	"sort"
	"strings"
	"testing"
	"testing/synctest"
	"time"

	"github.com/apache/skywalking-banyandb/api/common"
	"github.com/apache/skywalking-banyandb/banyand/internal/storage"
	"github.com/apache/skywalking-banyandb/banyand/internal/verif/simmeta"
	"github.com/apache/skywalking-banyandb/banyand/internal/verif/simnode"
	"github.com/apache/skywalking-banyandb/banyand/internal/verif/wl"
	"github.com/apache/skywalking-banyandb/pkg/fs"
	"github.com/apache/skywalking-banyandb/pkg/logger"
	"github.com/apache/skywalking-banyandb/pkg/timestamp"
	"github.com/apache/skywalking-banyandb/pkg/verif/simcore"
)

func TestSim(t *testing.T) {
	simnode.InitLogging()
	simcore.Main(t, "C07", []simcore.Scenario{
		{Name: "tsdb-retention", Weight: 3, Run: runRetention},
		{Name: "measure-retention", Weight: 1, Run: runMeasureRetention},
		{Name: "disk-pressure-groups", Weight: 1, Run: runGroups},
	})
}

type tbl struct{}

func (*tbl) Close() error                          { return nil }
func (*tbl) Collect(storage.Metrics)               {}
func (*tbl) TakeFileSnapshot(string) (bool, error) { return false, nil }

type segModel struct {
	start, end time.Time
	dir        string
	gone       bool // physically removed (observed)
}

func segDirs(root string) map[string]bool {
	out := map[string]bool{}
	ents, _ := os.ReadDir(root)
	for _, en := range ents {
		if en.IsDir() && strings.HasPrefix(en.Name(), "seg-") {
			out[en.Name()] = true
		}
	}
	return out
}

func runRetention(e *simcore.Env, tp *simcore.Tape) {
	old := time.Local
	time.Local = time.UTC
	defer func() { time.Local = old }()
	synctest.Test(e.T, func(*testing.T) {
		unit := storage.DAY
		segNum := []int{1, 2, 3}[tp.Choose(3)]
		ttlDays := tp.Range(1, 6)
		segSpan := time.Duration(segNum) * 24 * time.Hour
		if tp.Bool(1, 3) {
			unit = storage.HOUR
			segNum = []int{1, 6, 12}[tp.Choose(3)]
			segSpan = time.Duration(segNum) * time.Hour
			ttlDays = tp.Range(1, 2)
		}
		ttl := time.Duration(ttlDays) * 24 * time.Hour
		root := filepath.Join(e.Dir, "db")
		ctx := common.SetPosition(context.Background(), func(p common.Position) common.Position { p.Database = "db"; return p })
		openDB := func(num int) (storage.TSDB[*tbl, int], error) {
			return storage.OpenTSDB(ctx, storage.TSDBOpts[*tbl, int]{
				Location: root, SegmentInterval: storage.IntervalRule{Unit: unit, Num: num}, TTL: storage.IntervalRule{Unit: storage.DAY, Num: ttlDays}, ShardNum: 1,
				SegmentIdleTimeout: time.Hour,
				TSTableCreator: func(fs.FileSystem, string, common.Position, *logger.Logger, timestamp.TimeRange, int, any) (*tbl, error) {
					return &tbl{}, nil
				},
			}, nil, "g")
		}
		db, err := openDB(segNum)
		if err != nil {
			e.Fail("open", "open-failed", "open: %v", err)
			return
		}
		defer func() { db.Close() }()
		e.Event("interval=%d%s ttl=%dd", segNum, unit, ttlDays)
		segs := map[int64]*segModel{} // by start
		forcedBudget := 0             // segments forced cleanup was entitled to remove since the last check
		var sample []string
		f := func(t time.Time) string { return t.UTC().Format("2006-01-02T15:04:05.000Z") }
		check := func(where string) {
			if e.Failed() {
				return
			}
			now := time.Now()
			d := now.Add(-ttl)
			onDisk := segDirs(root)
			all := timestamp.NewInclusiveTimeRange(time.Unix(1, 0), time.Date(2100, 1, 1, 0, 0, 0, 0, time.UTC))
			sel, serr := db.SelectSegments(all, true)
			if serr != nil {
				e.Fail("select", "select-failed", "%s: SelectSegments: %v", where, serr)
				return
			}
			visible := map[int64]bool{}
			for _, s := range sel {
				visible[s.GetTimeRange().Start.UnixNano()] = true
				s.DecRef()
			}
			keys := make([]int64, 0, len(segs))
			for k := range segs {
				keys = append(keys, k)
			}
			sort.Slice(keys, func(i, j int) bool { return keys[i] < keys[j] })
			live := 0
			for _, k := range keys {
				if !segs[k].gone {
					live++
				}
			}
			for _, k := range keys {
				s := segs[k]
				if s.gone {
					continue
				}
				switch {
				case !onDisk[s.dir]:
					// physically removed since the last check
					if s.end.After(d) {
						if forcedBudget > 0 && k == firstLive(segs, keys) && live > 1 {
							forcedBudget--
							e.Probe("reach.forced_cleanup_removed_oldest")
						} else {
							e.Fail("retention-safety", "unexpired-segment-deleted", "%s: segment [%s, %s) was deleted although it ends after now-TTL = %s (now %s, ttl %dd)",
								where, f(s.start), f(s.end), f(d), f(now), ttlDays)
							return
						}
					} else {
						e.Probe("reach.expired_segment_removed")
					}
					s.gone = true
					live--
				case s.end.After(d) && !visible[k]:
					e.Fail("retention-safety", "unexpired-segment-hidden", "%s: segment [%s, %s) is on disk and ends after now-TTL = %s but queries no longer see it",
						where, f(s.start), f(s.end), f(d))
					return
				case s.end.Before(d) && visible[k]:
					e.Fail("expired-hidden", "expired-segment-still-served", "%s: segment [%s, %s) lies entirely before now-TTL = %s but queries still see it (now %s)",
						where, f(s.start), f(s.end), f(d), f(now))
					return
				case s.end.Before(d):
					e.Probe("reach.expired_but_not_yet_deleted_is_hidden")
				}
			}
			for k := range visible {
				if _, ok := segs[k]; !ok {
					// created by rotation: adopt it
					for _, s := range sel {
						if tr := s.GetTimeRange(); tr.Start.UnixNano() == k {
							segs[k] = &segModel{start: tr.Start, end: tr.End, dir: filepath.Base(s.Location())}
							e.Probe("reach.rotation_created_segment")
						}
					}
				}
			}
			forcedBudget = 0
		}
		nOps := tp.Range(4, 24)
		for op := 0; op < nOps && !e.Failed(); op++ {
			e.Step()
			now := time.Now()
			switch tp.Weighted(6, 6, 2, 2, 1) {
			case 0: // a write arrives: its segment is created on demand and the database is ticked with the data time (as the write path does)
				var ts time.Time
				switch tp.Weighted(5, 2, 2) {
				case 0:
					ts = now.Add(-time.Duration(tp.Range(0, (ttlDays+2)*24*60)) * time.Minute)
				case 1: // clock skew / future data: slightly ahead (minutes), or hours and days ahead
					if tp.Bool(1, 2) {
						ts = now.Add(time.Duration(tp.Range(1, 15*60)) * time.Second)
						e.Probe("fault.slightly_future_timestamp_write")
					} else {
						ts = now.Add(time.Duration(tp.Range(0, 10*24*60)) * time.Minute)
					}
					e.Probe("fault.future_timestamp_write")
				default:
					ts = now
				}
				ts = time.Unix(0, ts.UnixNano())
				seg, cerr := db.CreateSegmentIfNotExist(ts)
				if cerr != nil {
					e.Event("write(%s) -> %v", f(ts), cerr != nil)
					break
				}
				tr := seg.GetTimeRange()
				loc := filepath.Base(seg.Location())
				seg.DecRef()
				if _, ok := segs[tr.Start.UnixNano()]; !ok || segs[tr.Start.UnixNano()].gone {
					segs[tr.Start.UnixNano()] = &segModel{start: tr.Start, end: tr.End, dir: loc}
				}
				db.Tick(ts.UnixNano())
				synctest.Wait()
				e.Event("write(%s) -> segment [%s, %s)", f(ts), f(tr.Start), f(tr.End))
				sample = append(sample, "write "+f(ts))
			case 1: // the clock moves
				var d time.Duration
				switch tp.Weighted(3, 3, 2, 2) {
				case 0:
					d = time.Duration(tp.Range(1, 180)) * time.Minute
				case 1:
					d = time.Duration(tp.Range(1, 4)) * 24 * time.Hour
				case 2: // land exactly where some segment's end meets now-TTL (+-1ms)
					for _, s := range segs {
						_ = s
					}
					keys := sortedStarts(segs)
					if len(keys) > 0 {
						s := segs[keys[tp.Choose(len(keys))]]
						target := s.end.Add(ttl).Add(time.Duration(tp.Range(-1, 1)) * time.Millisecond)
						if tp.Bool(1, 2) { // a few minutes BEFORE the edge: a slightly skewed writer must not push retention across it
							target = s.end.Add(ttl).Add(-time.Duration(tp.Range(1, 12*60)) * time.Second)
							e.Probe("reach.clock_lands_minutes_before_expiry_edge")
						}
						if target.After(now) {
							d = target.Sub(now)
							e.Probe("reach.clock_lands_on_expiry_edge")
						}
					}
					if d == 0 {
						d = time.Hour
					}
				default: // to just after the next 00:05 cron time
					next := time.Date(now.Year(), now.Month(), now.Day(), 0, 5, 0, 0, time.UTC)
					if !next.After(now) {
						next = next.Add(24 * time.Hour)
					}
					d = next.Sub(now) + time.Duration(tp.Range(0, 2))*time.Second
					e.Probe("reach.cron_time_passed")
				}
				time.Sleep(d)
				synctest.Wait()
				e.AddSim(d)
				e.Event("advance %s -> now %s", d, f(time.Now()))
				sample = append(sample, "advance "+d.String())
			case 2: // forced disk-pressure cleanup
				before := len(segDirs(root))
				ok, ferr := db.DeleteOldestSegment()
				synctest.Wait()
				after := len(segDirs(root))
				e.Event("forced-cleanup -> %v err=%v dirs %d->%d", ok, ferr != nil, before, after)
				sample = append(sample, "forced-cleanup")
				if before-after > 1 {
					e.Fail("forced-cleanup", "removed-more-than-one", "one forced cleanup call removed %d segment directories", before-after)
					break
				}
				if before == 1 && after == 0 {
					e.Fail("forced-cleanup", "removed-last-segment", "forced cleanup removed the last remaining segment")
					break
				}
				if before-after == 1 {
					forcedBudget++
				}
			case 3: // many ticks at one instant
				for i := 0; i < 50; i++ {
					db.Tick(now.UnixNano())
				}
				synctest.Wait()
				e.Event("tick x50 at %s", f(now))
			default: // restart, possibly with the group's segment interval changed (same unit): what the segments on disk cover
				// - and therefore when they expire - must not change
				num := segNum
				if tp.Side().Bool(1, 2) {
					num = []int{1, 2, 3, 6, 12}[tp.Side().Choose(5)]
				}
				_ = db.Close()
				synctest.Wait()
				if db, err = openDB(num); err != nil {
					e.Fail("open", "reopen-failed", "reopen with interval %d%s: %v", num, unit, err)
					return
				}
				if num != segNum {
					e.Probe("fault.restart_with_changed_segment_interval")
				} else {
					e.Probe("fault.restart")
				}
				e.Event("restart with interval %d%s (was %d%s)", num, unit, segNum, unit)
				sample = append(sample, fmt.Sprintf("restart interval=%d", num))
				segNum = num
			}
			check(fmt.Sprintf("after op %d", op))
		}
		// bounded liveness: once the clock has passed one more cron time, every fully expired segment is physically gone
		if !e.Failed() {
			now := time.Now()
			next := time.Date(now.Year(), now.Month(), now.Day(), 0, 5, 0, 0, time.UTC).Add(24 * time.Hour)
			time.Sleep(next.Sub(now) + time.Minute)
			synctest.Wait()
			e.AddSim(next.Sub(now) + time.Minute)
			check("after the next cron time")
			if !e.Failed() {
				d := time.Now().Add(-ttl)
				onDisk := segDirs(root)
				live := 0
				for _, s := range segs {
					if !s.gone {
						live++
					}
				}
				for _, k := range sortedStarts(segs) {
					s := segs[k]
					if !s.gone && s.end.Before(d) && onDisk[s.dir] {
						e.Fail("retention-liveness", "expired-segment-not-removed-by-cron", "segment [%s, %s) lies before now-TTL = %s but is still on disk after a cron run (now %s)", f(s.start), f(s.end), f(d), f(time.Now()))
						break
					}
				}
			}
		}
		if len(segs) > 1 {
			e.Nontrivial()
		}
		e.SetSample(map[string]any{"interval": fmt.Sprintf("%d%s", segNum, unit), "ttl_days": ttlDays, "seg_span": segSpan.String(), "ops": sample})
	})
}

func sortedStarts(m map[int64]*segModel) []int64 {
	keys := make([]int64, 0, len(m))
	for k := range m {
		keys = append(keys, k)
	}
	sort.Slice(keys, func(i, j int) bool { return keys[i] < keys[j] })
	return keys
}

func firstLive(m map[int64]*segModel, keys []int64) int64 {
	for _, k := range keys {
		if !m[k].gone {
			return k
		}
	}
	return -1
}

func runMeasureRetention(e *simcore.Env, tp *simcore.Tape) {
	old := time.Local
	time.Local = time.UTC
	defer func() { time.Local = old }()
	synctest.Test(e.T, func(*testing.T) {
		ttlDays := tp.Range(2, 5)
		s := wl.GenMeasureSchema(tp, wl.SchemaOpts{TTLDays: ttlDays, MaxShards: 2})
		repo := simmeta.New()
		s.Install(repo)
		n, err := simnode.Boot(repo, e.Dir, simnode.Engines{Measure: true}, []string{"--measure-flush-timeout=5s"})
		if err != nil {
			e.Fail("boot", "boot-failed", "boot: %v", err)
			return
		}
		defer n.Stop()
		m := wl.NewMeasureModel(s)
		m.Tolerate = func(string) bool { return true } // value fidelity is C01's subject
		ttl := time.Duration(ttlDays) * 24 * time.Hour
		time.Sleep(time.Duration(tp.Range(7, 600)) * time.Minute) // never sit exactly on a day boundary
		synctest.Wait()
		e.Event("measure ttl=%dd shards=%d", ttlDays, s.Shards)
		segEnd := func(ts int64) time.Time {
			t := time.UnixMilli(ts).UTC()
			return time.Date(t.Year(), t.Month(), t.Day(), 0, 0, 0, 0, time.UTC).Add(24 * time.Hour)
		}
		check := func(where string) {
			if e.Failed() {
				return
			}
			now := time.Now()
			d := now.Add(-ttl)
			lo, hi := now.Add(-40*24*time.Hour).UnixMilli(), now.Add(11*24*time.Hour).UnixMilli()
			p := s.FullProjection()
			resp, qerr := n.QueryMeasure(s.QueryRequest(lo, hi, p, 1000000))
			if qerr != nil {
				e.Fail("query", "query-error", "%s: %v", where, qerr)
				return
			}
			live, expired := 0, 0
			for _, r := range m.Rows {
				if segEnd(r.Ts).After(d) {
					live++
				} else {
					expired++
				}
			}
			e.Event("%s: now=%s live=%d expired=%d returned=%d", where, now.UTC().Format(time.RFC3339), live, expired, len(resp.GetDataPoints()))
			if expired > 0 {
				e.ProbeN("reach.rows_in_expired_segments", expired)
			}
			cls, msg := m.Mismatch(resp.GetDataPoints(), p, func(r *wl.MRow) bool { return segEnd(r.Ts).After(d) })
			switch cls {
			case "":
			case "missing-row":
				e.Fail("retention-safety", "live-data-hidden-or-deleted", "%s (now %s, ttl %dd): %s", where, now.UTC().Format(time.RFC3339), ttlDays, msg)
			case "row-outside-query":
				e.Fail("expired-hidden", "expired-data-still-served", "%s (now %s, ttl %dd, now-TTL %s): %s", where, now.UTC().Format(time.RFC3339), ttlDays, d.UTC().Format(time.RFC3339), msg)
			default:
				e.Fail("retention-safety", cls, "%s: %s", where, msg)
			}
		}
		msgID := uint64(1)
		nOps := tp.Range(3, 12)
		var sample []string
		for op := 0; op < nOps && !e.Failed(); op++ {
			e.Step()
			switch tp.Weighted(4, 4, 2) {
			case 0:
				now := time.Now()
				span := ttl - 25*time.Hour
				rows := m.GenBatch(tp, wl.BatchOpts{BaseMs: now.UnixMilli(), SpanMs: span.Milliseconds(), MaxRows: 30, MaxSeries: 3, NoHot: true}, op)
				if tp.Bool(1, 4) && len(rows) > 0 { // one row stamped in the future (clock skew)
					rows[0].Ts = now.Add(time.Duration(tp.Range(1, 9*24)) * time.Hour).UnixMilli()
					e.Probe("fault.future_timestamp_write")
				}
				reqs := m.ToRequests(rows, msgID)
				msgID += uint64(len(reqs))
				resps, werr := n.WriteMeasure(reqs)
				ok := werr == nil && len(resps) == len(reqs)
				for _, r := range resps {
					ok = ok && r.GetStatus() == "STATUS_SUCCEED"
				}
				e.Event("write %d rows ack=%v", len(rows), ok)
				if !ok {
					e.Fail("ack", "valid-write-not-acknowledged", "batch of %d rows not acknowledged: %v", len(rows), werr)
					return
				}
				m.Ack(rows)
				sample = append(sample, fmt.Sprintf("write %d", len(rows)))
			case 1:
				d := []time.Duration{3 * time.Hour, 25 * time.Hour, 49 * time.Hour, 30 * time.Minute}[tp.Choose(4)]
				time.Sleep(d)
				synctest.Wait()
				e.AddSim(d)
				e.Event("advance %s", d)
				sample = append(sample, "advance "+d.String())
			default:
				check("query")
			}
		}
		check("final")
		if len(m.Rows) > 0 {
			e.Nontrivial()
		}
		e.SetSample(map[string]any{"engine": "measure", "ttl_days": ttlDays, "ops": sample})
	})
}
