package c07

import (
	"context"
	"fmt"
	"io"
	"path/filepath"
	"sort"
	"testing"
	"testing/synctest"
	"time"

	"github.com/apache/skywalking-banyandb/api/common"
	commonv1 "github.com/apache/skywalking-banyandb/api/proto/banyandb/common/v1"
	"github.com/apache/skywalking-banyandb/banyand/internal/storage"
	"github.com/apache/skywalking-banyandb/pkg/fs"
	"github.com/apache/skywalking-banyandb/pkg/logger"
	resourceSchema "github.com/apache/skywalking-banyandb/pkg/schema"
	"github.com/apache/skywalking-banyandb/pkg/timestamp"
	"github.com/apache/skywalking-banyandb/pkg/verif/simcore"
)

// fakeGroup is a schema.Group with a name (the disk monitor only reads the name).
type fakeGroup struct{ name string }

func (g fakeGroup) GetSchema() *commonv1.Group {
	return &commonv1.Group{Metadata: &commonv1.Metadata{Name: g.name}}
}
func (fakeGroup) SupplyTSDB() io.Closer { return nil }

// groupsSvc is a storage.RetentionService over several REAL databases (one per group), the way an engine service
// implements it: peek / delete are forwarded to the group's TSDB.
type groupsSvc struct {
	dbs   map[string]storage.TSDB[*tbl, int]
	order []string // LoadAllGroups order (tape-chosen)
}

func (s *groupsSvc) GetDataPath() string    { return "" }
func (s *groupsSvc) GetSnapshotDir() string { return "" }
func (s *groupsSvc) LoadAllGroups() []resourceSchema.Group {
	var out []resourceSchema.Group
	for _, n := range s.order {
		out = append(out, fakeGroup{n})
	}
	return out
}
func (s *groupsSvc) PeekOldestSegmentEndTimeInGroup(g string) (time.Time, bool) {
	if db, ok := s.dbs[g]; ok {
		return db.PeekOldestSegmentEndTime()
	}
	return time.Time{}, false
}
func (s *groupsSvc) DeleteOldestSegmentInGroup(g string) (bool, error) {
	if db, ok := s.dbs[g]; ok {
		return db.DeleteOldestSegment()
	}
	return false, nil
}
func (s *groupsSvc) CleanupOldSnapshots(time.Duration) error { return nil }
func (s *groupsSvc) GetServiceName() string                  { return "verif" }

// runGroups: forced disk-pressure cleanup over SEVERAL groups (the disk monitor's deleteOldestSegment, real code, over
// real databases): every call removes at most one segment, and the one it removes is the globally oldest deletable
// one (no segment that ends earlier survives it in a group that still has more than one segment).
func runGroups(e *simcore.Env, tp *simcore.Tape) {
	old := time.Local
	time.Local = time.UTC
	defer func() { time.Local = old }()
	synctest.Test(e.T, func(*testing.T) {
		nGroups := tp.Range(2, 5)
		svc := &groupsSvc{dbs: map[string]storage.TSDB[*tbl, int]{}}
		now := time.Now()
		for g := 0; g < nGroups; g++ {
			name := fmt.Sprintf("g%d", g)
			root := filepath.Join(e.Dir, name)
			ctx := common.SetPosition(context.Background(), func(p common.Position) common.Position { p.Database = name; return p })
			db, err := storage.OpenTSDB(ctx, storage.TSDBOpts[*tbl, int]{
				Location: root, SegmentInterval: storage.IntervalRule{Unit: storage.DAY, Num: 1}, TTL: storage.IntervalRule{Unit: storage.DAY, Num: 30}, ShardNum: 1,
				SegmentIdleTimeout: time.Hour,
				TSTableCreator: func(fs.FileSystem, string, common.Position, *logger.Logger, timestamp.TimeRange, int, any) (*tbl, error) {
					return &tbl{}, nil
				},
			}, nil, name)
			if err != nil {
				e.Fail("open", "open-failed", "open %s: %v", name, err)
				return
			}
			defer db.Close()
			svc.dbs[name] = db
			// 1-4 day segments per group at tape-chosen distinct days in the past
			days := map[int]bool{}
			for i, k := 0, tp.Range(1, 4); i < k; i++ {
				days[tp.Range(0, 12)] = true
			}
			for d := range days {
				ts := time.Unix(0, now.Add(-time.Duration(d)*24*time.Hour).UnixNano())
				seg, cerr := db.CreateSegmentIfNotExist(ts)
				if cerr != nil {
					e.Fail("open", "segment-create-failed", "%s day -%d: %v", name, d, cerr)
					return
				}
				seg.DecRef()
			}
		}
		names := make([]string, 0, nGroups)
		for n := range svc.dbs {
			names = append(names, n)
		}
		sort.Strings(names)
		// LoadAllGroups order: a tape-chosen permutation
		svc.order = append([]string(nil), names...)
		for i := len(svc.order) - 1; i > 0; i-- {
			j := tp.Choose(i + 1)
			svc.order[i], svc.order[j] = svc.order[j], svc.order[i]
		}
		listing := func() map[string][]string {
			out := map[string][]string{}
			for _, n := range names {
				for d := range segDirs(filepath.Join(e.Dir, n)) {
					out[n] = append(out[n], d)
				}
				sort.Strings(out[n])
			}
			return out
		}
		e.Event("groups in LoadAllGroups order %v, segments %v", svc.order, listing())
		for round := 0; round < 6 && !e.Failed(); round++ {
			e.Step()
			before := listing()
			ok := storage.VerifC07ForcedCleanupOnce(svc)
			synctest.Wait()
			after := listing()
			var removed []string
			for _, n := range names {
				have := map[string]bool{}
				for _, d := range after[n] {
					have[d] = true
				}
				for _, d := range before[n] {
					if !have[d] {
						removed = append(removed, n+"/"+d)
					}
				}
			}
			e.Event("round %d: forced cleanup -> %v, removed %v", round, ok, removed)
			if len(removed) > 1 {
				e.Fail("forced-cleanup", "removed-more-than-one", "one forced cleanup call removed %v", removed)
				return
			}
			if len(removed) == 0 {
				continue
			}
			e.Probe("reach.forced_cleanup_over_groups_removed_a_segment")
			// the removed one must be the globally oldest among the groups' oldest segments (seg-YYYYMMDD sorts by time)
			rem := removed[0][len(removed[0])-len("seg-20000101"):]
			for _, n := range names {
				if len(before[n]) <= 1 {
					continue // a group's last segment is never removed by forced cleanup: not a candidate
				}
				if oldest := before[n][0]; oldest < rem {
					e.Fail("forced-cleanup", "not-the-globally-oldest-segment", "forced cleanup removed %s although group %s holds the older segment %s (LoadAllGroups order %v, before: %v)", removed[0], n, oldest, svc.order, before)
					return
				}
			}
		}
		e.Nontrivial()
		e.SetSample(map[string]any{"groups": nGroups, "order": svc.order})
	})
}
