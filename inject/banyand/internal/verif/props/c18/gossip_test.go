package c18

// Scenario "gossip-exchange": 2-3 real property/db instances (repair enabled) play the replicas of the
// shards of one or two groups. Each receives a subset of a history; then the REAL Merkle-tree repair
// exchange runs between tape-chosen pairs: the real client side (repairGossipClient.Rev: tree reader,
// root/slot/leaf comparison, queryPropertyAndSendToServer, shard.repair) talks to the real server side
// (repairGossipServer.Repair: combineTreeSummary, sendDifferSlots, processPropertySync/Missing) over an
// in-memory bidirectional stream that stands in for the gRPC connection. The driver only plays the gossip
// scheduler (who talks to whom, about which group/shard, and when the build-tree cron runs).
// Oracles: monotonicity per exchange, no invented state, convergence to the highest revision at a
// fixpoint of fair passes, and a further exchange changes nothing.

import (
	"context"
	"errors"
	"fmt"
	"io"
	"path/filepath"
	"runtime/debug"
	"sort"
	"strings"
	"sync"
	"testing/synctest"
	"time"

	"google.golang.org/grpc"
	"google.golang.org/grpc/metadata"
	"google.golang.org/protobuf/encoding/protojson"
	"google.golang.org/protobuf/proto"

	"github.com/apache/skywalking-banyandb/api/common"
	commonv1 "github.com/apache/skywalking-banyandb/api/proto/banyandb/common/v1"
	modelv1 "github.com/apache/skywalking-banyandb/api/proto/banyandb/model/v1"
	propertyv1 "github.com/apache/skywalking-banyandb/api/proto/banyandb/property/v1"
	"github.com/apache/skywalking-banyandb/banyand/internal/storage"
	"github.com/apache/skywalking-banyandb/banyand/observability"
	obsservice "github.com/apache/skywalking-banyandb/banyand/observability/services"
	propdb "github.com/apache/skywalking-banyandb/banyand/property/db"
	"github.com/apache/skywalking-banyandb/banyand/property/gossip"
	"github.com/apache/skywalking-banyandb/pkg/fs"
	"github.com/apache/skywalking-banyandb/pkg/verif/simcore"
)

// ---------------------------------------------------------------------------------------------
// the wire: an in-memory pair of the generated gRPC stream interfaces of RepairService.Repair

type (
	rreq  = propertyv1.RepairRequest
	rresp = propertyv1.RepairResponse
)

// wireStats counts what crossed the wire in one exchange (diagnostics and probes only).
type wireStats struct {
	opened, rootMatch, rootDiffer, treeNotFound         int
	slotPages, leafPages, leafNodes, missingSlotNodes   int
	propMissing, c2sSync, s2cSync, s2cMissing, waitNext int
	tombstones, slashIDs                                int
	mu                                                  sync.Mutex
}

func (w *wireStats) String() string {
	return fmt.Sprintf("root(match=%d differ=%d notfound=%d) slotPages=%d leafPages=%d leaves=%d serverMissingSlots=%d "+
		"propertyMissing=%d sync(c->s)=%d sync(s->c)=%d missing(s->c)=%d waitNext=%d tombstones=%d slashIDs=%d",
		w.rootMatch, w.rootDiffer, w.treeNotFound, w.slotPages, w.leafPages, w.leafNodes, w.missingSlotNodes,
		w.propMissing, w.c2sSync, w.s2cSync, w.s2cMissing, w.waitNext, w.tombstones, w.slashIDs)
}

func (w *wireStats) shipped(ps *propertyv1.PropertySync) {
	if ps.GetDeleteTime() > 0 {
		w.tombstones++
	}
	if strings.Contains(ps.GetProperty().GetId(), "/") {
		w.slashIDs++
	}
}

func (w *wireStats) onReq(r *rreq) {
	w.mu.Lock()
	defer w.mu.Unlock()
	switch d := r.Data.(type) {
	case *propertyv1.RepairRequest_TreeSlots:
		if len(d.TreeSlots.GetSlotSha()) > 0 {
			w.slotPages++
		}
	case *propertyv1.RepairRequest_PropertyMissing:
		w.propMissing++
	case *propertyv1.RepairRequest_PropertySync:
		w.c2sSync++
		w.shipped(d.PropertySync)
	case *propertyv1.RepairRequest_WaitNextDiffer:
		w.waitNext++
	}
}

func (w *wireStats) onResp(r *rresp) {
	w.mu.Lock()
	defer w.mu.Unlock()
	switch d := r.Data.(type) {
	case *propertyv1.RepairResponse_RootCompare:
		switch {
		case !d.RootCompare.GetTreeFound():
			w.treeNotFound++
		case d.RootCompare.GetRootShaMatch():
			w.rootMatch++
		default:
			w.rootDiffer++
		}
	case *propertyv1.RepairResponse_DifferTreeSummary:
		if len(d.DifferTreeSummary.GetNodes()) > 0 {
			w.leafPages++
		}
		for _, n := range d.DifferTreeSummary.GetNodes() {
			if n.GetExists() {
				w.leafNodes++
			} else {
				w.missingSlotNodes++
			}
		}
	case *propertyv1.RepairResponse_PropertySync:
		if d.PropertySync.GetFrom() == propertyv1.PropertySyncFromType_PROPERTY_SYNC_FROM_TYPE_MISSING {
			w.s2cMissing++
		} else {
			w.s2cSync++
		}
		w.shipped(d.PropertySync.GetProperty())
	}
}

type gpipe struct {
	ctx    context.Context
	cancel context.CancelFunc
	c2s    chan *rreq
	s2c    chan *rresp
	st     *wireStats
	mu     sync.Mutex
	closed bool
}

// overWire emulates gRPC's serialisation of one message: the receiver gets what the bytes decode to.
func overWire[M proto.Message](m M, fresh M) (M, error) {
	b, err := proto.Marshal(m)
	if err != nil {
		return fresh, err
	}
	if err = proto.Unmarshal(b, fresh); err != nil {
		return fresh, err
	}
	return fresh, nil
}

type gcstream struct{ p *gpipe }

func (c gcstream) Send(r *rreq) error {
	m, err := overWire(r, &rreq{})
	if err != nil {
		return err
	}
	c.p.mu.Lock()
	closed := c.p.closed
	c.p.mu.Unlock()
	if closed {
		return errors.New("send on a closed stream")
	}
	c.p.st.onReq(m)
	select {
	case c.p.c2s <- m:
		return nil
	case <-c.p.ctx.Done():
		return c.p.ctx.Err()
	}
}

func (c gcstream) Recv() (*rresp, error) {
	// a message that is already there is delivered before a cancellation is noticed (select would pick at random)
	select {
	case r, ok := <-c.p.s2c:
		if !ok {
			return nil, io.EOF
		}
		return r, nil
	default:
	}
	select {
	case r, ok := <-c.p.s2c:
		if !ok {
			return nil, io.EOF
		}
		return r, nil
	case <-c.p.ctx.Done():
		return nil, c.p.ctx.Err()
	}
}
func (c gcstream) Header() (metadata.MD, error) { return nil, nil }
func (c gcstream) Trailer() metadata.MD         { return nil }
func (c gcstream) CloseSend() error {
	c.p.mu.Lock()
	defer c.p.mu.Unlock()
	if !c.p.closed {
		c.p.closed = true
		close(c.p.c2s)
	}
	return nil
}
func (c gcstream) Context() context.Context { return c.p.ctx }
func (c gcstream) SendMsg(any) error        { return errors.New("unused") }
func (c gcstream) RecvMsg(any) error        { return errors.New("unused") }

type gsstream struct{ p *gpipe }

func (s gsstream) Recv() (*rreq, error) {
	select {
	case r, ok := <-s.p.c2s:
		if !ok {
			return nil, io.EOF
		}
		return r, nil
	default:
	}
	select {
	case r, ok := <-s.p.c2s:
		if !ok {
			return nil, io.EOF
		}
		return r, nil
	case <-s.p.ctx.Done():
		return nil, s.p.ctx.Err()
	}
}

func (s gsstream) Send(r *rresp) error {
	m, err := overWire(r, &rresp{})
	if err != nil {
		return err
	}
	s.p.st.onResp(m)
	select {
	case s.p.s2c <- m:
		return nil
	case <-s.p.ctx.Done():
		return s.p.ctx.Err()
	}
}
func (s gsstream) SetHeader(metadata.MD) error  { return nil }
func (s gsstream) SendHeader(metadata.MD) error { return nil }
func (s gsstream) SetTrailer(metadata.MD)       {}
func (s gsstream) Context() context.Context     { return s.p.ctx }
func (s gsstream) SendMsg(any) error            { return errors.New("unused") }
func (s gsstream) RecvMsg(any) error            { return errors.New("unused") }

// gossipWire is what the generated NewRepairServiceClient returns under the simulation hook for the
// connection to one replica: it runs that replica's real RepairService handler on the other end of a pipe.
type gossipWire struct {
	srv     propertyv1.RepairServiceServer
	st      *wireStats // of the current exchange
	done    chan error // one value per opened stream: the handler's return value (or its panic)
	streams int
}

func (g *gossipWire) Repair(ctx context.Context, _ ...grpc.CallOption) (grpc.BidiStreamingClient[rreq, rresp], error) {
	c, cancel := context.WithCancel(ctx)
	// The real transport buffers up to its flow-control window (64 KiB by default, hundreds of these
	// messages); the client side sends a whole page of properties before it reads again.
	p := &gpipe{ctx: c, cancel: cancel, c2s: make(chan *rreq, 4096), s2c: make(chan *rresp, 4096), st: g.st}
	g.streams++
	g.st.mu.Lock()
	g.st.opened++
	g.st.mu.Unlock()
	go func() {
		var err error
		defer func() {
			if r := recover(); r != nil {
				err = fmt.Errorf("PANIC in RepairService.Repair: %v\n%s", r, debug.Stack())
			}
			close(p.s2c)
			g.done <- err
		}()
		err = g.srv.Repair(gsstream{p})
	}()
	return gcstream{p}, nil
}

type nopTrace struct{}

func (nopTrace) CreateSpan(gossip.Span, string) gossip.Span { return nopSpan{} }
func (nopTrace) ActivateSpan() gossip.Span                  { return nil }

type nopSpan struct{}

func (nopSpan) ID() string         { return "" }
func (nopSpan) TraceID() string    { return "" }
func (nopSpan) Tag(string, string) {}
func (nopSpan) End()               {}
func (nopSpan) Error(string)       {}

// openRepairDB opens a property database the way banyand/property/service.go does when repair is enabled:
// the snapshot function the tree builder calls takes a file snapshot of every shard through the database's
// own TakeSnapShot and returns its data directory.
func openRepairDB(dir string, slots int, cron string, quick time.Duration) (propdb.Database, func(), error) {
	loc := filepath.Join(dir, "data")
	snapDir := filepath.Join(dir, "snapshots")
	var d propdb.Database
	seq := 0
	d, err := propdb.OpenDB(context.Background(), propdb.Config{
		Location:               loc,
		MetricsScopeName:       "property",
		FlushInterval:          5 * time.Second,
		ExpireToDeleteDuration: 7 * 24 * time.Hour,
		Repair: propdb.RepairConfig{
			Enabled: true, Location: filepath.Join(dir, "repair"), TreeSlotCount: slots,
			BuildTreeCron: cron, QuickBuildTreeTime: quick,
		},
		Index: propdb.IndexConfig{BatchWaitSec: 0, WaitForPersistence: true},
		Snapshot: propdb.SnapshotConfig{Location: snapDir, Func: func(ctx context.Context) (string, error) {
			seq++
			name := fmt.Sprintf("%s-%08X", time.Now().UTC().Format(storage.SnapshotTimeFormat), seq)
			if snp := d.TakeSnapShot(ctx, name); snp.GetError() != "" {
				return "", errors.New(snp.GetError())
			}
			return filepath.Join(snapDir, name, storage.DataDir), nil
		}},
	}, observability.BypassRegistry, fs.NewLocalFileSystem())
	if err != nil {
		return nil, nil, err
	}
	return d, func() {
		_ = d.Close()
		obsservice.MetricsCollector.Unregister(filepath.Clean(loc))
	}, nil
}

// ---------------------------------------------------------------------------------------------
// the driver

// gkey is one property key; shard is a function of the key (as the liaison's hashing makes it).
type gkey struct {
	group, name, id string
	shard           uint32
}

func (k gkey) String() string { return fmt.Sprintf("%s/%s/%q@shard%d", k.group, k.name, k.id, k.shard) }

type gshard struct {
	group string
	shard uint32
}

type gx struct {
	e       *simcore.Env
	tp      *simcore.Tape
	base    int64
	dbs     []propdb.Database
	clients []gossip.MessageListener
	wires   []*gossipWire
	conns   []*grpc.ClientConn
	keys    []gkey
	shards  []gshard // the group/shard pairs that hold keys, sorted
	history []string
}

func (x *gx) hist(format string, a ...any) {
	s := fmt.Sprintf(format, a...)
	x.history = append(x.history, s)
	x.e.Event("%s", s)
}

func (x *gx) fail(oracle, class, format string, a ...any) {
	x.e.Fail(oracle, class, "%s\nhistory:\n%s", fmt.Sprintf(format, a...), strings.Join(x.history, "\n"))
}

func (x *gx) docs(i int, k gkey) []rdoc {
	res, err := x.dbs[i].Query(context.Background(), &propertyv1.QueryRequest{Groups: []string{k.group}, Name: k.name, Ids: []string{k.id}, Limit: 10000})
	if err != nil {
		panic(fmt.Sprintf("replica %d query: %v", i, err))
	}
	var out []rdoc
	for _, q := range res {
		var p propertyv1.Property
		if err = protojson.Unmarshal(q.Source(), &p); err != nil {
			panic(err)
		}
		out = append(out, rdoc{p: &p, id: q.ID(), deleteTime: q.DeleteTime()})
	}
	return out
}

// state is the highest-revision document replica i holds for k (same definition as rep.state).
func (x *gx) state(i int, k gkey) rstate {
	var st rstate
	for _, d := range x.docs(i, k) {
		rev := d.p.Metadata.GetModRevision()
		tomb := d.deleteTime > 0
		switch {
		case !st.present || rev > st.rev:
			st = rstate{present: true, rev: rev, tomb: tomb, tags: renderTags(d.p.Tags)}
		case rev == st.rev && tomb != st.tomb:
			st.ambig = true
		}
	}
	if st.present {
		st.rev -= x.base
	}
	return st
}

// allStates: key index -> replica -> state.
func (x *gx) allStates() [][]rstate {
	out := make([][]rstate, len(x.keys))
	for ki, k := range x.keys {
		out[ki] = make([]rstate, len(x.dbs))
		for i := range x.dbs {
			out[ki][i] = x.state(i, k)
		}
	}
	return out
}

func (x *gx) liveIDs(k gkey, olderThan int64) [][]byte {
	seen := map[string]bool{}
	for i := range x.dbs {
		for _, d := range x.docs(i, k) {
			if d.deleteTime > 0 || (olderThan > 0 && d.p.Metadata.GetModRevision() >= olderThan) {
				continue
			}
			seen[string(propdb.GetPropertyID(d.p))] = true
		}
	}
	var out [][]byte
	for _, s := range simcore.SortedKeys(seen) {
		out = append(out, []byte(s))
	}
	return out
}

func (x *gx) receivers() ([]int, string) {
	must := x.tp.Choose(len(x.dbs))
	var out []int
	var names []string
	for i := range x.dbs {
		if i == must || !x.tp.Bool(2, 5) {
			out = append(out, i)
			names = append(names, fmt.Sprintf("R%d", i))
		} else {
			x.e.Probe("fault.replica_missed_update")
		}
	}
	return out, strings.Join(names, "+")
}

// buildTree lets the build-tree cron task of replica i run now.
func (x *gx) buildTree(i int) bool {
	if err := propdb.VerifBuildTree(x.dbs[i]); err != nil {
		x.e.Note("build tree on R%d: %v", i, err)
		x.fail("operations-succeed", "build-tree-error", "the build-tree task of R%d failed: %v", i, err)
		return false
	}
	synctest.Wait()
	return true
}

// exchange runs one real gossip repair exchange, client c -> server s, about one group/shard, and checks
// monotonicity on every replica for every key.
func (x *gx) exchange(c, s int, gs gshard, label string) (changed, ok bool) {
	before := x.allStates()
	st := &wireStats{}
	w := x.wires[s]
	w.st = st
	streams := w.streams
	ctx, cancel := context.WithTimeout(context.Background(), 10*time.Minute)
	err := x.clients[c].Rev(ctx, nopTrace{}, x.conns[s], &propertyv1.PropagationRequest{
		Context: &propertyv1.PropagationContext{Nodes: []string{fmt.Sprintf("R%d", c), fmt.Sprintf("R%d", s)}, MaxPropagationCount: 1, OriginNode: fmt.Sprintf("R%d", c)},
		Group:   gs.group, ShardId: gs.shard,
	})
	var srvErr error
	for ; streams < w.streams; streams++ {
		if e := <-w.done; e != nil {
			srvErr = e
		}
	}
	cancel()
	synctest.Wait()
	outcome := "done"
	switch {
	case err != nil && errors.Is(err, gossip.ErrAbortPropagation):
		outcome = "aborted"
		x.e.Probe("reach.gossip_aborted_no_tree")
	case err != nil:
		outcome = "client-error"
		x.e.Probe("reach.gossip_client_error")
	}
	if err != nil {
		x.e.Note("%s R%d->R%d: Rev: %v", label, c, s, err)
	}
	if srvErr != nil {
		x.e.Note("%s R%d->R%d: server handler: %v", label, c, s, srvErr)
		if strings.HasPrefix(srvErr.Error(), "PANIC") {
			x.fail("no-panic", "panic-in-repair-server", "%v", srvErr)
			return false, false
		}
		outcome += "+server-error"
	}
	x.e.Note("%s R%d->R%d %s/%d wire: %v", label, c, s, gs.group, gs.shard, st)
	x.probeWire(st)

	after := x.allStates()
	var deltas []string
	for ki, k := range x.keys {
		for i := range x.dbs {
			b, a := before[ki][i], after[ki][i]
			if a.String() != b.String() || a.ambig != b.ambig {
				changed = true
				deltas = append(deltas, fmt.Sprintf("R%d %v: %v -> %v", i, k, b, a))
			}
		}
	}
	x.hist("%s gossip R%d->R%d group=%s shard=%d: %s | %s", label, c, s, gs.group, gs.shard, outcome, strings.Join(deltas, "; "))
	cu, su := false, false
	for ki, k := range x.keys {
		for i := range x.dbs {
			b, a := before[ki][i], after[ki][i]
			if a.ambig {
				x.fail("replica-state", "two-documents-at-highest-revision-disagree", "R%d holds a deleted and a live document of key %v at the same revision", i, k)
				return changed, false
			}
			if a.less(b) {
				class := "gossip-newer-local-replaced-by-older"
				if b.present && a.present && b.rev == a.rev && b.tomb && !a.tomb {
					class = "gossip-tombstone-resurrected-by-equal-revision-live"
				} else if b.present && a.present && b.tomb && !a.tomb {
					class = "gossip-tombstone-resurrected-by-older-live"
				}
				x.fail("repair-monotone", class, "gossip exchange R%d->R%d (%s/%d): R%d went from %v to %v for key %v", c, s, gs.group, gs.shard, i, b, a, k)
				return changed, false
			}
			if a.same(b) {
				continue
			}
			// an exchange only copies states between its two participants, within its group and shard
			if i != c && i != s {
				x.fail("repair-monotone", "gossip-changed-a-replica-outside-the-exchange", "gossip exchange R%d->R%d changed R%d: key %v went from %v to %v", c, s, i, k, b, a)
				return changed, false
			}
			if k.group != gs.group || k.shard != gs.shard {
				x.fail("repair-monotone", "gossip-changed-another-group-or-shard", "gossip exchange R%d->R%d about %s/%d changed key %v on R%d: %v -> %v", c, s, gs.group, gs.shard, k, i, b, a)
				return changed, false
			}
			if !a.same(before[ki][c]) && !a.same(before[ki][s]) {
				x.fail("repair-monotone", "gossip-produced-a-state-nobody-held", "gossip exchange R%d->R%d: R%d went from %v to %v for key %v; the participants held %v and %v",
					c, s, i, b, a, k, before[ki][c], before[ki][s])
				return changed, false
			}
			if i == c {
				cu = true
			} else {
				su = true
			}
			if a.tomb {
				x.e.Probe("reach.gossip_tombstone_propagated")
			}
			if !b.present {
				x.e.Probe("reach.gossip_missing_key_delivered")
			}
			if strings.Contains(k.id, "/") {
				x.e.Probe("reach.gossip_id_with_slash_repaired")
			}
		}
	}
	if cu {
		x.e.Probe("reach.gossip_client_updated")
	}
	if su {
		x.e.Probe("reach.gossip_server_updated")
	}
	if cu && su {
		x.e.Probe("reach.gossip_both_sides_updated_in_one_exchange")
	}
	return changed, true
}

func (x *gx) probeWire(st *wireStats) {
	p := func(name string, n int) {
		if n > 0 {
			x.e.ProbeN(name, n)
		}
	}
	p("reach.gossip_stream_opened", st.opened)
	p("reach.gossip_root_matched", st.rootMatch)
	p("reach.gossip_trees_differed", st.rootDiffer)
	p("reach.gossip_server_tree_not_found", st.treeNotFound)
	p("reach.gossip_slots_sent", st.slotPages)
	p("reach.gossip_leaves_compared", st.leafNodes)
	p("reach.gossip_slot_missing_on_server", st.missingSlotNodes)
	p("reach.gossip_property_missing_sent", st.propMissing)
	p("reach.gossip_client_sent_property", st.c2sSync)
	p("reach.gossip_server_sent_back_newer", st.s2cSync)
	p("reach.gossip_server_sent_missing_property", st.s2cMissing)
	p("reach.gossip_tombstone_shipped", st.tombstones)
	p("reach.gossip_id_with_slash_shipped", st.slashIDs)
}

var (
	gossipGroups = []string{groupName, "pg-b"}
	gossipNames  = []string{"p", "q", "p-x"}
	// ids: plain, containing the entity separator (one and several, leading, trailing, alone), blank, with a
	// space, non-ASCII
	gossipIDs = []string{"k0", "svc/a", "k1", "svc/inst/b", " ", "ключ/值", "/", "a b", "k0/", "/k0", "é"}
)

func runGossip(e *simcore.Env, tp *simcore.Tape) {
	bubble(e, func(cleanup func(func())) {
		nRep := 2 + tp.Weighted(3, 1)
		nGroups := 1 + tp.Weighted(2, 1)
		nShards := 1 + tp.Weighted(2, 1)
		nKeys := tp.Range(1, 6)
		nEv := tp.Range(2, 14)
		slots := []int{32, 1, 2, 5}[tp.Weighted(3, 2, 1, 1)]
		cron := []string{"@every 8760h", "@every 1h"}[tp.Weighted(2, 1)]
		quick := []time.Duration{8760 * time.Hour, 10 * time.Minute}[tp.Weighted(2, 1)]
		x := &gx{e: e, tp: tp, base: time.Now().UnixNano()}

		byConn := map[grpc.ClientConnInterface]*gossipWire{}
		propertyv1.NewRepairServiceClientHook = func(cc grpc.ClientConnInterface) propertyv1.RepairServiceClient {
			if w := byConn[cc]; w != nil {
				return w
			}
			panic("gossip client dialled an unknown connection")
		}
		cleanup(func() { propertyv1.NewRepairServiceClientHook = nil })
		for i := 0; i < nRep; i++ {
			d, closeDB, err := openRepairDB(filepath.Join(e.Dir, fmt.Sprintf("replica-%d", i)), slots, cron, quick)
			if err != nil {
				panic(err)
			}
			cleanup(closeDB)
			x.dbs = append(x.dbs, d)
			x.clients = append(x.clients, propdb.VerifGossipClient(d))
			w := &gossipWire{srv: propdb.VerifGossipServer(d), done: make(chan error, 4), st: &wireStats{}}
			// The listener only asks the connection for its target (a span tag) and hands it to the generated
			// client constructor, where the hook takes over: a connection that was never dialled will do.
			cc := &grpc.ClientConn{}
			byConn[cc] = w
			x.wires = append(x.wires, w)
			x.conns = append(x.conns, cc)
		}
		seenKey := map[string]bool{}
		seenShard := map[gshard]bool{}
		for i := 0; i < nKeys; i++ {
			k := gkey{group: gossipGroups[tp.Choose(nGroups)], name: simcore.Pick(tp, gossipNames), id: simcore.Pick(tp, gossipIDs)}
			h := 0
			for _, b := range []byte(k.name + "\x00" + k.id) {
				h = (h*31 + int(b)) % 1000003
			}
			k.shard = uint32(h % nShards)
			if seenKey[k.String()] {
				continue
			}
			seenKey[k.String()] = true
			x.keys = append(x.keys, k)
			if !seenShard[gshard{k.group, k.shard}] {
				seenShard[gshard{k.group, k.shard}] = true
				x.shards = append(x.shards, gshard{k.group, k.shard})
			}
		}
		sort.Slice(x.shards, func(i, j int) bool {
			if x.shards[i].group != x.shards[j].group {
				return x.shards[i].group < x.shards[j].group
			}
			return x.shards[i].shard < x.shards[j].shard
		})
		x.hist("replicas=%d slots=%d cron=%q quick=%v keys=%v", nRep, slots, cron, quick, x.keys)
		ctx := context.Background()
		created := map[string]int64{}

		// 1. divergent history: every update / delete reaches a tape-chosen subset of the replicas
		for ev := 1; ev <= nEv; ev++ {
			tick(e, tp)
			e.Step()
			k := x.keys[tp.Choose(len(x.keys))]
			now := time.Now()
			if tp.Weighted(3, 1) == 0 {
				if created[k.String()] == 0 {
					created[k.String()] = now.UnixNano()
				}
				p := &propertyv1.Property{
					Metadata: &commonv1.Metadata{Group: k.group, Name: k.name, ModRevision: now.UnixNano(), CreateRevision: created[k.String()]},
					Id:       k.id, Tags: []*modelv1.Tag{strTag("a", fmt.Sprintf("a%d", ev))},
				}
				older := x.liveIDs(k, now.UnixNano())
				to, names := x.receivers()
				for _, i := range to {
					if err := x.dbs[i].Update(ctx, common.ShardID(k.shard), propdb.GetPropertyID(p), proto.Clone(p).(*propertyv1.Property)); err != nil {
						panic(err)
					}
				}
				cleanupTo := "-"
				if len(older) > 0 {
					var ct []int
					ct, cleanupTo = x.receivers()
					for _, i := range ct {
						if err := x.dbs[i].Delete(ctx, older, now); err != nil {
							panic(err)
						}
					}
				}
				x.hist("ev%d update key=%v r%d {a=s:a%d} to %s; tombstones for %d older live docs to %s", ev, k, now.UnixNano()-x.base, ev, names, len(older), cleanupTo)
			} else {
				ids := x.liveIDs(k, 0)
				if len(ids) == 0 {
					x.hist("ev%d delete key=%v: nothing live", ev, k)
					continue
				}
				to, names := x.receivers()
				for _, i := range to {
					if err := x.dbs[i].Delete(ctx, ids, now); err != nil {
						panic(err)
					}
				}
				delete(created, k.String())
				x.hist("ev%d delete key=%v (%d live docs) at r%d to %s", ev, k, len(ids), now.UnixNano()-x.base, names)
			}
			synctest.Wait()
		}
		target := make([]rstate, len(x.keys))
		diverged := false
		sts := x.allStates()
		for ki, k := range x.keys {
			t := sts[ki][0]
			for _, s := range sts[ki][1:] {
				if t.less(s) {
					t = s
				}
				if !s.same(sts[ki][0]) {
					diverged = true
				}
			}
			target[ki] = t
			x.hist("after writes key=%v: %v target=%v", k, sts[ki], t)
			for i, s := range sts[ki] {
				if s.ambig {
					x.fail("replica-state", "two-documents-at-highest-revision-disagree", "R%d holds a deleted and a live document of key %v at the same revision", i, k)
					return
				}
			}
		}
		if diverged {
			e.Nontrivial()
			e.Probe("reach.gossip_replicas_diverged")
		}

		// 2. arbitrary exchanges; whether a participant's build-tree task has run since its last change is
		// drawn too (a replica without a tree aborts the round, a stale tree is compared as it is)
		nEx := tp.Range(0, 6)
		for n := 0; n < nEx; n++ {
			tick(e, tp)
			e.Step()
			c := tp.Choose(nRep)
			s := (c + 1 + tp.Choose(nRep-1)) % nRep
			gs := x.shards[tp.Choose(len(x.shards))]
			for _, i := range []int{c, s} {
				if !tp.Bool(1, 4) {
					if !x.buildTree(i) {
						return
					}
				} else {
					e.Probe("reach.gossip_tree_not_rebuilt_before_exchange")
				}
			}
			if _, ok := x.exchange(c, s, gs, fmt.Sprintf("x%d", n)); !ok {
				return
			}
		}

		// 3. fair passes until nothing changes: in every pass every ordered pair of replicas exchanges every
		// group/shard once (tape-chosen order), each participant's build-tree task having run before
		type pair struct{ c, s int }
		maxPasses := 3 + len(x.keys)*nRep
		fix := false
		for pass := 1; pass <= maxPasses && !fix; pass++ {
			var pairs []pair
			for a := 0; a < nRep; a++ {
				for b := 0; b < nRep; b++ {
					if a != b {
						pairs = append(pairs, pair{a, b})
					}
				}
			}
			passChanged := false
			for len(pairs) > 0 {
				i := tp.Choose(len(pairs))
				pr := pairs[i]
				pairs = append(pairs[:i], pairs[i+1:]...)
				for _, gs := range x.shards {
					sleep(e, time.Millisecond)
					e.Step()
					if !x.buildTree(pr.c) || !x.buildTree(pr.s) {
						return
					}
					ch, ok := x.exchange(pr.c, pr.s, gs, fmt.Sprintf("pass%d", pass))
					if !ok {
						return
					}
					passChanged = passChanged || ch
				}
			}
			if !passChanged {
				fix = true
				e.Probe("reach.gossip_fixpoint_pass")
				if pass > 2 {
					e.Probe("reach.gossip_needed_more_than_one_pass")
				}
			}
		}
		if !fix {
			x.fail("repair-converges", "gossip-no-fixpoint-within-bound", "%d fair passes of gossip exchanges and the replicas still change", maxPasses)
			return
		}
		sts = x.allStates()
		for ki, k := range x.keys {
			x.hist("final key=%v: %v target=%v", k, sts[ki], target[ki])
			for i, s := range sts[ki] {
				if !s.same(target[ki]) {
					class := "gossip-replica-differs-from-highest-revision"
					switch {
					case s.present && target[ki].present && s.rev == target[ki].rev && s.tomb != target[ki].tomb:
						class = "gossip-equal-revision-tombstone-lost"
					case !s.present:
						class = "gossip-replica-never-receives-the-key"
					}
					x.fail("repair-converges", class, "a full pass of gossip exchanges changed nothing, yet R%d holds %v for key %v; the highest-revision state before the exchanges was %v (all: %v)",
						i, s, k, target[ki], sts[ki])
					return
				}
			}
		}
		e.Probe("reach.gossip_converged_checked")

		// 4. one more exchange in a tape-chosen direction: nothing may change any more
		tick(e, tp)
		c := tp.Choose(nRep)
		s := (c + 1 + tp.Choose(nRep-1)) % nRep
		gs := x.shards[tp.Choose(len(x.shards))]
		if !x.buildTree(c) || !x.buildTree(s) {
			return
		}
		ch, ok := x.exchange(c, s, gs, "after-convergence")
		if !ok {
			return
		}
		if ch {
			x.fail("repair-converges", "gossip-exchange-after-convergence-changed-a-replica", "all replicas held the highest revision of every key, yet one more exchange R%d->R%d changed a replica", c, s)
			return
		}
		e.SetSample(map[string]any{"history": x.history})
	})
}
