// Package c18 decides property C18 (properties are last-writer-wins and replicas converge).
//
// Scenario "lww-map": the real liaison propertyServer (Apply/Delete/Query, read-repair queue) talks
// through an in-memory queue stand-in to the real data-node listeners of banyand/property, each bound
// to a real property/db instance. Oracle: a plain Go map.
//
// Scenario "repair-converge": 2-4 real property/db instances play the replicas of one shard; each
// receives a subset of a history; the driver plays gossip and calls the real per-key repair code.
// Oracles: monotonicity per exchange, convergence after a fair closing pass.
//
// Scenario "gossip-exchange" (gossip_test.go): 2-3 real property/db instances with repair enabled run the
// REAL Merkle-tree gossip exchange (client Rev against the RepairService handler) over an in-memory stream.
package c18

import (
	"context"
	"errors"
	"fmt"
	"path/filepath"
	"runtime/debug"
	"sort"
	"strings"
	"sync"
	"testing"
	"testing/synctest"
	"time"

	"google.golang.org/protobuf/encoding/protojson"
	"google.golang.org/protobuf/proto"

	"github.com/apache/skywalking-banyandb/api/common"
	"github.com/apache/skywalking-banyandb/api/data"
	commonv1 "github.com/apache/skywalking-banyandb/api/proto/banyandb/common/v1"
	databasev1 "github.com/apache/skywalking-banyandb/api/proto/banyandb/database/v1"
	modelv1 "github.com/apache/skywalking-banyandb/api/proto/banyandb/model/v1"
	propertyv1 "github.com/apache/skywalking-banyandb/api/proto/banyandb/property/v1"
	"github.com/apache/skywalking-banyandb/banyand/internal/verif/simmeta"
	lgrpc "github.com/apache/skywalking-banyandb/banyand/liaison/grpc"
	"github.com/apache/skywalking-banyandb/banyand/metadata/schema"
	"github.com/apache/skywalking-banyandb/banyand/observability"
	obsservice "github.com/apache/skywalking-banyandb/banyand/observability/services"
	"github.com/apache/skywalking-banyandb/banyand/property"
	propdb "github.com/apache/skywalking-banyandb/banyand/property/db"
	"github.com/apache/skywalking-banyandb/banyand/queue"
	"github.com/apache/skywalking-banyandb/pkg/bus"
	"github.com/apache/skywalking-banyandb/pkg/fs"
	"github.com/apache/skywalking-banyandb/pkg/logger"
	"github.com/apache/skywalking-banyandb/pkg/node"
	"github.com/apache/skywalking-banyandb/pkg/verif/simcore"
)

func TestSim(t *testing.T) {
	_ = logger.Init(logger.Logging{Env: "prod", Level: "fatal"})
	simcore.Main(t, "C18", []simcore.Scenario{
		{Name: "lww-map", Weight: 13, Run: runLWW},
		{Name: "repair-converge", Weight: 10, Run: runRepair},
		{Name: "long-history", Weight: 1, Run: runLongHistory},
		{Name: "gossip-exchange", Weight: 1, Run: runGossip},
	})
}

const groupName = "pg"

// ---------------------------------------------------------------------------------------------
// helpers shared by the scenarios

// bubble runs f inside a synctest bubble; a panic on the scenario goroutine becomes a violation and
// the cleanups still run (every bubble goroutine has to exit before the bubble can end).
func bubble(e *simcore.Env, f func(cleanup func(func()))) {
	synctest.Test(e.T, func(*testing.T) {
		var cleanups []func()
		defer func() {
			if r := recover(); r != nil {
				e.Fail("no-panic", "panic", "panic: %v\n%s", r, debug.Stack())
			}
			for i := len(cleanups) - 1; i >= 0; i-- {
				func() {
					defer func() { _ = recover() }()
					cleanups[i]()
				}()
			}
			synctest.Wait()
		}()
		f(func(c func()) { cleanups = append(cleanups, c) })
	})
}

// tick advances the fake clock by at least 1ms (tape-chosen) so that revisions are distinct.
func tick(e *simcore.Env, tp *simcore.Tape) { sleep(e, tickDur(tp)) }

func tickDur(tp *simcore.Tape) time.Duration {
	return time.Millisecond + []time.Duration{0, time.Microsecond, 7 * time.Millisecond, time.Second, 3 * time.Hour}[tp.Weighted(6, 2, 2, 1, 1)]
}

func sleep(e *simcore.Env, d time.Duration) {
	time.Sleep(d)
	synctest.Wait()
	e.AddSim(d)
}

func openDB(dir string) (propdb.Database, func(), error) {
	loc := filepath.Join(dir, "data")
	d, err := propdb.OpenDB(context.Background(), propdb.Config{
		Location:               loc,
		MetricsScopeName:       "property",
		FlushInterval:          5 * time.Second,
		ExpireToDeleteDuration: 7 * 24 * time.Hour,
		Repair:                 propdb.RepairConfig{Enabled: false, Location: filepath.Join(dir, "repair"), TreeSlotCount: 32},
		Index:                  propdb.IndexConfig{BatchWaitSec: 0, WaitForPersistence: true},
		Snapshot:               propdb.SnapshotConfig{Location: filepath.Join(dir, "snapshots")},
	}, observability.BypassRegistry, fs.NewLocalFileSystem())
	if err != nil {
		return nil, nil, err
	}
	return d, func() {
		_ = d.Close()
		obsservice.MetricsCollector.Unregister(filepath.Clean(loc))
	}, nil
}

var tagSpecs = []*databasev1.TagSpec{
	{Name: "a", Type: databasev1.TagType_TAG_TYPE_STRING},
	{Name: "b", Type: databasev1.TagType_TAG_TYPE_STRING},
	{Name: "c", Type: databasev1.TagType_TAG_TYPE_STRING},
	{Name: "n", Type: databasev1.TagType_TAG_TYPE_INT},
	{Name: "ord", Type: databasev1.TagType_TAG_TYPE_STRING},
}

func strTag(k, v string) *modelv1.Tag {
	return &modelv1.Tag{Key: k, Value: &modelv1.TagValue{Value: &modelv1.TagValue_Str{Str: &modelv1.Str{Value: v}}}}
}

func intTag(k string, v int64) *modelv1.Tag {
	return &modelv1.Tag{Key: k, Value: &modelv1.TagValue{Value: &modelv1.TagValue_Int{Int: &modelv1.Int{Value: v}}}}
}

// mkTags builds the tags of write number op for the given keys; every value is unique to the write.
func mkTags(op int, keys []string) ([]*modelv1.Tag, map[string]string) {
	var out []*modelv1.Tag
	m := map[string]string{}
	for _, k := range keys {
		if k == "n" {
			out = append(out, intTag(k, int64(op)))
			m[k] = fmt.Sprintf("i:%d", op)
		} else {
			out = append(out, strTag(k, fmt.Sprintf("%s%d", k, op)))
			m[k] = fmt.Sprintf("s:%s%d", k, op)
		}
	}
	return out, m
}

// renderTags renders a tag list canonically (sorted); duplicate keys stay visible as duplicates.
func renderTags(tags []*modelv1.Tag) string {
	var out []string
	for _, t := range tags {
		switch v := t.GetValue().GetValue().(type) {
		case *modelv1.TagValue_Str:
			out = append(out, t.Key+"=s:"+v.Str.GetValue())
		case *modelv1.TagValue_Int:
			out = append(out, fmt.Sprintf("%s=i:%d", t.Key, v.Int.GetValue()))
		default:
			out = append(out, fmt.Sprintf("%s=?%v", t.Key, t.GetValue()))
		}
	}
	sort.Strings(out)
	return strings.Join(out, ",")
}

func renderModelTags(m map[string]string) string {
	var out []string
	for _, k := range simcore.SortedKeys(m) {
		out = append(out, k+"="+m[k])
	}
	return strings.Join(out, ",")
}

// ---------------------------------------------------------------------------------------------
// metadata: simmeta + a property schema registry

type metaRepo struct {
	*simmeta.Repo
	props map[string]*databasev1.Property
}

func (m *metaRepo) PropertyRegistry() schema.Property { return propReg{m} }

type propReg struct{ m *metaRepo }

func (p propReg) GetProperty(_ context.Context, md *commonv1.Metadata) (*databasev1.Property, error) {
	if s, ok := p.m.props[md.GetGroup()+"/"+md.GetName()]; ok {
		return s, nil
	}
	return nil, schema.ErrGRPCResourceNotFound
}
func (p propReg) ListProperty(context.Context, schema.ListOpt) ([]*databasev1.Property, error) {
	return nil, nil
}
func (p propReg) CreateProperty(context.Context, *databasev1.Property) error { return nil }
func (p propReg) UpdateProperty(context.Context, *databasev1.Property) error { return nil }
func (p propReg) DeleteProperty(context.Context, *commonv1.Metadata) (bool, int64, error) {
	return false, 0, nil
}

// ---------------------------------------------------------------------------------------------
// in-memory stand-in for the liaison->data-node queue (pub/sub over gRPC in production)

type simFuture struct {
	msg  bus.Message
	err  error
	done bool
}

func (f *simFuture) Get() (bus.Message, error) {
	if f.done {
		return bus.Message{}, errors.New("EOF")
	}
	f.done = true
	return f.msg, f.err
}

func (f *simFuture) GetAll() ([]bus.Message, error) {
	m, err := f.Get()
	if err != nil {
		return nil, err
	}
	return []bus.Message{m}, nil
}

type simQueue struct {
	queue.Client // unimplemented methods are never called by the property server
	e            *simcore.Env
	lis          map[string]map[string]bus.MessageListener // node -> topic -> listener
	nodes        []string                                  // sorted
	// fault plan of the current client operation: topic -> node -> unreachable for that message kind
	unreachable map[string]map[string]bool
	// failBroadcast: topic -> Broadcast reports an error for the unreachable nodes instead of skipping them
	failBroadcast map[string]bool
	delivered     map[string]int // topic -> messages delivered (diagnostics/probes)
	mu            sync.Mutex     // the read-repair goroutine delivers concurrently with the client operation
}

func (q *simQueue) Name() string                            { return "sim-queue" }
func (q *simQueue) Register(bus.Topic, schema.EventHandler) {}
func (q *simQueue) OnAddOrUpdate(schema.Metadata)           {}
func (q *simQueue) GracefulStop()                           {}
func (q *simQueue) HealthyNodes() []string                  { return q.nodes }
func (q *simQueue) isDown(topic bus.Topic, node string) bool {
	return q.unreachable[topic.String()][node]
}

// deliver emulates one request/response over the wire: the request is proto-encoded and decoded into the
// type the sub server would produce, the real listener runs, the reply is encoded/decoded the way
// pub's future does (a *common.Error reply becomes an error on the caller's side).
func (q *simQueue) deliver(topic bus.Topic, nodeName string, m bus.Message) *simFuture {
	l := q.lis[nodeName][topic.String()]
	if l == nil {
		return &simFuture{err: fmt.Errorf("no listener found")}
	}
	pm, ok := m.Data().(proto.Message)
	if !ok {
		return &simFuture{err: fmt.Errorf("invalid message type %T", m.Data())}
	}
	body, err := proto.Marshal(pm)
	if err != nil {
		return &simFuture{err: err}
	}
	req := data.TopicRequestMap[topic]()
	if err = proto.Unmarshal(body, req); err != nil {
		return &simFuture{err: err}
	}
	q.mu.Lock()
	q.delivered[topic.String()]++
	q.mu.Unlock()
	if topic != data.TopicPropertyRepair {
		// Requests of client operations are delivered at quiescent points: the index writer's background
		// goroutines (persister, merger) of every node have settled before the next request is applied, so
		// the segment layout - and with it the order of search hits - is a function of the history alone.
		// (Read-repair requests come from the liaison's repair goroutine and are delivered as they come.)
		synctest.Wait()
	}
	resp := l.Rev(context.Background(), bus.NewMessage(m.ID(), req))
	switch d := resp.Data().(type) {
	case nil:
		return &simFuture{msg: bus.NewMessageWithNode(m.ID(), nodeName, nil)}
	case *common.Error:
		return &simFuture{err: errors.New(d.Error())}
	case proto.Message:
		rb, mErr := proto.Marshal(d)
		if mErr != nil {
			return &simFuture{err: mErr}
		}
		out, dErr := data.TopicResponseMap[topic].Unmarshal(rb)
		if dErr != nil {
			return &simFuture{err: dErr}
		}
		return &simFuture{msg: bus.NewMessageWithNode(m.ID(), nodeName, out)}
	default:
		return &simFuture{err: fmt.Errorf("invalid response: %T", d)}
	}
}

func (q *simQueue) Publish(_ context.Context, topic bus.Topic, ms ...bus.Message) (bus.Future, error) {
	m := ms[0]
	if q.lis[m.Node()] == nil {
		return nil, fmt.Errorf("node %s not found", m.Node())
	}
	if q.isDown(topic, m.Node()) {
		q.e.Probe("fault.replica_missed_" + shortTopic(topic))
		return nil, fmt.Errorf("failed to get stream for node %s: unreachable", m.Node())
	}
	return q.deliver(topic, m.Node(), m), nil
}

func (q *simQueue) Broadcast(_ time.Duration, topic bus.Topic, m bus.Message) ([]bus.Future, error) {
	var out []bus.Future
	var errs []string
	active := 0
	for _, n := range q.nodes {
		if q.isDown(topic, n) {
			q.e.Probe("fault.replica_missed_" + shortTopic(topic))
			if q.failBroadcast[topic.String()] {
				active++
				errs = append(errs, "failed to publish message to "+n)
			}
			continue
		}
		active++
		out = append(out, q.deliver(topic, n, m))
	}
	if active == 0 {
		return nil, errors.New("no active nodes")
	}
	if len(errs) > 0 {
		return out, fmt.Errorf("broadcast errors: %s", strings.Join(errs, "; "))
	}
	return out, nil
}

func shortTopic(t bus.Topic) string {
	switch t {
	case data.TopicPropertyUpdate:
		return "update"
	case data.TopicPropertyDelete:
		return "delete"
	case data.TopicPropertyRepair:
		return "read_repair"
	case data.TopicPropertyQuery:
		return "query"
	}
	return "other"
}

// ---------------------------------------------------------------------------------------------
// scenario (a): the property store is a last-writer-wins map

type mkey struct{ name, id string }

func (k mkey) String() string { return k.name + "/" + k.id }

type mval struct {
	tags     map[string]string
	prevTags map[string]string // tags before the last apply (nil if none): for classification only
	lastOp   string            // "merge" / "replace": for classification only
	ver      int               // counts successful applies of this key
	inc      int               // counts creations (apply on an absent key)
	live     bool
}

type observed struct {
	modByVer     map[int]int64
	createdByInc map[int]int64
	lastVer      int
	lastMod      int64
}

type lww struct {
	e       *simcore.Env
	tp      *simcore.Tape
	q       *simQueue
	srv     propertyv1.PropertyServiceServer
	model   map[mkey]*mval
	obs     map[mkey]*observed
	keys    []mkey
	names   []string
	history []string
	nodes   []string
	opSeq   int
	faults  bool
	// classSuffix narrows the violation class while a fault-specific check runs; oneClass (long-history) collapses all classes
	classSuffix string
	// missedDelete: keys whose acknowledged delete did not reach every replica and that were NOT queried right away
	// (the query's read repair would bring the replicas back in line): the stale copy stays until something repairs it
	missedDelete map[mkey]bool
	oneClass     string
	notesOnly   bool // long-history: observed answers are notes, the canonical history is the program
	pending     string
}

func (w *lww) hist(format string, a ...any) {
	s := fmt.Sprintf(format, a...)
	w.history = append(w.history, s)
	if w.notesOnly {
		w.e.Note("%s", s)
		return
	}
	w.e.Event("%s", s)
}

// planFaults draws, for one client operation, which replica misses which kind of message.
// kind: "apply" (update + tombstones for older revisions), "delete" (tombstones), "query" (read-repair).
func (w *lww) planFaults(kind string) (desc string, deleteMissed bool, deleteFails bool) {
	explicitDelete := kind == "delete"
	topics := map[string][]bus.Topic{
		"apply": {data.TopicPropertyUpdate, data.TopicPropertyDelete}, "delete": {data.TopicPropertyDelete}, "query": {data.TopicPropertyRepair},
	}[kind]
	w.q.unreachable = map[string]map[string]bool{}
	w.q.failBroadcast = map[string]bool{}
	if !w.faults {
		return "", false, false
	}
	var parts []string
	for _, topic := range topics {
		m := map[string]bool{}
		cnt := 0
		for _, n := range w.nodes {
			if w.tp.Bool(1, 5) {
				m[n] = true
				cnt++
			}
		}
		strict := topic == data.TopicPropertyUpdate || (topic == data.TopicPropertyDelete && explicitDelete)
		if strict && cnt == len(w.nodes) {
			// at least one replica is reachable for the write itself (otherwise the operation does not happen)
			delete(m, w.nodes[w.tp.Choose(len(w.nodes))])
			cnt--
		}
		if cnt > 0 {
			w.q.unreachable[topic.String()] = m
			parts = append(parts, shortTopic(topic)+"!"+strings.Join(simcore.SortedKeys(m), "+"))
			if topic == data.TopicPropertyDelete && explicitDelete {
				deleteMissed = true
				if w.tp.Bool(1, 3) {
					w.q.failBroadcast[topic.String()] = true
					deleteFails = true
					parts = append(parts, "delete-broadcast-reports-error")
				}
			}
		}
	}
	if len(parts) == 0 {
		return "", false, false
	}
	return " faults[" + strings.Join(parts, " ") + "]", deleteMissed, deleteFails
}

func (w *lww) clearFaults() {
	w.q.unreachable = map[string]map[string]bool{}
	w.q.failBroadcast = map[string]bool{}
}

func (w *lww) apply(k mkey, strategy propertyv1.ApplyRequest_Strategy, tagKeys []string) bool {
	w.opSeq++
	tags, tm := mkTags(w.opSeq, tagKeys)
	fdesc, _, _ := w.planFaults("apply")
	sname := map[propertyv1.ApplyRequest_Strategy]string{
		propertyv1.ApplyRequest_STRATEGY_UNSPECIFIED: "merge(default)",
		propertyv1.ApplyRequest_STRATEGY_MERGE:       "merge", propertyv1.ApplyRequest_STRATEGY_REPLACE: "replace",
	}[strategy]
	_, err := w.srv.Apply(context.Background(), &propertyv1.ApplyRequest{
		Property: &propertyv1.Property{Metadata: &commonv1.Metadata{Group: groupName, Name: k.name}, Id: k.id, Tags: tags},
		Strategy: strategy,
	})
	synctest.Wait()
	w.clearFaults()
	w.hist("#%d apply %s %s {%s}%s -> err=%v", w.opSeq, k, sname, renderModelTags(tm), fdesc, err != nil)
	if err != nil {
		w.fail("operations-succeed", "apply-error", "apply of %s failed although a replica was reachable: %v", k, err)
		return false
	}
	mv := w.model[k]
	if mv == nil {
		mv = &mval{}
		w.model[k] = mv
	}
	delete(w.missedDelete, k) // the key is written again: what follows is judged exactly
	mv.ver++
	mv.lastOp = "merge"
	if strategy == propertyv1.ApplyRequest_STRATEGY_REPLACE {
		mv.lastOp = "replace"
	}
	if !mv.live {
		mv.inc++
		mv.live = true
		mv.prevTags = nil
		mv.tags = tm
		return true
	}
	mv.prevTags = mv.tags
	nt := map[string]string{}
	if mv.lastOp == "merge" {
		for tk, tv := range mv.tags {
			nt[tk] = tv
		}
		for tk := range mv.tags {
			if _, over := tm[tk]; !over {
				w.e.Probe("reach.merge_kept_old_tag")
				break
			}
		}
	} else {
		for tk := range mv.tags {
			if _, over := tm[tk]; !over {
				w.e.Probe("reach.replace_dropped_tag")
				break
			}
		}
	}
	for tk, tv := range tm {
		nt[tk] = tv
	}
	mv.tags = nt
	return true
}

// del deletes one key (id != "") or all keys of a name.
func (w *lww) del(name, id string) bool {
	w.opSeq++
	fdesc, missed, fails := w.planFaults("delete")
	_, err := w.srv.Delete(context.Background(), &propertyv1.DeleteRequest{Group: groupName, Name: name, Id: id})
	synctest.Wait()
	w.clearFaults()
	w.hist("#%d delete %s/%s%s -> err=%v", w.opSeq, name, id, fdesc, err != nil)
	if fails {
		if err == nil {
			// nothing live was found, so nothing was broadcast: fine
			fails = false
		} else {
			// the client was told the delete failed: it retries (no fault this time)
			w.e.Probe("reach.delete_retried_after_error")
			_, err = w.srv.Delete(context.Background(), &propertyv1.DeleteRequest{Group: groupName, Name: name, Id: id})
			synctest.Wait()
			w.hist("#%d delete %s/%s (retry) -> err=%v", w.opSeq, name, id, err != nil)
			if err != nil {
				// the first attempt reached every replica that held a live copy: the retry finds nothing
				// live and the server answers "id is empty". The key is deleted; the queries below verify it.
				w.e.Probe("reach.delete_retry_found_nothing_live")
				err = nil
			}
		}
	}
	var affected []mkey
	for _, k := range w.keys {
		if k.name == name && (id == "" || k.id == id) {
			if mv := w.model[k]; mv != nil && mv.live {
				affected = append(affected, k)
			}
		}
	}
	if err != nil {
		if len(affected) == 0 {
			// Deleting something that is absent or already deleted leaves the map unchanged whatever the
			// reply is (the server answers "id is empty" here); the property does not speak about the reply.
			w.e.Probe("reach.delete_of_absent_key_reports_error")
			return true
		}
		w.fail("operations-succeed", "delete-error", "delete of live %s/%s failed although a replica was reachable: %v", name, id, err)
		return false
	}
	for _, k := range affected {
		mv := w.model[k]
		mv.live = false
		mv.tags = nil
		mv.prevTags = nil
	}
	if missed && !fails && len(affected) > 0 {
		// A replica did not see a delete that the client was told had succeeded. Which of the two
		// equal-revision answers (tombstone / live) the liaison keeps must not depend on the order in
		// which nodes answer (it iterates a Go map of node answers; with three nodes a given node comes
		// first in as few as 1 of 8 iterations): ask often enough, right away, that an order-dependent
		// answer shows in this run and not in a later operation.
		w.e.Probe("reach.delete_missed_by_replica")
		if w.tp.Side().Bool(1, 2) {
			// do NOT query now: the replica keeps its stale copy while later operations (an apply on top of the deleted
			// key, another delete, a query much later) run
			if w.missedDelete == nil {
				w.missedDelete = map[mkey]bool{}
			}
			for _, k := range affected {
				w.missedDelete[k] = true
			}
			w.e.Probe("reach.stale_replica_left_unrepaired")
			w.hist("#%d (no query after the missed delete: the stale replica is left as it is)", w.opSeq)
			return true
		}
		w.classSuffix = "-after-replica-missed-the-delete"
		for _, k := range affected {
			if !w.query(k.name, []string{k.id}, 0, 64) {
				return false
			}
		}
		w.classSuffix = ""
	}
	return true
}

// query runs one Query (reps times) and compares the answer with the model. sorted: 0 none, 1 asc, 2 desc.
func (w *lww) query(name string, ids []string, sorted int, reps int) bool {
	w.opSeq++
	w.clearFaults()
	if reps == 1 {
		// a read-repair triggered by this query may not reach some replica
		if fdesc, _, _ := w.planFaults("query"); fdesc != "" {
			w.hist("#%d query%s", w.opSeq, fdesc)
		}
	}
	defer w.clearFaults()
	for r := 0; r < reps; r++ {
		req := &propertyv1.QueryRequest{Groups: []string{groupName}, Name: name, Ids: append([]string(nil), ids...)}
		if sorted > 0 {
			req.OrderBy = &propertyv1.QueryOrder{TagName: "ord", Sort: []modelv1.Sort{modelv1.Sort_SORT_ASC, modelv1.Sort_SORT_DESC}[sorted-1]}
		}
		resp, err := w.srv.Query(context.Background(), req)
		synctest.Wait() // lets the read-repair queue drain
		if err != nil {
			w.hist("#%d query %s %v -> error", w.opSeq, name, ids)
			w.fail("operations-succeed", "query-error", "query failed: %v", err)
			return false
		}
		if !w.checkAnswer(name, ids, sorted, resp.Properties, r) {
			return false
		}
	}
	return true
}

// logAnswer records an answer; repetitions of the same query are only recorded when they fail the oracle.
func (w *lww) logAnswer(rep int, format string, a ...any) {
	if rep == 0 {
		w.pending = ""
		w.hist(format, a...)
		return
	}
	w.pending = fmt.Sprintf(format, a...) + fmt.Sprintf(" (asked again, #%d)", rep+1)
}

func (w *lww) checkAnswer(name string, ids []string, sorted int, props []*propertyv1.Property, rep int) bool {
	want := map[mkey]bool{}
	for _, k := range w.keys {
		if k.name != name {
			continue
		}
		if len(ids) > 0 {
			in := false
			for _, id := range ids {
				in = in || id == k.id
			}
			if !in {
				continue
			}
		}
		want[k] = true
	}
	got := map[mkey]*propertyv1.Property{}
	var gotDesc []string
	for _, p := range props {
		k := mkey{p.GetMetadata().GetName(), p.GetId()}
		gotDesc = append(gotDesc, fmt.Sprintf("%s{%s}", k, renderTags(p.Tags)))
		if _, dup := got[k]; dup {
			sort.Strings(gotDesc)
			w.logAnswer(rep, "#%d query %s %v sorted=%d -> %v", w.opSeq, name, ids, sorted, gotDesc)
			w.fail("one-answer-per-key", "key-returned-twice", "key %s appears more than once in one answer: %v", k, gotDesc)
			return false
		}
		got[k] = p
	}
	sort.Strings(gotDesc)
	w.logAnswer(rep, "#%d query %s %v sorted=%d -> %v", w.opSeq, name, ids, sorted, gotDesc)
	for k, p := range got {
		_ = p
		if !want[k] {
			w.fail("lww-map", "unrequested-key-returned", "query name=%s ids=%v returned %s", name, ids, k)
			return false
		}
	}
	var wk []mkey
	for k := range want {
		wk = append(wk, k)
	}
	sort.Slice(wk, func(i, j int) bool { return wk[i].String() < wk[j].String() })
	for _, k := range wk {
		mv := w.model[k]
		p := got[k]
		if mv == nil || !mv.live {
			if p != nil {
				if mv == nil {
					w.fail("lww-map", "never-written-key-returned", "key %s was never written but is returned {%s}", k, renderTags(p.Tags))
				} else {
					cls := "deleted-key-returned"
					if w.missedDelete[k] && w.classSuffix == "" {
						cls += "-after-replica-missed-the-delete" // the delete reached no replica that holds the value (recorded finding)
					}
					w.fail("lww-map", cls, "key %s is deleted but the query returns {%s} (mod_revision %d)", k, renderTags(p.Tags), p.Metadata.GetModRevision())
				}
				return false
			}
			continue
		}
		if p == nil {
			w.fail("lww-map", "live-key-missing", "key %s is live {%s} but the query does not return it", k, renderModelTags(mv.tags))
			return false
		}
		if g, wnt := renderTags(p.Tags), renderModelTags(mv.tags); g != wnt {
			class := "value-mismatch"
			switch {
			case mv.prevTags != nil && g == renderModelTags(mv.prevTags):
				class = "stale-value-returned"
			case mv.lastOp == "merge" && missingKey(p.Tags, mv.tags):
				class = "merge-dropped-earlier-tag"
			case mv.lastOp == "replace" && extraKey(p.Tags, mv.tags):
				class = "replace-kept-earlier-tag"
			}
			w.fail("lww-map", class, "key %s: query returns {%s}, the map holds {%s} (last apply: %s)", k, g, wnt, mv.lastOp)
			return false
		}
		// revisions
		o := w.obs[k]
		if o == nil {
			o = &observed{modByVer: map[int]int64{}, createdByInc: map[int]int64{}}
			w.obs[k] = o
		}
		mod, created := p.Metadata.GetModRevision(), p.Metadata.GetCreateRevision()
		if prev, seen := o.modByVer[mv.ver]; seen {
			if prev != mod {
				w.fail("mod-revision", "mod-revision-changed-without-write", "key %s version %d: mod_revision was %d, now %d", k, mv.ver, prev, mod)
				return false
			}
		} else {
			if o.lastVer > 0 && mod <= o.lastMod {
				w.fail("mod-revision", "mod-revision-not-increasing", "key %s: version %d had mod_revision %d, later version %d has %d", k, o.lastVer, o.lastMod, mv.ver, mod)
				return false
			}
			o.modByVer[mv.ver] = mod
			o.lastVer, o.lastMod = mv.ver, mod
		}
		if prev, seen := o.createdByInc[mv.inc]; seen {
			if prev != created {
				w.fail("create-revision", "create-revision-not-stable", "key %s: create_revision was %d, after an update it is %d", k, prev, created)
				return false
			}
			if mv.ver > 1 {
				w.e.Probe("reach.create_revision_checked_across_update")
			}
		} else {
			o.createdByInc[mv.inc] = created
		}
	}
	return true
}

func (w *lww) fail(oracle, class, format string, a ...any) {
	if w.pending != "" {
		w.history = append(w.history, w.pending)
		w.pending = ""
	}
	if w.oneClass != "" {
		// long-history: every divergence from the map is one class (the detailed one is kept in the message)
		w.e.Fail("long-history", w.oneClass, "[%s:%s] %s\nhistory:\n%s", oracle, class, fmt.Sprintf(format, a...), strings.Join(w.tail(), "\n"))
		return
	}
	w.e.Fail(oracle, class+w.classSuffix, "%s\nhistory:\n%s", fmt.Sprintf(format, a...), strings.Join(w.history, "\n"))
}

// tail abbreviates a long history for messages.
func (w *lww) tail() []string {
	h := w.history
	if len(h) > 24 {
		h = append(append([]string{}, h[:3]...), append([]string{fmt.Sprintf("... %d more lines ...", len(h)-19)}, h[len(h)-16:]...)...)
	}
	return h
}

func missingKey(got []*modelv1.Tag, want map[string]string) bool {
	have := map[string]bool{}
	for _, t := range got {
		have[t.Key] = true
	}
	for k := range want {
		if !have[k] {
			return true
		}
	}
	return false
}

func extraKey(got []*modelv1.Tag, want map[string]string) bool {
	for _, t := range got {
		if _, ok := want[t.Key]; !ok {
			return true
		}
	}
	return false
}

type cluster struct {
	srv   propertyv1.PropertyServiceServer
	q     *simQueue
	nodes []string
	dbs   []propdb.Database
}

// newCluster builds nNodes data nodes (real db + real listeners), the queue stand-in, the real node
// selector/registry and the real liaison property server.
func newCluster(e *simcore.Env, cleanup func(func()), nNodes, copies, shards int, names []string) *cluster {
	repo := &metaRepo{Repo: simmeta.New(), props: map[string]*databasev1.Property{}}
	for _, n := range names {
		repo.props[groupName+"/"+n] = &databasev1.Property{Metadata: &commonv1.Metadata{Group: groupName, Name: n}, Tags: tagSpecs}
	}
	q := &simQueue{e: e, lis: map[string]map[string]bus.MessageListener{}, delivered: map[string]int{}}
	c := &cluster{q: q}
	for i := 0; i < nNodes; i++ {
		name := fmt.Sprintf("node-%c", 'a'+i)
		d, closeDB, err := openDB(filepath.Join(e.Dir, name))
		if err != nil {
			panic(err)
		}
		cleanup(closeDB)
		u, dl, qr, rp := property.VerifDataNodeListeners(d, name)
		q.lis[name] = map[string]bus.MessageListener{
			data.TopicPropertyUpdate.String(): u, data.TopicPropertyDelete.String(): dl,
			data.TopicPropertyQuery.String(): qr, data.TopicPropertyRepair.String(): rp,
		}
		q.nodes = append(q.nodes, name)
		c.dbs = append(c.dbs, d)
	}
	c.nodes = q.nodes
	sel := node.NewRoundRobinSelector(data.TopicPropertyUpdate.String(), repo)
	if err := sel.PreRun(context.Background()); err != nil {
		panic(err)
	}
	reg := lgrpc.NewClusterNodeRegistry(data.TopicPropertyUpdate, q, sel)
	stop := make(chan struct{})
	cleanup(func() { close(stop) })
	c.srv = lgrpc.VerifNewPropertyServer(repo, q, reg, 128, stop)
	for _, n := range q.nodes {
		reg.(schema.EventHandler).OnAddOrUpdate(schema.Metadata{
			TypeMeta: schema.TypeMeta{Kind: schema.KindNode, Name: n},
			Spec:     &databasev1.Node{Metadata: &commonv1.Metadata{Name: n}, Roles: []databasev1.Role{databasev1.Role_ROLE_DATA}},
		})
	}
	if _, err := repo.CreateGroup(context.Background(), &commonv1.Group{
		Metadata:     &commonv1.Metadata{Name: groupName},
		Catalog:      commonv1.Catalog_CATALOG_PROPERTY,
		ResourceOpts: &commonv1.ResourceOpts{ShardNum: uint32(shards), Replicas: uint32(copies - 1)},
	}); err != nil {
		panic(err)
	}
	return c
}

var tagKeyPool = []string{"a", "b", "c", "n"}

func runLWW(e *simcore.Env, tp *simcore.Tape) {
	bubble(e, func(cleanup func(func())) {
		nNodes := 1 + tp.Weighted(3, 4, 3)
		faults := nNodes > 1 && tp.Bool(1, 2)
		copies := nNodes
		if !faults {
			copies = tp.Range(1, nNodes)
		}
		shards := tp.Range(1, 2)
		nNames := tp.Range(1, 2)
		nIDs := tp.Range(1, 3)
		nOps := tp.Range(6, 36)
		var names []string
		for i := 0; i < nNames; i++ {
			names = append(names, fmt.Sprintf("p%d", i))
		}
		cl := newCluster(e, cleanup, nNodes, copies, shards, names)
		w := &lww{e: e, tp: tp, q: cl.q, srv: cl.srv, model: map[mkey]*mval{}, obs: map[mkey]*observed{}, names: names, nodes: cl.nodes, faults: faults}
		for _, n := range names {
			for i := 0; i < nIDs; i++ {
				w.keys = append(w.keys, mkey{n, fmt.Sprintf("k%d", i)})
			}
		}
		w.hist("cluster nodes=%d copies=%d shards=%d names=%v ids=%d faults=%v", nNodes, copies, shards, names, nIDs, faults)
		ok := true
		for i := 0; i < nOps && ok; i++ {
			tick(e, tp)
			e.Step()
			k := w.keys[tp.Choose(len(w.keys))]
			switch tp.Weighted(4, 3, 2, 4, 2, 1, 1) {
			case 0, 1: // apply
				strategy := []propertyv1.ApplyRequest_Strategy{
					propertyv1.ApplyRequest_STRATEGY_MERGE, propertyv1.ApplyRequest_STRATEGY_REPLACE, propertyv1.ApplyRequest_STRATEGY_UNSPECIFIED,
				}[tp.Weighted(4, 4, 1)]
				tagKeys := []string{"ord"}
				for _, tk := range tagKeyPool {
					if tp.Bool(2, 5) {
						tagKeys = append(tagKeys, tk)
					}
				}
				ok = w.apply(k, strategy, tagKeys)
				if ok && tp.Bool(1, 2) {
					ok = w.query(k.name, []string{k.id}, 0, 1)
				}
			case 2: // delete one key
				ok = w.del(k.name, k.id)
			case 3: // query one key
				ok = w.query(k.name, []string{k.id}, 0, 1)
			case 4: // list all keys of a name
				ok = w.query(k.name, nil, 0, 1)
			case 5: // list, ordered by a tag (second dedup implementation)
				ok = w.query(k.name, nil, 1+tp.Choose(2), 1)
			case 6: // delete all keys of a name
				ok = w.del(k.name, "")
			}
		}
		if ok {
			tick(e, tp)
			for _, n := range names {
				if ok = w.query(n, nil, 0, 1); !ok {
					break
				}
			}
		}
		cl.q.mu.Lock()
		e.ProbeN("reach.read_repair_delivered", cl.q.delivered[data.TopicPropertyRepair.String()])
		cl.q.mu.Unlock()
		writes := 0
		for _, mv := range w.model {
			writes += mv.ver
		}
		if writes > 0 {
			e.Nontrivial()
		}
		e.SetSample(map[string]any{"history": w.history})
	})
}

// runLongHistory: one key collects 125-150 revisions (every revision is a document of its own on the data
// node until its tombstone expires, 7 days by default), queried after every apply once it has 90.
// What the data node returns first once a key has many documents depends on the index's background
// merges, which are not under the simulator's control: the canonical history of this scenario is therefore
// the program (drawn from the tape up front), the observed answers are kept as notes only, and the program
// is long enough that a dependence on the number of revisions shows for any tape.
func runLongHistory(e *simcore.Env, tp *simcore.Tape) {
	bubble(e, func(cleanup func(func())) {
		type step struct {
			tagKeys  []string
			d        time.Duration
			strategy propertyv1.ApplyRequest_Strategy
			del      bool
		}
		nNodes := 1 + tp.Weighted(3, 1)
		nApplies := 125 + tp.Choose(26)
		var prog []step
		for i := 0; i < nApplies; i++ {
			st := step{d: tickDur(tp)}
			if tp.Bool(1, 40) {
				st.del = true
			} else {
				st.strategy = []propertyv1.ApplyRequest_Strategy{propertyv1.ApplyRequest_STRATEGY_MERGE, propertyv1.ApplyRequest_STRATEGY_REPLACE}[tp.Weighted(5, 1)]
				st.tagKeys = []string{"ord"}
				for _, tk := range tagKeyPool {
					if tp.Bool(1, 4) {
						st.tagKeys = append(st.tagKeys, tk)
					}
				}
			}
			prog = append(prog, st)
			e.Event("step %d: +%v del=%v %v %v", i, st.d, st.del, st.strategy, st.tagKeys)
		}
		e.Event("cluster nodes=%d", nNodes)
		cl := newCluster(e, cleanup, nNodes, nNodes, 1, []string{"p0"})
		w := &lww{e: e, tp: tp, q: cl.q, srv: cl.srv, model: map[mkey]*mval{}, obs: map[mkey]*observed{}, names: []string{"p0"}, nodes: cl.nodes}
		w.oneClass = "history-of-one-key-diverges-from-map"
		w.notesOnly = true
		w.keys = []mkey{{"p0", "k0"}, {"p0", "k1"}}
		w.hist("cluster nodes=%d steps=%d", nNodes, len(prog))
		ok := true
		k := w.keys[0]
		for _, st := range prog {
			if !ok {
				break
			}
			sleep(e, st.d)
			e.Step()
			if st.del {
				ok = w.del(k.name, k.id)
				continue
			}
			ok = w.apply(k, st.strategy, st.tagKeys)
			if ok && w.model[k].ver >= 90 {
				ok = w.query(k.name, []string{k.id}, 0, 1)
			}
		}
		if ok {
			sleep(e, time.Millisecond)
			ok = w.query("p0", nil, 0, 1) && w.query("p0", nil, 1, 1)
		}
		if w.model[k] != nil && w.model[k].ver >= 100 {
			e.Probe("reach.key_with_100_revisions")
		}
		e.Nontrivial()
		e.SetSample(map[string]any{"history": w.tail()})
	})
}

// ---------------------------------------------------------------------------------------------
// scenario (b): anti-entropy repair is monotone and convergent

// rstate is what one replica holds for one key: its highest-revision document.
type rstate struct {
	tags    string
	rev     int64
	present bool
	tomb    bool
	ambig   bool // several documents at the highest revision disagree on deleted/live
}

// less orders replica states: absent < any revision; lower revision < higher; at equal revision the
// tombstone is the later write (a delete of revision R happens after R was written).
func (a rstate) less(b rstate) bool {
	if !a.present || !b.present {
		return !a.present && b.present
	}
	if a.rev != b.rev {
		return a.rev < b.rev
	}
	return !a.tomb && b.tomb
}

func (a rstate) same(b rstate) bool {
	if a.present != b.present || !a.present {
		return a.present == b.present
	}
	if a.rev != b.rev || a.tomb != b.tomb {
		return false
	}
	return a.tomb || a.tags == b.tags
}

func (a rstate) String() string {
	switch {
	case !a.present:
		return "absent"
	case a.tomb:
		return fmt.Sprintf("tombstone@r%d", a.rev)
	}
	return fmt.Sprintf("live@r%d{%s}", a.rev, a.tags)
}

type rep struct {
	e       *simcore.Env
	tp      *simcore.Tape
	base    int64 // revision are printed relative to the start of the run
	dbs     []propdb.Database
	keys    []string
	history []string
}

const repName = "p"

func (r *rep) hist(format string, a ...any) {
	s := fmt.Sprintf(format, a...)
	r.history = append(r.history, s)
	r.e.Event("%s", s)
}

func (r *rep) fail(oracle, class, format string, a ...any) {
	r.e.Fail(oracle, class, "%s\nhistory:\n%s", fmt.Sprintf(format, a...), strings.Join(r.history, "\n"))
}

type rdoc struct {
	p          *propertyv1.Property
	id         []byte
	deleteTime int64
}

func (r *rep) docs(i int, key string) []rdoc {
	res, err := r.dbs[i].Query(context.Background(), &propertyv1.QueryRequest{Groups: []string{groupName}, Name: repName, Ids: []string{key}, Limit: 10000})
	if err != nil {
		panic(fmt.Sprintf("replica %d query: %v", i, err))
	}
	var out []rdoc
	for _, q := range res {
		var p propertyv1.Property
		if err = protojson.Unmarshal(q.Source(), &p); err != nil {
			panic(err)
		}
		out = append(out, rdoc{p: &p, id: q.ID(), deleteTime: q.DeleteTime()})
	}
	return out
}

func (r *rep) state(i int, key string) rstate {
	var st rstate
	for _, d := range r.docs(i, key) {
		rev := d.p.Metadata.GetModRevision()
		tomb := d.deleteTime > 0
		switch {
		case !st.present || rev > st.rev:
			st = rstate{present: true, rev: rev, tomb: tomb, tags: renderTags(d.p.Tags)}
		case rev == st.rev && tomb != st.tomb:
			st.ambig = true
		}
	}
	if st.present {
		st.rev -= r.base
	}
	return st
}

func (r *rep) states(key string) []rstate {
	out := make([]rstate, len(r.dbs))
	for i := range r.dbs {
		out[i] = r.state(i, key)
	}
	return out
}

// liveIDs is what the liaison collects before a delete / after an apply: the ids of all documents of the key
// that are not deleted on some replica (optionally only those older than rev).
func (r *rep) liveIDs(key string, olderThan int64) [][]byte {
	seen := map[string]bool{}
	for i := range r.dbs {
		for _, d := range r.docs(i, key) {
			if d.deleteTime > 0 || (olderThan > 0 && d.p.Metadata.GetModRevision() >= olderThan) {
				continue
			}
			seen[string(propdb.GetPropertyID(d.p))] = true
		}
	}
	var out [][]byte
	for _, s := range simcore.SortedKeys(seen) {
		out = append(out, []byte(s))
	}
	return out
}

// receivers draws which replicas get a message; at least one does.
func (r *rep) receivers() ([]int, string) {
	must := r.tp.Choose(len(r.dbs))
	var out []int
	var names []string
	for i := range r.dbs {
		if i == must || !r.tp.Bool(2, 5) {
			out = append(out, i)
			names = append(names, fmt.Sprintf("R%d", i))
		} else {
			r.e.Probe("fault.replica_missed_update")
		}
	}
	return out, strings.Join(names, "+")
}

// push sends from's document of key to `to` through the public Database.Repair (what the repair listener
// runs for the liaison's read-repair and what both gossip sides run per received property).
func (r *rep) push(from, to int, key string) string {
	ctx := context.Background()
	entity := strings.Join([]string{groupName, repName, key}, "/")
	id, p, dt, found, err := propdb.VerifGossipLatest(ctx, r.dbs[from], groupName, 0, entity)
	if err != nil {
		panic(err)
	}
	if !found {
		return "nothing-to-send"
	}
	if err = r.dbs[to].Repair(ctx, id, 0, p, dt); err != nil {
		r.fail("operations-succeed", "repair-error", "Repair on R%d failed: %v", to, err)
		return "error"
	}
	return "sent"
}

// gossip plays the per-key part of one gossip round between client c and server s exactly as
// repairGossipClient/Server do: c sends its document (or "missing"), s runs shard.repair and, when it is
// not updated and holds a newer document, sends that back; c then runs shard.repair on it.
func (r *rep) gossip(c, s int, key string) string {
	ctx := context.Background()
	entity := strings.Join([]string{groupName, repName, key}, "/")
	id, p, dt, found, err := propdb.VerifGossipLatest(ctx, r.dbs[c], groupName, 0, entity)
	if err != nil {
		panic(err)
	}
	if !found {
		// PropertyMissing: the server answers with its document, the client repairs, nothing is sent back
		sid, sp, sdt, sfound, sErr := propdb.VerifGossipLatest(ctx, r.dbs[s], groupName, 0, entity)
		if sErr != nil {
			panic(sErr)
		}
		if !sfound {
			return "both-missing"
		}
		if _, _, _, _, _, err = propdb.VerifShardRepair(ctx, r.dbs[c], 0, sid, sp, sdt); err != nil {
			r.fail("operations-succeed", "repair-error", "shard.repair on R%d failed: %v", c, err)
			return "error"
		}
		return "client-missing:server-sent"
	}
	updated, nid, nsrc, ndt, hasNewer, err := propdb.VerifShardRepair(ctx, r.dbs[s], 0, id, p, dt)
	if err != nil {
		r.fail("operations-succeed", "repair-error", "shard.repair on R%d failed: %v", s, err)
		return "error"
	}
	if updated {
		return "server-updated"
	}
	if !hasNewer {
		return "server-unchanged"
	}
	var np propertyv1.Property
	if err = protojson.Unmarshal(nsrc, &np); err != nil {
		panic(err)
	}
	cu, _, _, _, _, err := propdb.VerifShardRepair(ctx, r.dbs[c], 0, nid, &np, ndt)
	if err != nil {
		r.fail("operations-succeed", "repair-error", "shard.repair on R%d failed: %v", c, err)
		return "error"
	}
	return fmt.Sprintf("server-sent-back:client-updated=%v", cu)
}

// exchange performs one exchange and checks monotonicity on every replica.
func (r *rep) exchange(from, to int, key string, viaGossip bool, label string) bool {
	before := r.states(key)
	a, b := before[from], before[to]
	switch {
	case a.present && b.present && a.rev == b.rev:
		r.e.Probe("reach.equal_revision_exchange")
		if a.tomb != b.tomb {
			r.e.Probe("reach.equal_revision_tombstone_vs_live")
		}
	case a.present && b.present && a.tomb != b.tomb:
		r.e.Probe("reach.tombstone_vs_older_live")
	}
	if a.present && b.present && a.rev < b.rev {
		r.e.Probe("reach.receiver_holds_newer")
	}
	if a.present && !b.present {
		r.e.Probe("reach.receiver_missing_key")
	}
	var res string
	if viaGossip {
		res = r.gossip(from, to, key)
	} else {
		res = r.push(from, to, key)
	}
	if r.e.Failed() {
		return false
	}
	after := r.states(key)
	r.hist("%s %s R%d->R%d key=%s: %s | before %v after %v", label, map[bool]string{true: "gossip", false: "push"}[viaGossip], from, to, key, res, before, after)
	for i := range after {
		if after[i].ambig {
			r.fail("replica-state", "two-documents-at-highest-revision-disagree", "R%d holds a deleted and a live document of key %s at the same revision", i, key)
			return false
		}
		if after[i].less(before[i]) {
			class := "newer-local-replaced-by-older"
			if before[i].present && after[i].present && before[i].rev == after[i].rev && before[i].tomb && !after[i].tomb {
				class = "tombstone-resurrected-by-equal-revision-live"
			} else if before[i].present && after[i].present && before[i].tomb && !after[i].tomb {
				class = "tombstone-resurrected-by-older-live"
			}
			r.fail("repair-monotone", class, "exchange R%d->R%d of key %s: R%d went from %v to %v", from, to, key, i, before[i], after[i])
			return false
		}
		// an exchange only copies states: a replica ends with its own state or with the peer's, nothing else
		// (e.g. a live value must not turn into a tombstone that no participant held)
		if !after[i].same(before[i]) && !after[i].same(before[from]) && !after[i].same(before[to]) {
			r.fail("repair-monotone", "exchange-produced-a-state-nobody-held", "exchange R%d->R%d of key %s: R%d went from %v to %v; the participants held %v and %v",
				from, to, key, i, before[i], after[i], before[from], before[to])
			return false
		}
	}
	return true
}

func runRepair(e *simcore.Env, tp *simcore.Tape) {
	bubble(e, func(cleanup func(func())) {
		nRep := tp.Range(2, 4)
		nKeys := tp.Range(1, 3)
		nEv := tp.Range(2, 12)
		r := &rep{e: e, tp: tp, base: time.Now().UnixNano()}
		for i := 0; i < nRep; i++ {
			d, closeDB, err := openDB(filepath.Join(e.Dir, fmt.Sprintf("replica-%d", i)))
			if err != nil {
				panic(err)
			}
			cleanup(closeDB)
			r.dbs = append(r.dbs, d)
		}
		for i := 0; i < nKeys; i++ {
			r.keys = append(r.keys, fmt.Sprintf("k%d", i))
		}
		r.hist("replicas=%d keys=%v", nRep, r.keys)
		ctx := context.Background()
		created := map[string]int64{}
		// 1. divergent history
		for ev := 1; ev <= nEv; ev++ {
			tick(e, tp)
			e.Step()
			key := r.keys[tp.Choose(len(r.keys))]
			now := time.Now()
			if tp.Weighted(3, 1) == 0 {
				if created[key] == 0 {
					created[key] = now.UnixNano()
				}
				p := &propertyv1.Property{
					Metadata: &commonv1.Metadata{Group: groupName, Name: repName, ModRevision: now.UnixNano(), CreateRevision: created[key]},
					Id:       key, Tags: []*modelv1.Tag{strTag("a", fmt.Sprintf("a%d", ev))},
				}
				older := r.liveIDs(key, now.UnixNano())
				to, names := r.receivers()
				for _, i := range to {
					if err := r.dbs[i].Update(ctx, 0, propdb.GetPropertyID(p), proto.Clone(p).(*propertyv1.Property)); err != nil {
						panic(err)
					}
				}
				cleanupTo := "-"
				if len(older) > 0 {
					var ct []int
					ct, cleanupTo = r.receivers()
					for _, i := range ct {
						if err := r.dbs[i].Delete(ctx, older, now); err != nil {
							panic(err)
						}
					}
				}
				r.hist("ev%d update key=%s r%d {a=s:a%d} to %s; tombstones for %d older live docs to %s", ev, key, now.UnixNano()-r.base, ev, names, len(older), cleanupTo)
			} else {
				ids := r.liveIDs(key, 0)
				if len(ids) == 0 {
					r.hist("ev%d delete key=%s: nothing live", ev, key)
					continue
				}
				to, names := r.receivers()
				for _, i := range to {
					if err := r.dbs[i].Delete(ctx, ids, now); err != nil {
						panic(err)
					}
				}
				delete(created, key)
				r.hist("ev%d delete key=%s (%d live docs) at r%d to %s", ev, key, len(ids), now.UnixNano()-r.base, names)
			}
		}
		target := map[string]rstate{}
		diverged := false
		for _, k := range r.keys {
			sts := r.states(k)
			t := sts[0]
			for _, s := range sts[1:] {
				if t.less(s) {
					t = s
				}
				if !s.same(sts[0]) {
					diverged = true
				}
			}
			target[k] = t
			r.hist("after writes key=%s: %v target=%v", k, sts, t)
			for i, s := range sts {
				if s.ambig {
					r.fail("replica-state", "two-documents-at-highest-revision-disagree", "R%d holds a deleted and a live document of key %s at the same revision", i, k)
					return
				}
			}
		}
		if diverged {
			e.Nontrivial()
			e.Probe("reach.replicas_diverged")
		}
		// 2. arbitrary exchanges
		nEx := tp.Range(0, 8)
		var last [3]int
		for x := 0; x < nEx; x++ {
			tick(e, tp)
			e.Step()
			from := tp.Choose(nRep)
			to := (from + 1 + tp.Choose(nRep-1)) % nRep
			ki := tp.Choose(len(r.keys))
			if x > 0 && tp.Bool(1, 6) {
				from, to, ki = last[0], last[1], last[2]
				e.Probe("reach.duplicate_exchange")
			}
			last = [3]int{from, to, ki}
			if !r.exchange(from, to, r.keys[ki], tp.Bool(1, 2), fmt.Sprintf("x%d", x)) {
				return
			}
		}
		// 3. fair closing pass: every ordered pair exchanges every key once, in a tape-chosen order
		type pair struct{ from, to int }
		var pairs []pair
		for a := 0; a < nRep; a++ {
			for b := 0; b < nRep; b++ {
				if a != b {
					pairs = append(pairs, pair{a, b})
				}
			}
		}
		viaGossip := tp.Bool(1, 2)
		for len(pairs) > 0 {
			i := tp.Choose(len(pairs))
			pr := pairs[i]
			pairs = append(pairs[:i], pairs[i+1:]...)
			tick(e, tp)
			e.Step()
			for _, k := range r.keys {
				if !r.exchange(pr.from, pr.to, k, viaGossip, "closing") {
					return
				}
			}
		}
		for _, k := range r.keys {
			sts := r.states(k)
			r.hist("final key=%s: %v target=%v", k, sts, target[k])
			for i, s := range sts {
				if !s.same(target[k]) {
					class := "replica-differs-from-highest-revision"
					if s.present && target[k].present && s.rev == target[k].rev && s.tomb != target[k].tomb {
						class = "equal-revision-tombstone-lost"
					}
					r.fail("repair-converges", class, "after the closing pass R%d holds %v for key %s; the highest-revision state before the exchanges was %v (all: %v)", i, s, k, target[k], sts)
					return
				}
			}
		}
		e.Probe("reach.converged_checked")
		e.SetSample(map[string]any{"history": r.history})
	})
}
