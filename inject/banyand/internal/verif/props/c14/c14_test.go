// Package c14 decides property C14 (a segment is never closed or deleted while in use, and never leaks).
//
// The storage package's lock-taking files are compiled as cooperative-lock copies (gaterw mode B): every
// atomic load/CAS/store, every lock acquisition and every directory operation in segment.go / tsdb.go /
// rotation.go is preceded by a gate. Named actor goroutines park at armed gates; the driver decides at every
// quiescent point which parked goroutine proceeds. The oracle is a holder-count model kept by the harness.
package c14

import (
	"context"
	"errors"
	"fmt"
	"hash/fnv"
	"os"
	"path/filepath"
	"sort"
	"strings"
	"sync"
	"sync/atomic"
	"testing"
	"testing/synctest"
	"time"

	"github.com/apache/skywalking-banyandb/api/common"
	"github.com/apache/skywalking-banyandb/banyand/internal/storage"
	"github.com/apache/skywalking-banyandb/banyand/internal/verif/simnode"
	"github.com/apache/skywalking-banyandb/banyand/observability"
	"github.com/apache/skywalking-banyandb/pkg/fs"
	"github.com/apache/skywalking-banyandb/pkg/logger"
	"github.com/apache/skywalking-banyandb/pkg/meter"
	"github.com/apache/skywalking-banyandb/pkg/timestamp"
	"github.com/apache/skywalking-banyandb/pkg/verif/simcore"
)

func TestSim(t *testing.T) {
	simnode.InitLogging()
	simcore.Main(t, "C14", []simcore.Scenario{
		{Name: "schedules", Weight: 12, Run: runSchedules},
		{Name: "enumerate", Weight: 1, Run: runEnumerate},
		{Name: "node-balance", Weight: 3, Run: runNodeBalance},
	})
}

// ---------------------------------------------------------------------------------------------------
// recording table type

type tbl struct {
	loc    string
	marker string
	closed atomic.Bool
}

func (t *tbl) Close() error                        { t.closed.Store(true); return nil }
func (*tbl) Collect(storage.Metrics)               {}
func (*tbl) TakeFileSnapshot(string) (bool, error) { return false, nil }
func (t *tbl) put(v string) error {
	t.marker = v
	return os.WriteFile(filepath.Join(t.loc, "marker"), []byte(v), 0o600)
}
func newTbl(_ fs.FileSystem, root string, _ common.Position, _ *logger.Logger, _ timestamp.TimeRange, _ int, _ any) (*tbl, error) {
	t := &tbl{loc: root}
	if b, err := os.ReadFile(filepath.Join(root, "marker")); err == nil {
		t.marker = string(b)
	}
	return t, nil
}

type (
	seg  = storage.Segment[*tbl, int]
	tsdb = storage.TSDB[*tbl, int]
)

// ---------------------------------------------------------------------------------------------------
// programs

const (
	opSelR      = iota // SelectSegments(range, reopenClosed=true) .. hold .. DecRef
	opSelP             // SelectSegments(range, reopenClosed=false) .. hold .. DecRef
	opCreate           // CreateSegmentIfNotExist .. hold .. DecRef
	opIdle             // closeIdleSegments
	opRetention        // retention task run
	opForced           // DeleteOldestSegment
	opSnapshot         // TakeFileSnapshot
	opCollect          // metrics collect
	opTick             // Tick(now)
	opAdvance          // the clock moves (performed by the driver)
	opClose            // Close
	nOpKinds
)

var opNames = [...]string{"sel-reopen", "sel-peek", "create", "idle-close", "retention", "forced-delete", "snapshot", "collect", "tick", "advance", "close"}

type opSpec struct {
	kind   int
	lo, hi int // day indexes (select)
	day    int // create
	adv    int // 0: 11 min (idle ticker), 1: idle timeout + 1 min, 2: to just after the next 00:05
}

func (o opSpec) String() string {
	switch o.kind {
	case opSelR, opSelP:
		return fmt.Sprintf("%s[%d..%d]", opNames[o.kind], o.lo, o.hi)
	case opCreate:
		return fmt.Sprintf("create[%d]", o.day)
	case opAdvance:
		return fmt.Sprintf("advance[%s]", [...]string{"11m", "idle+1m", "next-cron"}[o.adv])
	}
	return opNames[o.kind]
}

type config struct {
	nSegs    int
	ttlDays  int
	idle     time.Duration
	touched  []bool // setup: segment accessed again just before the actors start (not idle-eligible)
	preClose bool   // setup: one idle-reclaim pass before the actors start (untouched segments start closed)
	armPct   int    // percentage of engine gate sites armed (100 = all)
	armSalt  uint64
	programs [][]opSpec
	maxFine  int // driver steps with engine gates armed; afterwards only harness gates park
	// pinnedOnly: the programs contain no operation that DecRefs results the engine did not pin (peek select, retention
	// pass, tick, clock jumps over a cron time): such runs judge everything else even while that family is a known finding
	pinnedOnly bool
	enumerate  bool
}

func genConfig(tp *simcore.Tape, enumerate bool) *config {
	c := &config{enumerate: enumerate}
	var nActors, maxOps int
	if enumerate {
		c.nSegs = tp.Range(2, 3)
		nActors = tp.Range(2, 3)
		maxOps = 3
		c.armPct = 100
		c.maxFine = 140
	} else {
		c.nSegs = tp.Range(1, 4)
		nActors = tp.Range(2, 4)
		maxOps = 4
		c.armPct = []int{50, 35, 65, 100}[tp.Weighted(5, 2, 2, 1)]
		c.maxFine = 100
	}
	c.armSalt = tp.U64()
	c.pinnedOnly = tp.Bool(1, 2)
	c.ttlDays = []int{2, 1, 3}[tp.Choose(3)]
	c.idle = []time.Duration{time.Hour, 30 * time.Minute, 2 * time.Hour}[tp.Choose(3)]
	c.touched = make([]bool, c.nSegs)
	for i := range c.touched {
		c.touched[i] = tp.Bool(1, 3)
	}
	c.preClose = tp.Bool(1, 3)
	closeUsed := false
	if !c.pinnedOnly && tp.Bool(1, 5) {
		// focused mix: a retention pass over expired segments against a multi-segment query (a select that meets a flagged
		// segment after it pinned newer ones must give those back)
		if c.nSegs < 3 {
			c.nSegs = 3
			c.touched = append(c.touched, false, false)[:3]
		}
		c.ttlDays = 1
		c.programs = append(c.programs, []opSpec{{kind: opRetention}}, []opSpec{{kind: opSelR, lo: 0, hi: c.nSegs - 1}, {kind: opSelR, lo: 0, hi: c.nSegs - 1}})
		nActors -= 2
	}
	if len(c.programs) == 0 && tp.Bool(1, 8) {
		// focused mix: the oldest segment is released, force-deleted and created again at about the same time
		c.programs = append(c.programs, []opSpec{{kind: opSelR, lo: 0, hi: 0}}, []opSpec{{kind: opForced}, {kind: opCreate, day: 0}})
		nActors -= 2
	}
	for a := 0; a < nActors; a++ {
		n := tp.Range(1, maxOps)
		var prog []opSpec
		for i := 0; i < n; i++ {
			//                 selR selP create idle ret forced snap coll tick adv close
			k := tp.Weighted(6, 5, 3, 4, 3, 4, 1, 1, 1, 2, 1)
			if k == opClose && closeUsed {
				k = opSelR
			}
			if k == opTick && enumerate {
				k = opSelP
			}
			if c.pinnedOnly {
				switch k {
				case opSelP:
					k = opSelR
				case opRetention:
					k = opForced
				case opTick:
					k = opIdle
				}
			}
			op := opSpec{kind: k}
			switch k {
			case opSelR, opSelP:
				op.lo = tp.Choose(c.nSegs)
				op.hi = op.lo + tp.Weighted(3, 2, 1)
				if op.hi > c.nSegs {
					op.hi = c.nSegs
				}
			case opCreate:
				op.day = c.nSegs - tp.Choose(c.nSegs+1) // 0 => tomorrow (new), else an existing day
				if tp.Bool(1, 2) {
					op.day = tp.Choose(c.nSegs + 1)
				}
			case opAdvance:
				op.adv = tp.Weighted(3, 3, 2)
				if c.pinnedOnly && op.adv == 2 {
					op.adv = 1
				}
			case opClose:
				closeUsed = true
			}
			prog = append(prog, op)
		}
		c.programs = append(c.programs, prog)
	}
	return c
}

func (c *config) describe() map[string]any {
	progs := map[string][]string{}
	for i, p := range c.programs {
		var l []string
		for _, o := range p {
			l = append(l, o.String())
		}
		progs[fmt.Sprintf("a%d", i)] = l
	}
	return map[string]any{"segments": c.nSegs, "ttl_days": c.ttlDays, "idle_timeout": c.idle.String(), "touched": c.touched, "pre_closed": c.preClose, "pinned_only": c.pinnedOnly,
		"armed_pct": c.armPct, "programs": progs}
}

// ---------------------------------------------------------------------------------------------------
// model

type segM struct {
	obj        seg
	name       string
	loc        string
	marker     string
	holders    int // acquisitions (reopen select / create) handed to actors and not yet given back
	results    int // unreleased result lists (reopen or peek) that contain the segment
	shards     int // tables the segment must show while held
	flagged    bool
	lateAcq    bool // handed out by an operation that Close overtook
	gone       bool
	superseded bool
}

type actor struct {
	name     string
	prog     []opSpec
	cur      string   // what the actor is doing right now
	trail    []string // what it did since the driver let it continue (cause attribution)
	advance  time.Duration
	inEngine bool
	done     bool
}

type chooser interface{ pick(n int) int }

type tapeChooser struct{ tp *simcore.Tape }

func (c tapeChooser) pick(n int) int {
	if n <= 1 {
		return 0
	}
	// biased to the default (0): a schedule is mostly sequential with a few context switches
	if !c.tp.Bool(2, 5) {
		return 0
	}
	return c.tp.Choose(n)
}

type prefixChooser struct {
	prefix  []int
	choices []int
	widths  []int
}

func (c *prefixChooser) pick(n int) int {
	i := len(c.choices)
	v := 0
	if i < len(c.prefix) {
		v = c.prefix[i]
		if v >= n {
			v = 0
		}
	}
	c.choices = append(c.choices, v)
	c.widths = append(c.widths, n)
	return v
}

type sim struct {
	e       *simcore.Env
	cfg     *config
	db      tsdb
	root    string
	base    time.Time // start of day index 0
	ttl     time.Duration
	segs    []*segM
	byObj   map[seg]*segM
	actors  []*actor
	byName  map[string]*actor
	sink    func(format string, a ...any)
	mu      sync.Mutex
	logMu   sync.Mutex
	quiet   bool   // wind-down: goroutines run concurrently, their log order is not canonical
	soft    string // first "refCount below holders" observation (reported at the end unless something harder follows)
	softCls string
	// evidence that a DecRef on a result the engine had NOT pinned was in play (family "holder-reference-stolen")
	evPeek   bool // a peeked, unpinned segment was DecRef'ed while its refCount was > 0
	evScan   bool // a retention pass (segments(false) .. DecRef) overlapped with another actor inside the engine
	tickSeen bool
	lastRun  string // actor released in the last driver step
	closing  bool
	tainted  bool // a known finding was hit: stop judging this schedule
	setup    bool
	fineOff  bool
	overlap  bool
	steps    int
	snapN    int
	// fullFinal: run the reopen + retention epilogue too
	fullFinal bool
}

const dayDur = 24 * time.Hour

var tolerate = strings.Split(os.Getenv("VERIF_C14_TOLERATE"), ",")

func (s *sim) logf(format string, a ...any) {
	s.logMu.Lock()
	if !s.quiet {
		s.sink(format, a...)
	}
	s.logMu.Unlock()
}

func (s *sim) dayOf(t time.Time) int { return int(t.Sub(s.base) / dayDur) }

func canon(sg seg) seg { return storage.VerifC14Canon[*tbl, int](sg) }

func (s *sim) reg(sg seg) *segM {
	sg = canon(sg)
	if m, ok := s.byObj[sg]; ok {
		return m
	}
	m := &segM{obj: sg, loc: sg.Location()}
	d := s.dayOf(sg.GetTimeRange().Start)
	m.name = fmt.Sprintf("S%d", d)
	gen := 1
	for _, o := range s.segs {
		if o.loc == m.loc {
			o.superseded = true
			gen++
		}
	}
	if gen > 1 {
		m.name = fmt.Sprintf("S%d/g%d", d, gen)
	}
	s.segs = append(s.segs, m)
	s.byObj[sg] = m
	return m
}

func (s *sim) names(l []seg) string {
	var out []string
	for _, sg := range l {
		out = append(out, s.reg(sg).name)
	}
	return "[" + strings.Join(out, " ") + "]"
}

// violate records a violation unless its class is a listed known finding (then the schedule is abandoned).
func (s *sim) violate(oracle, class, format string, a ...any) {
	if s.e.Failed() || s.tainted {
		return
	}
	for _, pre := range tolerate {
		// debugging aid (VERIF_C14_TOLERATE=<class prefix>,...): abandon schedules that hit these classes, keep judging the others
		if pre != "" && strings.HasPrefix(class, pre) {
			s.tainted = true
			s.e.Probe("reach.tolerated:" + pre)
			return
		}
	}
	if s.e.Known(oracle, class) {
		s.tainted = true
		s.logf("known finding %s:%s hit; schedule abandoned: %s", oracle, class, fmt.Sprintf(format, a...))
		return
	}
	s.logf("VIOLATION %s:%s: %s", oracle, class, fmt.Sprintf(format, a...))
	s.e.Fail(oracle, class, format, a...)
}

func (s *sim) stop() bool { return s.e.Failed() || s.tainted }

func dirExists(p string) bool {
	_, err := os.Stat(p)
	return err == nil
}

// cause names what the goroutine released in the last step was doing (stable text, part of the class).
func (s *sim) cause() string {
	if a := s.byName[s.lastRun]; a != nil && len(a.trail) > 0 {
		return strings.Join(a.trail, "+")
	}
	if strings.HasPrefix(s.lastRun, "bg/") {
		return "background-task"
	}
	return "none"
}

// check is the oracle, evaluated at every quiescent point.
func (s *sim) check(where string, parked []*simcore.Parked) {
	if s.stop() {
		return
	}
	s.mu.Lock()
	defer s.mu.Unlock()
	for _, sg := range storage.VerifC14Segments[*tbl, int](s.db) {
		s.reg(sg)
	}
	busy := 0
	for _, a := range s.actors {
		if a.inEngine {
			busy++
		}
	}
	bgBusy := false
	for _, p := range parked {
		if strings.HasPrefix(p.Actor, "bg/") {
			bgBusy = true
		}
	}
	if busy >= 2 {
		s.overlap = true
	}
	creating := bgBusy
	scanning := false
	for _, a := range s.actors {
		if a.inEngine && a.cur == "create" {
			creating = true
		}
		if a.inEngine && a.cur == "retention" {
			scanning = true
		}
	}
	for _, p := range parked {
		if strings.HasPrefix(p.Actor, "bg/") && (strings.Contains(p.Actor, "GoWithSignal") || s.tickSeen) {
			scanning = true
			busy++
		}
	}
	if scanning {
		s.evScan = true // a retention pass (segments(false) .. DecRef) has begun
	}
	for _, m := range s.segs {
		st := storage.VerifC14State[*tbl, int](m.obj)
		dir := dirExists(m.loc)
		if st.MustBeDeleted {
			m.flagged = true
		}
		if m.holders > 0 && !s.closing {
			switch {
			case !dir && !m.superseded && !st.MustBeDeleted && s.lateDeleteOfPredecessor(where, m):
				return
			case !dir && !m.superseded:
				s.violate("in-use", s.class("deleted-while-held"), "%s: segment %s has %d holder(s) but its directory %s is gone (refCount=%d flagged=%v)%s",
					where, m.name, m.holders, filepath.Base(m.loc), st.RefCount, st.MustBeDeleted, s.softNote())
				return
			case !st.IndexOpen:
				s.violate("in-use", s.class("closed-while-held"), "%s: segment %s has %d holder(s) but its series index is closed (refCount=%d flagged=%v)%s",
					where, m.name, m.holders, st.RefCount, st.MustBeDeleted, s.softNote())
				return
			}
			tt, _ := m.obj.Tables()
			bad := len(tt) < m.shards
			for _, t := range tt {
				bad = bad || t.closed.Load()
			}
			if bad {
				s.violate("in-use", s.class("tables-closed-while-held"), "%s: segment %s has %d holder(s) but shows %d open tables of %d%s", where, m.name, m.holders, len(tt), m.shards, s.softNote())
				return
			}
			if int(st.RefCount) < m.holders && s.soft == "" {
				s.softCls = s.cause()
				if s.evPeek || s.evScan {
					s.e.Probe("reach.holder_reference_stolen")
				}
				s.soft = fmt.Sprintf("%s: segment %s has %d holder(s) but refCount=%d (the step before was %s doing %q)", where, m.name, m.holders, st.RefCount, s.lastRun, s.softCls)
				s.logf("refCount below holders: %s", s.soft)
			}
		}
		if m.superseded && m.flagged {
			m.gone = true // a new segment object owns the location: the old directory was removed in between two checks
		}
		if !dir && !m.gone {
			if !m.flagged {
				if s.lateDeleteOfPredecessor(where, m) {
					return
				}
				s.violate("deletion", "unflagged-directory-removed", "%s: directory of segment %s disappeared although it was never selected for deletion", where, m.name)
				return
			}
			m.gone = true
			s.logf("  segment %s is gone from disk", m.name)
		}
		if m.gone && !m.superseded {
			if dir && !creating { // a create in flight makes the directory before the new segment object is listed
				s.violate("deletion", "deleted-directory-recreated", "%s: directory %s of deleted segment %s exists again", where, filepath.Base(m.loc), m.name)
				return
			}
			if st.IndexOpen {
				s.violate("deletion", "deleted-segment-reopened", "%s: deleted segment %s has an open series index again", where, m.name)
				return
			}
		}
		if m.flagged && !m.gone && !s.closing && busy == 0 && !bgBusy && m.holders == 0 && m.results == 0 {
			s.violate("deletion", "flagged-not-deleted-after-last-release", "%s: segment %s is selected for deletion, nobody holds it and no operation is in flight, but its directory is still there (refCount=%d)",
				where, m.name, st.RefCount)
			return
		}
	}
}

// lateDeleteOfPredecessor reports the removal of an unflagged segment's directory when an earlier segment object of
// the same location was selected for deletion: a delete of the predecessor ran (again) after the successor was created.
func (s *sim) lateDeleteOfPredecessor(where string, m *segM) bool {
	for _, o := range s.segs {
		if o != m && o.loc == m.loc && o.flagged {
			s.violate("deletion", "successor-directory-removed-by-late-delete-of-predecessor", "%s: the directory %s of segment %s (never selected for deletion, %d holder(s)) is gone: "+
				"it was created after segment %s of the same time range had been deleted, and a second performDelete of %s (DecRef's last-reference path racing delete()) removed it",
				where, filepath.Base(m.loc), m.name, m.holders, o.name, o.name)
			return true
		}
	}
	return false
}

// class names the violation: everything that follows an unpinned DecRef is one family (one root cause), anything
// else is named by its kind and by what the last released goroutine was doing.
func (s *sim) class(kind string) string {
	switch {
	case s.evPeek && s.evScan:
		return "holder-reference-stolen:peek+retention-scan"
	case s.evPeek:
		return "holder-reference-stolen:peek"
	case s.evScan:
		return "holder-reference-stolen:retention-scan"
	}
	if s.soft != "" && kind != "refcount-below-holders" {
		return kind + ":after-" + s.softCls
	}
	return kind + ":" + s.cause()
}

func (s *sim) softNote() string {
	if s.soft != "" {
		return "; earlier: " + s.soft
	}
	return ""
}

// ---------------------------------------------------------------------------------------------------
// actors

func (s *sim) rangeOf(lo, hi int) timestamp.TimeRange {
	return timestamp.NewInclusiveTimeRange(s.base.Add(time.Duration(lo)*dayDur+time.Hour), s.base.Add(time.Duration(hi)*dayDur+2*time.Hour))
}

func (s *sim) enter(a *actor, what string) {
	s.mu.Lock()
	a.inEngine = true
	a.cur = what
	if n := len(a.trail); n == 0 || a.trail[n-1] != what {
		a.trail = append(a.trail, what)
	}
	s.mu.Unlock()
}

func (s *sim) leave(a *actor) {
	s.mu.Lock()
	a.inEngine = false
	s.mu.Unlock()
}

func (s *sim) setCur(a *actor, what string) {
	s.mu.Lock()
	a.cur = what
	s.mu.Unlock()
}

func (s *sim) flaggedCount() int {
	n := 0
	for _, m := range s.segs {
		if storage.VerifC14State[*tbl, int](m.obj).MustBeDeleted {
			n++
		}
	}
	return n
}

// release gives back one result list.
func (s *sim) release(a *actor, res []seg, held bool, unpinned map[seg]bool, what string) {
	s.enter(a, what)
	for _, sg := range res {
		s.mu.Lock()
		m := s.reg(sg)
		if held {
			m.holders--
		}
		if unpinned[sg] && storage.VerifC14State[*tbl, int](sg).RefCount > 0 {
			s.e.Probe("reach.unpinned_decref_meets_foreign_reference")
		}
		wasFlagged := storage.VerifC14State[*tbl, int](sg).MustBeDeleted && dirExists(m.loc)
		s.mu.Unlock()
		sg.DecRef()
		s.mu.Lock()
		m.results--
		if wasFlagged && !dirExists(m.loc) {
			s.e.Probe("reach.deferred_delete_at_last_decref")
		}
		s.mu.Unlock()
	}
	s.leave(a)
	s.setCur(a, "")
}

func (s *sim) runOp(a *actor, op opSpec) {
	db := s.db
	s.mu.Lock()
	closing := s.closing
	s.mu.Unlock()
	switch op.kind {
	case opSelR, opSelP:
		reopen := op.kind == opSelR
		what := "peek-select"
		if reopen {
			what = "reopen-select"
		}
		s.mu.Lock()
		wasClosed := map[seg]bool{}
		for _, m := range s.segs {
			wasClosed[m.obj] = !storage.VerifC14State[*tbl, int](m.obj).IndexOpen
		}
		s.mu.Unlock()
		if !reopen {
			s.mu.Lock()
			s.evPeek = true // from here on a DecRef on an unpinned result may be in play
			s.mu.Unlock()
		}
		s.enter(a, what)
		res, err := db.SelectSegments(s.rangeOf(op.lo, op.hi), reopen)
		s.leave(a)
		if err != nil {
			s.setCur(a, "")
			if errors.Is(err, storage.ErrSegmentClosed) {
				s.e.Probe("reach.acquire_refused_closed")
				s.logf("%s %s -> ErrSegmentClosed", a.name, op)
			} else {
				s.logf("%s %s -> error", a.name, op)
				s.violate("acquire", "select-unexpected-error", "%s %s: %v", a.name, op, err)
			}
			return
		}
		unpinned := map[seg]bool{}
		s.mu.Lock()
		if !reopen {
			// the retention-deadline filter inside SelectSegments DecRefs expired segments whether pinned or not
			in := map[seg]bool{}
			for _, sg := range res {
				in[canon(sg)] = true
			}
			tr := s.rangeOf(op.lo, op.hi)
			for _, m := range s.segs {
				if !in[m.obj] && !m.gone && m.obj.GetTimeRange().Overlapping(tr) && m.obj.GetTimeRange().End.Before(time.Now().Add(-s.ttl)) {
					s.e.Probe("reach.peek_filtered_expired_segment")
				}
			}
		}
		for _, sg := range res {
			m := s.reg(sg)
			m.results++
			m.lateAcq = m.lateAcq || s.closing
			if reopen {
				m.holders++
				if wasClosed[m.obj] {
					s.e.Probe("reach.reopen_closed_segment")
				}
			} else if st := storage.VerifC14State[*tbl, int](sg); st.RefCount <= int32(m.holders) {
				unpinned[sg] = true
				s.e.Probe("reach.peek_path_unpinned")
			}
		}
		s.mu.Unlock()
		s.logf("%s %s -> %s", a.name, op, s.names(res))
		s.setCur(a, "")
		if !reopen {
			for _, sg := range res {
				sg.SeriesIndexStats() // what the stats path does with a peeked segment
			}
		}
		simcore.Gate("h:hold")
		rel := "reopen-release"
		if !reopen {
			rel = "peek-release"
		}
		s.release(a, res, reopen, unpinned, rel)
		s.logf("%s released %s", a.name, s.names(res))
	case opCreate:
		if closing {
			s.logf("%s %s skipped (closing)", a.name, op)
			return
		}
		ts := s.base.Add(time.Duration(op.day)*dayDur + 3*time.Hour)
		s.enter(a, "create")
		sg, err := db.CreateSegmentIfNotExist(ts)
		s.leave(a)
		if err != nil {
			s.setCur(a, "")
			switch {
			case errors.Is(err, storage.ErrSegmentClosed):
				s.e.Probe("reach.acquire_refused_closed")
				s.logf("%s %s -> ErrSegmentClosed", a.name, op)
			case storage.VerifC14Closed[*tbl, int](db):
				s.logf("%s %s -> closed", a.name, op)
			default:
				s.logf("%s %s -> error", a.name, op)
				s.violate("acquire", "create-unexpected-error", "%s %s: %v", a.name, op, err)
			}
			return
		}
		s.mu.Lock()
		m := s.reg(sg)
		m.holders++
		m.results++
		m.lateAcq = m.lateAcq || s.closing
		s.mu.Unlock()
		s.logf("%s %s -> %s", a.name, op, m.name)
		if t, terr := sg.CreateTSTableIfNotExist(0); terr == nil {
			s.mu.Lock()
			if m.shards == 0 {
				m.marker = "data-of-" + m.name
				_ = t.put(m.marker)
				m.shards = 1
			}
			s.mu.Unlock()
		}
		s.setCur(a, "")
		simcore.Gate("h:hold")
		s.release(a, []seg{sg}, true, nil, "create-release")
		s.logf("%s released [%s]", a.name, m.name)
	case opIdle:
		s.enter(a, "idle-close")
		n := storage.VerifC14CloseIdle[*tbl, int](db)
		s.leave(a)
		s.setCur(a, "")
		if n > 0 {
			s.e.Probe("reach.idle_close_closed_segment")
		}
		s.logf("%s idle-close -> %d closed", a.name, n)
	case opRetention:
		s.mu.Lock()
		before := s.flaggedCount()
		s.mu.Unlock()
		s.mu.Lock()
		s.evScan = true
		s.mu.Unlock()
		s.enter(a, "retention")
		storage.VerifC14Retention[*tbl, int](db)
		s.leave(a)
		s.setCur(a, "")
		s.mu.Lock()
		after := s.flaggedCount()
		s.mu.Unlock()
		if after > before {
			s.e.Probe("reach.retention_deleted_segment")
		}
		s.logf("%s retention done", a.name)
	case opForced:
		s.enter(a, "forced-delete")
		ok, err := db.DeleteOldestSegment()
		s.leave(a)
		s.setCur(a, "")
		if ok {
			s.e.Probe("reach.forced_delete")
		}
		s.logf("%s forced-delete -> %v err=%v", a.name, ok, err != nil)
	case opSnapshot:
		s.mu.Lock()
		s.snapN++
		dst := filepath.Join(s.root+"-snap", fmt.Sprintf("%s-%d", a.name, s.snapN))
		s.mu.Unlock()
		_ = os.MkdirAll(dst, 0o755)
		s.enter(a, "snapshot")
		ok, err := db.TakeFileSnapshot(dst)
		s.leave(a)
		s.setCur(a, "")
		if err != nil {
			s.e.Probe("reach.snapshot_error")
		}
		s.logf("%s snapshot -> %v err=%v", a.name, ok, err != nil)
		if err != nil {
			s.e.Note("snapshot error: %v", err)
		}
	case opCollect:
		s.enter(a, "collect")
		storage.VerifC14Collect[*tbl, int](db)
		s.leave(a)
		s.setCur(a, "")
		s.logf("%s collect done", a.name)
	case opTick:
		if closing {
			s.logf("%s tick skipped (closing)", a.name)
			return
		}
		s.mu.Lock()
		s.tickSeen = true
		s.evScan = true // the rotation goroutine runs a retention pass for every tick
		s.mu.Unlock()
		db.Tick(time.Now().UnixNano())
		s.logf("%s tick", a.name)
	case opAdvance:
		now := time.Now()
		var d time.Duration
		switch op.adv {
		case 0:
			d = 11 * time.Minute
		case 1:
			d = s.cfg.idle + time.Minute
		default:
			next := time.Date(now.Year(), now.Month(), now.Day(), 0, 5, 0, 0, time.UTC)
			if !next.After(now) {
				next = next.Add(dayDur)
			}
			d = next.Sub(now) + 7*time.Second
		}
		s.mu.Lock()
		a.advance = d
		s.mu.Unlock()
		simcore.Gate("h:advance") // the driver moves the clock when it lets this actor continue
		s.mu.Lock()
		a.advance = 0
		s.mu.Unlock()
	case opClose:
		s.mu.Lock()
		s.closing = true
		s.mu.Unlock()
		s.logf("%s close begins", a.name)
		s.enter(a, "close")
		err := db.Close()
		s.leave(a)
		s.setCur(a, "")
		s.logf("%s close -> err=%v", a.name, err != nil)
	}
}

func (s *sim) startActor(a *actor) {
	go func() {
		simcore.SetActor(a.name)
		defer simcore.ClearActor()
		defer func() {
			r := recover()
			s.mu.Lock()
			a.done = true
			a.inEngine = false
			closing := s.closing
			s.mu.Unlock()
			if r == nil {
				return
			}
			if closing {
				// Close releases everything regardless of users: an operation overtaken by Close may fail any way it likes
				s.e.Probe("reach.op_panicked_during_close")
				s.logf("%s panicked during close (tolerated)", a.name)
				s.e.Note("panic value: %v", r)
				return
			}
			if a.cur == "create" && strings.Contains(fmt.Sprint(r), "exist") {
				s.violate("no-panic", "create-panics-on-directory-of-deleted-segment-still-held", "%s: CreateSegmentIfNotExist panicked (%v): the segment of that day was selected for deletion "+
					"but is still held, so it left the controller's list while its directory stays until the last DecRef", a.name, r)
				return
			}
			s.mu.Lock()
			stolen := s.evPeek || s.evScan
			cls := s.class("actor-panic")
			s.mu.Unlock()
			if stolen {
				// e.g. a snapshot whose internal reference was released by somebody else's unpinned DecRef loses its index to the idle reclaimer
				s.violate("in-use", cls, "%s panicked while doing %q: %v", a.name, a.cur, r)
				return
			}
			s.violate("no-panic", "actor-panic:"+a.cur, "%s panicked while doing %q: %v", a.name, a.cur, r)
		}()
		simcore.Gate("h:start")
		for _, op := range a.prog {
			if s.stop() {
				return
			}
			s.runOp(a, op)
		}
	}()
}

// ---------------------------------------------------------------------------------------------------
// one schedule

func siteHash(site string, salt uint64) uint64 {
	h := fnv.New64a()
	h.Write([]byte(site))
	v := h.Sum64() ^ salt
	v ^= v >> 33
	v *= 0xff51afd7ed558ccd
	v ^= v >> 33
	return v
}

// eligible orders the parked goroutines: the one that ran last continues unless it yielded at a harness gate
// (then the next one in cyclic actor order goes first); lock waiters whose last try failed are left out until
// somebody else has moved.
func eligible(pl []*simcore.Parked, last string, lwFailed map[string]bool) []*simcore.Parked {
	var l []*simcore.Parked
	for _, p := range pl {
		if !lwFailed[p.Actor] {
			l = append(l, p)
		}
	}
	if len(l) == 0 || last == "" {
		return l
	}
	start := -1
	for i, p := range l {
		if p.Actor == last && !strings.HasPrefix(p.Site, "h:") {
			start = i
		}
	}
	if start < 0 {
		start = 0
		for i, p := range l {
			if p.Actor > last {
				start = i
				break
			}
		}
	}
	return append(append([]*simcore.Parked{}, l[start:]...), l[:start]...)
}

// runSchedule executes one schedule of cfg inside its own bubble. ch decides which parked goroutine proceeds.
func runSchedule(e *simcore.Env, cfg *config, ch chooser, dir string, fullFinal bool, logf func(string, ...any)) (s *sim) {
	s = &sim{fullFinal: fullFinal, e: e, cfg: cfg, root: filepath.Join(dir, "db"), byObj: map[seg]*segM{}, byName: map[string]*actor{}, sink: logf, ttl: time.Duration(cfg.ttlDays) * dayDur}
	old := time.Local
	time.Local = time.UTC
	defer func() { time.Local = old }()
	defer simcore.ResetGates()
	defer func() {
		// a bubble that ends with blocked goroutines panics; after a recorded violation that is not a finding of its own
		if r := recover(); r != nil && !e.Failed() {
			panic(r)
		}
	}()
	synctest.Test(e.T, func(*testing.T) {
		// 2000-01-05 10:07:13: no coincidence with the 10-minute ticker phase or the 00:05 cron
		time.Sleep(4*dayDur + 10*time.Hour + 7*time.Minute + 13*time.Second)
		now := time.Now()
		today := time.Date(now.Year(), now.Month(), now.Day(), 0, 0, 0, 0, time.UTC)
		s.base = today.Add(-time.Duration(cfg.nSegs-1) * dayDur)
		s.setup = true
		simcore.EnableGates(func(_, site string) bool {
			if s.setup {
				return false
			}
			if strings.HasPrefix(site, "h:") {
				return true
			}
			if s.fineOff {
				return false
			}
			if !strings.HasPrefix(site, "segment.go:") && !strings.HasPrefix(site, "tsdb.go:") && !strings.HasPrefix(site, "rotation.go:run#") {
				return false
			}
			return cfg.armPct >= 100 || int(siteHash(site, cfg.armSalt)%100) < cfg.armPct
		})
		// the goroutines the database starts (rotation loop, cron task, cron action) become named children of "bg"
		simcore.SetActor("bg")
		ctx := common.SetPosition(context.Background(), func(p common.Position) common.Position { p.Database = "db"; return p })
		db, err := storage.OpenTSDB(ctx, storage.TSDBOpts[*tbl, int]{
			Location: s.root, SegmentInterval: storage.IntervalRule{Unit: storage.DAY, Num: 1}, TTL: storage.IntervalRule{Unit: storage.DAY, Num: cfg.ttlDays}, ShardNum: 1,
			SegmentIdleTimeout: cfg.idle, TSTableCreator: newTbl,
			StorageMetricsFactory: observability.BypassRegistry.With(meter.NewHierarchicalScope("c14", "_")),
		}, nil, "g")
		simcore.ClearActor()
		if err != nil {
			e.Fail("open", "open-failed", "open: %v", err)
			return
		}
		s.db = db
		closed := false
		defer func() {
			if !closed {
				func() {
					defer func() { _ = recover() }()
					_ = db.Close()
				}()
			}
			for _, m := range s.segs {
				if storage.VerifC14State[*tbl, int](m.obj).IndexOpen {
					func() {
						defer func() { _ = recover() }()
						storage.VerifC14Cleanup[*tbl, int](m.obj)
					}()
				}
			}
		}()
		// ---- setup: nSegs day segments, one table with a marker each
		for d := 0; d < cfg.nSegs; d++ {
			sg, cerr := db.CreateSegmentIfNotExist(s.base.Add(time.Duration(d)*dayDur + 3*time.Hour))
			if cerr != nil {
				e.Fail("setup", "create-failed", "setup create: %v", cerr)
				return
			}
			m := s.reg(sg)
			t, terr := sg.CreateTSTableIfNotExist(0)
			if terr != nil {
				e.Fail("setup", "create-table-failed", "setup table: %v", terr)
				return
			}
			m.marker = "data-of-" + m.name
			_ = t.put(m.marker)
			m.shards = 1
			sg.DecRef()
		}
		time.Sleep(cfg.idle + time.Minute) // every segment is now idle-eligible (and still open: the ticker fired too early for them)
		synctest.Wait()
		for d, touch := range cfg.touched {
			if !touch {
				continue
			}
			res, serr := db.SelectSegments(s.rangeOf(d, d), true)
			if serr != nil {
				e.Fail("setup", "select-failed", "setup select: %v", serr)
				return
			}
			for _, sg := range res {
				sg.DecRef()
			}
		}
		nPre := 0
		if cfg.preClose {
			nPre = storage.VerifC14CloseIdle[*tbl, int](db)
		}
		logf("setup: %d segments S0..S%d, ttl=%dd idle=%s touched=%v idle-closed-before-start=%d armed=%d%% now=%s", cfg.nSegs, cfg.nSegs-1, cfg.ttlDays, cfg.idle, cfg.touched, nPre,
			cfg.armPct, time.Now().UTC().Format("2006-01-02T15:04:05"))
		for i, p := range cfg.programs {
			a := &actor{name: fmt.Sprintf("a%d", i), prog: p}
			s.actors = append(s.actors, a)
			s.byName[a.name] = a
			var l []string
			for _, o := range p {
				l = append(l, o.String())
			}
			logf("program %s: %s", a.name, strings.Join(l, "; "))
		}
		synctest.Wait()
		s.setup = false
		for _, a := range s.actors {
			s.startActor(a)
		}
		// ---- the driver loop
		lwFailed := map[string]bool{}
		idleRounds := 0
		for s.steps = 0; s.steps < cfg.maxFine+120 && !s.stop(); s.steps++ {
			e.Step()
			synctest.Wait()
			pl := simcore.ParkedList()
			s.check(fmt.Sprintf("after step %d", s.steps), pl)
			if s.stop() {
				break
			}
			if s.steps == cfg.maxFine && !s.fineOff {
				s.fineOff = true // from here on only harness gates and lock waits park: the rest of the run is coarse
				logf("step %d: engine gates disarmed", s.steps)
			}
			s.noteRaces(pl)
			alive := 0
			for _, a := range s.actors {
				if !a.done {
					alive++
				}
			}
			if len(pl) == 0 {
				if alive == 0 {
					break
				}
				// somebody waits for simulated time (e.g. Close waiting for the cron action's 5-minute timeout)
				idleRounds++
				if idleRounds > 4 {
					s.violate("progress", "actors-stuck", "%d actor(s) neither finished nor parked after 24 simulated minutes", alive)
					break
				}
				time.Sleep(6 * time.Minute)
				continue
			}
			el := eligible(pl, s.lastRun, lwFailed)
			if len(el) == 0 {
				// every parked goroutine is a lock waiter that just failed: let them all try again once, then call it a deadlock
				idleRounds++
				if idleRounds > 4 {
					s.violate("progress", "lock-deadlock", "all %d parked goroutines wait for locks nobody releases", len(pl))
					break
				}
				for k := range lwFailed {
					delete(lwFailed, k)
				}
				time.Sleep(6 * time.Minute)
				continue
			}
			idleRounds = 0
			p := el[ch.pick(len(el))]
			if p.Site == "h:advance" {
				if a := s.byName[p.Actor]; a != nil && a.advance > 0 {
					time.Sleep(a.advance)
					synctest.Wait()
					e.AddSim(a.advance)
					logf("step %d: clock +%s -> %s", s.steps, a.advance, time.Now().UTC().Format("2006-01-02T15:04:05"))
				}
			}
			logf("step %d: %s proceeds from %s", s.steps, p.Actor, p.Site)
			s.lastRun = p.Actor
			if a := s.byName[p.Actor]; a != nil {
				s.mu.Lock()
				a.trail = a.trail[:0]
				if a.cur != "" {
					a.trail = append(a.trail, a.cur)
				}
				s.mu.Unlock()
			}
			simcore.Release(p)
			if p.Site == "lock-wait" {
				e.Probe("reach.lock_wait_parked")
				synctest.Wait()
				again := false
				for _, q := range simcore.ParkedList() {
					if q.Actor == p.Actor && q.Site == "lock-wait" {
						again = true
					}
				}
				if again {
					lwFailed[p.Actor] = true
					continue
				}
			}
			for k := range lwFailed {
				delete(lwFailed, k)
			}
		}
		hits := simcore.GateHits()
		if hits["segment.go:incRef#2"] > 0 {
			e.Probe("reach.cas_fast_path")
		}
		if hits["segment.go:acquire#1"] > 0 {
			e.Probe("reach.slow_path_acquire")
		}
		if hits["segment.go:acquire#2"] > 0 {
			e.Probe("reach.acquire_found_holder_after_lock")
		}
		if s.overlap {
			e.Nontrivial()
		}
		// ---- wind down: gates off, everybody finishes
		s.logMu.Lock()
		s.quiet = true
		s.logMu.Unlock()
		simcore.ResetGates()
		for i := 0; i < 10; i++ {
			synctest.Wait()
			alive := 0
			for _, a := range s.actors {
				if !a.done {
					alive++
				}
			}
			if alive == 0 {
				break
			}
			time.Sleep(6 * time.Minute)
		}
		s.logMu.Lock()
		s.quiet = false
		s.logMu.Unlock()
		if !s.stop() && s.soft != "" {
			s.violate("in-use", s.class("refcount-below-holders"), "%s", s.soft)
		}
		if s.stop() {
			return
		}
		for _, a := range s.actors {
			if !a.done {
				s.violate("progress", "actor-never-finished", "%s did not finish after the gates were switched off", a.name)
				return
			}
		}
		s.check("after all actors finished", nil)
		if s.stop() {
			return
		}
		if s.closing {
			s.finalClosed()
			closed = true
			return
		}
		s.finalOpen()
	})
	return s
}

// noteRaces counts interleavings of interest visible in the parked list.
func (s *sim) noteRaces(pl []*simcore.Parked) {
	idle, acq := "", ""
	for _, p := range pl {
		if strings.HasPrefix(p.Site, "segment.go:closeIfIdle#") {
			idle = p.Actor
		}
	}
	if idle == "" {
		return
	}
	for _, p := range pl {
		if p.Actor == idle {
			continue
		}
		if strings.HasPrefix(p.Site, "segment.go:acquire#") || strings.HasPrefix(p.Site, "segment.go:incRef#") {
			acq = p.Actor
		}
		if a := s.byName[p.Actor]; a != nil && p.Site == "lock-wait" && (a.cur == "reopen-select" || a.cur == "create") {
			acq = p.Actor
		}
	}
	if acq != "" {
		s.e.Probe("reach.idle_close_raced_acquire")
	}
}

// finalOpen: nothing may be left behind that blocks idle reclaim or retention; closed segments reopen with their data.
func (s *sim) finalOpen() {
	e, db := s.e, s.db
	for _, m := range s.segs {
		if st := storage.VerifC14State[*tbl, int](m.obj); st.RefCount != 0 {
			s.violate("no-leak", "refcount-leak", "every actor finished and released what it got, but segment %s still has refCount=%d", m.name, st.RefCount)
			return
		}
	}
	d := s.cfg.idle + 11*time.Minute
	time.Sleep(d)
	synctest.Wait()
	e.AddSim(d)
	s.check("after the final idle period", nil)
	if s.stop() {
		return
	}
	for _, sg := range storage.VerifC14Segments[*tbl, int](db) {
		m := s.reg(sg)
		if st := storage.VerifC14State[*tbl, int](sg); st.IndexOpen && !st.MustBeDeleted {
			s.violate("no-leak", "idle-close-blocked", "segment %s was idle for more than the idle timeout plus one reclaimer tick but is still open (refCount=%d)", m.name, st.RefCount)
			return
		}
	}
	e.Probe("reach.final_idle_close_checked")
	if !s.fullFinal {
		return // enumeration: the reopen and retention epilogue runs for every 4th schedule only (it costs as much as the schedule)
	}
	// reopen: every segment that retention still keeps comes back with its table and marker
	deadline := time.Now().Add(-s.ttl)
	res, err := db.SelectSegments(timestamp.NewInclusiveTimeRange(s.base.Add(-30*dayDur), s.base.Add(30*dayDur)), true)
	if err != nil {
		s.violate("reopen", "final-select-error", "final select: %v", err)
		return
	}
	got := map[seg]bool{}
	for _, sg := range res {
		m := s.reg(sg)
		got[m.obj] = true
		tt, _ := sg.Tables()
		switch {
		case !storage.VerifC14State[*tbl, int](sg).IndexOpen:
			s.violate("reopen", "selected-segment-not-open", "segment %s returned by SelectSegments(reopen) has no open index", m.name)
		case m.shards > 0 && (len(tt) != m.shards || tt[0].marker != m.marker || tt[0].closed.Load()):
			s.violate("reopen", "data-lost-after-reopen", "segment %s reopened with %d tables (want %d) / wrong marker", m.name, len(tt), m.shards)
		}
	}
	for _, sg := range res {
		sg.DecRef()
	}
	if s.stop() {
		return
	}
	for _, sg := range storage.VerifC14Segments[*tbl, int](db) {
		if end := sg.GetTimeRange().End; end.After(deadline.Add(time.Second)) && !got[canon(sg)] {
			s.violate("reopen", "live-segment-not-selectable", "segment %s ends after now-TTL but SelectSegments(reopen) did not return it", s.reg(sg).name)
			return
		}
	}
	s.check("after the final reopen", nil)
	if s.stop() {
		return
	}
	// retention: after every segment has expired and one more cron time has passed, nothing is left on disk
	latest := s.base
	for _, m := range s.segs {
		if end := m.obj.GetTimeRange().End; end.After(latest) {
			latest = end
		}
	}
	target := latest.Add(s.ttl + dayDur + 10*time.Minute)
	if d = time.Until(target); d > 0 {
		time.Sleep(d)
		synctest.Wait()
		e.AddSim(d)
	}
	s.check("after the final retention", nil)
	if s.stop() {
		return
	}
	for _, m := range s.segs {
		if !m.superseded && dirExists(m.loc) {
			st := storage.VerifC14State[*tbl, int](m.obj)
			s.violate("no-leak", "retention-blocked", "segment %s expired more than a day ago and a cron time has passed, but its directory is still on disk (refCount=%d flagged=%v)", m.name, st.RefCount, st.MustBeDeleted)
			return
		}
	}
	e.Probe("reach.final_retention_checked")
}

// finalClosed: after Close every index is closed, flagged segments are gone, the others keep their directories.
func (s *sim) finalClosed() {
	storage.VerifC14ControllerClose[*tbl, int](s.db) // a create overtaken by Close may have appended a segment after the shutdown pass
	for _, m := range s.segs {
		st := storage.VerifC14State[*tbl, int](m.obj)
		switch {
		case st.IndexOpen && !m.flagged && !m.lateAcq:
			// only reachable for a segment that left the controller's list before Close: then it is flagged
			s.violate("close", "index-open-after-close", "segment %s still has an open index after Close", m.name)
			return
		case !m.flagged && !dirExists(m.loc):
			s.violate("close", "directory-lost-at-close", "segment %s was never selected for deletion but its directory is gone after Close", m.name)
			return
		}
	}
	s.e.Probe("reach.close_checked")
}

// ---------------------------------------------------------------------------------------------------
// scenarios

func runSchedules(e *simcore.Env, tp *simcore.Tape) {
	cfg := genConfig(tp, false)
	e.SetSample(cfg.describe())
	runSchedule(e, cfg, tapeChooser{tp}, e.Dir, true, e.Event)
}

const enumBudget = 300

func runEnumerate(e *simcore.Env, tp *simcore.Tape) {
	cfg := genConfig(tp, true)
	sample := cfg.describe()
	e.SetSample(sample)
	queue := [][]int{nil}
	runs, level, maxWidth, cappedAt := 0, 0, 0, 1<<30
	levelOf := func(p []int) int {
		n := 0
		for _, v := range p {
			if v != 0 {
				n++
			}
		}
		return n
	}
	for len(queue) > 0 && runs < enumBudget && !e.Failed() {
		prefix := queue[0]
		queue = queue[1:]
		if l := levelOf(prefix); l > level {
			if level < cappedAt {
				e.Probe(fmt.Sprintf("reach.enum_level%d_complete", level))
			}
			level = l
		}
		var lines []string
		ch := &prefixChooser{prefix: prefix}
		dir := filepath.Join(e.Dir, fmt.Sprintf("s%d", runs))
		_ = os.MkdirAll(dir, 0o755)
		s := runSchedule(e, cfg, ch, dir, runs%4 == 0, func(f string, a ...any) { lines = append(lines, fmt.Sprintf(f, a...)) })
		_ = os.RemoveAll(dir)
		_ = os.RemoveAll(dir + "-snap")
		runs++
		h := fnv.New64a()
		for _, l := range lines {
			h.Write([]byte(l))
			h.Write([]byte{'\n'})
		}
		if e.Failed() {
			e.Event("schedule %d (forced choices %v) in full:", runs, prefix)
			for _, l := range lines {
				e.Event("%s", l)
			}
			break
		}
		if s != nil && s.tainted {
			e.Probe("reach.enum_schedule_hit_known_finding")
		}
		e.Event("schedule %d: forced=%v steps=%d log=%016x", runs, prefix, len(ch.choices), h.Sum64())
		for i := len(prefix); i < len(ch.widths); i++ {
			if ch.widths[i] > maxWidth {
				maxWidth = ch.widths[i]
			}
			for c := 1; c < ch.widths[i]; c++ {
				if len(queue) >= 4*enumBudget {
					if l := levelOf(prefix) + 1; l < cappedAt {
						cappedAt = l
					}
					break
				}
				child := make([]int, i+1)
				copy(child, ch.choices[:i])
				child[i] = c
				queue = append(queue, child)
			}
		}
	}
	e.ProbeN("reach.schedules_enumerated", runs)
	if len(queue) == 0 && cappedAt == 1<<30 && !e.Failed() {
		e.Probe("reach.enum_all_schedules_complete")
	} else if !e.Failed() {
		e.Probe("reach.enum_budget_exhausted")
	}
	sample["schedules"] = runs
	sample["deviation_level_reached"] = level
	e.SetSample(sample)
}

var _ = sort.Strings
var _ = maxWidthUnused

func maxWidthUnused() {}
