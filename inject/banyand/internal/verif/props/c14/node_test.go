package c14

import (
	"fmt"
	"path/filepath"
	"sort"
	"strings"
	"testing"
	"testing/synctest"
	"time"

	measurev1 "github.com/apache/skywalking-banyandb/api/proto/banyandb/measure/v1"
	modelv1 "github.com/apache/skywalking-banyandb/api/proto/banyandb/model/v1"
	streamv1 "github.com/apache/skywalking-banyandb/api/proto/banyandb/stream/v1"
	"github.com/apache/skywalking-banyandb/banyand/internal/verif/simmeta"
	"github.com/apache/skywalking-banyandb/banyand/internal/verif/simnode"
	"github.com/apache/skywalking-banyandb/banyand/internal/verif/wl"
	"github.com/apache/skywalking-banyandb/pkg/verif/simcore"
)

// runNodeBalance: "never leaks" at the level of a real node. Every reference a write or a query of the measure or stream
// ENGINE takes on a segment must be given back: the observable consequence is that, once activity has stopped, every
// segment that lies entirely before now-TTL is physically removed by the retention runs that follow (a leaked reference
// defers the deletion to a release that never comes). Writes land in the last hour of a day so that rotation pre-creates
// the next day's segment (which has no shard yet), queries reach into it, are ordered or not, narrow or wide.
func runNodeBalance(e *simcore.Env, tp *simcore.Tape) {
	old := time.Local
	time.Local = time.UTC
	defer func() { time.Local = old }()
	synctest.Test(e.T, func(*testing.T) {
		engine := []string{"stream", "measure"}[tp.Choose(2)]
		ttlDays := tp.Range(1, 3)
		repo := simmeta.New()
		var ms *wl.MeasureSchema
		var ss *wl.StreamSchema
		var mm *wl.MeasureModel
		var sm *wl.StreamModel
		group := ""
		if engine == "measure" {
			ms = wl.GenMeasureSchema(tp, wl.SchemaOpts{TTLDays: ttlDays, MaxShards: 2, NoIndexRules: true})
			ms.Install(repo)
			mm = wl.NewMeasureModel(ms)
			group = ms.Group
		} else {
			ss = wl.GenStreamSchema(tp, wl.SchemaOpts{MaxShards: 2})
			ss.TTLDays = uint32(ttlDays)
			ss.Install(repo)
			sm = wl.NewStreamModel(ss)
			group = ss.Group
		}
		qp, _ := simnode.QueryPath(tp.Choose, engine)
		n, err := simnode.Boot(repo, e.Dir, simnode.Engines{Measure: engine == "measure", Stream: engine == "stream"}, append([]string{"--" + engine + "-flush-timeout=5s"}, qp...))
		if err != nil {
			e.Fail("boot", "boot-failed", "boot: %v", err)
			return
		}
		defer n.Stop()
		ttl := time.Duration(ttlDays) * 24 * time.Hour
		e.Event("%s node ttl=%dd flags=%v", engine, ttlDays, qp)
		segDirs := func() []string {
			m, _ := filepath.Glob(filepath.Join(e.Dir, engine, "data", group, "seg-*"))
			var out []string
			for _, p := range m {
				out = append(out, filepath.Base(p))
			}
			sort.Strings(out)
			return out
		}
		advance := func(d time.Duration) {
			time.Sleep(d)
			synctest.Wait()
			e.AddSim(d)
		}
		msgID := uint64(1)
		write := func(op int) bool {
			now := time.Now()
			opts := wl.BatchOpts{BaseMs: now.UnixMilli(), SpanMs: int64([]int{0, 1000, 3600_000}[tp.Choose(3)]), MaxRows: 12, MaxSeries: 3, NoHot: true, Plain: true}
			ok := false
			var werr error
			nrows := 0
			if engine == "measure" {
				rows := mm.GenBatch(tp, opts, op)
				nrows = len(rows)
				reqs := mm.ToRequests(rows, msgID)
				msgID += uint64(len(reqs))
				var resps []*measurev1.WriteResponse
				resps, werr = n.WriteMeasure(reqs)
				ok = werr == nil && len(resps) == len(reqs)
				for _, r := range resps {
					ok = ok && r.GetStatus() == "STATUS_SUCCEED"
				}
				mm.Ack(rows)
			} else {
				rows := sm.GenBatch(tp, opts, op)
				nrows = len(rows)
				reqs := sm.ToRequests(rows, msgID)
				msgID += uint64(len(reqs))
				var resps []*streamv1.WriteResponse
				resps, werr = n.WriteStream(reqs)
				ok = werr == nil && len(resps) == len(reqs)
				for _, r := range resps {
					ok = ok && r.GetStatus() == "STATUS_SUCCEED"
				}
				sm.Ack(rows)
			}
			if !ok {
				e.Fail("ack", "valid-write-not-acknowledged", "batch of %d rows not acknowledged: %v", nrows, werr)
			}
			e.Event("write %d rows at %s", nrows, now.UTC().Format(time.RFC3339))
			return ok
		}
		query := func() {
			now := time.Now()
			lo := now.Add(-time.Duration(tp.Range(0, 3*24)) * time.Hour).UnixMilli()
			hi := now.Add(time.Duration([]int{0, 1, 30, 26 * 60, 11 * 24 * 60}[tp.Choose(5)]) * time.Minute).UnixMilli()
			ordered := tp.Bool(1, 2)
			var qerr error
			if engine == "measure" {
				req := ms.QueryRequest(lo, hi, ms.FullProjection(), uint32([]int{1000000, 1, 5}[tp.Choose(3)]))
				if ordered {
					req.OrderBy = &modelv1.QueryOrder{Sort: []modelv1.Sort{modelv1.Sort_SORT_DESC, modelv1.Sort_SORT_ASC}[tp.Choose(2)]}
				}
				_, qerr = n.QueryMeasure(req)
			} else {
				req := ss.QueryRequest(lo, hi, ss.FullProjection(), uint32([]int{1000000, 1, 5}[tp.Choose(3)]))
				if ordered {
					req.OrderBy = &modelv1.QueryOrder{Sort: []modelv1.Sort{modelv1.Sort_SORT_DESC, modelv1.Sort_SORT_ASC}[tp.Choose(2)]}
				}
				_, qerr = n.QueryStream(req)
			}
			if hi > now.UnixMilli() {
				e.Probe("reach.query_reaches_beyond_now")
			}
			if qerr != nil && !strings.Contains(qerr.Error(), "unsupported") && !strings.Contains(qerr.Error(), "invalid query message") {
				e.Fail("query", "query-error", "query [%d,%d] failed: %v", lo, hi, qerr)
			}
			e.Event("query [%d,%d] ordered=%v err=%v", lo, hi, ordered, qerr != nil)
		}
		// the clock starts at 00:00; go into the last hour of a day (rotation window) for some of the activity
		nOps := tp.Range(4, 14)
		for op := 0; op < nOps && !e.Failed(); op++ {
			e.Step()
			switch tp.Weighted(4, 3, 4) {
			case 0:
				if !write(op) {
					return
				}
			case 1:
				switch tp.Weighted(2, 3, 1) {
				case 0:
					advance(time.Duration(tp.Range(1, 180)) * time.Minute)
				case 1: // into the last hour before the next day boundary
					now := time.Now().UTC()
					next := time.Date(now.Year(), now.Month(), now.Day(), 0, 0, 0, 0, time.UTC).Add(24 * time.Hour)
					target := next.Add(-time.Duration(tp.Range(1, 58)) * time.Minute)
					if target.After(now) {
						advance(target.Sub(now))
						e.Probe("reach.clock_in_rotation_window")
					} else {
						advance(20 * time.Minute)
					}
				default:
					advance(25 * time.Hour)
				}
				e.Event("clock now %s, segments %v", time.Now().UTC().Format(time.RFC3339), segDirs())
			default:
				query()
			}
		}
		if e.Failed() {
			return
		}
		before := segDirs()
		// activity has stopped: let retention run (cron at 00:05 every day) until everything written has expired for more
		// than a day, plus the days the pre-created segments reach into the future
		for i := 0; i < ttlDays+4; i++ {
			advance(24*time.Hour + 7*time.Minute)
		}
		now := time.Now().UTC()
		var left []string
		for _, d := range segDirs() {
			var y, mo, day int
			if _, serr := fmt.Sscanf(d, "seg-%4d%2d%2d", &y, &mo, &day); serr != nil {
				continue
			}
			end := time.Date(y, time.Month(mo), day, 0, 0, 0, 0, time.UTC).Add(24 * time.Hour)
			if end.Add(ttl).Add(26 * time.Hour).Before(now) {
				left = append(left, d)
			}
		}
		e.Event("segments before the quiet period %v, after it %v (now %s)", before, segDirs(), now.Format(time.RFC3339))
		if len(before) > 1 {
			e.Probe("reach.several_segments_existed")
		}
		if len(left) > 0 {
			e.Fail("no-leak", "node:expired-segment-never-removed:"+engine, "%d segment directories lie more than a day before now-TTL after %d quiet days with a retention run each and are still on disk: %v (ttl %dd, now %s): a reference taken by a write or a query was not released",
				len(left), ttlDays+4, left, ttlDays, now.Format(time.RFC3339))
			return
		}
		e.Probe("reach.all_expired_segments_removed")
		e.Nontrivial()
		e.SetSample(map[string]any{"engine": engine, "ttl_days": ttlDays, "segments_before": before})
	})
}
