package c15

import (
	"fmt"
	"path/filepath"
	"sort"
	"strings"
	"testing"
	"testing/synctest"
	"time"

	tracev1 "github.com/apache/skywalking-banyandb/api/proto/banyandb/trace/v1"
	"github.com/apache/skywalking-banyandb/banyand/internal/verif/simknobs"
	"github.com/apache/skywalking-banyandb/banyand/internal/verif/simmeta"
	"github.com/apache/skywalking-banyandb/banyand/internal/verif/simnode"
	"github.com/apache/skywalking-banyandb/banyand/internal/verif/wl"
	"github.com/apache/skywalking-banyandb/pkg/verif/simcore"
)

// runTrace: two real standalone trace nodes, vectorized on (tape-chosen batch size) and off, fed the same span batches
// and clock steps; every generated trace query (by id, by id list, ordered by an index rule ascending/descending with
// and without a range condition, with projections) must be answered alike: the same traces in the same order, each
// with the same spans (multiset of the rendered spans; the order of spans inside a trace only when both paths agree
// that it is defined, i.e. it is compared as a multiset).
func runTrace(e *simcore.Env, tp *simcore.Tape) {
	synctest.Test(e.T, func(*testing.T) {
		knobDesc, knobRestore := simknobs.Draw(tp, "trace", "sidx")
		defer knobRestore()
		simknobs.Record(e, knobDesc)
		s := wl.GenTraceSchema(tp, wl.TraceSchemaOpts{MaxShards: 2})
		m := wl.NewTraceModel(s)
		flags := []string{"--trace-flush-timeout=" + []string{"1s", "5s"}[tp.Choose(2)]}
		bs := []int{1024, 1, 7, 64}[tp.Choose(4)]
		twinFlags := [2][]string{{"--trace-vectorized-enabled=true", fmt.Sprintf("--trace-vectorized-batch-size=%d", bs)}, {"--trace-vectorized-enabled=false"}}
		now := time.Date(2000, 1, 1, 0, 0, 0, 0, time.UTC).UnixMilli()
		plan := m.GenPlan(tp, wl.TracePlanOpts{NowMs: now, MaxDaysBack: tp.Choose(3), SpreadMs: int64([]int{0, 1000, 3600_000}[tp.Choose(3)]), MinTraces: 2, MaxTraces: 12, MaxSpans: 6, NullOK: tp.Bool(1, 2)})
		type step struct {
			batch   []*wl.Span
			advance time.Duration
		}
		var hist []step
		for _, b := range plan.Batches {
			hist = append(hist, step{batch: b})
			m.Ack(b)
			if tp.Bool(1, 2) {
				hist = append(hist, step{advance: []time.Duration{time.Second, 6 * time.Second, 2 * time.Minute}[tp.Choose(3)]})
			}
		}
		if len(plan.TraceIDs) == 0 {
			return
		}
		lo, hi := m.Bounds(now + 3600_000)
		var reqs []*tracev1.QueryRequest
		var descs []string
		var ordered []bool
		rules := []string{}
		if s.DurRule {
			rules = append(rules, wl.TraceDurRule)
		}
		if s.TsRule {
			rules = append(rules, wl.TraceTsRule)
		}
		for i, k := 0, tp.Range(3, 10); i < k; i++ {
			proj := s.Projection(tp)
			switch kind := tp.Weighted(3, 2, 3); {
			case kind == 0 || len(rules) == 0 && kind == 2:
				id := plan.TraceIDs[tp.Choose(len(plan.TraceIDs))]
				reqs, descs, ordered = append(reqs, s.QueryByTraceID(id, lo, hi, proj)), append(descs, "trace_id = "+id+" proj "+strings.Join(proj, ",")), append(ordered, false)
			case kind == 1:
				var ids []string
				for j, n := 0, tp.Range(1, 4); j < n; j++ {
					ids = append(ids, plan.TraceIDs[tp.Choose(len(plan.TraceIDs))])
				}
				reqs, descs, ordered = append(reqs, s.QueryByTraceIDs(ids, lo, hi, proj)), append(descs, fmt.Sprintf("trace_id IN %v", ids)), append(ordered, false)
			default:
				rule := rules[tp.Choose(len(rules))]
				desc := tp.Bool(1, 2)
				req := s.QueryOrdered(rule, desc, lo, hi, proj, nil)
				d := fmt.Sprintf("order by %s desc=%v", rule, desc)
				if tp.Bool(1, 3) {
					a, b := int64(tp.Range(0, 40)), int64(tp.Range(0, 80))
					req.Criteria = wl.RangeCond(wl.TraceWidTag, min(a, b), max(a, b))
					d += fmt.Sprintf(" where wid in [%d,%d]", min(a, b), max(a, b))
				}
				if tp.Bool(1, 3) {
					req.Limit = uint32(tp.Range(1, 5))
					d += fmt.Sprintf(" limit %d", req.Limit)
				}
				reqs, descs, ordered = append(reqs, req), append(descs, d), append(ordered, true)
			}
		}
		e.Event("trace tags=%v durRule=%v tsRule=%v flags=%v vectorized twin flags=%v traces=%d batches=%d requests=%d", s.Tags, s.DurRule, s.TsRule, flags, twinFlags[0], len(plan.TraceIDs), len(plan.Batches), len(reqs))
		type ans struct {
			err    string
			traces []string // per returned trace: id + sorted rendered spans
		}
		var got [2][]ans
		for twin := 0; twin < 2; twin++ {
			repo := simmeta.New()
			s.Install(repo)
			n, err := simnode.Boot(repo, filepath.Join(e.Dir, fmt.Sprintf("t%d", twin)), simnode.Engines{Trace: true}, append(append([]string(nil), flags...), twinFlags[twin]...))
			if err != nil {
				e.Fail("boot", "boot-failed", "boot: %v", err)
				return
			}
			ver := uint64(1)
			for _, st := range hist {
				if st.batch == nil {
					time.Sleep(st.advance)
					synctest.Wait()
					e.AddSim(st.advance)
					continue
				}
				time.Sleep(time.Millisecond)
				wr := m.ToRequests(st.batch, ver)
				ver += uint64(len(wr))
				resps, werr := n.WriteTrace(wr)
				ok := werr == nil && len(resps) == len(wr)
				for _, r := range resps {
					ok = ok && r.GetStatus() == "STATUS_SUCCEED"
				}
				if !ok {
					e.Fail("ack", "valid-write-not-acknowledged", "twin %d: batch not acknowledged: %v", twin, werr)
					n.Stop()
					return
				}
			}
			for _, req := range reqs {
				e.Step()
				resp, qerr := n.QueryTrace(req)
				a := ans{}
				if qerr != nil {
					a.err = errClass(qerr)
					e.Probe("reach.request_refused_or_failed")
				} else {
					for _, tr := range resp.GetTraces() {
						var spans []string
						for _, sp := range tr.GetSpans() {
							var b strings.Builder
							fmt.Fprintf(&b, "span=%x id=%s", sp.GetSpan(), sp.GetSpanId())
							for _, t := range sp.GetTags() {
								fmt.Fprintf(&b, " %s=%s", t.GetKey(), wl.CanonTag(t.GetValue()))
							}
							spans = append(spans, b.String())
						}
						sort.Strings(spans)
						a.traces = append(a.traces, tr.GetTraceId()+" {"+strings.Join(spans, " | ")+"}")
					}
				}
				got[twin] = append(got[twin], a)
			}
			n.Stop()
		}
		for i := range reqs {
			x, y := got[0][i], got[1][i]
			kind := ""
			switch {
			case x.err != "" || y.err != "":
				if x.err != y.err {
					kind = "one-side-errors"
				}
			case len(x.traces) != len(y.traces):
				kind = "trace-count-differs"
			case ordered[i] && reqs[i].Limit >= 100000 && strings.Join(x.traces, "\n") != strings.Join(y.traces, "\n"):
				// the order of traces with EQUAL keys is not defined; compare as multisets first
				if !sameMultiset(x.traces, y.traces) {
					kind = "traces-differ"
				}
			case !ordered[i] && !sameMultiset(x.traces, y.traces):
				kind = "traces-differ"
			}
			if kind == "" {
				continue
			}
			shape := "by-id"
			if ordered[i] {
				shape = "ordered"
				if reqs[i].Criteria != nil {
					shape += "+criteria"
				}
				if reqs[i].Limit < 100000 {
					shape += ":capped"
				}
			}
			e.Fail("vectorized-equals-row", "trace:"+kind+":"+shape, "request %d (%s):\n vectorized (%d traces, err=%q): %s\n row path   (%d traces, err=%q): %s", i, descs[i],
				len(x.traces), x.err, clip(strings.Join(x.traces, "\n")), len(y.traces), y.err, clip(strings.Join(y.traces, "\n")))
			return
		}
		e.Probe("reach.trace_twins_compared")
		e.Nontrivial()
		e.SetSample(map[string]any{"engine": "trace", "traces": len(plan.TraceIDs), "requests": descs[:min(3, len(descs))], "vectorized_flags": twinFlags[0]})
	})
}
