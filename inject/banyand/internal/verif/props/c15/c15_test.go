// Package c15 decides property C15 (vectorized execution returns what row execution returns).
package c15

import (
	"github.com/apache/skywalking-banyandb/banyand/internal/verif/simknobs"
	"fmt"
	"path/filepath"
	"sort"
	"strings"
	"testing"
	"testing/synctest"
	"time"

	databasev1 "github.com/apache/skywalking-banyandb/api/proto/banyandb/database/v1"
	measurev1 "github.com/apache/skywalking-banyandb/api/proto/banyandb/measure/v1"
	modelv1 "github.com/apache/skywalking-banyandb/api/proto/banyandb/model/v1"
	streamv1 "github.com/apache/skywalking-banyandb/api/proto/banyandb/stream/v1"
	"github.com/apache/skywalking-banyandb/banyand/internal/verif/simmeta"
	"github.com/apache/skywalking-banyandb/banyand/internal/verif/simnode"
	"github.com/apache/skywalking-banyandb/banyand/internal/verif/wl"
	"github.com/apache/skywalking-banyandb/pkg/verif/simcore"
)

func TestSim(t *testing.T) {
	simnode.InitLogging()
	simcore.Main(t, "C15", []simcore.Scenario{
		{Name: "measure-twins", Weight: 3, Run: runMeasure},
		{Name: "stream-twins", Weight: 2, Run: runStream},
		{Name: "cluster-stream-twins", Weight: 1, Run: runStreamCluster},
		{Name: "trace-twins", Weight: 2, Run: runTrace},
	})
}

type mstep struct {
	rows    []*wl.MRow
	advance time.Duration
}

// answer is the canonical form of a response: rows rendered bit-exactly; ordered answers keep their order,
// unordered ones are sorted; errors are reduced to their class (rejected / failed).
type answer struct {
	err     string
	rows    []string
	keys    []string // sort key per row (ordered requests)
	vals    []string // aggregate value per row (top-N requests)
	ordered bool
}

func (a answer) canon() string {
	if a.err != "" {
		return "error:" + a.err
	}
	r := append([]string(nil), a.rows...)
	if !a.ordered {
		sort.Strings(r)
	}
	return strings.Join(r, "\n")
}

func errClass(err error) string {
	m := err.Error()
	if strings.Contains(m, "unsupported") || strings.Contains(m, "invalid query message") || strings.Contains(m, "not supported") {
		return "rejected"
	}
	return "failed"
}

func canonDP(dp *measurev1.DataPoint) string {
	var b strings.Builder
	fmt.Fprintf(&b, "ts=%d", dp.GetTimestamp().AsTime().UnixMilli())
	for _, tf := range dp.GetTagFamilies() {
		for _, t := range tf.GetTags() {
			fmt.Fprintf(&b, " %s.%s=%s", tf.GetName(), t.GetKey(), wl.CanonTag(t.GetValue()))
		}
	}
	for _, f := range dp.GetFields() {
		fmt.Fprintf(&b, " %s=%s", f.GetName(), wl.CanonField(f.GetValue()))
	}
	return b.String()
}

func canonEl(el *streamv1.Element) string {
	var b strings.Builder
	fmt.Fprintf(&b, "ts=%d id=%s", el.GetTimestamp().AsTime().UnixMilli(), el.GetElementId())
	for _, tf := range el.GetTagFamilies() {
		for _, t := range tf.GetTags() {
			fmt.Fprintf(&b, " %s.%s=%s", tf.GetName(), t.GetKey(), wl.CanonTag(t.GetValue()))
		}
	}
	return b.String()
}

func vecFlags(tp *simcore.Tape, engine string) [2][]string {
	bs := []int{1, 7, 64, 1024}[tp.Choose(4)]
	return [2][]string{
		{fmt.Sprintf("--%s-vectorized-enabled=true", engine), fmt.Sprintf("--%s-vectorized-batch-size=%d", engine, bs)},
		{fmt.Sprintf("--%s-vectorized-enabled=false", engine)},
	}
}

func runMeasure(e *simcore.Env, tp *simcore.Tape) {
	synctest.Test(e.T, func(*testing.T) {
		knobDesc, knobRestore := simknobs.Draw(tp, "measure")
		defer knobRestore()
		simknobs.Record(e, knobDesc)
		s := wl.GenMeasureSchema(tp, wl.SchemaOpts{MaxShards: 3})
		flags := []string{"--measure-flush-timeout=" + []string{"1s", "5s"}[tp.Choose(2)], fmt.Sprintf("--measure-max-merge-parts=%d", tp.Range(2, 6))}
		twinFlags := vecFlags(tp, "measure")
		m := wl.NewMeasureModel(s)
		var hist []mstep
		now := time.Date(2000, 1, 1, 0, 0, 0, 0, time.UTC).UnixMilli()
		plain := tp.Bool(2, 3)
		// plain values with holes: nulls in group-by tags, rarely in aggregated fields (the row path refuses to aggregate
		// a null field: recorded finding, nothing is compared there)
		nullRate, nullFieldRate := 0, 0
		if plain {
			nullRate = []int{0, 3, 8}[tp.Choose(3)]
			if nullRate > 0 && tp.Bool(1, 4) {
				nullFieldRate = nullRate
			}
		}
		for i, k := 0, tp.Range(2, 8); i < k; i++ {
			if tp.Weighted(3, 2) == 0 {
				rows := m.GenBatch(tp, wl.BatchOpts{BaseMs: now + int64(i)*1000, SpanMs: int64([]int{1000, 3600_000, 2 * 86400_000}[tp.Choose(3)]), MaxRows: 120, MaxSeries: 5, Plain: plain, SmallField: plain, NullOK: !plain, NullTagRate: nullRate, NullFieldRate: nullFieldRate, EmptyStrRate: nullRate, Collide: tp.Bool(1, 4)}, i)
				m.Ack(rows)
				hist = append(hist, mstep{rows: rows})
			} else {
				hist = append(hist, mstep{advance: []time.Duration{time.Second, 6 * time.Second, 2 * time.Minute}[tp.Choose(3)]})
			}
		}
		if len(m.Rows) == 0 {
			return
		}
		var rowTags []map[string]*modelv1.TagValue
		lo, hi := int64(1<<62), int64(0)
		for _, r := range m.Rows {
			rowTags = append(rowTags, r.Tags)
			lo, hi = min(lo, r.Ts), max(hi, r.Ts)
		}
		// generated requests of every shape the planner knows
		var reqs []*measurev1.QueryRequest
		var descs []string
		var ordered []bool
		var numFields []wl.FieldSpec
		for _, f := range s.Fields {
			if f.Type == databasev1.FieldType_FIELD_TYPE_INT || f.Type == databasev1.FieldType_FIELD_TYPE_FLOAT {
				numFields = append(numFields, f)
			}
		}
		var groupable []string
		for _, t := range s.Tags {
			if t.Name != "wid" && (t.Type == databasev1.TagType_TAG_TYPE_STRING || t.Type == databasev1.TagType_TAG_TYPE_INT) {
				groupable = append(groupable, t.Name)
			}
		}
		fns := []modelv1.AggregationFunction{1, 2, 3, 4, 5}
		for i, k := 0, tp.Range(4, 12); i < k; i++ {
			a, b := lo, hi
			if tp.Bool(1, 3) {
				x, y := m.Rows[tp.Choose(len(m.Rows))].Ts, m.Rows[tp.Choose(len(m.Rows))].Ts
				a, b = min(x, y), max(x, y)
			}
			req := s.QueryRequest(a, b, s.GenProjection(tp), uint32([]int{1000000, 1, 5, 50}[tp.Choose(4)]))
			desc := fmt.Sprintf("range[%d,%d] limit=%d", a, b, req.Limit)
			isOrdered := false
			if plain && nullRate == 0 && tp.Bool(1, 2) {
				if c := wl.GenCriteria(tp, s.Tags, rowTags, tp.Range(0, 2), func(t wl.TagSpec) bool { return !t.Entity }); c != nil {
					req.Criteria = c.Proto()
					desc += " where " + c.String()
				}
			}
			switch tp.Weighted(3, 3, 3) {
			case 1: // ordered by time with offset
				srt := modelv1.Sort_SORT_DESC
				if tp.Bool(1, 2) {
					srt = modelv1.Sort_SORT_ASC
				}
				req.OrderBy = &modelv1.QueryOrder{Sort: srt}
				req.Offset = uint32(tp.Choose(4))
				desc += fmt.Sprintf(" order by time %s offset %d", srt, req.Offset)
				isOrdered = true
			case 2: // aggregation
				if len(numFields) > 0 && plain {
					f := numFields[tp.Choose(len(numFields))]
					fn := fns[tp.Choose(len(fns))]
					var gt []string
					if len(groupable) > 0 && tp.Bool(3, 4) {
						gt = []string{groupable[tp.Choose(len(groupable))]}
					}
					pj := wl.Projection{Tags: gt, Fields: []string{f.Name}}
					if len(gt) == 0 {
						pj.Tags = []string{s.EntityTags[0]}
					}
					req = s.QueryRequest(a, b, pj, 100000)
					if len(gt) > 0 {
						req.GroupBy = &measurev1.QueryRequest_GroupBy{TagProjection: req.TagProjection, FieldName: f.Name}
					}
					req.Agg = &measurev1.QueryRequest_Aggregation{Function: fn, FieldName: f.Name}
					desc = fmt.Sprintf("range[%d,%d] %s(%s) group by %v", a, b, fn, f.Name, gt)
					if len(gt) > 0 && tp.Side().Bool(1, 4) { // group-by WITHOUT an aggregation: the first row of every group
						req.Agg = nil
						desc = fmt.Sprintf("range[%d,%d] group by %v (no aggregation)", a, b, gt)
					}
					if len(gt) > 0 && tp.Bool(1, 3) && req.Agg != nil {
						req.Top = &measurev1.QueryRequest_Top{Number: int32(tp.Range(1, 3)), FieldName: f.Name, FieldValueSort: []modelv1.Sort{modelv1.Sort_SORT_DESC, modelv1.Sort_SORT_ASC}[tp.Choose(2)]}
						desc += fmt.Sprintf(" top %d %s", req.Top.Number, req.Top.FieldValueSort)
					}
				}
			}
			reqs = append(reqs, req)
			descs = append(descs, desc)
			ordered = append(ordered, isOrdered)
		}
		e.Event("measure tags=%v fields=%v flags=%v vectorized twin flags=%v rows=%d requests=%d", s.Tags, s.Fields, flags, twinFlags[0], len(m.Rows), len(reqs))
		var ans [2][]answer
		for twin := 0; twin < 2; twin++ {
			repo := simmeta.New()
			s.Install(repo)
			n, err := simnode.Boot(repo, filepath.Join(e.Dir, fmt.Sprintf("t%d", twin)), simnode.Engines{Measure: true}, append(append([]string(nil), flags...), twinFlags[twin]...))
			if err != nil {
				e.Fail("boot", "boot-failed", "boot: %v", err)
				return
			}
			msgID := uint64(1)
			for _, st := range hist {
				if st.rows == nil {
					time.Sleep(st.advance)
					synctest.Wait()
					e.AddSim(st.advance)
					continue
				}
				time.Sleep(time.Millisecond)
				wr := m.ToRequests(st.rows, msgID)
				msgID += uint64(len(wr))
				resps, werr := n.WriteMeasure(wr)
				ok := werr == nil && len(resps) == len(wr)
				for _, r := range resps {
					ok = ok && r.GetStatus() == "STATUS_SUCCEED"
				}
				if !ok {
					e.Fail("ack", "valid-write-not-acknowledged", "twin %d: batch not acknowledged: %v", twin, werr)
					n.Stop()
					return
				}
			}
			for i, req := range reqs {
				e.Step()
				resp, qerr := n.QueryMeasure(req)
				a := answer{ordered: ordered[i]}
				if qerr != nil {
					a.err = errClass(qerr)
					e.Probe("reach.request_refused_or_failed")
				} else {
					for _, dp := range resp.GetDataPoints() {
						a.rows = append(a.rows, canonDP(dp))
						a.keys = append(a.keys, fmt.Sprint(dp.GetTimestamp().AsTime().UnixMilli()))
						v := ""
						for _, f := range dp.GetFields() {
							v += wl.CanonField(f.GetValue()) + ";"
						}
						a.vals = append(a.vals, v)
					}
				}
				ans[twin] = append(ans[twin], a)
			}
			n.Stop()
		}
		for i := range reqs {
			x, y := ans[0][i].canon(), ans[1][i].canon()
			kind := differ(ans[0][i], ans[1][i], reqs[i].Limit, reqs[i].Offset, reqs[i].Top != nil)
			if kind == "" {
				continue
			}
			shape := "plain"
			if reqs[i].Agg != nil {
				shape = "aggregate"
			} else if reqs[i].GroupBy != nil {
				shape = "group-by-only"
			} else if reqs[i].OrderBy != nil {
				shape = "ordered"
			}
			if reqs[i].Criteria != nil {
				shape += "+criteria"
			}
			if reqs[i].Agg != nil {
				// does the aggregate range over a null field value?
				nullIn := false
				lo, hi := reqs[i].GetTimeRange().GetBegin().AsTime().UnixMilli(), reqs[i].GetTimeRange().GetEnd().AsTime().UnixMilli()
				for _, r := range m.Rows {
					if r.Ts >= lo && r.Ts <= hi && r.Fields[reqs[i].Agg.FieldName].GetValue() == nil {
						nullIn = true
					}
					if _, isNull := r.Fields[reqs[i].Agg.FieldName].GetValue().(*modelv1.FieldValue_Null); isNull && r.Ts >= lo && r.Ts <= hi {
						nullIn = true
					}
				}
				if nullIn {
					e.Probe("reach.aggregate_over_null_field")
					shape += ":null-field"
					// the row path either fails the query or logs the error when the plan is closed and returns the groups
					// it had finished before it met the null (none for a scalar aggregate)
					if ans[0][i].err == "" && (ans[1][i].err != "" || len(ans[1][i].rows) < len(ans[0][i].rows)) && e.Known("vectorized-equals-row", "measure:row-path-refuses-null-field-in-aggregate") {
						continue
					}
				}
			}
			e.Fail("vectorized-equals-row", "measure:"+kind+":"+shape, "request %d (%s):\n vectorized (%d rows): %s\n row path   (%d rows): %s", i, descs[i], len(ans[0][i].rows), clip(x), len(ans[1][i].rows), clip(y))
			return
		}
		e.Nontrivial()
		e.SetSample(map[string]any{"engine": "measure", "rows": len(m.Rows), "requests": descs[:min(3, len(descs))], "vectorized_flags": twinFlags[0]})
	})
}

// differ decides whether two answers to one request differ in a way the request's own semantics do not allow:
//   - errors: both must refuse/fail alike;
//   - top-N: the multiset of aggregate values must agree (tied groups may be chosen differently);
//   - ordered: the sequence of sort keys must agree; the rows themselves only when limit/offset cut nothing
//     (rows tied at the cut may legitimately differ);
//   - unordered with a binding limit: only the size; otherwise the multiset of rows.
func differ(x, y answer, limit, offset uint32, topN bool) string {
	if x.err != "" || y.err != "" {
		if x.err == y.err {
			return ""
		}
		return "one-side-errors"
	}
	if len(x.rows) != len(y.rows) {
		return "row-count-differs"
	}
	if topN {
		if !sameMultiset(x.vals, y.vals) {
			return "top-n-values-differ"
		}
		return ""
	}
	cut := offset > 0 || uint32(len(x.rows)) >= limit
	if x.ordered {
		if strings.Join(x.keys, "|") != strings.Join(y.keys, "|") {
			return "order-differs"
		}
		if !cut && !sameMultiset(x.rows, y.rows) {
			return "rows-differ"
		}
		return ""
	}
	if cut {
		return ""
	}
	if !sameMultiset(x.rows, y.rows) {
		return "rows-differ"
	}
	return ""
}

func sameMultiset(a, b []string) bool {
	x, y := append([]string(nil), a...), append([]string(nil), b...)
	sort.Strings(x)
	sort.Strings(y)
	return strings.Join(x, "\n") == strings.Join(y, "\n")
}

func clip(s string) string {
	if len(s) > 700 {
		return s[:700] + "..."
	}
	return s
}

type sstep struct {
	rows    []*wl.SRow
	advance time.Duration
}

// snode is what the stream scenario needs from a standalone node or a cluster.
type snode interface {
	WriteStream([]*streamv1.WriteRequest) ([]*streamv1.WriteResponse, error)
	QueryStream(*streamv1.QueryRequest) (*streamv1.QueryResponse, error)
	Stop()
}

func runStream(e *simcore.Env, tp *simcore.Tape) { runStreamOn(e, tp, false) }

// runStreamCluster: the twins are two CLUSTERS (1 liaison + 1-3 data nodes over simnet). With the vectorized flag on,
// the data nodes answer the liaison with columnar frames (data.SetStreamWireModeRaw), with the flag off with protobuf
// elements: the responses must be the same.
func runStreamCluster(e *simcore.Env, tp *simcore.Tape) { runStreamOn(e, tp, true) }

func runStreamOn(e *simcore.Env, tp *simcore.Tape, cluster bool) {
	synctest.Test(e.T, func(*testing.T) {
		knobDesc, knobRestore := simknobs.Draw(tp, "stream")
		defer knobRestore()
		simknobs.Record(e, knobDesc)
		s := wl.GenStreamSchema(tp, wl.SchemaOpts{MaxShards: 3})
		flags := []string{"--stream-flush-timeout=" + []string{"1s", "5s"}[tp.Choose(2)], fmt.Sprintf("--stream-max-merge-parts=%d", tp.Range(2, 6))}
		twinFlags := vecFlags(tp, "stream")
		m := wl.NewStreamModel(s)
		var hist []sstep
		now := time.Date(2000, 1, 1, 0, 0, 0, 0, time.UTC).UnixMilli()
		plain := tp.Bool(2, 3)
		for i, k := 0, tp.Range(2, 8); i < k; i++ {
			if tp.Weighted(3, 2) == 0 {
				rows := m.GenBatch(tp, wl.BatchOpts{BaseMs: now + int64(i)*1000, SpanMs: int64([]int{1000, 3600_000, 2 * 86400_000}[tp.Choose(3)]), MaxRows: 120, MaxSeries: 5, Plain: plain, NullOK: !plain}, i)
				m.Ack(rows)
				hist = append(hist, sstep{rows: rows})
			} else {
				hist = append(hist, sstep{advance: []time.Duration{time.Second, 6 * time.Second, 2 * time.Minute}[tp.Choose(3)]})
			}
		}
		if len(m.Rows) == 0 {
			return
		}
		var rowTags []map[string]*modelv1.TagValue
		lo, hi := int64(1<<62), int64(0)
		for _, r := range m.Rows {
			rowTags = append(rowTags, r.Tags)
			lo, hi = min(lo, r.Ts), max(hi, r.Ts)
		}
		var orderRules []string
		for _, t := range s.Tags {
			if t.Indexed && (t.Type == databasev1.TagType_TAG_TYPE_INT || t.Type == databasev1.TagType_TAG_TYPE_STRING) {
				orderRules = append(orderRules, "sidx_"+t.Name)
			}
		}
		var reqs []*streamv1.QueryRequest
		var descs []string
		var ordered []bool
		var crits []*wl.Crit
		for i, k := 0, tp.Range(4, 12); i < k; i++ {
			a, b := lo, hi
			if tp.Bool(1, 3) {
				x, y := m.Rows[tp.Choose(len(m.Rows))].Ts, m.Rows[tp.Choose(len(m.Rows))].Ts
				a, b = min(x, y), max(x, y)
			}
			crits = append(crits, nil)
			req := s.QueryRequest(a, b, s.GenProjection(tp), uint32([]int{1000000, 1, 5, 50}[tp.Choose(4)]))
			desc := fmt.Sprintf("range[%d,%d] limit=%d", a, b, req.Limit)
			if plain && tp.Bool(1, 2) {
				if c := wl.GenCriteria(tp, s.Tags, rowTags, tp.Range(0, 2), func(t wl.TagSpec) bool { return !t.Entity }); c != nil {
					req.Criteria = c.Proto()
					desc += " where " + c.String()
					crits[len(crits)-1] = c
				}
			}
			isOrdered := false
			if tp.Bool(1, 2) {
				srt := modelv1.Sort_SORT_DESC
				if tp.Bool(1, 2) {
					srt = modelv1.Sort_SORT_ASC
				}
				req.OrderBy = &modelv1.QueryOrder{Sort: srt}
				if plain && len(orderRules) > 0 && tp.Bool(1, 2) {
					req.OrderBy.IndexRuleName = orderRules[tp.Choose(len(orderRules))]
				}
				req.Offset = uint32(tp.Choose(4))
				desc += fmt.Sprintf(" order by %q %s offset %d", req.OrderBy.IndexRuleName, srt, req.Offset)
				isOrdered = true
			}
			reqs = append(reqs, req)
			descs = append(descs, desc)
			ordered = append(ordered, isOrdered)
		}
		e.Event("stream tags=%v skipping=%v flags=%v vectorized twin flags=%v rows=%d requests=%d", s.Tags, simcore.SortedKeys(s.Skipping), flags, twinFlags[0], len(m.Rows), len(reqs))
		var ans [2][]answer
		swhere := "stream"
		if cluster {
			swhere = "cluster-stream"
		}
		nData := 1
		if cluster {
			nData = tp.Range(1, 3)
			e.Event("cluster twins: %d data nodes each", nData)
			if nData > 1 {
				e.Probe("reach.frames_from_several_data_nodes")
			}
		}
		for twin := 0; twin < 2; twin++ {
			repo := simmeta.New()
			s.Install(repo)
			var n snode
			var err error
			tf := append(append([]string(nil), flags...), twinFlags[twin]...)
			if cluster {
				var cl *simnode.Cluster
				if cl, err = simnode.BootCluster(repo, filepath.Join(e.Dir, fmt.Sprintf("t%d", twin)), nData, simnode.Engines{Stream: true}, tf, append(append([]string(nil), tf...), "--stream-sync-interval=1s")); err == nil {
					n = cl
				}
			} else {
				var sn *simnode.Node
				if sn, err = simnode.Boot(repo, filepath.Join(e.Dir, fmt.Sprintf("t%d", twin)), simnode.Engines{Stream: true}, tf); err == nil {
					n = sn
				}
			}
			if err != nil {
				e.Fail("boot", "boot-failed", "boot: %v", err)
				return
			}
			msgID := uint64(1)
			for _, st := range hist {
				if st.rows == nil {
					time.Sleep(st.advance)
					synctest.Wait()
					e.AddSim(st.advance)
					continue
				}
				time.Sleep(time.Millisecond)
				wr := m.ToRequests(st.rows, msgID)
				msgID += uint64(len(wr))
				resps, werr := n.WriteStream(wr)
				ok := werr == nil && len(resps) == len(wr)
				for _, r := range resps {
					ok = ok && r.GetStatus() == "STATUS_SUCCEED"
				}
				if !ok {
					e.Fail("ack", "valid-write-not-acknowledged", "twin %d: batch not acknowledged: %v", twin, werr)
					n.Stop()
					return
				}
			}
			if cluster { // the liaison's write queue must have reached the data nodes
				time.Sleep(60 * time.Second)
				synctest.Wait()
				e.AddSim(60 * time.Second)
			}
			for i, req := range reqs {
				e.Step()
				resp, qerr := n.QueryStream(req)
				a := answer{ordered: ordered[i]}
				if qerr != nil {
					a.err = errClass(qerr)
					e.Probe("reach.request_refused_or_failed")
				} else {
					for _, el := range resp.GetElements() {
						a.rows = append(a.rows, canonEl(el))
						k := fmt.Sprint(el.GetTimestamp().AsTime().UnixMilli())
						if req.GetOrderBy().GetIndexRuleName() != "" {
							k = "<not projected>"
							for _, tf := range el.GetTagFamilies() {
								for _, t := range tf.GetTags() {
									if "sidx_"+t.GetKey() == req.GetOrderBy().GetIndexRuleName() {
										k = wl.CanonTag(t.GetValue())
									}
								}
							}
						}
						a.keys = append(a.keys, k)
					}
				}
				ans[twin] = append(ans[twin], a)
			}
			n.Stop()
		}
		for i := range reqs {
			x, y := ans[0][i].canon(), ans[1][i].canon()
			kind := differ(ans[0][i], ans[1][i], reqs[i].Limit, reqs[i].Offset, false)
			if kind == "" {
				continue
			}
			shape := "plain"
			if reqs[i].OrderBy != nil {
				shape = "ordered"
				if reqs[i].OrderBy.IndexRuleName != "" {
					shape = "ordered-by-index"
				}
			}
			if reqs[i].Criteria != nil {
				shape += "+criteria"
			}
			if reqs[i].Limit < 1000000 {
				shape += ":capped" // a limit that the scan cap (limit+offset) can make binding before the filter
			}
			// diagnostic only: what the reference model selects (per value of the order-by tag)
			refN, refKeys := 0, map[string]int{}
			for _, r := range m.Rows {
				if r.Ts < reqs[i].GetTimeRange().GetBegin().AsTime().UnixMilli() || r.Ts > reqs[i].GetTimeRange().GetEnd().AsTime().UnixMilli() || !crits[i].Eval(r.Tags) {
					continue
				}
				refN++
				if rn := reqs[i].GetOrderBy().GetIndexRuleName(); rn != "" {
					refKeys[wl.CanonTag(r.Tags[strings.TrimPrefix(rn, "sidx_")])]++
				}
			}
			e.Note("reference model: %d rows selected; per order-by key: %v", refN, refKeys)
			// a tag filter under a limit smaller than the data: both paths cap the scan at limit+offset rows BEFORE the filter
			// and cap different row sets (recorded finding, upstream calls the under-fill intended): whatever the two
			// answers differ in, it is that finding
			if reqs[i].Criteria != nil && reqs[i].Limit < 1000000 && e.Known("vectorized-equals-row", "stream:facet:filter-under-binding-limit") {
				continue
			}
			if cluster && e.Known("vectorized-equals-row", "stream:"+kind+":"+shape) {
				continue // a recorded difference between the two query paths, seen through the cluster
			}
			e.Fail("vectorized-equals-row", swhere+":"+kind+":"+shape, "request %d (%s):\n vectorized (%d rows): %s\n row path   (%d rows): %s\n vectorized keys: %s\n row path keys:   %s", i, descs[i], len(ans[0][i].rows), clip(x), len(ans[1][i].rows), clip(y), clip(strings.Join(ans[0][i].keys, ",")), clip(strings.Join(ans[1][i].keys, ",")))
			return
		}
		e.Nontrivial()
		e.SetSample(map[string]any{"engine": "stream", "rows": len(m.Rows), "requests": descs[:min(3, len(descs))], "vectorized_flags": twinFlags[0]})
	})
}
