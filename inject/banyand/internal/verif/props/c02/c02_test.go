// Package c02 decides property C02 (highest version wins: one point per series and timestamp).
package c02

import (
	"sort"
	"github.com/apache/skywalking-banyandb/banyand/internal/verif/simknobs"
	"fmt"
	"testing"
	"testing/synctest"
	"time"

	"github.com/apache/skywalking-banyandb/banyand/internal/verif/simmeta"
	"github.com/apache/skywalking-banyandb/banyand/internal/verif/simnode"
	"github.com/apache/skywalking-banyandb/banyand/internal/verif/wl"
	"github.com/apache/skywalking-banyandb/pkg/verif/simcore"
)

func TestSim(t *testing.T) {
	simnode.InitLogging()
	simcore.Main(t, "C02", []simcore.Scenario{
		{Name: "versions", Weight: 1, Run: runVersions},
	})
}

func runVersions(e *simcore.Env, tp *simcore.Tape) {
	synctest.Test(e.T, func(*testing.T) {
		knobDesc, knobRestore := simknobs.Draw(tp, "measure")
		defer knobRestore()
		simknobs.Record(e, knobDesc)
		s := wl.GenMeasureSchema(tp, wl.SchemaOpts{})
		repo := simmeta.New()
		s.Install(repo)
		flush := []string{"1s", "5s", "30s"}[tp.Choose(3)]
		flags := []string{"--measure-flush-timeout=" + flush}
		if tp.Bool(1, 2) {
			flags = append(flags, fmt.Sprintf("--measure-max-merge-parts=%d", tp.Range(2, 8)))
		}
		// the query path (vectorized with a batch size, or row-at-a-time) from the side tape: both resolve versions themselves
		qpFlags, qpTag := simnode.QueryPath(tp.Side().Choose, "measure")
		flags = append(flags, qpFlags...)
		e.Event("query path %s %v", qpTag, qpFlags)
		n, err := simnode.Boot(repo, e.Dir, simnode.Engines{Measure: true}, flags)
		if err != nil {
			e.Fail("boot", "boot-failed", "boot: %v", err)
			return
		}
		defer n.Stop()
		m := wl.NewMeasureModel(s)
		// C02 is about WHICH row is returned (identified by its unique write id), not about value fidelity (C01)
		m.Tolerate = func(string) bool { return true }
		now := time.Now().UnixMilli()
		// a handful of contested timestamps, some in older segments
		var fixed []int64
		for i, k := 0, tp.Range(1, 5); i < k; i++ {
			fixed = append(fixed, now-int64(tp.Choose(3))*86400_000-int64(tp.Choose(50)))
		}
		e.Event("schema shards=%d tags=%v fields=%v flush=%s contested=%v", s.Shards, s.Tags, s.Fields, flush, fixed)
		nOps := tp.Range(3, 16)
		msgID := uint64(1)
		batches := 0
		var sample []string
		for op := 0; op < nOps && !e.Failed(); op++ {
			time.Sleep(time.Duration(tp.Range(1, 2000)) * time.Microsecond)
			synctest.Wait()
			e.Step()
			switch tp.Weighted(6, 3, 2) {
			case 0:
				rows := m.GenBatch(tp, wl.BatchOpts{BaseMs: now, SpanMs: 5, MaxRows: 40, MaxSeries: 3, Collide: true, FixedTimes: fixed, NoHot: true}, batches)
				reqs := m.ToRequests(rows, msgID)
				for i, r := range rows {
					if tp.Bool(1, 10) { // version 0: the front-end substitutes the message id
						reqs[i].DataPoint.Version = 0
						r.Version = int64(reqs[i].MessageId)
						e.Probe("reach.version_defaulted_from_message_id")
					}
				}
				msgID += uint64(len(reqs))
				resps, werr := n.WriteMeasure(reqs)
				okAll := werr == nil && len(resps) == len(reqs)
				for _, r := range resps {
					if r.GetStatus() != "STATUS_SUCCEED" {
						okAll = false
					}
				}
				e.Event("write batch %d rows=%d ack=%v", batches, len(rows), okAll)
				sample = append(sample, fmt.Sprintf("write %d rows", len(rows)))
				if !okAll {
					e.Fail("ack", "valid-write-not-acknowledged", "a valid batch of %d rows was not acknowledged: err=%v", len(rows), werr)
					return
				}
				m.Ack(rows)
				batches++
			case 1:
				d := []time.Duration{time.Second, 6 * time.Second, 40 * time.Second, 3 * time.Minute}[tp.Choose(4)]
				time.Sleep(d)
				synctest.Wait()
				e.AddSim(d)
				e.Event("advance %s", d)
				sample = append(sample, "advance "+d.String())
			default:
				check(e, n, m, "query")
				sample = append(sample, "query")
			}
		}
		check(e, n, m, "final")
		// statistics about what the history contained
		vis := m.Visible(nil)
		contested, tied := 0, 0
		count := map[string]int{}
		for _, r := range m.Rows {
			count[fmt.Sprintf("%s@%d", r.Series, r.Ts)]++
		}
		for k, c := range count {
			if c > 1 {
				contested++
				if len(vis[k]) > 1 {
					tied++
				}
			}
		}
		if contested > 0 {
			e.Nontrivial()
			e.ProbeN("reach.contested_keys", contested)
		}
		if tied > 0 {
			e.ProbeN("reach.tied_max_version", tied)
		}
		e.SetSample(map[string]any{"shards": s.Shards, "contested_keys": contested, "tied": tied, "ops": sample})
	})
}

func check(e *simcore.Env, n *simnode.Node, m *wl.MeasureModel, where string) {
	if e.Failed() {
		return
	}
	now := time.Now().UnixMilli()
	lo, hi := now-20*86400_000, now+86400_000
	p := m.S.FullProjection()
	resp, err := n.QueryMeasure(m.S.QueryRequest(lo, hi, p, 1000000))
	if err != nil {
		e.Fail("query", "query-error", "%s: query failed: %v", where, err)
		return
	}
	e.Event("%s: query -> %d points", where, len(resp.GetDataPoints()))
	if cls, msg := m.Mismatch(resp.GetDataPoints(), p, nil); cls != "" {
		e.Fail("version-wins", cls, "%s: %s", where, msg)
		return
	}
	// the same winner through narrow time ranges: exactly a contested timestamp, and the span of all contested ones
	// (part- and block-level time pruning must not hide the part that holds the highest version)
	perTs := map[int64]int{}
	for _, r := range m.Rows {
		perTs[r.Ts]++
	}
	var contested []int64
	for ts, k := range perTs {
		if k > 1 {
			contested = append(contested, ts)
		}
	}
	sort.Slice(contested, func(i, j int) bool { return contested[i] < contested[j] })
	if len(contested) == 0 {
		return
	}
	ranges := [][2]int64{{contested[0], contested[0]}, {contested[len(contested)-1], contested[len(contested)-1]}, {contested[0], contested[len(contested)-1]}}
	for i, rg := range ranges {
		if i > 0 && rg == ranges[i-1] {
			continue
		}
		a, b := rg[0], rg[1]
		resp, err = n.QueryMeasure(m.S.QueryRequest(a, b, p, 1000000))
		if err != nil {
			e.Fail("query", "query-error", "%s: query [%d,%d] failed: %v", where, a, b, err)
			return
		}
		e.Probe("reach.narrow_range_query")
		if cls, msg := m.Mismatch(resp.GetDataPoints(), p, func(r *wl.MRow) bool { return r.Ts >= a && r.Ts <= b }); cls != "" {
			e.Fail("version-wins", cls+":narrow-range", "%s, range [%d,%d]: %s", where, a, b, msg)
			return
		}
	}
}
