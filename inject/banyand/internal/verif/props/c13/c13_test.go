// Package c13 decides property C13 (a trace is stored, returned and sampled as a whole).
package c13

import (
	"github.com/apache/skywalking-banyandb/banyand/internal/verif/simknobs"
	"context"
	"errors"
	"fmt"
	"os"
	"path/filepath"
	"regexp"
	"runtime"
	"sort"
	"strings"
	"sync"
	"sync/atomic"
	"testing"
	"testing/synctest"
	"time"

	modelv1 "github.com/apache/skywalking-banyandb/api/proto/banyandb/model/v1"
	tracev1 "github.com/apache/skywalking-banyandb/api/proto/banyandb/trace/v1"
	"github.com/apache/skywalking-banyandb/banyand/internal/sidx"
	"github.com/apache/skywalking-banyandb/banyand/internal/verif/simmeta"
	"github.com/apache/skywalking-banyandb/banyand/internal/verif/simnode"
	"github.com/apache/skywalking-banyandb/banyand/internal/verif/wl"
	"github.com/apache/skywalking-banyandb/banyand/trace"
	"github.com/apache/skywalking-banyandb/pkg/pipeline/sdk"
	"github.com/apache/skywalking-banyandb/pkg/timestamp"
	"github.com/apache/skywalking-banyandb/pkg/verif/simcore"
)

func TestSim(t *testing.T) {
	simnode.InitLogging()
	simcore.Main(t, "C13", []simcore.Scenario{
		{Name: "no-sampler", Weight: 3, Run: runNoSampler},
		{Name: "sampler", Weight: 4, Run: func(e *simcore.Env, tp *simcore.Tape) { runSampler(e, tp, false) }},
		{Name: "schedules", Weight: 3, Run: func(e *simcore.Env, tp *simcore.Tape) { runSampler(e, tp, true) }},
	})
}

// ---------------------------------------------------------------------------------------------
// model-free observation of maintenance: part directories per shard directory
// ---------------------------------------------------------------------------------------------

var partDir = regexp.MustCompile(`^[0-9a-f]{16}$`)

func partsOnDisk(root string) map[string][]string {
	out := map[string][]string{}
	_ = filepath.WalkDir(root, func(p string, d os.DirEntry, err error) error {
		if err != nil || !d.IsDir() {
			return nil
		}
		if partDir.MatchString(d.Name()) && strings.HasPrefix(filepath.Base(filepath.Dir(p)), "shard-") {
			rel, _ := filepath.Rel(root, filepath.Dir(p))
			out[rel] = append(out[rel], d.Name())
			return filepath.SkipDir
		}
		return nil
	})
	return out
}

type maintObs struct {
	prev     map[string][]string
	flushes  int
	merges   int
	rewrites int
	maxParts int
}

func (o *maintObs) observe(e *simcore.Env, root string) {
	cur := partsOnDisk(root)
	total := 0
	for shard, parts := range cur {
		total += len(parts)
		old := map[string]bool{}
		for _, p := range o.prev[shard] {
			old[p] = true
		}
		added, kept := 0, 0
		for _, p := range parts {
			if old[p] {
				kept++
			} else {
				added++
			}
		}
		removed := len(o.prev[shard]) - kept
		switch {
		case removed >= 2 && added >= 1:
			o.merges++
			e.Probe("reach.merge_happened")
		case removed == 1 && added == 1:
			o.rewrites++ // a finalize round over a single part, or flush+merge between two looks
			e.Probe("reach.single_part_rewritten")
		case added > 0 && removed == 0:
			o.flushes++
			e.Probe("reach.flush_created_part")
		}
	}
	// a shard directory whose parts all vanished (everything in it was dropped)
	for shard, parts := range o.prev {
		if len(parts) >= 2 && len(cur[shard]) == 0 {
			o.merges++
			e.Probe("reach.merge_happened")
		}
	}
	o.maxParts = max(o.maxParts, total)
	o.prev = cur
}

// ---------------------------------------------------------------------------------------------
// direct observation of the ordered secondary indexes (sidx ScanQuery, the engine's dump facility)
// ---------------------------------------------------------------------------------------------

// sidxEntries returns rule name -> trace id -> key -> number of index entries, over every segment and shard.
func sidxEntries(n *simnode.Node, group string) (map[string]map[string]map[int64]int, error) {
	db, err := trace.VerifLoadTSDB(n.Trace, group)
	if err != nil {
		return nil, err
	}
	segs, err := db.SelectSegments(timestamp.TimeRange{Start: time.Unix(0, 0), End: time.Unix(0, timestamp.MaxNanoTime), IncludeStart: true, IncludeEnd: true}, true)
	if err != nil {
		return nil, err
	}
	out := map[string]map[string]map[int64]int{}
	for _, seg := range segs {
		tables, _ := seg.Tables()
		for _, tst := range tables {
			all := trace.VerifAllSidx(tst)
			for _, name := range simcore.SortedKeys(all) {
				if out[name] == nil {
					out[name] = map[string]map[int64]int{}
				}
				// every physical row, no query-side de-duplication; refuses to run over a memory part
				qerr := sidx.ScanRaw(context.Background(), all[name], func(r sidx.RawRow) error {
					id, derr := trace.VerifDecodeTraceID(r.Data)
					if derr != nil {
						return derr
					}
					if out[name][id] == nil {
						out[name][id] = map[int64]int{}
					}
					out[name][id][r.Key]++
					return nil
				})
				if qerr != nil {
					err = qerr
				}
			}
		}
		seg.DecRef()
	}
	return out, err
}

// ---------------------------------------------------------------------------------------------
// shared helpers
// ---------------------------------------------------------------------------------------------

type harness struct {
	e      *simcore.Env
	tp     *simcore.Tape
	n      *simnode.Node
	s      *wl.TraceSchema
	m      *wl.TraceModel
	obs    *maintObs
	sample []string
	ver    uint64
	batches int // write batches so far (each becomes a memory part)
}

// oracleFor files a comparison class under its oracle: duplicates are one finding whatever scenario sees them.
func oracleFor(cls string) string {
	if cls == "span-returned-twice" {
		return "no-duplicate"
	}
	return "whole-trace"
}

func dayOf(ms int64) string { return time.UnixMilli(ms).In(time.Local).Format("20060102") }

// write sends one batch; false = stop the run.
func (h *harness) write(spans []*wl.Span) bool {
	h.batches++
	reqs := h.m.ToRequests(spans, h.ver+1)
	h.ver += uint64(len(reqs))
	resps, err := h.n.WriteTrace(reqs)
	ok := err == nil && len(resps) == len(reqs)
	for _, r := range resps {
		ok = ok && r.GetStatus() == "STATUS_SUCCEED"
	}
	if !ok {
		h.e.Fail("ack", "valid-write-not-acknowledged", "a valid batch of %d spans was not acknowledged: err=%v responses=%d", len(spans), err, len(resps))
		return false
	}
	return true
}

func (h *harness) advance(d time.Duration) {
	time.Sleep(d)
	synctest.Wait()
	h.e.AddSim(d)
	h.e.Step()
	h.obs.observe(h.e, h.e.Dir)
	h.e.Event("advance %s", d)
	h.e.Note("parts on disk=%d", countParts(h.obs.prev))
	h.sample = append(h.sample, "advance "+d.String())
}

func countParts(m map[string][]string) int {
	n := 0
	for _, v := range m {
		n += len(v)
	}
	return n
}

// ask runs a query and groups the answer by trace id (attribution + payload identity are checked here).
func (h *harness) ask(oracle, where string, req *tracev1.QueryRequest) (map[string]*wl.Returned, bool) {
	resp, err := h.n.QueryTrace(req)
	if err != nil {
		h.e.Fail("query", "query-error", "%s: query failed: %v", where, err)
		return nil, false
	}
	got, cls, msg := h.m.Collect(resp.GetTraces())
	if cls != "" {
		h.e.Fail(oracle, cls, "%s: %s", where, msg)
		return nil, false
	}
	return got, true
}

// reachProbes reports (from the arrival history alone) which fragmentations were produced.
func (h *harness) reachProbes() {
	for _, id := range h.m.IDs {
		batchesPerDay := map[string]map[int]bool{}
		for _, sp := range h.m.Traces[id] {
			d := dayOf(sp.Ts)
			if batchesPerDay[d] == nil {
				batchesPerDay[d] = map[int]bool{}
			}
			batchesPerDay[d][sp.Batch] = true
		}
		if len(batchesPerDay) > 1 {
			h.e.Probe("reach.trace_spans_multiple_segments")
		}
		for _, b := range batchesPerDay {
			if len(b) > 1 {
				h.e.Probe("reach.trace_spans_multiple_parts")
				break
			}
		}
	}
}

var advances = []time.Duration{500 * time.Millisecond, 2 * time.Second, 6 * time.Second, 25 * time.Second, 3 * time.Minute, 11 * time.Minute, 45 * time.Minute}

// ---------------------------------------------------------------------------------------------
// scenario (a): no sampler
// ---------------------------------------------------------------------------------------------

func runNoSampler(e *simcore.Env, tp *simcore.Tape) {
	synctest.Test(e.T, func(*testing.T) {
		knobDesc, knobRestore := simknobs.Draw(tp, "trace", "sidx")
		defer knobRestore()
		simknobs.Record(e, knobDesc)
		s := wl.GenTraceSchema(tp, wl.TraceSchemaOpts{})
		repo := simmeta.New()
		s.Install(repo)
		flush := []string{"1s", "5s", "20s"}[tp.Choose(3)]
		flags := []string{"--trace-flush-timeout=" + flush, fmt.Sprintf("--trace-max-merge-parts=%d", tp.Range(2, 8))}
		pipelineOn := tp.Bool(1, 4) // the native pipeline switched on but nothing registered: still no active sampler
		if pipelineOn {
			flags = append(flags, "--trace-pipeline-native-plugin-enabled=true")
		}
		if tp.Bool(1, 3) {
			flags = append(flags, "--trace-vectorized-enabled=false") // the row-at-a-time query path (default: vectorized)
		}
		n, err := simnode.Boot(repo, e.Dir, simnode.Engines{Trace: true}, flags)
		if err != nil {
			e.Fail("boot", "boot-failed", "boot: %v", err)
			return
		}
		defer n.Stop()
		m := wl.NewTraceModel(s)
		m.TolerateTag = func(kind string) bool { return e.Known("value-fidelity", "trace:"+kind) } // C01's clause for traces: recorded kinds are counted, others fail
		h := &harness{e: e, tp: tp, n: n, s: s, m: m, obs: &maintObs{prev: map[string][]string{}}}
		big := tp.Bool(1, 25)
		spread := []int64{0, 1000, 3600_000, 2 * 86400_000}[tp.Choose(4)]
		plan := m.GenPlan(tp, wl.TracePlanOpts{
			NowMs: time.Now().UnixMilli(), MaxDaysBack: tp.Range(0, 3), SpreadMs: spread,
			MinTraces: 3, MaxTraces: 20, MaxSpans: 8, Big: big, NullOK: true,
		})
		e.Event("schema shards=%d tags=%v durRule=%v tsRule=%v flags=%v traces=%d batches=%d spread=%dms", s.Shards, s.Tags, s.DurRuleTags, s.TsRule, flags, len(plan.TraceIDs), len(plan.Batches), spread)

		check := func(where string, all bool) {
			if e.Failed() || len(m.IDs) == 0 {
				return
			}
			lo, hi := m.Bounds(time.Now().UnixMilli())
			var ids []string
			if all {
				ids = append(ids, m.IDs...)
			} else {
				for _, id := range m.IDs {
					if tp.Bool(1, 3) {
						ids = append(ids, id)
					}
				}
				if len(ids) == 0 {
					ids = append(ids, m.IDs[tp.Choose(len(m.IDs))])
				}
			}
			for _, id := range ids {
				got, ok := h.ask("whole-trace", where, s.QueryByTraceID(id, lo, hi, s.Projection(tp)))
				if !ok {
					return
				}
				for other := range got {
					if other != id {
						e.Fail("whole-trace", "other-trace-returned", "%s: query trace_id=%q returned trace %q", where, id, other)
						return
					}
				}
				if cls, msg := m.CompareWhole(id, got[id]); cls != "" {
					e.Fail(oracleFor(cls), cls, "%s: query by trace id: %s%s", where, msg, h.diagnoseByID(id, lo, hi))
					return
				}
			}
			e.Event("%s: %d traces queried by id are whole", where, len(ids))
			if all || tp.Bool(1, 3) {
				got, ok := h.ask("whole-trace", where, s.QueryByTraceIDs(m.IDs, lo, hi, s.Projection(tp)))
				if !ok {
					return
				}
				for _, id := range m.IDs {
					if cls, msg := m.CompareWhole(id, got[id]); cls != "" {
						if cls != "span-returned-twice" {
							cls = "in-list:" + cls
						}
						e.Fail(oracleFor(cls), cls, "%s: query trace_id IN (all %d ids): %s", where, len(m.IDs), msg)
						return
					}
				}
			}
			if s.DurRule && (all || tp.Bool(1, 2)) {
				h.checkOrdered(where, lo, hi, func(id string) []int64 { return m.AckedWids(id) })
				h.checkSidx(where, func(id string) []int64 { return m.AckedWids(id) })
			}
		}

		for bi, b := range plan.Batches {
			if e.Failed() {
				break
			}
			time.Sleep(time.Duration(tp.Range(1, 3000)) * time.Microsecond)
			synctest.Wait()
			if !h.write(b) {
				return
			}
			m.Ack(b)
			e.Event("batch %d: wrote %d spans", bi, len(b))
			h.sample = append(h.sample, fmt.Sprintf("write %d", len(b)))
			if len(b) > 0 && tp.Bool(1, 3) {
				check(fmt.Sprintf("after batch %d", bi), false)
			}
			for tp.Bool(1, 3) && !e.Failed() {
				h.advance(advances[tp.Choose(len(advances))])
				check("after advance", false)
			}
		}
		for i, k := 0, tp.Range(1, 4); i < k && !e.Failed(); i++ {
			h.advance(advances[tp.Choose(len(advances))])
			check("final", i == k-1)
		}
		h.reachProbes()
		if h.obs.flushes+h.obs.merges > 0 {
			e.Nontrivial()
		}
		e.SetSample(map[string]any{"scenario": "no-sampler", "flags": flags, "traces": len(plan.TraceIDs), "batches": len(plan.Batches),
			"flushes_seen": h.obs.flushes, "merges_seen": h.obs.merges, "max_parts_on_disk": h.obs.maxParts, "ops": h.sample})
	})
}

// checkOrdered asks an ordered query; visible(id) is the set of wids a query by id is entitled to return now.
// Every trace having a visible span that matches the condition must be returned, with exactly its visible spans.
// The condition is a range on the unique tag wid; with VERIF_C13_KEYRANGE=1 it is a range on the order-by key
// itself (on this tree such a query returns nothing at all - a query-planning matter outside C13, see the report).
func (h *harness) checkOrdered(where string, lo, hi int64, visible func(id string) []int64) {
	e, tp, s, m := h.e, h.tp, h.s, h.m
	rule := wl.TraceDurRule
	if s.TsRule && tp.Bool(1, 3) {
		rule = wl.TraceTsRule
	}
	condTag, cLo, cHi := "", int64(1), int64(0)
	if tp.Bool(1, 2) {
		condTag = wl.TraceWidTag
		cLo = int64(tp.Choose(40))
		cHi = cLo + int64(tp.Choose(60))
		if os.Getenv("VERIF_C13_KEYRANGE") != "" && rule == wl.TraceDurRule {
			condTag = wl.TraceDurTag
		}
	}
	desc := tp.Bool(1, 2)
	var cond = wl.RangeCond(condTag, cLo, cHi)
	if condTag == "" {
		cond = nil
	}
	got, ok := h.ask("ordered-index", where, s.QueryOrdered(rule, desc, lo, hi, s.Projection(tp), cond))
	if !ok {
		return
	}
	matched := 0
	for _, id := range m.IDs {
		vis := visible(id)
		match := false
		for _, w := range vis {
			v := w
			if condTag == wl.TraceDurTag {
				v = m.SpanByWid(w).Dur
			}
			if condTag == "" || (v >= cLo && v <= cHi) {
				match = true
			}
		}
		r := got[id]
		if !match {
			if r != nil && len(vis) == 0 && len(r.Wids) > 0 {
				e.Fail("ordered-index", "spans-of-removed-trace-returned", "%s: ordered query (%s) returned %d spans of trace %q which a query by id no longer returns", where, rule, len(r.Wids), id)
				return
			}
			continue
		}
		matched++
		if r == nil || len(r.Wids) == 0 {
			h.diagnoseOrdered(rule, lo, hi, id, cond)
			e.Fail("ordered-index", "matching-trace-missing", "%s: ordered query (%s desc=%v %s in [%d,%d]) does not return trace %q although %d of its spans are stored and match", where, rule, desc, condTag, cLo, cHi, id, len(vis))
			return
		}
		if fmt.Sprint(r.Wids) != fmt.Sprint(vis) {
			e.Fail("ordered-index", "trace-not-whole", "%s: ordered query (%s desc=%v %s in [%d,%d]) returned trace %q with spans %v, the stored spans are %v", where, rule, desc, condTag, cLo, cHi, id, r.Wids, vis)
			return
		}
	}
	// order of the traces (C09's clause for the trace engine): the index holds one entry per span, a trace appears where
	// its first entry in scan order lies. Whatever the engine does with conditions, for two consecutive traces A, B of an
	// ascending answer some span key of A is <= some span key of B (descending: >=); with one span per trace that is
	// exactly key order.
	keyOf := func(w int64) int64 {
		if rule == wl.TraceTsRule {
			return m.SpanByWid(w).Ts
		}
		return m.SpanByWid(w).Dur
	}
	type posID struct {
		id  string
		pos int
	}
	var seq []posID
	for id, r := range got {
		if len(r.Wids) > 0 {
			seq = append(seq, posID{id, r.Pos})
		}
	}
	sort.Slice(seq, func(i, j int) bool { return seq[i].pos < seq[j].pos })
	for i := 1; i < len(seq); i++ {
		a, b := got[seq[i-1].id].Wids, got[seq[i].id].Wids
		minA, maxA, minB, maxB := keyOf(a[0]), keyOf(a[0]), keyOf(b[0]), keyOf(b[0])
		for _, w := range a {
			minA, maxA = min(minA, keyOf(w)), max(maxA, keyOf(w))
		}
		for _, w := range b {
			minB, maxB = min(minB, keyOf(w)), max(maxB, keyOf(w))
		}
		if (!desc && minA > maxB) || (desc && maxA < minB) {
			cls := "traces-out-of-key-order"
			if h.batches > 10 {
				// many batches = many parts: more index blocks than one scan batch holds (32), where the ordered index
				// merges batch by batch (C09's recorded sidx finding, seen here at the trace level)
				cls += ":many-batches"
			}
			e.Fail("ordered-index", cls, "%s: ordered query (%s desc=%v %s in [%d,%d]) returned trace %q (keys %d..%d) before trace %q (keys %d..%d)", where, rule, desc, condTag, cLo, cHi, seq[i-1].id, minA, maxA, seq[i].id, minB, maxB)
			return
		}
	}
	if len(seq) > 1 {
		e.Probe("reach.order_of_traces_checked")
	}
	e.Probe("reach.ordered_query_checked")
	// the number of matching traces depends on what samplers have removed so far (engine timing): diagnostics only
	e.Event("%s: ordered query %s cond=%q: every matching trace whole", where, rule, condTag)
	e.Note("%d traces matched", matched)
}

// checkSidx compares, per ordered index and trace, the physical rows found by a raw scan of the index (key ->
// number of rows) with the keys of the spans a query by id is entitled to return now (visible): one row per span.
func (h *harness) checkSidx(where string, visible func(id string) []int64) {
	e, m := h.e, h.m
	ent, err := sidxEntries(h.n, h.s.Group)
	if err != nil {
		if strings.Contains(err.Error(), "requires a persisted part") {
			e.Probe("reach.sidx_scan_skipped_memory_part")
			return
		}
		e.Fail("ordered-index", "sidx-scan-error", "%s: scanning the ordered index failed: %v", where, err)
		return
	}
	rules := []string{wl.TraceDurRule}
	if h.s.TsRule {
		rules = append(rules, wl.TraceTsRule)
	}
	for _, rule := range rules {
		for _, id := range m.IDs {
			want := map[int64]int{}
			for _, w := range visible(id) {
				sp := m.SpanByWid(w)
				if rule == wl.TraceDurRule {
					want[sp.Dur]++
				} else {
					want[sp.Ts*1_000_000]++
				}
			}
			have := ent[rule][id]
			for _, k := range keysOf(want) {
				if have[k] < want[k] {
					e.Fail("ordered-index", "index-entries-lost", "%s: ordered index %s holds %d rows key=%d of trace %q, %d stored spans of it have that key (index rows %v, stored spans' keys %v)", where, rule, have[k], k, id, want[k], have, want)
					return
				}
			}
			for _, k := range keysOf(have) {
				if have[k] > want[k] {
					cls := "index-entries-left-behind"
					if len(want) > 0 {
						cls = "index-entries-of-removed-spans-left-behind"
					}
					e.Fail("ordered-index", cls, "%s: ordered index %s holds %d rows key=%d of trace %q, %d stored spans of it have that key (index rows %v, stored spans' keys %v)", where, rule, have[k], k, id, want[k], have, want)
					return
				}
			}
		}
		for _, id := range simcore.SortedKeys(ent[rule]) {
			if _, ok := m.Traces[id]; !ok {
				e.Fail("ordered-index", "index-entry-of-unknown-trace", "%s: ordered index %s holds an entry of unknown trace %q", where, rule, id)
				return
			}
		}
	}
	e.Probe("reach.sidx_entries_checked")
}

func keysOf(m map[int64]int) []int64 {
	out := make([]int64, 0, len(m))
	for k := range m {
		out = append(out, k)
	}
	sort.Slice(out, func(i, j int) bool { return out[i] < out[j] })
	return out
}

// ---------------------------------------------------------------------------------------------
// scenario (b): in-process samplers
// ---------------------------------------------------------------------------------------------

const (
	fNone = iota
	fError
	fMislen
	fPanic
	fTimeout
)

var faultNames = []string{"none", "error", "wrong-length", "panic", "timeout"}

// verdictPlan is the tape-drawn behaviour of one sampler for one trace id.
type verdictPlan struct {
	drop      bool
	fault     int
	faultLeft int
}

// dropCall is one well-formed "drop" answer for one trace.
type dropCall struct {
	seq         int
	seen        map[int64]bool // wids the sampler saw (nil when span ids were not projected)
	ackedBefore map[int64]bool // wids acknowledged to the writer when Decide started
	upper       map[int64]bool // acknowledged or in flight when Decide started (upper bound of the merge inputs)
}

// ledger is shared between the scenario goroutine (writer/oracle) and the samplers (engine goroutines).
type ledger struct {
	mu         sync.Mutex
	acked      map[string]map[int64]bool
	inflight   map[string]map[int64]bool
	drops      map[string][]*dropCall
	chainStart map[*sdk.TraceBatch]time.Time
	seq        int
	calls      int
	faults     [5]int
	voidDrops  int
}

func copySet(a, b map[int64]bool) map[int64]bool {
	out := make(map[int64]bool, len(a)+len(b))
	for k := range a {
		out[k] = true
	}
	for k := range b {
		out[k] = true
	}
	return out
}

type simSampler struct {
	e       *simcore.Env
	l       *ledger
	plan    map[string]*verdictPlan
	proj    sdk.Projection
	timeout time.Duration
	idx     int
}

func (s *simSampler) Kind() sdk.Kind          { return sdk.KindSampler }
func (s *simSampler) Project() sdk.Projection { return s.proj }
func (s *simSampler) Close() error            { return nil }

func (s *simSampler) Decide(b *sdk.TraceBatch) (sdk.Verdict, error) {
	l := s.l
	l.mu.Lock()
	l.calls++
	now := time.Now()
	if s.idx == 0 {
		l.chainStart[b] = now
	}
	start, known := l.chainStart[b]
	if !known {
		start = now
	}
	fault := fNone
	keep := make([]bool, len(b.Traces))
	type pending struct {
		id string
		dc *dropCall
	}
	var pend []pending
	for i := range b.Traces {
		tb := &b.Traces[i]
		vp := s.plan[tb.TraceID]
		keep[i] = true
		if vp == nil {
			continue
		}
		if fault == fNone && vp.faultLeft > 0 {
			fault = vp.fault
			vp.faultLeft--
		}
		if vp.drop {
			keep[i] = false
			dc := &dropCall{ackedBefore: copySet(l.acked[tb.TraceID], nil), upper: copySet(l.acked[tb.TraceID], l.inflight[tb.TraceID])}
			if s.proj.SpanIDs {
				dc.seen = map[int64]bool{}
				for _, sid := range tb.SpanIDs {
					var w int64
					if _, err := fmt.Sscanf(sid, "s%d", &w); err == nil {
						dc.seen[w] = true
					}
				}
			}
			pend = append(pend, pending{tb.TraceID, dc})
		}
	}
	// a verdict only counts when this link answers well-formed and the chain is still within its deadline
	late := now.Sub(start) >= s.timeout
	if fault == fNone && !late {
		for _, p := range pend {
			l.seq++
			p.dc.seq = l.seq
			l.drops[p.id] = append(l.drops[p.id], p.dc)
		}
	} else {
		l.voidDrops += len(pend)
	}
	l.faults[fault]++
	l.mu.Unlock()
	switch fault {
	case fError:
		s.e.Probe("fault.sampler_error")
		return sdk.Verdict{}, errors.New("simulated sampler failure")
	case fMislen:
		s.e.Probe("fault.sampler_wrong_length")
		if len(keep)%2 == 0 {
			return sdk.Verdict{Keep: append(keep, false)}, nil
		}
		return sdk.Verdict{Keep: keep[:len(keep)-1]}, nil
	case fPanic:
		s.e.Probe("fault.sampler_panic")
		panic("simulated sampler panic")
	case fTimeout:
		s.e.Probe("fault.sampler_timeout")
		time.Sleep(s.timeout + s.timeout/2)
		return sdk.Verdict{Keep: keep}, nil
	}
	if late {
		s.e.Probe("reach.sampler_link_ran_after_deadline")
	}
	return sdk.Verdict{Keep: keep}, nil
}

// explain decides whether the removed spans of a trace are accounted for by well-formed drop answers.
// removed = acknowledged spans a query by id does not return. Rules (see DESIGN C13 oracle 2-4):
//   - every removed span was inside the inputs of a merge whose sampler answered "drop" for the trace;
//   - such a merge may only be honoured if every span acknowledged before that Decide call started
//     was inside its inputs too (or had been removed before) - otherwise a fragment lived outside.
func explain(acked []int64, removed map[int64]bool, drops []*dropCall) (ok bool, why string) {
	if len(removed) == 0 {
		return true, ""
	}
	if len(drops) == 0 {
		return false, "no sampler call ever answered drop for this trace (only keep verdicts, errors, panics, wrong-length or late answers)"
	}
	covered := map[int64]bool{}
	usable := 0
	for _, d := range drops {
		legit := true
		if d.seen != nil {
			for w := range d.seen {
				if !removed[w] {
					legit = false // this merge's inputs are (partly) still there: it was not honoured
				}
			}
			for w := range d.ackedBefore {
				if !d.seen[w] && !removed[w] {
					legit = false
				}
			}
			if legit {
				for w := range d.seen {
					covered[w] = true
				}
			}
		} else {
			// inputs unknown: they contain at least nothing beyond "upper"; honouring requires every span
			// acknowledged before the call to be gone
			for w := range d.ackedBefore {
				if !removed[w] {
					legit = false
				}
			}
			if legit {
				for w := range d.upper {
					if removed[w] {
						covered[w] = true
					}
				}
			}
		}
		if legit {
			usable++
		}
	}
	var un []int64
	for w := range removed {
		if !covered[w] {
			un = append(un, w)
		}
	}
	if len(un) == 0 {
		return true, ""
	}
	sort.Slice(un, func(i, j int) bool { return un[i] < un[j] })
	return false, fmt.Sprintf("%d drop answers exist, %d of them could have been honoured without leaving a fragment outside the merge, spans %v are not covered by any of them", len(drops), usable, un)
}

// gateSites are the places of banyand/trace/merger.go (gates inserted by tools/gaterw) where the "schedules"
// scenario may hold an engine goroutine: the dispatcher between taking its snapshot and looking at the pinned
// parts, between selecting and pinning; a lane worker before it starts; a merge before its core pass (before
// any sampler verdict) and between its re-validation and the hand-over to the introducer.
var gateSites = []string{
	"merger.go:dispatchAllMergesUpTo#1",
	"merger.go:getPartsToMergeUpTo#1",
	"merger.go:mergeLaneWorker#1",
	"merger.go:mergePartsThenIntroduceAttempt#1",
	"merger.go:mergePartsThenIntroduceAttempt#2",
}

// runSampler is scenario (b) "sampler" and, with gated, scenario (c) "schedules": the same histories and
// oracles, but merge goroutines are held at gate sites and released in tape-chosen order, with writes in between.
func runSampler(e *simcore.Env, tp *simcore.Tape, gated bool) {
	synctest.Test(e.T, func(*testing.T) {
		knobDesc, knobRestore := simknobs.Draw(tp, "trace", "sidx")
		defer knobRestore()
		// bytes staged per sampler decision batch (the engine's own test seam; 0 = as in production): small budgets make
		// a merge decide its traces in several batches
		stageBudget := []uint64{0, 0, 1, 2000, 100000}[tp.Side().Choose(5)]
		oldBudget := trace.VerifSetStageBudgetOverride(stageBudget)
		defer trace.VerifSetStageBudgetOverride(oldBudget)
		if stageBudget > 0 {
			e.Probe("knob.sampler_stage_budget_shrunk")
		}
		e.Event("sampler stage budget override=%d", stageBudget)
		simknobs.Record(e, knobDesc)
		var gatesOn atomic.Bool
		armed := map[string]bool{}
		if gated {
			simcore.SetActor("main")
			defer simcore.ClearActor()
			for _, site := range gateSites {
				if tp.Bool(2, 3) {
					armed[site] = true
				}
			}
			if len(armed) == 0 {
				armed[gateSites[1]], armed[gateSites[2]] = true, true
			}
			gatesOn.Store(true)
			simcore.EnableGates(func(_, site string) bool { return gatesOn.Load() && armed[site] })
		}
		s := wl.GenTraceSchema(tp, wl.TraceSchemaOpts{})
		repo := simmeta.New()
		s.Install(repo)
		flush := []string{"1s", "5s", "20s"}[tp.Choose(3)]
		decideTimeout := []time.Duration{2 * time.Second, 200 * time.Millisecond, 30 * time.Second}[tp.Choose(3)]
		flags := []string{
			"--trace-flush-timeout=" + flush, fmt.Sprintf("--trace-max-merge-parts=%d", tp.Range(2, 8)),
			"--trace-pipeline-native-plugin-enabled=true", "--trace-pipeline-decide-timeout=" + decideTimeout.String(),
			fmt.Sprintf("--trace-pipeline-decide-timeout-circuit-break=%d", tp.Range(1, 3)),
		}
		if tp.Bool(1, 3) {
			flags = append(flags, "--trace-vectorized-enabled=false") // the row-at-a-time query path (default: vectorized)
		}
		// sizes of the engine's two global semaphores (the engine uses the CPU count): small values make merges
		// and sampler calls queue behind a sampler that overruns its deadline
		simnode.TraceMergeConcurrency, simnode.TraceSamplerSlots = tp.Range(1, 4), tp.Range(1, 4)
		defer func() { simnode.TraceMergeConcurrency, simnode.TraceSamplerSlots = 0, 0 }()
		flags = append(flags, fmt.Sprintf("(merge-concurrency=%d sampler-slots=%d)", simnode.TraceMergeConcurrency, simnode.TraceSamplerSlots))
		n, err := simnode.Boot(repo, e.Dir, simnode.Engines{Trace: true}, flags[:len(flags)-1])
		if err != nil {
			e.Fail("boot", "boot-failed", "boot: %v", err)
			return
		}
		defer func() {
			gatesOn.Store(false)
			for _, p := range simcore.ParkedList() {
				simcore.Release(p)
			}
			n.Stop()
			// a sampler that overran its deadline is still sleeping on the fake clock (abandoned by the engine,
			// as designed); the clock stops when the scenario goroutine returns, so let it finish first
			time.Sleep(2 * decideTimeout)
			stopAndReport(e, n)
		}()
		m := wl.NewTraceModel(s)
		m.TolerateTag = func(kind string) bool { return e.Known("value-fidelity", "trace:"+kind) } // C01's clause for traces: recorded kinds are counted, others fail
		h := &harness{e: e, tp: tp, n: n, s: s, m: m, obs: &maintObs{prev: map[string][]string{}}}

		grace := []time.Duration{time.Minute, 10 * time.Minute, time.Hour}[tp.Choose(3)]
		// the engine's documented contract: fragments of one trace are no farther apart than merge_grace
		spread := []int64{0, 1000, grace.Milliseconds() / 2, grace.Milliseconds()}[tp.Choose(4)]
		plan := m.GenPlan(tp, wl.TracePlanOpts{
			NowMs: time.Now().UnixMilli(), MaxDaysBack: tp.Range(0, 3), SpreadMs: spread,
			MinTraces: 3, MaxTraces: 20, MaxSpans: 8, Big: tp.Bool(1, 30), NullOK: true,
		})

		// samplers: verdict per trace id from the tape
		l := &ledger{acked: map[string]map[int64]bool{}, inflight: map[string]map[int64]bool{}, drops: map[string][]*dropCall{}, chainStart: map[*sdk.TraceBatch]time.Time{}}
		nSamplers := 1
		if tp.Bool(1, 3) {
			nSamplers = 2
		}
		if gated && tp.Bool(1, 3) {
			nSamplers = 0 // plain merges under adversarial schedules
		}
		var proj sdk.Projection
		switch tp.Weighted(3, 2, 1) {
		case 0:
			proj = sdk.Projection{SpanIDs: true}
		case 1:
			proj = sdk.Projection{} // metadata only: the merge keeps its raw fast path
		default:
			proj = sdk.Projection{SpanIDs: true, Spans: true, Tags: []string{wl.TraceWidTag}}
		}
		var samplers []*simSampler
		var planNote []string
		for si := 0; si < nSamplers; si++ {
			sm := &simSampler{e: e, l: l, plan: map[string]*verdictPlan{}, proj: proj, timeout: decideTimeout, idx: si}
			for _, id := range plan.TraceIDs {
				vp := &verdictPlan{}
				switch tp.Weighted(4, 5, 1, 1, 1, 1) {
				case 0:
				case 1:
					vp.drop = true
				default:
					vp.fault = 1 + tp.Choose(4)
					vp.faultLeft = 1 + tp.Choose(2)
					vp.drop = tp.Bool(2, 3)
				}
				sm.plan[id] = vp
				planNote = append(planNote, fmt.Sprintf("s%d/%s:drop=%v,fault=%s x%d", si, id[:min(len(id), 12)], vp.drop, faultNames[vp.fault], vp.faultLeft))
			}
			samplers = append(samplers, sm)
		}
		for _, sm := range samplers {
			dereg := trace.VerifRegisterSampler(s.Group, sm)
			defer dereg()
		}
		trace.VerifSetMergeGrace(s.Group, grace.Nanoseconds())
		defer trace.VerifSetMergeGrace(s.Group, 0)
		finalize := tp.Bool(1, 2)
		if finalize {
			fg := []time.Duration{time.Minute, 20 * time.Minute}[tp.Choose(2)]
			trace.VerifEnableFinalize(s.Group, fg.Nanoseconds(), 1, int64(time.Minute), 8)
			defer trace.VerifDisableFinalize(s.Group)
		}
		e.Event("armed gates %v", simcore.SortedKeys(armed))
		e.Event("schema shards=%d tags=%v durRule=%v tsRule=%v flags=%v grace=%s finalize=%v samplers=%d proj=%+v traces=%d batches=%d spread=%dms",
			s.Shards, s.Tags, s.DurRuleTags, s.TsRule, flags, grace, finalize, nSamplers, proj, len(plan.TraceIDs), len(plan.Batches), spread)
		e.Event("verdict plan: %s", strings.Join(planNote, " "))

		droppedWhole, lateOnly := map[string]bool{}, map[string]bool{}
		check := func(where string) {
			if e.Failed() || len(m.IDs) == 0 {
				return
			}
			lo, hi := m.Bounds(time.Now().UnixMilli())
			got, ok := h.ask("all-or-none", where, s.QueryByTraceIDs(m.IDs, lo, hi, s.Projection(tp)))
			if !ok {
				return
			}
			l.mu.Lock()
			drops := make(map[string][]*dropCall, len(l.drops))
			for id, d := range l.drops {
				drops[id] = append([]*dropCall(nil), d...)
			}
			l.mu.Unlock()
			visible := map[string][]int64{}
			for _, id := range m.IDs {
				acked := m.AckedWids(id)
				r := got[id]
				seen := map[int64]int{}
				if r != nil {
					visible[id] = r.Wids
					for _, w := range r.Wids {
						seen[w]++
						if seen[w] > 1 {
							e.Fail("no-duplicate", "span-returned-twice", "%s: query trace_id IN (...): trace %q: span w%d returned more than once (%v)%s", where, id, w, r.Wids, h.diagnoseByID(id, lo, hi))
							return
						}
					}
				}
				removed := map[int64]bool{}
				for _, w := range acked {
					if seen[w] == 0 {
						removed[w] = true
					}
				}
				if len(removed) == 0 {
					continue
				}
				okx, why := explain(acked, removed, drops[id])
				if !okx {
					cls := "partial-trace"
					switch {
					case len(drops[id]) == 0 && len(removed) == len(acked):
						cls = "trace-lost-without-drop-verdict"
					case len(drops[id]) == 0:
						cls = "spans-lost-without-drop-verdict"
					case len(removed) == len(acked):
						cls = "trace-dropped-while-fragment-outside-merge"
					}
					var rm []int64
					for w := range removed {
						rm = append(rm, w)
					}
					sort.Slice(rm, func(i, j int) bool { return rm[i] < rm[j] })
					e.Fail("all-or-none", cls, "%s: trace %q: acknowledged spans %v, returned %v, removed %v: %s", where, id, acked, visible[id], rm, why)
					return
				}
				if len(removed) == len(acked) {
					if !droppedWhole[id] {
						droppedWhole[id] = true
						e.Probe("reach.trace_dropped_whole")
					}
				} else if !lateOnly[id] {
					lateOnly[id] = true
					e.Probe("reach.trace_dropped_then_late_spans_kept")
				}
			}
			e.Event("%s: %d traces: each is whole or accounted for by drop verdicts", where, len(m.IDs))
			// single-id queries must agree with the IN query
			for _, id := range m.IDs {
				if !tp.Bool(1, 5) {
					continue
				}
				one, ok1 := h.ask("all-or-none", where, s.QueryByTraceID(id, lo, hi, s.Projection(tp)))
				if !ok1 {
					return
				}
				var w1 []int64
				if one[id] != nil {
					w1 = one[id].Wids
				}
				if fmt.Sprint(w1) != fmt.Sprint(visible[id]) {
					e.Fail("all-or-none", "by-id-and-in-list-disagree", "%s: trace %q: trace_id=X returns %v, trace_id IN (...) returns %v", where, id, w1, visible[id])
					return
				}
			}
			if s.DurRule {
				h.checkOrdered(where, lo, hi, func(id string) []int64 { return visible[id] })
				h.checkSidx(where, func(id string) []int64 { return visible[id] })
			}
		}

		// settle releases held goroutines: per round all those waiting at one tape-chosen site (choice 0 = the
		// first site in lexical order: dispatcher before workers before merge attempts, the engine's usual order).
		// The choices are drawn up front so that the tape is consumed identically whatever is being held; the
		// canonical history records the choices, the sites they resolved to are diagnostics (the goroutines
		// that are not held are scheduled by the Go runtime, not by the tape).
		settle := func(rounds int) {
			if !gated {
				return
			}
			choices := make([]int, rounds)
			for i := range choices {
				choices[i] = tp.Choose(len(gateSites))
			}
			e.Event("release held goroutines: %d rounds, choices %v", rounds, choices)
			for i := 0; i < rounds; i++ {
				synctest.Wait()
				parked := simcore.ParkedList()
				if len(parked) == 0 {
					break
				}
				seenSite := map[string]bool{}
				for _, p := range parked {
					seenSite[p.Site] = true
				}
				sites := simcore.SortedKeys(seenSite)
				site := sites[choices[i]%len(sites)]
				k := 0
				for _, p := range parked {
					if p.Site == site {
						simcore.Release(p)
						k++
					}
				}
				e.Probe("reach.held_goroutine_released")
				if site != sites[0] {
					e.Probe("reach.released_out_of_usual_order")
				}
				e.Note("released %d at %s, %d held in total at %v", k, site, len(parked), sites)
			}
			synctest.Wait()
		}
		for bi, b := range plan.Batches {
			if e.Failed() {
				break
			}
			time.Sleep(time.Duration(tp.Range(1, 3000)) * time.Microsecond)
			synctest.Wait()
			if gated && len(simcore.ParkedList()) > 0 {
				e.Probe("reach.write_while_merge_goroutine_held")
			}
			l.mu.Lock()
			for _, sp := range b {
				if l.inflight[sp.TraceID] == nil {
					l.inflight[sp.TraceID] = map[int64]bool{}
				}
				l.inflight[sp.TraceID][sp.Wid] = true
			}
			l.mu.Unlock()
			if !h.write(b) {
				return
			}
			l.mu.Lock()
			for _, sp := range b {
				if l.acked[sp.TraceID] == nil {
					l.acked[sp.TraceID] = map[int64]bool{}
				}
				l.acked[sp.TraceID][sp.Wid] = true
				delete(l.inflight[sp.TraceID], sp.Wid)
			}
			m.Ack(b)
			l.mu.Unlock()
			e.Event("batch %d: wrote %d spans", bi, len(b))
			h.sample = append(h.sample, fmt.Sprintf("write %d", len(b)))
			settle(tp.Choose(4))
			if tp.Bool(1, 4) {
				synctest.Wait()
				check(fmt.Sprintf("after batch %d", bi))
			}
			for tp.Bool(2, 5) && !e.Failed() {
				h.advance(advances[tp.Choose(len(advances))])
				settle(tp.Choose(6))
				check("after advance")
			}
		}
		for i, k := 0, tp.Range(1, 5); i < k && !e.Failed(); i++ {
			h.advance(advances[tp.Choose(len(advances))])
			settle(24)
			check("final")
		}
		h.reachProbes()
		l.mu.Lock()
		calls, voidDrops, nd := l.calls, l.voidDrops, 0
		for _, d := range l.drops {
			nd += len(d)
		}
		l.mu.Unlock()
		if calls > 0 {
			e.Probe("reach.sampler_called")
			e.Nontrivial()
		}
		if gated && h.obs.merges+h.obs.rewrites > 0 {
			e.Nontrivial()
		}
		if nd > 0 {
			e.Probe("reach.sampler_answered_drop")
		}
		e.Note("sampler calls=%d drop answers=%d void drop answers=%d dropped whole=%d", calls, nd, voidDrops, len(droppedWhole))
		e.SetSample(map[string]any{"scenario": map[bool]string{false: "sampler", true: "schedules"}[gated], "armed_gates": simcore.SortedKeys(armed), "flags": flags, "grace": grace.String(), "finalize": finalize, "samplers": nSamplers, "projection": fmt.Sprintf("%+v", proj),
			"traces": len(plan.TraceIDs), "batches": len(plan.Batches), "sampler_calls": calls, "drop_answers": nd, "traces_dropped_whole": len(droppedWhole),
			"flushes_seen": h.obs.flushes, "merges_seen": h.obs.merges, "ops": h.sample})
	})
}

// diagnoseOrdered adds diagnostics (outside the digest) to a failing ordered query.
func (h *harness) diagnoseOrdered(rule string, lo, hi int64, id string, cond *modelv1.Criteria) {
	for _, sp := range h.m.Traces[id] {
		h.e.Note("  span w%d of %q: ts=%s dur=%d svc=%s batch=%d", sp.Wid, id, time.UnixMilli(sp.Ts).UTC().Format(time.RFC3339Nano), sp.Dur, wl.CanonTag(sp.Tags[wl.TraceSvcTag]), sp.Batch)
	}
	for _, v := range []struct {
		c    *modelv1.Criteria
		desc bool
	}{{cond, false}, {cond, true}, {nil, false}, {nil, true}} {
		resp, err := h.n.QueryTrace(h.s.QueryOrdered(rule, v.desc, lo, hi, []string{wl.TraceWidTag}, v.c))
		if err != nil {
			h.e.Note("  diag desc=%v cond=%v: error %v", v.desc, v.c != nil, err)
			continue
		}
		var ids []string
		for _, tr := range resp.GetTraces() {
			ids = append(ids, fmt.Sprintf("%s(%d)", tr.GetTraceId(), len(tr.GetSpans())))
		}
		h.e.Note("  diag desc=%v cond=%v: %v", v.desc, v.c != nil, ids)
	}
	if ent, err := sidxEntries(h.n, h.s.Group); err == nil {
		h.e.Note("  sidx %s entries of %q: %v", rule, id, ent[rule][id])
	}
}

// diagnoseByID returns diagnostics for a failing query by trace id: is the answer stable, how is it split
// into Trace entries, what lies on disk.
func (h *harness) diagnoseByID(id string, lo, hi int64) string {
	var b strings.Builder
	for i := 0; i < 3; i++ {
		resp, err := h.n.QueryTrace(h.s.QueryByTraceID(id, lo, hi, []string{wl.TraceWidTag}))
		if err != nil {
			fmt.Fprintf(&b, "\n  requery %d: error %v", i, err)
			continue
		}
		var parts []string
		for _, tr := range resp.GetTraces() {
			got, _, _ := h.m.Collect([]*tracev1.Trace{tr})
			for _, r := range got {
				parts = append(parts, fmt.Sprint(r.Wids))
			}
		}
		fmt.Fprintf(&b, "\n  requery %d at %s: %d trace entries %v", i, time.Now().UTC().Format(time.RFC3339Nano), len(resp.GetTraces()), parts)
		time.Sleep(time.Millisecond)
	}
	for _, sp := range h.m.Traces[id] {
		fmt.Fprintf(&b, "\n  span w%d: ts=%s batch=%d", sp.Wid, time.UnixMilli(sp.Ts).UTC().Format(time.RFC3339Nano), sp.Batch)
	}
	cur := partsOnDisk(h.e.Dir)
	for _, shard := range simcore.SortedKeys(cur) {
		fmt.Fprintf(&b, "\n  on disk %s: %v", shard, cur[shard])
		if ents, err := os.ReadDir(filepath.Join(h.e.Dir, shard)); err == nil {
			for _, en := range ents {
				if strings.HasSuffix(en.Name(), ".snp") {
					c, _ := os.ReadFile(filepath.Join(h.e.Dir, shard, en.Name()))
					fmt.Fprintf(&b, "\n    %s: %s", en.Name(), string(c))
				}
			}
		}
	}
	return b.String()
}

// stopAndReport stops the node and, with VERIF_C13_DEBUG set, prints the bubble goroutines that are still
// alive afterwards (the synctest panic "blocked goroutines remain" does not say which).
func stopAndReport(e *simcore.Env, n *simnode.Node) {
	n.Stop()
	if os.Getenv("VERIF_C13_DEBUG") == "" {
		return
	}
	synctest.Wait()
	buf := make([]byte, 4<<20)
	buf = buf[:runtime.Stack(buf, true)]
	for _, g := range strings.Split(string(buf), "\n\n") {
		if strings.Contains(g, "synctest bubble") && !strings.Contains(g, "stopAndReport") && !strings.Contains(g, "synctest.Run") && !strings.Contains(g, "testingSynctestTest") {
			fmt.Fprintf(os.Stderr, "LEFTOVER seed=%d\n%s\n\n", e.Seed, g)
		}
	}
}
