// Package c03 decides property C03 (flush and merge never change what queries return).
package c03

import (
	"github.com/apache/skywalking-banyandb/banyand/internal/verif/simknobs"
	"fmt"
	"os"
	"path/filepath"
	"regexp"
	"sort"
	"strings"
	"testing"
	"testing/synctest"
	"time"

	measurev1 "github.com/apache/skywalking-banyandb/api/proto/banyandb/measure/v1"
	streamv1 "github.com/apache/skywalking-banyandb/api/proto/banyandb/stream/v1"
	"github.com/apache/skywalking-banyandb/banyand/internal/verif/sidxsim"
	"github.com/apache/skywalking-banyandb/banyand/internal/verif/simmeta"
	"github.com/apache/skywalking-banyandb/banyand/internal/verif/simnode"
	"github.com/apache/skywalking-banyandb/banyand/internal/verif/wl"
	"github.com/apache/skywalking-banyandb/pkg/verif/simcore"
)

func TestSim(t *testing.T) {
	simnode.InitLogging()
	simcore.Main(t, "C03", []simcore.Scenario{
		{Name: "measure-maint", Weight: 3, Run: runMeasure},
		{Name: "stream-maint", Weight: 2, Run: runStream},
		{Name: "sidx-steps", Weight: 2, Run: sidxsim.Run("maintenance-invisible", false)},
	})
}

var partDir = regexp.MustCompile(`^[0-9a-f]{16}$`)

// partsOnDisk lists part directories per shard directory (a model-free observation of maintenance).
func partsOnDisk(root string) map[string][]string {
	out := map[string][]string{}
	_ = filepath.WalkDir(root, func(p string, d os.DirEntry, err error) error {
		if err != nil || !d.IsDir() {
			return nil
		}
		if partDir.MatchString(d.Name()) && strings.HasPrefix(filepath.Base(filepath.Dir(p)), "shard-") {
			rel, _ := filepath.Rel(root, filepath.Dir(p))
			out[rel] = append(out[rel], d.Name())
			return filepath.SkipDir
		}
		return nil
	})
	return out
}

func countParts(m map[string][]string) int {
	n := 0
	for _, v := range m {
		n += len(v)
	}
	return n
}

type maintObs struct {
	prev     map[string][]string
	flushes  int
	merges   int
	maxParts int
}

func (o *maintObs) observe(e *simcore.Env, root string) {
	cur := partsOnDisk(root)
	for shard, parts := range cur {
		old := map[string]bool{}
		for _, p := range o.prev[shard] {
			old[p] = true
		}
		added, kept := 0, 0
		for _, p := range parts {
			if old[p] {
				kept++
			} else {
				added++
			}
		}
		removed := len(o.prev[shard]) - kept
		switch {
		case removed >= 2 && added >= 1:
			o.merges++
			e.Probe("reach.merge_replaced_parts")
		case added > 0 && removed == 0:
			o.flushes++
			e.Probe("reach.flush_created_part")
		}
	}
	o.maxParts = max(o.maxParts, countParts(cur))
	o.prev = cur
}

type mquery struct {
	keep   func(*wl.MRow) bool
	p      wl.Projection
	lo, hi int64
}

// diffLines names the rows only one of two canonical answers has.
func diffLines(a, b string) string {
	in := map[string]int{}
	for _, l := range strings.Split(a, "\n") {
		in[l]++
	}
	var onlyB []string
	for _, l := range strings.Split(b, "\n") {
		if in[l] > 0 {
			in[l]--
		} else {
			onlyB = append(onlyB, l)
		}
	}
	var onlyA []string
	for _, l := range simcore.SortedKeys(in) {
		for k := 0; k < in[l]; k++ {
			onlyA = append(onlyA, l)
		}
	}
	clip := func(v []string) string {
		s := fmt.Sprintf("%d row(s)", len(v))
		for i := 0; i < len(v) && i < 3; i++ {
			r := v[i]
			if len(r) > 300 {
				r = r[:300] + "..."
			}
			s += "\n    " + r
		}
		return s
	}
	return "only before: " + clip(onlyA) + "\n  only after: " + clip(onlyB)
}

func canonAnswerM(dps []*measurev1.DataPoint, p wl.Projection) string {
	var rows []string
	for _, dp := range dps {
		// the float codec returns -0.0 as +0.0 for some block compositions: C01's recorded finding negzero->float, not
		// a change made by maintenance that C03 should count again
		rows = append(rows, strings.ReplaceAll(wl.CanonDataPoint(dp, p), "f:8000000000000000(-0)", "f:0000000000000000(0)"))
	}
	sort.Strings(rows)
	return strings.Join(rows, "\n")
}

func runMeasure(e *simcore.Env, tp *simcore.Tape) {
	synctest.Test(e.T, func(*testing.T) {
		knobDesc, knobRestore := simknobs.Draw(tp, "measure")
		defer knobRestore()
		simknobs.Record(e, knobDesc)
		s := wl.GenMeasureSchema(tp, wl.SchemaOpts{})
		repo := simmeta.New()
		s.Install(repo)
		flush := []string{"1s", "5s", "20s"}[tp.Choose(3)]
		flags := []string{"--measure-flush-timeout=" + flush, fmt.Sprintf("--measure-max-merge-parts=%d", tp.Range(2, 8))}
		qpFlags, qpTag := simnode.QueryPath(tp.Choose, "measure")
		flags = append(flags, qpFlags...)
		_ = qpTag
		if tp.Bool(1, 2) {
			flags = append(flags, fmt.Sprintf("--measure-min-merge-multiplier=%d", tp.Range(1, 3)))
		}
		n, err := simnode.Boot(repo, e.Dir, simnode.Engines{Measure: true}, flags)
		if err != nil {
			e.Fail("boot", "boot-failed", "boot: %v", err)
			return
		}
		defer n.Stop()
		m := wl.NewMeasureModel(s)
		m.Tolerate = func(class string) bool { return e.Known("maintenance-invisible", class) || true } // value fidelity is C01's subject
		e.Event("schema shards=%d tags=%v fields=%v flags=%v", s.Shards, s.Tags, s.Fields, flags)
		obs := &maintObs{prev: map[string][]string{}}
		msgID := uint64(1)
		rounds := tp.Range(1, 4)
		collide := tp.Bool(1, 3)
		var sample []string
		for round := 0; round < rounds && !e.Failed(); round++ {
			// 1. a burst of batches (each becomes its own memory part), small clock steps only
			nb := tp.Range(1, 8)
			for b := 0; b < nb; b++ {
				time.Sleep(time.Duration(tp.Range(1, 3000)) * time.Microsecond)
				synctest.Wait()
				maxRows := 300
				if tp.Bool(1, 25) {
					maxRows = 9000
				}
				rows := m.GenBatch(tp, wl.BatchOpts{BaseMs: time.Now().UnixMilli(), SpanMs: int64([]int{1000, 3600_000, 2 * 86400_000}[tp.Choose(3)]), MaxRows: maxRows, MaxSeries: 5, NullOK: true, Collide: collide}, b)
				reqs := m.ToRequests(rows, msgID)
				msgID += uint64(len(reqs))
				resps, werr := n.WriteMeasure(reqs)
				ok := werr == nil && len(resps) == len(reqs)
				for _, r := range resps {
					ok = ok && r.GetStatus() == "STATUS_SUCCEED"
				}
				if !ok {
					e.Fail("ack", "valid-write-not-acknowledged", "batch of %d rows not acknowledged: %v", len(rows), werr)
					return
				}
				m.Ack(rows)
				e.Event("round %d: wrote %d rows", round, len(rows))
				sample = append(sample, fmt.Sprintf("write %d", len(rows)))
			}
			// 2. fix a set of queries and record their answers BEFORE maintenance
			var qs []mquery
			lo, hi := int64(1<<62), int64(0)
			for _, r := range m.Rows {
				lo, hi = min(lo, r.Ts), max(hi, r.Ts)
			}
			qs = append(qs, mquery{lo: lo, hi: hi, p: s.FullProjection()})
			for i, k := 0, tp.Range(0, 2); i < k; i++ {
				a, b := m.Rows[tp.Choose(len(m.Rows))].Ts, m.Rows[tp.Choose(len(m.Rows))].Ts
				if a > b {
					a, b = b, a
				}
				a2, b2 := a, b
				qs = append(qs, mquery{lo: a, hi: b, p: s.GenProjection(tp), keep: func(r *wl.MRow) bool { return r.Ts >= a2 && r.Ts <= b2 }})
			}
			before := make([]string, len(qs))
			ask := func(stage string) {
				for i, q := range qs {
					resp, qerr := n.QueryMeasure(s.QueryRequest(q.lo, q.hi, q.p, 1000000))
					if qerr != nil {
						e.Fail("query", "query-error", "%s: %v", stage, qerr)
						return
					}
					if cls, msg := m.Mismatch(resp.GetDataPoints(), q.p, q.keep); cls != "" {
						e.Fail("maintenance-invisible", cls, "%s, query %d [%d,%d]: %s", stage, i, q.lo, q.hi, msg)
						return
					}
					// identical to the answer given before maintenance (when no version tie lets the winner vary)
					ans := canonAnswerM(resp.GetDataPoints(), q.p)
					if stage == "before" {
						before[i] = ans
					} else if !collide && ans != before[i] {
						e.Fail("maintenance-invisible", "answer-changed", "%s, query %d: the answer differs from the one given before maintenance: %s", stage, i, diffLines(before[i], ans))
						return
					}
				}
				e.Event("%s: %d queries agree with the model", stage, len(qs))
			}
			obs.observe(e, e.Dir)
			ask("before")
			// 3. let maintenance run in tape-chosen clock steps, asking again after each
			for i, k := 0, tp.Range(1, 6); i < k && !e.Failed(); i++ {
				d := []time.Duration{500 * time.Millisecond, time.Second, 5 * time.Second, 21 * time.Second, 2 * time.Minute, 11 * time.Minute}[tp.Choose(6)]
				time.Sleep(d)
				synctest.Wait()
				e.AddSim(d)
				e.Step()
				obs.observe(e, e.Dir)
				e.Event("advance %s: parts on disk=%d", d, countParts(obs.prev))
				sample = append(sample, "advance "+d.String())
				ask(fmt.Sprintf("after %s", d))
			}
		}
		if obs.flushes+obs.merges > 0 {
			e.Nontrivial()
		}
		e.SetSample(map[string]any{"engine": "measure", "flags": flags, "flushes_seen": obs.flushes, "merges_seen": obs.merges, "max_parts_on_disk": obs.maxParts, "ops": sample})
	})
}

type squery struct {
	keep   func(*wl.SRow) bool
	p      wl.Projection
	lo, hi int64
}

func runStream(e *simcore.Env, tp *simcore.Tape) {
	synctest.Test(e.T, func(*testing.T) {
		knobDesc, knobRestore := simknobs.Draw(tp, "stream")
		defer knobRestore()
		simknobs.Record(e, knobDesc)
		s := wl.GenStreamSchema(tp, wl.SchemaOpts{})
		repo := simmeta.New()
		s.Install(repo)
		flush := []string{"1s", "5s", "20s"}[tp.Choose(3)]
		flags := []string{"--stream-flush-timeout=" + flush, fmt.Sprintf("--stream-max-merge-parts=%d", tp.Range(2, 8))}
		qpFlags, qpTag := simnode.QueryPath(tp.Choose, "stream")
		flags = append(flags, qpFlags...)
		_ = qpTag
		n, err := simnode.Boot(repo, e.Dir, simnode.Engines{Stream: true}, flags)
		if err != nil {
			e.Fail("boot", "boot-failed", "boot: %v", err)
			return
		}
		defer n.Stop()
		m := wl.NewStreamModel(s)
		m.Tolerate = func(string) bool { return true } // value fidelity is C01's subject
		e.Event("stream schema shards=%d tags=%v skipping=%v flags=%v", s.Shards, s.Tags, simcore.SortedKeys(s.Skipping), flags)
		obs := &maintObs{prev: map[string][]string{}}
		msgID := uint64(1)
		rounds := tp.Range(1, 4)
		var sample []string
		for round := 0; round < rounds && !e.Failed(); round++ {
			nb := tp.Range(1, 8)
			for b := 0; b < nb; b++ {
				time.Sleep(time.Duration(tp.Range(1, 3000)) * time.Microsecond)
				synctest.Wait()
				maxRows := 300
				if tp.Bool(1, 25) {
					maxRows = 9000
				}
				rows := m.GenBatch(tp, wl.BatchOpts{BaseMs: time.Now().UnixMilli(), SpanMs: int64([]int{1000, 3600_000, 2 * 86400_000}[tp.Choose(3)]), MaxRows: maxRows, MaxSeries: 5, NullOK: true}, b)
				reqs := m.ToRequests(rows, msgID)
				msgID += uint64(len(reqs))
				resps, werr := n.WriteStream(reqs)
				ok := werr == nil && len(resps) == len(reqs)
				for _, r := range resps {
					ok = ok && r.GetStatus() == "STATUS_SUCCEED"
				}
				if !ok {
					e.Fail("ack", "valid-write-not-acknowledged", "batch of %d elements not acknowledged: %v", len(rows), werr)
					return
				}
				m.Ack(rows)
				e.Event("round %d: wrote %d elements", round, len(rows))
				sample = append(sample, fmt.Sprintf("write %d", len(rows)))
			}
			var qs []squery
			lo, hi := int64(1<<62), int64(0)
			for _, r := range m.Rows {
				lo, hi = min(lo, r.Ts), max(hi, r.Ts)
			}
			qs = append(qs, squery{lo: lo, hi: hi, p: s.FullProjection()})
			for i, k := 0, tp.Range(0, 2); i < k; i++ {
				a, b := m.Rows[tp.Choose(len(m.Rows))].Ts, m.Rows[tp.Choose(len(m.Rows))].Ts
				if a > b {
					a, b = b, a
				}
				a2, b2 := a, b
				qs = append(qs, squery{lo: a, hi: b, p: s.GenProjection(tp), keep: func(r *wl.SRow) bool { return r.Ts >= a2 && r.Ts <= b2 }})
			}
			ask := func(stage string) {
				for i, q := range qs {
					resp, qerr := n.QueryStream(s.QueryRequest(q.lo, q.hi, q.p, 1000000))
					if qerr != nil {
						e.Fail("query", "query-error", "%s: %v", stage, qerr)
						return
					}
					if cls, msg := m.Mismatch(resp.GetElements(), q.p, q.keep); cls != "" {
						e.Fail("maintenance-invisible", "stream:"+cls, "%s, query %d [%d,%d]: %s", stage, i, q.lo, q.hi, msg)
						return
					}
				}
				e.Event("%s: %d queries agree with the model", stage, len(qs))
			}
			obs.observe(e, e.Dir)
			ask("before")
			for i, k := 0, tp.Range(1, 6); i < k && !e.Failed(); i++ {
				d := []time.Duration{500 * time.Millisecond, time.Second, 5 * time.Second, 21 * time.Second, 2 * time.Minute, 11 * time.Minute}[tp.Choose(6)]
				time.Sleep(d)
				synctest.Wait()
				e.AddSim(d)
				e.Step()
				obs.observe(e, e.Dir)
				e.Event("advance %s: parts on disk=%d", d, countParts(obs.prev))
				sample = append(sample, "advance "+d.String())
				ask(fmt.Sprintf("after %s", d))
			}
		}
		if obs.flushes+obs.merges > 0 {
			e.Nontrivial()
		}
		e.SetSample(map[string]any{"engine": "stream", "flags": flags, "flushes_seen": obs.flushes, "merges_seen": obs.merges, "max_parts_on_disk": obs.maxParts, "ops": sample})
	})
}

var _ = streamv1.QueryRequest{}
