// Package c01 decides property C01 (acknowledged writes are returned exactly as written).
package c01

import (
	"github.com/apache/skywalking-banyandb/banyand/internal/verif/simknobs"
	"fmt"
	"os"
	"testing"
	"testing/synctest"
	"time"

	"github.com/apache/skywalking-banyandb/banyand/internal/verif/simmeta"
	"github.com/apache/skywalking-banyandb/banyand/internal/verif/simnode"
	"github.com/apache/skywalking-banyandb/banyand/internal/verif/wl"
	"github.com/apache/skywalking-banyandb/pkg/verif/simcore"
)

// dayBoundaries: the instants where day segments meet (the bubble's clock starts at 2000-01-01T00:00:00Z).
var dayBoundaries = []int64{946684800000, 946684800000 - 86400_000, 946684800000 + 86400_000}

func TestSim(t *testing.T) {
	simnode.InitLogging()
	simcore.Main(t, "C01", []simcore.Scenario{
		{Name: "measure", Weight: 4, Run: runMeasure},
		{Name: "stream", Weight: 3, Run: runStream},
	})
}

func runMeasure(e *simcore.Env, tp *simcore.Tape) {
	synctest.Test(e.T, func(*testing.T) {
		knobDesc, knobRestore := simknobs.Draw(tp, "measure")
		defer knobRestore()
		simknobs.Record(e, knobDesc)
		s := wl.GenMeasureSchema(tp, wl.SchemaOpts{})
		repo := simmeta.New()
		s.Install(repo)
		flush := []string{"1s", "5s", "30s"}[tp.Choose(3)]
		flags := []string{"--measure-flush-timeout=" + flush}
		qpFlags, qpTag := simnode.QueryPath(tp.Choose, "measure")
		flags = append(flags, qpFlags...)
		_ = qpTag
		if tp.Bool(1, 3) {
			flags = append(flags, fmt.Sprintf("--measure-max-merge-parts=%d", tp.Range(2, 8)))
		}
		n, err := simnode.Boot(repo, e.Dir, simnode.Engines{Measure: true}, flags)
		if err != nil {
			e.Fail("boot", "boot-failed", "boot: %v", err)
			return
		}
		defer n.Stop()
		m := wl.NewMeasureModel(s)
		m.Tolerate = func(class string) bool {
			if os.Getenv("VERIF_SURVEY") != "" {
				e.Probe("survey." + class)
				return true
			}
			return e.Known("exact-read", class)
		}
		e.Event("schema shards=%d tags=%v fields=%v flush=%s", s.Shards, s.Tags, s.Fields, flush)
		nOps := tp.Range(2, 14)
		big := tp.Bool(1, 12)
		msgID := uint64(1)
		batches := 0
		spanMs := int64([]int{1000, 3600_000, 3 * 86400_000}[tp.Choose(3)])
		var sample []string
		for op := 0; op < nOps && !e.Failed(); op++ {
			time.Sleep(time.Duration(tp.Range(1, 2000)) * time.Microsecond)
			synctest.Wait()
			e.Step()
			switch tp.Weighted(5, 2, 3) {
			case 0:
				maxRows := 400
				if big {
					maxRows = 9000
				}
				rows := m.GenBatch(tp, wl.BatchOpts{BaseMs: time.Now().UnixMilli(), SpanMs: spanMs, MaxRows: maxRows, MaxSeries: 6, NullOK: true, BoundaryTimes: dayBoundaries}, batches)
				reqs := m.ToRequests(rows, msgID)
				msgID += uint64(len(reqs))
				resps, werr := n.WriteMeasure(reqs)
				okAll := werr == nil && len(resps) == len(reqs)
				for _, r := range resps {
					if r.GetStatus() != "STATUS_SUCCEED" {
						okAll = false
					}
				}
				e.Event("write batch %d rows=%d ack=%v", batches, len(rows), okAll)
				sample = append(sample, fmt.Sprintf("write %d rows", len(rows)))
				if !okAll {
					e.Fail("ack", "valid-write-not-acknowledged", "a valid batch of %d rows was not acknowledged: err=%v responses=%v", len(rows), werr, resps)
					return
				}
				m.Ack(rows)
				batches++
				if len(rows) > 8192 {
					e.Probe("reach.batch_over_block_row_limit")
				}
				if tp.Bool(1, 2) {
					checkMeasure(e, tp, n, m, "after-ack")
				}
			case 1:
				d := []time.Duration{time.Second, 6 * time.Second, 40 * time.Second, 3 * time.Minute}[tp.Choose(4)]
				time.Sleep(d)
				synctest.Wait()
				e.AddSim(d)
				e.Event("advance %s", d)
				sample = append(sample, "advance "+d.String())
				e.Probe("reach.clock_advanced_past_flush")
			default:
				checkMeasure(e, tp, n, m, "query")
				sample = append(sample, "query")
			}
		}
		if !e.Failed() {
			checkMeasure(e, tp, n, m, "final")
		}
		if len(m.Rows) > 0 {
			e.Nontrivial()
		}
		e.SetSample(map[string]any{"engine": "measure", "shards": s.Shards, "tags": fmt.Sprint(s.Tags), "fields": fmt.Sprint(s.Fields), "ops": sample})
	})
}

func checkMeasure(e *simcore.Env, tp *simcore.Tape, n *simnode.Node, m *wl.MeasureModel, where string) {
	if e.Failed() {
		return
	}
	now := time.Now().UnixMilli()
	lo, hi := now-20*86400_000, now+86400_000
	for _, r := range m.Rows {
		lo, hi = min(lo, r.Ts), max(hi, r.Ts)
	}
	p := m.S.FullProjection()
	var keep func(*wl.MRow) bool
	if tp.Bool(1, 3) && len(m.Rows) > 0 {
		// a sub-range with edges on written timestamps
		a := m.Rows[tp.Choose(len(m.Rows))].Ts
		b := m.Rows[tp.Choose(len(m.Rows))].Ts
		if a > b {
			a, b = b, a
		}
		lo, hi = a, b+int64(tp.Choose(2))
		if hi <= lo {
			hi = lo + 1
		}
		p = m.S.GenProjection(tp)
		l2, h2 := lo, hi
		keep = func(r *wl.MRow) bool { return r.Ts >= l2 && r.Ts <= h2 }
		e.Probe("reach.subrange_query")
	}
	req := m.S.QueryRequest(lo, hi, p, 1000000)
	resp, err := n.QueryMeasure(req)
	if err != nil {
		e.Fail("query", "query-error", "%s: query failed: %v", where, err)
		return
	}
	e.Event("%s: query [%d,%d] -> %d points", where, lo, hi, len(resp.GetDataPoints()))
	if cls, msg := m.Mismatch(resp.GetDataPoints(), p, keep); cls != "" {
		e.Fail("exact-read", cls, "%s (measure, range [%d,%d]): %s", where, lo, hi, msg)
	}
}

func runStream(e *simcore.Env, tp *simcore.Tape) {
	synctest.Test(e.T, func(*testing.T) {
		knobDesc, knobRestore := simknobs.Draw(tp, "stream")
		defer knobRestore()
		simknobs.Record(e, knobDesc)
		s := wl.GenStreamSchema(tp, wl.SchemaOpts{})
		repo := simmeta.New()
		s.Install(repo)
		flush := []string{"1s", "5s", "30s"}[tp.Choose(3)]
		flags := []string{"--stream-flush-timeout=" + flush}
		qpFlags, qpTag := simnode.QueryPath(tp.Choose, "stream")
		flags = append(flags, qpFlags...)
		_ = qpTag
		if tp.Bool(1, 3) {
			flags = append(flags, fmt.Sprintf("--stream-max-merge-parts=%d", tp.Range(2, 8)))
		}
		n, err := simnode.Boot(repo, e.Dir, simnode.Engines{Stream: true}, flags)
		if err != nil {
			e.Fail("boot", "boot-failed", "boot: %v", err)
			return
		}
		defer n.Stop()
		m := wl.NewStreamModel(s)
		m.Tolerate = func(class string) bool {
			if os.Getenv("VERIF_SURVEY") != "" {
				e.Probe("survey.stream." + class)
				return true
			}
			return e.Known("exact-read", "stream:"+class)
		}
		e.Event("stream schema shards=%d tags=%v skipping=%v flush=%s", s.Shards, s.Tags, simcore.SortedKeys(s.Skipping), flush)
		nOps := tp.Range(2, 14)
		big := tp.Bool(1, 12)
		msgID := uint64(1)
		batches := 0
		spanMs := int64([]int{1000, 3600_000, 3 * 86400_000}[tp.Choose(3)])
		var sample []string
		for op := 0; op < nOps && !e.Failed(); op++ {
			time.Sleep(time.Duration(tp.Range(1, 2000)) * time.Microsecond)
			synctest.Wait()
			e.Step()
			switch tp.Weighted(5, 2, 3) {
			case 0:
				maxRows := 400
				if big {
					maxRows = 9000
				}
				rows := m.GenBatch(tp, wl.BatchOpts{BaseMs: time.Now().UnixMilli(), SpanMs: spanMs, MaxRows: maxRows, MaxSeries: 6, NullOK: true, BoundaryTimes: dayBoundaries}, batches)
				reqs := m.ToRequests(rows, msgID)
				msgID += uint64(len(reqs))
				resps, werr := n.WriteStream(reqs)
				okAll := werr == nil && len(resps) == len(reqs)
				for _, r := range resps {
					if r.GetStatus() != "STATUS_SUCCEED" {
						okAll = false
					}
				}
				e.Event("write batch %d elements=%d ack=%v", batches, len(rows), okAll)
				sample = append(sample, fmt.Sprintf("write %d elements", len(rows)))
				if !okAll {
					e.Fail("ack", "valid-write-not-acknowledged", "a valid batch of %d elements was not acknowledged: err=%v responses=%d first=%v", len(rows), werr, len(resps), first(resps))
					return
				}
				m.Ack(rows)
				batches++
				if len(rows) > 8192 {
					e.Probe("reach.batch_over_block_row_limit")
				}
				if tp.Bool(1, 2) {
					checkStream(e, tp, n, m, "after-ack")
				}
			case 1:
				d := []time.Duration{time.Second, 6 * time.Second, 40 * time.Second, 3 * time.Minute}[tp.Choose(4)]
				time.Sleep(d)
				synctest.Wait()
				e.AddSim(d)
				e.Event("advance %s", d)
				sample = append(sample, "advance "+d.String())
				e.Probe("reach.clock_advanced_past_flush")
			default:
				checkStream(e, tp, n, m, "query")
				sample = append(sample, "query")
			}
		}
		if !e.Failed() {
			checkStream(e, tp, n, m, "final")
		}
		if len(m.Rows) > 0 {
			e.Nontrivial()
		}
		e.SetSample(map[string]any{"engine": "stream", "shards": s.Shards, "tags": fmt.Sprint(s.Tags), "ops": sample})
	})
}

func first[T any](s []T) any {
	if len(s) == 0 {
		return nil
	}
	return s[0]
}

func checkStream(e *simcore.Env, tp *simcore.Tape, n *simnode.Node, m *wl.StreamModel, where string) {
	if e.Failed() {
		return
	}
	now := time.Now().UnixMilli()
	lo, hi := now-20*86400_000, now+86400_000
	for _, r := range m.Rows {
		lo, hi = min(lo, r.Ts), max(hi, r.Ts)
	}
	p := m.S.FullProjection()
	var keep func(*wl.SRow) bool
	if tp.Bool(1, 3) && len(m.Rows) > 0 {
		a := m.Rows[tp.Choose(len(m.Rows))].Ts
		b := m.Rows[tp.Choose(len(m.Rows))].Ts
		if a > b {
			a, b = b, a
		}
		lo, hi = a, b+int64(tp.Choose(2))
		p = m.S.GenProjection(tp)
		l2, h2 := lo, hi
		keep = func(r *wl.SRow) bool { return r.Ts >= l2 && r.Ts <= h2 }
		e.Probe("reach.subrange_query")
	}
	resp, err := n.QueryStream(m.S.QueryRequest(lo, hi, p, 1000000))
	if err != nil {
		e.Fail("query", "query-error", "%s: stream query failed: %v", where, err)
		return
	}
	e.Event("%s: stream query [%d,%d] -> %d elements", where, lo, hi, len(resp.GetElements()))
	if cls, msg := m.Mismatch(resp.GetElements(), p, keep); cls != "" {
		e.Fail("exact-read", "stream:"+cls, "%s (stream, range [%d,%d]): %s", where, lo, hi, msg)
	}
}
