// Package c10 decides property C10 (aggregates, group-by and top-N equal a reference; partials compose).
package c10

import (
	"fmt"
	"math"
	"sort"
	"strings"
	"testing"
	"testing/synctest"
	"time"

	databasev1 "github.com/apache/skywalking-banyandb/api/proto/banyandb/database/v1"
	measurev1 "github.com/apache/skywalking-banyandb/api/proto/banyandb/measure/v1"
	modelv1 "github.com/apache/skywalking-banyandb/api/proto/banyandb/model/v1"
	"github.com/apache/skywalking-banyandb/banyand/internal/verif/simmeta"
	"github.com/apache/skywalking-banyandb/banyand/internal/verif/simnode"
	"github.com/apache/skywalking-banyandb/banyand/internal/verif/wl"
	"github.com/apache/skywalking-banyandb/pkg/verif/simcore"
)

func TestSim(t *testing.T) {
	simnode.InitLogging()
	simcore.Main(t, "C10", []simcore.Scenario{
		{Name: "measure-aggregates", Weight: 3, Run: func(e *simcore.Env, tp *simcore.Tape) { runAgg(e, tp, false) }},
		{Name: "cluster-aggregates", Weight: 2, Run: func(e *simcore.Env, tp *simcore.Tape) { runAgg(e, tp, true) }},
	})
}

var fnNames = map[modelv1.AggregationFunction]string{
	modelv1.AggregationFunction_AGGREGATION_FUNCTION_SUM: "sum", modelv1.AggregationFunction_AGGREGATION_FUNCTION_COUNT: "count",
	modelv1.AggregationFunction_AGGREGATION_FUNCTION_MIN: "min", modelv1.AggregationFunction_AGGREGATION_FUNCTION_MAX: "max",
	modelv1.AggregationFunction_AGGREGATION_FUNCTION_MEAN: "mean",
}

type aq struct {
	groupTags []string
	field     wl.FieldSpec
	fn        modelv1.AggregationFunction
	topN      int
	topAsc    bool
	lo, hi    int64
}

func (q aq) String() string {
	s := fmt.Sprintf("%s(%s)", fnNames[q.fn], q.field.Name)
	if len(q.groupTags) > 0 {
		s += " group by " + strings.Join(q.groupTags, ",")
	}
	if q.topN > 0 {
		s += fmt.Sprintf(" top %d asc=%v", q.topN, q.topAsc)
	}
	return s
}

// num is an aggregate value in the field's own arithmetic.
type num struct {
	f     float64
	i     int64
	float bool
}

func (n num) String() string {
	if n.float {
		return fmt.Sprintf("f:%v", n.f)
	}
	return fmt.Sprintf("i:%d", n.i)
}

// reference aggregate per the plain definitions: SUM, COUNT, MIN, MAX, MEAN = SUM/COUNT in the field's arithmetic
// (integer division for integer fields).
func aggregate(fn modelv1.AggregationFunction, vals []num) num {
	isF := vals[0].float
	var sumI int64
	var sumF float64
	minI, maxI := int64(math.MaxInt64), int64(math.MinInt64)
	minF, maxF := math.Inf(1), math.Inf(-1)
	for _, v := range vals {
		sumI += v.i
		sumF += v.f
		minI, maxI = min(minI, v.i), max(maxI, v.i)
		minF, maxF = math.Min(minF, v.f), math.Max(maxF, v.f)
	}
	n := int64(len(vals))
	switch fn {
	case modelv1.AggregationFunction_AGGREGATION_FUNCTION_SUM:
		return num{i: sumI, f: sumF, float: isF}
	case modelv1.AggregationFunction_AGGREGATION_FUNCTION_COUNT:
		return num{i: n, f: float64(n), float: isF}
	case modelv1.AggregationFunction_AGGREGATION_FUNCTION_MIN:
		return num{i: minI, f: minF, float: isF}
	case modelv1.AggregationFunction_AGGREGATION_FUNCTION_MAX:
		return num{i: maxI, f: maxF, float: isF}
	default:
		return num{i: sumI / n, f: sumF / float64(n), float: isF}
	}
}

func fieldNum(v *modelv1.FieldValue) (num, bool) {
	switch x := v.GetValue().(type) {
	case *modelv1.FieldValue_Int:
		return num{i: x.Int.GetValue()}, true
	case *modelv1.FieldValue_Float:
		return num{f: x.Float.GetValue(), float: true}, true
	}
	return num{}, false
}

func equalNum(a, b num) bool {
	if a.float != b.float {
		// COUNT may come back as an integer for a float field (or the reverse): compare numerically
		af, bf := a.f, b.f
		if !a.float {
			af = float64(a.i)
		}
		if !b.float {
			bf = float64(b.i)
		}
		return af == bf
	}
	if a.float {
		return a.f == b.f || math.Abs(a.f-b.f) <= 1e-9*math.Max(math.Abs(a.f), math.Abs(b.f))
	}
	return a.i == b.i
}

// mnode is what the scenario needs from a standalone node or a cluster.
type mnode interface {
	WriteMeasure([]*measurev1.WriteRequest) ([]*measurev1.WriteResponse, error)
	QueryMeasure(*measurev1.QueryRequest) (*measurev1.QueryResponse, error)
	Stop()
}

func runAgg(e *simcore.Env, tp *simcore.Tape, cluster bool) {
	synctest.Test(e.T, func(*testing.T) {
		s := wl.GenMeasureSchema(tp, wl.SchemaOpts{MaxShards: 3, NoIndexRules: true})
		// make sure a numeric field exists
		hasNum := false
		for _, f := range s.Fields {
			if f.Type == databasev1.FieldType_FIELD_TYPE_INT || f.Type == databasev1.FieldType_FIELD_TYPE_FLOAT {
				hasNum = true
			}
		}
		if !hasNum {
			s.Fields = append(s.Fields, wl.FieldSpec{Name: "fx", Type: []databasev1.FieldType{databasev1.FieldType_FIELD_TYPE_INT, databasev1.FieldType_FIELD_TYPE_FLOAT}[tp.Choose(2)]})
		}
		repo := simmeta.New()
		s.Install(repo)
		flags := []string{"--measure-flush-timeout=" + []string{"1s", "5s"}[tp.Choose(2)], fmt.Sprintf("--measure-max-merge-parts=%d", tp.Range(2, 6))}
		qpFlags, qpTag := simnode.QueryPath(tp.Choose, "measure")
		flags = append(flags, qpFlags...)
		_ = qpTag
		var n mnode
		var err error
		nData := 1
		if cluster {
			// 1 liaison + 1-4 data nodes over simnet: every data node computes partial aggregates over its shards,
			// the liaison reduces them; with replicas both copies of a shard answer and must be counted once
			nData = tp.Range(1, 4)
			switch tp.Choose(3) {
			case 0: // one shard per data node
				s.Shards = uint32(nData)
			case 1: // one shard, replicated
				s.Shards = 1
				if nData >= 2 {
					s.Replicas = uint32(tp.Range(1, min(2, nData-1)))
				}
			default:
				if nData >= 2 && tp.Bool(1, 2) {
					s.Replicas = uint32(tp.Range(1, min(2, nData-1)))
				}
			}
			repo = simmeta.New()
			s.Install(repo)
			lflags := append(append([]string(nil), flags...), "--measure-sync-interval=1s")
			var cl *simnode.Cluster
			if cl, err = simnode.BootCluster(repo, e.Dir, nData, simnode.Engines{Measure: true}, flags, lflags); err == nil {
				n = cl
			}
			if s.Replicas > 0 {
				e.Probe("reach.replicated_shards")
			}
			if nData > int(s.Shards) {
				e.Probe("reach.data_node_without_shard")
			}
			if err == nil {
				defer n.Stop()
			}
		} else {
			var sn *simnode.Node
			if sn, err = simnode.Boot(repo, e.Dir, simnode.Engines{Measure: true}, flags); err == nil {
				n = sn
				defer n.Stop()
			}
		}
		if err != nil {
			e.Fail("boot", "boot-failed", "boot: %v", err)
			return
		}
		m := wl.NewMeasureModel(s)
		msgID := uint64(1)
		hist := ""
		// null field values: an aggregate ranges over the non-null values (the vectorized path skips nulls; the row path
		// refuses to aggregate them: recorded finding)
		nullFieldRate := []int{0, 0, 5}[tp.Side().Choose(3)]
		for i, k := 0, tp.Range(2, 8); i < k; i++ {
			if tp.Weighted(3, 2) == 0 {
				time.Sleep(time.Millisecond)
				rows := m.GenBatch(tp, wl.BatchOpts{BaseMs: time.Now().UnixMilli(), SpanMs: int64([]int{1000, 3600_000, 2 * 86400_000}[tp.Choose(3)]), MaxRows: 80, MaxSeries: 6, Plain: true, SmallField: true, NullFieldRate: nullFieldRate}, i)
				reqs := m.ToRequests(rows, msgID)
				msgID += uint64(len(reqs))
				resps, werr := n.WriteMeasure(reqs)
				ok := werr == nil && len(resps) == len(reqs)
				for _, r := range resps {
					ok = ok && r.GetStatus() == "STATUS_SUCCEED"
				}
				if !ok {
					e.Fail("ack", "valid-write-not-acknowledged", "batch not acknowledged: %v", werr)
					return
				}
				m.Ack(rows)
				hist += fmt.Sprintf(" write(%d)", len(rows))
			} else {
				d := []time.Duration{time.Second, 6 * time.Second, 2 * time.Minute}[tp.Choose(3)]
				time.Sleep(d)
				synctest.Wait()
				e.AddSim(d)
				hist += fmt.Sprintf(" advance(%s)", d)
			}
		}
		if len(m.Rows) == 0 {
			return
		}
		if cluster { // the liaison's write queue must have been delivered before answers are compared
			time.Sleep(60 * time.Second)
			synctest.Wait()
			e.AddSim(60 * time.Second)
		}
		var numFields []wl.FieldSpec
		for _, f := range s.Fields {
			if f.Type == databasev1.FieldType_FIELD_TYPE_INT || f.Type == databasev1.FieldType_FIELD_TYPE_FLOAT {
				numFields = append(numFields, f)
			}
		}
		var groupable []string
		for _, t := range s.Tags {
			if t.Name != "wid" && (t.Type == databasev1.TagType_TAG_TYPE_STRING || t.Type == databasev1.TagType_TAG_TYPE_INT) {
				groupable = append(groupable, t.Name)
			}
		}
		lo, hi := int64(1<<62), int64(0)
		for _, r := range m.Rows {
			lo, hi = min(lo, r.Ts), max(hi, r.Ts)
		}
		where := "measure"
		// In this tree a data node computes ONE partial per group over all the shards it holds (labelled with the shard of
		// the first row; a scalar aggregate is always labelled shard 0) while the coordinator de-duplicates partials per
		// (shard, group): the composition is right only when no node holds two shards (grouped) / when one shard or one
		// node holds all the data (scalar). Recorded finding cluster:partials-not-per-shard; the placement is OBSERVED
		// (shard directories on the data nodes), and everything outside the affected placements is demanded exactly.
		scalarSound, groupedSound := true, true
		if cluster {
			where = "cluster"
			place := n.(*simnode.Cluster).ShardsOnNodes("measure", s.Group)
			maxPer, withData, distinct := 0, 0, map[int]bool{}
			for _, sh := range place {
				maxPer = max(maxPer, len(sh))
				if len(sh) > 0 {
					withData++
				}
				for _, x := range sh {
					distinct[x] = true
				}
			}
			scalarSound = withData <= 1 || len(distinct) == 1
			groupedSound = withData <= 1 || maxPer <= 1
			e.Event("placement %v scalar-sound=%v grouped-sound=%v", place, scalarSound, groupedSound)
			if withData > 1 && scalarSound {
				e.Probe("reach.replicas_answer_for_one_shard")
			}
			if withData > 1 && groupedSound {
				e.Probe("reach.partials_from_several_nodes_reduced")
			}
		}
		fns := []modelv1.AggregationFunction{
			modelv1.AggregationFunction_AGGREGATION_FUNCTION_SUM, modelv1.AggregationFunction_AGGREGATION_FUNCTION_COUNT,
			modelv1.AggregationFunction_AGGREGATION_FUNCTION_MIN, modelv1.AggregationFunction_AGGREGATION_FUNCTION_MAX,
			modelv1.AggregationFunction_AGGREGATION_FUNCTION_MEAN,
		}
		e.Event("measure tags=%v fields=%v flags=%v shards=%d replicas=%d data-nodes=%d cluster=%v rows=%d history:%s", s.Tags, s.Fields, flags, s.Shards, s.Replicas, nData, cluster, len(m.Rows), hist)
		nq := tp.Range(3, 10)
		var first string
	queries:
		for qi := 0; qi < nq && !e.Failed(); qi++ {
			e.Step()
			q := aq{field: numFields[tp.Choose(len(numFields))], fn: fns[tp.Choose(len(fns))], lo: lo, hi: hi}
			if len(groupable) > 0 && tp.Bool(3, 4) {
				q.groupTags = []string{groupable[tp.Choose(len(groupable))]}
				if len(groupable) > 1 && tp.Bool(1, 3) {
					o := groupable[tp.Choose(len(groupable))]
					if o != q.groupTags[0] {
						q.groupTags = append(q.groupTags, o)
					}
				}
			}
			if len(q.groupTags) > 0 && tp.Bool(1, 3) {
				q.topN = tp.Range(1, 4)
				q.topAsc = tp.Bool(1, 2)
			}
			if tp.Bool(1, 3) {
				a, b := m.Rows[tp.Choose(len(m.Rows))].Ts, m.Rows[tp.Choose(len(m.Rows))].Ts
				q.lo, q.hi = min(a, b), max(a, b)
			}
			if first == "" {
				first = q.String()
			}
			req := s.QueryRequest(q.lo, q.hi, wl.Projection{Tags: q.groupTags, Fields: []string{q.field.Name}}, 100000)
			if len(q.groupTags) == 0 {
				// a tag projection is mandatory; project the first entity tag
				req = s.QueryRequest(q.lo, q.hi, wl.Projection{Tags: []string{s.EntityTags[0]}, Fields: []string{q.field.Name}}, 100000)
			} else {
				req.GroupBy = &measurev1.QueryRequest_GroupBy{TagProjection: req.TagProjection, FieldName: q.field.Name}
			}
			req.Agg = &measurev1.QueryRequest_Aggregation{Function: q.fn, FieldName: q.field.Name}
			if q.topN > 0 {
				srt := modelv1.Sort_SORT_DESC
				if q.topAsc {
					srt = modelv1.Sort_SORT_ASC
				}
				req.Top = &measurev1.QueryRequest_Top{Number: int32(q.topN), FieldName: q.field.Name, FieldValueSort: srt}
			}
			resp, qerr := n.QueryMeasure(req)
			if qerr != nil {
				if strings.Contains(qerr.Error(), "unsupported") || strings.Contains(qerr.Error(), "invalid query message") || strings.Contains(qerr.Error(), "not supported") {
					e.Probe("reach.query_shape_rejected")
					continue
				}
				e.Fail("query", "query-error", "query %d (%s) failed: %v", qi, q, qerr)
				return
			}
			// reference
			groups := map[string][]num{}
			overflowRisk := false
			nullIn := false
			nullRowsOf := map[string]int{} // per group: selected rows whose aggregated field is null
			for _, r := range m.Rows {
				if r.Ts < q.lo || r.Ts > q.hi {
					continue
				}
				v, ok := fieldNum(r.Fields[q.field.Name])
				if !ok {
					nullIn = true
					var kp []string
					for _, g := range q.groupTags {
						kp = append(kp, g+"="+wl.CanonTag(r.Tags[g]))
					}
					nullRowsOf[strings.Join(kp, " ")]++
					continue
				}
				if !v.float && (v.i > 1<<50 || v.i < -(1<<50)) {
					overflowRisk = true
				}
				var kp []string
				for _, g := range q.groupTags {
					kp = append(kp, g+"="+wl.CanonTag(r.Tags[g]))
				}
				groups[strings.Join(kp, " ")] = append(groups[strings.Join(kp, " ")], v)
			}
			want := map[string]num{}
			for k, vals := range groups {
				want[k] = aggregate(q.fn, vals)
			}
			got := map[string]num{}
			dup := ""
			for _, dp := range resp.GetDataPoints() {
				tags := map[string]*modelv1.TagValue{}
				for _, tf := range dp.GetTagFamilies() {
					for _, t := range tf.GetTags() {
						tags[t.GetKey()] = t.GetValue()
					}
				}
				var kp []string
				for _, g := range q.groupTags {
					kp = append(kp, g+"="+wl.CanonTag(tags[g]))
				}
				k := strings.Join(kp, " ")
				var val *modelv1.FieldValue
				for _, f := range dp.GetFields() {
					if f.GetName() == q.field.Name {
						val = f.GetValue()
					}
				}
				v, ok := fieldNum(val)
				if !ok {
					e.Fail("aggregate", "aggregate-field-missing", "query %d (%s): a returned group has no numeric field %s: %v", qi, q, q.field.Name, dp)
					return
				}
				if _, seen := got[k]; seen {
					dup = k
				}
				got[k] = v
			}
			if len(groups) > 1 {
				e.Probe("reach.several_groups")
			}
			if overflowRisk && (q.fn == modelv1.AggregationFunction_AGGREGATION_FUNCTION_SUM || q.fn == modelv1.AggregationFunction_AGGREGATION_FUNCTION_MEAN) {
				e.Probe("reach.sum_near_int64_limits_skipped")
				continue // sums that may overflow are outside the exactness claim
			}
			cls := where + ":" + qpTag + ":" + fnNames[q.fn] + ":" + map[bool]string{false: "int", true: "float"}[q.field.Type == databasev1.FieldType_FIELD_TYPE_FLOAT]
			if len(q.groupTags) == 0 {
				cls += ":no-group"
			}
			// placements in which the recorded composition defect applies: a disagreement there is the known finding
			affected := cluster && ((len(q.groupTags) == 0 && !scalarSound) || (len(q.groupTags) > 0 && !groupedSound))
			if affected {
				e.Probe("reach.placement_affected_by_known_partial_labelling")
			}
			// fail reports a disagreement; in an affected placement a wrong/missing value is the recorded finding (when
			// listed the query is skipped and checking goes on), an invented or repeated group never is
			if nullIn {
				e.Probe("reach.aggregate_over_null_field")
			}
			// a group (or a scalar aggregate) all of whose selected values are NULL: the vectorized path answers with the
			// accumulator's start value (MAX = -MaxFloat64, MIN = +MaxFloat64, SUM/COUNT 0, MEAN 1): recorded finding
			allNull := false
			for k := range nullRowsOf {
				if _, has := groups[k]; !has {
					allNull = true
				}
			}
			if allNull {
				e.Probe("reach.group_with_only_null_values")
				if e.Known("aggregate", "measure:all-null-group-answered-with-start-value") {
					continue
				}
				e.Fail("aggregate", "measure:all-null-group-answered-with-start-value", "query %d (%s): a selected group has only NULL values of %s; answer: %v", qi, q, q.field.Name, got)
				return
			}
			fail := func(kind, format string, args ...any) (stop bool) {
				if nullIn && qpTag == "row-path" && !strings.HasPrefix(kind, "unknown-group") && !strings.HasPrefix(kind, "group-returned-twice") {
					// the row path logs "unsupported field type" when the plan is closed and returns the groups it had finished
					if e.Known("aggregate", "measure:row-path-refuses-null-field") {
						return false
					}
					e.Fail("aggregate", "measure:row-path-refuses-null-field", format, args...)
					return true
				}
				if affected && !strings.HasPrefix(kind, "unknown-group") && !strings.HasPrefix(kind, "group-returned-twice") {
					if e.Known("aggregate", "cluster:partials-not-per-shard") {
						return false
					}
					e.Fail("aggregate", "cluster:partials-not-per-shard", format, args...)
					return true
				}
				e.Fail("aggregate", cls+":"+kind, format, args...)
				return true
			}
			if dup != "" {
				if fail("group-returned-twice", "query %d (%s): group [%s] returned twice", qi, q, dup) {
					return
				}
				continue queries
			}
			if q.topN == 0 {
				if len(want) == 0 && len(got) <= 1 {
					continue // an aggregate over nothing: an empty answer or a single zero row are both accepted
				}
				for _, k := range simcore.SortedKeys(want) {
					g, ok := got[k]
					if !ok {
						if fail("group-missing", "query %d (%s) over [%d,%d]: group [%s] (reference %s over %d points) is missing from the answer (%d groups returned)", qi, q, q.lo, q.hi, k, want[k], len(groups[k]), len(got)) {
							return
						}
						continue queries
					}
					if !equalNum(g, want[k]) {
						if meanClamp(q, want[k]) != "" && e.Known("aggregate", "measure:mean-below-one") {
							continue
						}
						if fail("value-differs"+meanClamp(q, want[k]), "query %d (%s) over [%d,%d]: group [%s]: reference %s over %d points %v, answer %s", qi, q, q.lo, q.hi, k, want[k], len(groups[k]), clipNums(groups[k]), g) {
							return
						}
						continue queries
					}
				}
				for k := range got {
					if _, ok := want[k]; !ok {
						if fail("unknown-group", "query %d (%s): answer contains group [%s] that no selected point belongs to", qi, q, k) {
							return
						}
						continue queries
					}
				}
				e.Probe("reach.aggregate_checked")
				continue
			}
			// top-N over the aggregated groups: the answer must be N groups (or all), each with its reference value,
			// and no omitted group may beat a returned one (ties: any admissible choice)
			e.Probe("reach.top_n_checked")
			clamped := false
			for _, w := range want {
				if meanClamp(q, w) != "" {
					clamped = true // the recorded MEAN clamp also reorders the groups
				}
			}
			if clamped && e.Known("aggregate", "measure:mean-below-one") {
				continue
			}
			wantN := min(q.topN, len(want))
			if len(got) != wantN {
				if fail("top-n-wrong-size", "query %d (%s): %d groups exist, top %d must return %d, got %d", qi, q, len(want), q.topN, wantN, len(got)) {
					return
				}
				continue queries
			}
			var worst *num
			for k, g := range got {
				w, ok := want[k]
				if !ok || !equalNum(g, w) {
					if ok && meanClamp(q, w) != "" && e.Known("aggregate", "measure:mean-below-one") {
						continue queries
					}
					if fail("top-n-value-differs"+meanClamp(q, w), "query %d (%s): group [%s] reference %v answer %s", qi, q, k, w, g) {
						return
					}
					continue queries
				}
				if worst == nil || better(*worst, w, q.topAsc) {
					ww := w
					worst = &ww
				}
			}
			for k, w := range want {
				if _, in := got[k]; !in && worst != nil && better(w, *worst, q.topAsc) && !equalNum(w, *worst) {
					if fail("top-n-omits-better-group", "query %d (%s): group [%s] with %s is omitted although the returned group with %s is worse", qi, q, k, w, *worst) {
						return
					}
					continue queries
				}
			}
		}
		e.Nontrivial()
		e.SetSample(map[string]any{"shards": s.Shards, "rows": len(m.Rows), "history": hist, "first_query": first})
	})
}

// better: a ranks before b in a top-N with the given direction.
func better(a, b num, asc bool) bool {
	av, bv := a.f, b.f
	if !a.float {
		av = float64(a.i)
	}
	if !b.float {
		bv = float64(b.i)
	}
	if asc {
		return av < bv
	}
	return av > bv
}

// meanClamp tags MEAN results below 1 (the engine clamps them, a recorded finding) apart from all other differences.
func meanClamp(q aq, want num) string {
	if q.fn != modelv1.AggregationFunction_AGGREGATION_FUNCTION_MEAN {
		return ""
	}
	v := want.f
	if !want.float {
		v = float64(want.i)
	}
	if v < 1 {
		return ":mean-below-one"
	}
	return ""
}

func clipNums(v []num) string {
	sort.Slice(v, func(i, j int) bool { return v[i].String() < v[j].String() })
	s := fmt.Sprint(v)
	if len(s) > 200 {
		return s[:200] + "..."
	}
	return s
}
