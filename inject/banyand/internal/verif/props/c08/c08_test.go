// Package c08 decides property C08 (criteria mean the same with or without indexes and pruning).
package c08

import (
	"github.com/apache/skywalking-banyandb/banyand/internal/verif/simknobs"
	"fmt"
	"os"
	"path/filepath"
	"sort"
	"strconv"
	"strings"
	"testing"
	"testing/synctest"
	"time"

	modelv1 "github.com/apache/skywalking-banyandb/api/proto/banyandb/model/v1"
	"github.com/apache/skywalking-banyandb/banyand/internal/verif/simmeta"
	"github.com/apache/skywalking-banyandb/banyand/internal/verif/simnode"
	"github.com/apache/skywalking-banyandb/banyand/internal/verif/wl"
	"github.com/apache/skywalking-banyandb/pkg/verif/simcore"
)

func TestSim(t *testing.T) {
	simnode.InitLogging()
	simcore.Main(t, "C08", []simcore.Scenario{
		{Name: "stream-criteria", Weight: 3, Run: runStream},
		{Name: "measure-criteria", Weight: 2, Run: runMeasure},
	})
}

type step struct {
	rows    []*wl.SRow
	advance time.Duration
}

func widSet(ws []int64) string {
	sort.Slice(ws, func(i, j int) bool { return ws[i] < ws[j] })
	return fmt.Sprint(ws)
}

func runStream(e *simcore.Env, tp *simcore.Tape) {
	synctest.Test(e.T, func(*testing.T) {
		knobDesc, knobRestore := simknobs.Draw(tp, "stream")
		defer knobRestore()
		simknobs.Record(e, knobDesc)
		base := wl.GenStreamSchema(tp, wl.SchemaOpts{MaxShards: 2})
		// twin schema: same tags, no index rule at all
		bare := *base
		bare.Skipping = map[string]bool{}
		bare.Tags = append([]wl.TagSpec(nil), base.Tags...)
		for i := range bare.Tags {
			bare.Tags[i].Indexed = false
		}
		flush := []string{"1s", "5s"}[tp.Choose(2)]
		flags := []string{"--stream-flush-timeout=" + flush, fmt.Sprintf("--stream-max-merge-parts=%d", tp.Range(2, 6))}
		qpFlags, qpTag := simnode.QueryPath(tp.Choose, "stream")
		flags = append(flags, qpFlags...)
		_ = qpTag
		m := wl.NewStreamModel(base)
		m.Tolerate = func(string) bool { return true }
		// the history (identical for both twins)
		var hist []step
		now := time.Date(2000, 1, 1, 0, 0, 0, 0, time.UTC).UnixMilli()
		for i, k := 0, tp.Range(2, 9); i < k; i++ {
			if tp.Weighted(3, 2) == 0 {
				rows := m.GenBatch(tp, wl.BatchOpts{BaseMs: now + int64(i)*1000, SpanMs: int64([]int{1000, 3600_000, 2 * 86400_000}[tp.Choose(3)]), MaxRows: maxRows(), MaxSeries: 5, Plain: true}, i)
				m.Ack(rows)
				hist = append(hist, step{rows: rows})
			} else {
				hist = append(hist, step{advance: []time.Duration{time.Second, 6 * time.Second, 2 * time.Minute}[tp.Choose(3)]})
			}
		}
		if len(m.Rows) == 0 {
			return
		}
		var rowTags []map[string]*modelv1.TagValue
		lo, hi := int64(1<<62), int64(0)
		for _, r := range m.Rows {
			rowTags = append(rowTags, r.Tags)
			lo, hi = min(lo, r.Ts), max(hi, r.Ts)
		}
		type q struct {
			c      *wl.Crit
			lo, hi int64
		}
		var qs []q
		for i, k := 0, tp.Range(3, 10); i < k; i++ {
			c := wl.GenCriteria(tp, base.Tags, rowTags, tp.Range(0, 3), nil)
			qq := q{c: c, lo: lo, hi: hi}
			if tp.Bool(1, 3) { // time bounds on written timestamps (part / block time pruning)
				a, b := m.Rows[tp.Choose(len(m.Rows))].Ts, m.Rows[tp.Choose(len(m.Rows))].Ts
				qq.lo, qq.hi = min(a, b), max(a, b)
			}
			qs = append(qs, qq)
		}
		histS := ""
		for _, st := range hist {
			if st.rows == nil {
				histS += fmt.Sprintf(" advance(%s)", st.advance)
			} else {
				histS += fmt.Sprintf(" write(%d rows: wid %d..%d)", len(st.rows), st.rows[0].Wid, st.rows[len(st.rows)-1].Wid)
			}
		}
		spec := map[string]string{}
		for _, t := range base.Tags {
			switch {
			case t.Entity:
				spec[t.Name] = "entitytag"
			case t.Indexed:
				spec[t.Name] = "inverted"
			case base.Skipping[t.Name]:
				spec[t.Name] = "skipping"
			default:
				spec[t.Name] = "plain"
			}
		}
		sameTs := false
		seenKey := map[string]bool{}
		for _, r := range m.Rows {
			k := fmt.Sprintf("%s@%d", r.Series, r.Ts)
			if seenKey[k] {
				sameTs = true
			}
			seenKey[k] = true
		}
		if sameTs {
			e.Probe("reach.elements_share_series_and_timestamp")
		}
		e.Event("stream tags=%v skipping=%v flags=%v rows=%d queries=%d", base.Tags, simcore.SortedKeys(base.Skipping), flags, len(m.Rows), len(qs))
		answers := make([][]string, 2)
		for twin, sch := range []*wl.StreamSchema{base, &bare} {
			repo := simmeta.New()
			sch.Install(repo)
			n, err := simnode.Boot(repo, filepath.Join(e.Dir, fmt.Sprintf("t%d", twin)), simnode.Engines{Stream: true}, flags)
			if err != nil {
				e.Fail("boot", "boot-failed", "boot: %v", err)
				return
			}
			msgID := uint64(1)
			tm := &wl.StreamModel{S: sch}
			for _, st := range hist {
				if st.rows == nil {
					time.Sleep(st.advance)
					synctest.Wait()
					e.AddSim(st.advance)
					continue
				}
				time.Sleep(time.Millisecond)
				reqs := tm.ToRequests(st.rows, msgID)
				msgID += uint64(len(reqs))
				resps, werr := n.WriteStream(reqs)
				ok := werr == nil && len(resps) == len(reqs)
				for _, r := range resps {
					ok = ok && r.GetStatus() == "STATUS_SUCCEED"
				}
				if !ok {
					e.Fail("ack", "valid-write-not-acknowledged", "twin %d: batch not acknowledged: %v", twin, werr)
					n.Stop()
					return
				}
			}
			for qi, qq := range qs {
				e.Step()
				req := sch.QueryRequest(qq.lo, qq.hi, wl.Projection{Tags: []string{"wid"}}, 1000000)
				req.Criteria = qq.c.Proto()
				resp, qerr := n.QueryStream(req)
				if qerr != nil {
					if rejected(qerr) { // a refused query shape is not an answer; nothing to compare
						e.Probe("reach.query_shape_rejected")
						answers[twin] = append(answers[twin], "rejected")
						continue
					}
					e.Fail("query", "query-error"+twinTag(twin), "twin %d (%s): query %d %s failed: %v", twin, twinName(twin), qi, qq.c, qerr)
					n.Stop()
					return
				}
				var got []int64
				for _, el := range resp.GetElements() {
					for _, tf := range el.GetTagFamilies() {
						for _, t := range tf.GetTags() {
							if t.GetKey() == "wid" {
								got = append(got, t.GetValue().GetInt().GetValue())
							}
						}
					}
				}
				var want []int64
				for _, r := range m.Rows {
					if r.Ts >= qq.lo && r.Ts <= qq.hi && qq.c.Eval(r.Tags) {
						want = append(want, r.Wid)
					}
				}
				gs, ws := widSet(got), widSet(want)
				answers[twin] = append(answers[twin], gs)
				if len(want) > 0 && len(want) < len(m.Rows) {
					e.Probe("reach.selective_predicate")
				}
				if gs != ws {
					cls := "rows-differ-from-predicate"
					if len(got) < len(want) {
						cls = "matching-row-discarded"
					} else if len(got) > len(want) {
						cls = "non-matching-row-returned"
					}
					if failOrTolerate(e, "stream", cls+twinTag(twin)+":"+qpTag, facets(qq.c, spec, sameTs, rowTags), "twin %d (%s), criteria %s over [%d,%d]: predicate selects %d rows %s, query returned %d rows %s\n%s\nhistory: %s",
						twin, twinName(twin), qq.c, qq.lo, qq.hi, len(want), clip(ws), len(got), clip(gs), diffRowsS(m, want, got), histS) {
						n.Stop()
						return
					}
					answers[twin][len(answers[twin])-1] = "tolerated"
					continue
				}
			}
			n.Stop()
			e.Event("twin %d (%s): %d queries agree with the predicate", twin, twinName(twin), len(qs))
		}
		for i := range qs {
			if answers[0][i] != answers[1][i] && !skipCmp(answers[0][i]) && !skipCmp(answers[1][i]) {
				e.Fail("criteria", "twins-disagree", "criteria %s: indexed twin and bare twin disagree", qs[i].c)
				return
			}
		}
		e.Nontrivial()
		e.SetSample(map[string]any{"engine": "stream", "tags": fmt.Sprint(base.Tags), "skipping": simcore.SortedKeys(base.Skipping), "rows": len(m.Rows), "first_criteria": qs[0].c.String()})
	})
}

// rejected: the engine refuses the query shape ("unsupported condition operation", "invalid query message"):
// a documented refusal, not an answer.
func rejected(err error) bool {
	m := err.Error()
	return strings.Contains(m, "unsupported") || strings.Contains(m, "invalid query message") || strings.Contains(m, "not supported")
}

// diffRowsS lists the rows on which predicate and answer differ (at most 6), with their stored values.
func diffRowsS(m *wl.StreamModel, want, got []int64) string {
	w, g := map[int64]bool{}, map[int64]bool{}
	for _, x := range want {
		w[x] = true
	}
	for _, x := range got {
		g[x] = true
	}
	out := ""
	n := 0
	for _, r := range m.Rows {
		if w[r.Wid] != g[r.Wid] && n < 6 {
			n++
			kind := "missing "
			if g[r.Wid] {
				kind = "extra   "
			}
			out += fmt.Sprintf("  %s wid=%d series=%s ts=%d batch=%d", kind, r.Wid, r.Series, r.Ts, r.Batch)
			for _, t := range m.S.Tags {
				if t.Name != "wid" {
					out += " " + t.Name + "=" + wl.CanonTag(r.Tags[t.Name])
				}
			}
			out += "\n"
		}
	}
	if len(m.Rows) <= 12 {
		out += "all rows:\n"
		for _, r := range m.Rows {
			out += fmt.Sprintf("   wid=%d series=%s ts=%d batch=%d returned=%v", r.Wid, r.Series, r.Ts, r.Batch, g[r.Wid])
			for _, t := range m.S.Tags {
				if t.Name != "wid" {
					out += " " + t.Name + "=" + wl.CanonTag(r.Tags[t.Name])
				}
			}
			out += "\n"
		}
	}
	return out
}

func maxRows() int {
	if v := os.Getenv("VERIF_C08_MAXROWS"); v != "" {
		n, _ := strconv.Atoi(v)
		return n
	}
	return 200
}

func twinName(t int) string { return []string{"index rules as generated", "no index rule"}[t] }
func twinTag(t int) string  { return []string{":indexed", ":bare"}[t] }

// facets names what a failing query touched: for every leaf condition "<how the tag is covered>:<operator
// class>" (how = entitytag | inverted | skipping | plain; operator class = eq (EQ, IN) | range (LT GT LE GE) |
// neg (NE, NOT_IN, NOT_HAVING) | having), plus structural facets (an entity tag under an OR, an entity tag
// used more than once) and a data facet (several elements share one series and timestamp).
// known-findings.txt lists FACETS that are known to give wrong answers; a failing query that touches a listed
// facet is tolerated (and counted), any other failure is a violation whose class lists all its facets.
func facets(c *wl.Crit, spec map[string]string, sameTs bool, rows []map[string]*modelv1.TagValue) []string {
	set := map[string]bool{}
	count := map[string]int{}
	var walk func(x *wl.Crit, inOr bool)
	walk = func(x *wl.Crit, inOr bool) {
		if x == nil {
			return
		}
		if x.L != nil {
			walk(x.L, inOr || !x.And)
			walk(x.R, inOr || !x.And)
			return
		}
		oc := "eq"
		switch x.Op.String()[len("BINARY_OP_"):] {
		case "LT", "GT", "LE", "GE":
			oc = "range"
		case "NE", "NOT_IN", "NOT_HAVING":
			oc = "neg"
		case "HAVING":
			oc = "having"
		}
		set[spec[x.Tag]+":"+oc] = true
		// integers that a float64 cannot hold exactly (the index layer carries integer terms and range bounds as
		// float64 bit patterns): facet when the constant or any stored value of the tag is beyond +-2^53
		big := func(vs []int64) bool {
			for _, v := range vs {
				if v >= 1<<53 || v <= -(1<<53) {
					return true
				}
			}
			return false
		}
		intsOf := func(v *modelv1.TagValue) []int64 {
			if iv := v.GetInt(); iv != nil {
				return []int64{iv.GetValue()}
			}
			return v.GetIntArray().GetValue()
		}
		ext := big(intsOf(x.Val))
		for _, r := range rows {
			if big(intsOf(r[x.Tag])) {
				ext = true
			}
		}
		if ext {
			set["int-beyond-2^53"] = true
		}
		if spec[x.Tag] == "entitytag" {
			vals := x.Val.GetStrArray().GetValue()
			if sv := x.Val.GetStr(); sv != nil {
				vals = append(vals, sv.GetValue())
			}
			for _, v := range vals {
				if strings.ContainsAny(v, "|\\") {
					_ = 0 // the series-key delimiter / escape character in an entity constant
				}
				if len(v) > 64 {
					_ = 0 // a very long entity constant (hundreds of bytes)
				}
			}
			count[x.Tag]++
			if inOr {
				set["entity-under-or"] = true
			}
		}
	}
	walk(c, false)
	for _, n := range count {
		if n > 1 {
			set["entity-repeated"] = true
		}
	}
	nEntity := 0
	for _, how := range spec {
		if how == "entitytag" {
			nEntity++
		}
	}
	if len(count) > 0 && len(count) < nEntity {
		set["entity-partial"] = true // only some of the entity tags are constrained: the others are wildcards
	}
	if sameTs {
		set["same-series-and-timestamp"] = true
	}
	return simcore.SortedKeys(set)
}

// failOrTolerate reports a wrong answer unless the query touches a facet that is a recorded finding.
func failOrTolerate(e *simcore.Env, engine, kind string, fs []string, format string, a ...any) (failed bool) {
	for _, f := range fs {
		if e.Known("criteria", engine+":facet:"+f) {
			return false
		}
	}
	e.Fail("criteria", engine+":"+kind+":"+strings.Join(fs, ","), format, a...)
	return true
}

func skipCmp(a string) bool { return a == "rejected" || a == "tolerated" }

func clip(s string) string {
	if len(s) > 200 {
		return s[:200] + "..."
	}
	return s
}

func runMeasure(e *simcore.Env, tp *simcore.Tape) {
	synctest.Test(e.T, func(*testing.T) {
		knobDesc, knobRestore := simknobs.Draw(tp, "measure")
		defer knobRestore()
		simknobs.Record(e, knobDesc)
		base := wl.GenMeasureSchema(tp, wl.SchemaOpts{MaxShards: 2})
		bare := *base
		bare.Tags = append([]wl.TagSpec(nil), base.Tags...)
		for i := range bare.Tags {
			bare.Tags[i].Indexed = false
		}
		flush := []string{"1s", "5s"}[tp.Choose(2)]
		flags := []string{"--measure-flush-timeout=" + flush, fmt.Sprintf("--measure-max-merge-parts=%d", tp.Range(2, 6))}
		qpFlags, qpTag := simnode.QueryPath(tp.Choose, "measure")
		flags = append(flags, qpFlags...)
		_ = qpTag
		m := wl.NewMeasureModel(base)
		m.Tolerate = func(string) bool { return true }
		type mstep struct {
			rows    []*wl.MRow
			advance time.Duration
		}
		var hist []mstep
		now := time.Date(2000, 1, 1, 0, 0, 0, 0, time.UTC).UnixMilli()
		for i, k := 0, tp.Range(2, 9); i < k; i++ {
			if tp.Weighted(3, 2) == 0 {
				rows := m.GenBatch(tp, wl.BatchOpts{BaseMs: now + int64(i)*1000, SpanMs: int64([]int{1000, 3600_000, 2 * 86400_000}[tp.Choose(3)]), MaxRows: maxRows(), MaxSeries: 5, Plain: true}, i)
				m.Ack(rows)
				hist = append(hist, mstep{rows: rows})
			} else {
				hist = append(hist, mstep{advance: []time.Duration{time.Second, 6 * time.Second, 2 * time.Minute}[tp.Choose(3)]})
			}
		}
		if len(m.Rows) == 0 {
			return
		}
		var rowTags []map[string]*modelv1.TagValue
		lo, hi := int64(1<<62), int64(0)
		for _, r := range m.Rows {
			rowTags = append(rowTags, r.Tags)
			lo, hi = min(lo, r.Ts), max(hi, r.Ts)
		}
		type q struct {
			c      *wl.Crit
			lo, hi int64
		}
		var qs []q
		for i, k := 0, tp.Range(3, 10); i < k; i++ {
			c := wl.GenCriteria(tp, base.Tags, rowTags, tp.Range(0, 3), nil)
			qq := q{c: c, lo: lo, hi: hi}
			if tp.Bool(1, 3) {
				a, b := m.Rows[tp.Choose(len(m.Rows))].Ts, m.Rows[tp.Choose(len(m.Rows))].Ts
				qq.lo, qq.hi = min(a, b), max(a, b)
			}
			qs = append(qs, qq)
		}
		spec := map[string]string{}
		for _, t := range base.Tags {
			switch {
			case t.Entity:
				spec[t.Name] = "entitytag"
			case t.Indexed:
				spec[t.Name] = "inverted"
			default:
				spec[t.Name] = "plain"
			}
		}
		e.Event("measure tags=%v flags=%v rows=%d queries=%d", base.Tags, flags, len(m.Rows), len(qs))
		answers := make([][]string, 2)
		for twin, sch := range []*wl.MeasureSchema{base, &bare} {
			repo := simmeta.New()
			sch.Install(repo)
			n, err := simnode.Boot(repo, filepath.Join(e.Dir, fmt.Sprintf("t%d", twin)), simnode.Engines{Measure: true}, flags)
			if err != nil {
				e.Fail("boot", "boot-failed", "boot: %v", err)
				return
			}
			msgID := uint64(1)
			tm := &wl.MeasureModel{S: sch}
			for _, st := range hist {
				if st.rows == nil {
					time.Sleep(st.advance)
					synctest.Wait()
					e.AddSim(st.advance)
					continue
				}
				time.Sleep(time.Millisecond)
				reqs := tm.ToRequests(st.rows, msgID)
				msgID += uint64(len(reqs))
				resps, werr := n.WriteMeasure(reqs)
				ok := werr == nil && len(resps) == len(reqs)
				for _, r := range resps {
					ok = ok && r.GetStatus() == "STATUS_SUCCEED"
				}
				if !ok {
					e.Fail("ack", "valid-write-not-acknowledged", "twin %d: batch not acknowledged: %v", twin, werr)
					n.Stop()
					return
				}
			}
			for qi, qq := range qs {
				e.Step()
				req := sch.QueryRequest(qq.lo, qq.hi, wl.Projection{Tags: []string{"wid"}}, 1000000)
				req.Criteria = qq.c.Proto()
				resp, qerr := n.QueryMeasure(req)
				if qerr != nil {
					if rejected(qerr) {
						e.Probe("reach.query_shape_rejected")
						answers[twin] = append(answers[twin], "rejected")
						continue
					}
					e.Fail("query", "query-error"+twinTag(twin), "twin %d (%s): query %d %s failed: %v", twin, twinName(twin), qi, qq.c, qerr)
					n.Stop()
					return
				}
				var got []int64
				for _, dp := range resp.GetDataPoints() {
					got = append(got, wl.Wid(dp))
				}
				var want []int64
				for _, r := range m.Rows {
					if r.Ts >= qq.lo && r.Ts <= qq.hi && qq.c.Eval(r.Tags) {
						want = append(want, r.Wid)
					}
				}
				gs, ws := widSet(got), widSet(want)
				answers[twin] = append(answers[twin], gs)
				if len(want) > 0 && len(want) < len(m.Rows) {
					e.Probe("reach.selective_predicate")
				}
				if gs != ws {
					cls := "rows-differ-from-predicate"
					if len(got) < len(want) {
						cls = "matching-row-discarded"
					} else if len(got) > len(want) {
						cls = "non-matching-row-returned"
					}
					rowsS := ""
					if len(m.Rows) > 12 { // the entity values of the first rows on which predicate and answer differ
						wset, gset, k := map[int64]bool{}, map[int64]bool{}, 0
						for _, x := range want {
							wset[x] = true
						}
						for _, x := range got {
							gset[x] = true
						}
						for _, r := range m.Rows {
							if wset[r.Wid] != gset[r.Wid] && k < 4 {
								k++
								rowsS += fmt.Sprintf("\n   differs: wid=%d returned=%v", r.Wid, gset[r.Wid])
								for _, t := range base.Tags {
									if t.Entity {
										rowsS += " " + t.Name + "=" + clip(wl.CanonTag(r.Tags[t.Name]))
									}
								}
							}
						}
					}
					if len(m.Rows) <= 12 {
						gset := map[int64]bool{}
						for _, x := range got {
							gset[x] = true
						}
						for _, r := range m.Rows {
							rowsS += fmt.Sprintf("\n   wid=%d series=%s ts=%d returned=%v", r.Wid, r.Series, r.Ts, gset[r.Wid])
							for _, t := range base.Tags {
								if t.Name != "wid" {
									rowsS += " " + t.Name + "=" + wl.CanonTag(r.Tags[t.Name])
								}
							}
						}
					}
					if failOrTolerate(e, "measure", cls+twinTag(twin)+":"+qpTag, facets(qq.c, spec, false, rowTags), "twin %d (%s), criteria %s over [%d,%d]: predicate selects %d rows %s, query returned %d rows %s%s",
						twin, twinName(twin), qq.c, qq.lo, qq.hi, len(want), clip(ws), len(got), clip(gs), rowsS) {
						n.Stop()
						return
					}
					answers[twin][len(answers[twin])-1] = "tolerated"
					continue
				}
			}
			n.Stop()
			e.Event("twin %d (%s): %d queries agree with the predicate", twin, twinName(twin), len(qs))
		}
		for i := range qs {
			if answers[0][i] != answers[1][i] && !skipCmp(answers[0][i]) && !skipCmp(answers[1][i]) {
				e.Fail("criteria", "measure:twins-disagree", "criteria %s: indexed twin and bare twin disagree", qs[i].c)
				return
			}
		}
		e.Nontrivial()
		e.SetSample(map[string]any{"engine": "measure", "tags": fmt.Sprint(base.Tags), "rows": len(m.Rows), "first_criteria": qs[0].c.String()})
	})
}
