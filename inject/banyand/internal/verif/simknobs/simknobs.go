// Package simknobs draws, per run, the engines' size thresholds that tools/knobrw turned from constants into
// variables (only in the overlaid copies; CFG["knobs"] of the property must list them): rows and bytes per block,
// bytes per primary-index granule. The shipped values are far above what a short run writes, so the multi-block and
// multi-granule code only runs when they are shrunk. Choices come from the SIDE tape (simcore.Tape.Side), value 0 =
// shipped constant.
package simknobs

import (
	"fmt"
	"sort"
	"strings"

	"github.com/apache/skywalking-banyandb/banyand/internal/sidx"
	"github.com/apache/skywalking-banyandb/banyand/measure"
	"github.com/apache/skywalking-banyandb/banyand/stream"
	"github.com/apache/skywalking-banyandb/banyand/trace"
	"github.com/apache/skywalking-banyandb/pkg/verif/simcore"
)

// small values tried per kind of threshold (besides the default).
var (
	rowsPerBlock  = []int64{1, 2, 3, 7, 40}
	bytesPerBlock = []int64{1, 120, 600, 5000, 60000}
	bytesPerGran  = []int64{1, 90, 400, 3000}
)

func table(name string) []int64 {
	switch {
	case name == "defaultMaxStagedTraceCount": // traces per sampler decision batch
		return []int64{1, 2, 3, 7}
	case name == "defaultStageBudgetFloor": // bytes staged per sampler decision batch
		return []int64{1, 600, 5000, 60000}
	case name == "maxBlockLength":
		return rowsPerBlock
	case strings.Contains(name, "PrimaryBlock"):
		return bytesPerGran
	default:
		return bytesPerBlock
	}
}

// Draw sets the knobs of the named engines ("measure", "stream", "trace", "sidx") for this run and returns a
// description for the event log plus the function that restores the shipped values (defer it).
func Draw(tp *simcore.Tape, engines ...string) (desc string, restore func()) {
	st := tp.Side()
	all := map[string]map[string]*int64{"measure": measure.VerifKnobs(), "stream": stream.VerifKnobs(), "trace": trace.VerifKnobs(), "sidx": sidx.VerifKnobs()}
	type saved struct {
		p *int64
		v int64
	}
	var undo []saved
	var parts []string
	shrinkAny := st.Bool(1, 2)
	for _, eng := range engines {
		ks := all[eng]
		names := make([]string, 0, len(ks))
		for n := range ks {
			names = append(names, n)
		}
		sort.Strings(names)
		for _, n := range names {
			if !shrinkAny || st.Bool(1, 3) {
				continue
			}
			tb := table(n)
			v := tb[st.Choose(len(tb))]
			undo = append(undo, saved{ks[n], *ks[n]})
			*ks[n] = v
			parts = append(parts, fmt.Sprintf("%s.%s=%d", eng, n, v))
		}
	}
	if len(parts) == 0 {
		desc = "knobs: shipped"
	} else {
		desc = "knobs: " + strings.Join(parts, " ")
	}
	return desc, func() {
		for _, u := range undo {
			*u.p = u.v
		}
	}
}

// Record puts the run's knob setting into the event log and counts runs with shrunk thresholds.
func Record(e *simcore.Env, desc string) {
	e.Event("%s", desc)
	if desc != "knobs: shipped" {
		e.Probe("knob.size_thresholds_shrunk")
	} else {
		e.Probe("knob.size_thresholds_shipped")
	}
}
