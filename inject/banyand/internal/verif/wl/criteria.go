package wl

import (
	"fmt"
	"strings"

	databasev1 "github.com/apache/skywalking-banyandb/api/proto/banyandb/database/v1"
	modelv1 "github.com/apache/skywalking-banyandb/api/proto/banyandb/model/v1"
	"github.com/apache/skywalking-banyandb/pkg/verif/simcore"
)

// Crit is a criteria tree with a direct (brute-force) evaluator over stored tag values.
type Crit struct {
	L, R *Crit
	Val  *modelv1.TagValue
	Tag  string
	Op   modelv1.Condition_BinaryOp
	And  bool
}

// Proto renders the tree.
func (c *Crit) Proto() *modelv1.Criteria {
	if c == nil {
		return nil
	}
	if c.L != nil {
		op := modelv1.LogicalExpression_LOGICAL_OP_OR
		if c.And {
			op = modelv1.LogicalExpression_LOGICAL_OP_AND
		}
		return &modelv1.Criteria{Exp: &modelv1.Criteria_Le{Le: &modelv1.LogicalExpression{Op: op, Left: c.L.Proto(), Right: c.R.Proto()}}}
	}
	return &modelv1.Criteria{Exp: &modelv1.Criteria_Condition{Condition: &modelv1.Condition{Name: c.Tag, Op: c.Op, Value: c.Val}}}
}

func (c *Crit) String() string {
	if c == nil {
		return "true"
	}
	if c.L != nil {
		op := " OR "
		if c.And {
			op = " AND "
		}
		return "(" + c.L.String() + op + c.R.String() + ")"
	}
	return fmt.Sprintf("%s %s %s", c.Tag, strings.TrimPrefix(c.Op.String(), "BINARY_OP_"), CanonTag(c.Val))
}

func ints(v *modelv1.TagValue) ([]int64, bool) {
	switch x := v.GetValue().(type) {
	case *modelv1.TagValue_Int:
		return []int64{x.Int.GetValue()}, true
	case *modelv1.TagValue_IntArray:
		return x.IntArray.GetValue(), true
	}
	return nil, false
}

func strs(v *modelv1.TagValue) ([]string, bool) {
	switch x := v.GetValue().(type) {
	case *modelv1.TagValue_Str:
		return []string{x.Str.GetValue()}, true
	case *modelv1.TagValue_StrArray:
		return x.StrArray.GetValue(), true
	}
	return nil, false
}

func elems(v *modelv1.TagValue) []string {
	if is, ok := ints(v); ok {
		out := make([]string, len(is))
		for i, x := range is {
			out[i] = fmt.Sprint("i", x)
		}
		return out
	}
	if ss, ok := strs(v); ok {
		out := make([]string, len(ss))
		for i, x := range ss {
			out[i] = "s" + x
		}
		return out
	}
	return nil
}

// Eval is the predicate over a row's stored values (the generator keeps criteria tags non-null and non-empty,
// where the meaning of every operator is unambiguous).
func (c *Crit) Eval(tags map[string]*modelv1.TagValue) bool {
	if c == nil {
		return true
	}
	if c.L != nil {
		if c.And {
			return c.L.Eval(tags) && c.R.Eval(tags)
		}
		return c.L.Eval(tags) || c.R.Eval(tags)
	}
	s := tags[c.Tag]
	switch c.Op {
	case modelv1.Condition_BINARY_OP_EQ:
		return CanonTag(s) == CanonTag(c.Val)
	case modelv1.Condition_BINARY_OP_NE:
		return CanonTag(s) != CanonTag(c.Val)
	case modelv1.Condition_BINARY_OP_LT, modelv1.Condition_BINARY_OP_GT, modelv1.Condition_BINARY_OP_LE, modelv1.Condition_BINARY_OP_GE:
		a, b := s.GetInt().GetValue(), c.Val.GetInt().GetValue()
		switch c.Op {
		case modelv1.Condition_BINARY_OP_LT:
			return a < b
		case modelv1.Condition_BINARY_OP_GT:
			return a > b
		case modelv1.Condition_BINARY_OP_LE:
			return a <= b
		default:
			return a >= b
		}
	case modelv1.Condition_BINARY_OP_IN, modelv1.Condition_BINARY_OP_NOT_IN:
		in := false
		se := elems(s)
		for _, x := range elems(c.Val) {
			if len(se) == 1 && se[0] == x {
				in = true
			}
		}
		return in == (c.Op == modelv1.Condition_BINARY_OP_IN)
	case modelv1.Condition_BINARY_OP_HAVING, modelv1.Condition_BINARY_OP_NOT_HAVING:
		have := map[string]bool{}
		for _, x := range elems(s) {
			have[x] = true
		}
		all := true
		for _, x := range elems(c.Val) {
			if !have[x] {
				all = false
			}
		}
		return all == (c.Op == modelv1.Condition_BINARY_OP_HAVING)
	}
	return false
}

// GenCriteria draws a criteria tree of the given depth over the tags; constants come from the values that
// were actually written (and their neighbours), so predicates sit on the edges of pruning structures.
// GenEq draws a single EQ condition on one of the allowed string/int tags with a written value.
func GenEq(tp *simcore.Tape, tags []TagSpec, rows []map[string]*modelv1.TagValue, allow func(TagSpec) bool) *Crit {
	var cands []TagSpec
	for _, t := range tags {
		if t.Name != "wid" && (t.Type == databasev1.TagType_TAG_TYPE_STRING || t.Type == databasev1.TagType_TAG_TYPE_INT) && (allow == nil || allow(t)) {
			cands = append(cands, t)
		}
	}
	if len(cands) == 0 || len(rows) == 0 {
		return nil
	}
	t := cands[tp.Choose(len(cands))]
	return &Crit{Tag: t.Name, Op: modelv1.Condition_BINARY_OP_EQ, Val: rows[tp.Choose(len(rows))][t.Name]}
}

func GenCriteria(tp *simcore.Tape, tags []TagSpec, rows []map[string]*modelv1.TagValue, depth int, allow func(TagSpec) bool) *Crit {
	if depth > 0 && tp.Bool(2, 3) {
		and := tp.Bool(1, 2)
		l, r := GenCriteria(tp, tags, rows, depth-1, allow), GenCriteria(tp, tags, rows, depth-1, allow)
		if l == nil {
			return r
		}
		if r == nil {
			return l
		}
		return &Crit{And: and, L: l, R: r}
	}
	var cands []TagSpec
	for _, t := range tags {
		if t.Name == "wid" || t.Type == databasev1.TagType_TAG_TYPE_DATA_BINARY {
			continue
		}
		if allow != nil && !allow(t) {
			continue
		}
		cands = append(cands, t)
	}
	if len(cands) == 0 || len(rows) == 0 {
		return nil
	}
	t := cands[tp.Choose(len(cands))]
	written := rows[tp.Choose(len(rows))][t.Name]
	c := &Crit{Tag: t.Name}
	switch t.Type {
	case databasev1.TagType_TAG_TYPE_INT:
		v := written.GetInt().GetValue()
		switch tp.Weighted(3, 1, 1) {
		case 1:
			v++
		case 2:
			v--
		}
		ops := []modelv1.Condition_BinaryOp{
			modelv1.Condition_BINARY_OP_EQ, modelv1.Condition_BINARY_OP_NE, modelv1.Condition_BINARY_OP_LT, modelv1.Condition_BINARY_OP_GT,
			modelv1.Condition_BINARY_OP_LE, modelv1.Condition_BINARY_OP_GE, modelv1.Condition_BINARY_OP_IN, modelv1.Condition_BINARY_OP_NOT_IN,
		}
		c.Op = ops[tp.Choose(len(ops))]
		if c.Op == modelv1.Condition_BINARY_OP_IN || c.Op == modelv1.Condition_BINARY_OP_NOT_IN {
			list := []int64{v}
			for i, k := 0, tp.Choose(3); i < k; i++ {
				list = append(list, rows[tp.Choose(len(rows))][t.Name].GetInt().GetValue())
			}
			c.Val = TIntArr(list)
		} else {
			c.Val = TInt(v)
		}
	case databasev1.TagType_TAG_TYPE_STRING:
		v := written.GetStr().GetValue()
		if tp.Bool(1, 5) {
			v += "x"
		}
		ops := []modelv1.Condition_BinaryOp{modelv1.Condition_BINARY_OP_EQ, modelv1.Condition_BINARY_OP_NE, modelv1.Condition_BINARY_OP_IN, modelv1.Condition_BINARY_OP_NOT_IN}
		c.Op = ops[tp.Choose(len(ops))]
		if c.Op == modelv1.Condition_BINARY_OP_IN || c.Op == modelv1.Condition_BINARY_OP_NOT_IN {
			list := []string{v}
			for i, k := 0, tp.Choose(3); i < k; i++ {
				list = append(list, rows[tp.Choose(len(rows))][t.Name].GetStr().GetValue())
			}
			c.Val = TStrArr(list)
		} else {
			c.Val = TStr(v)
		}
	case databasev1.TagType_TAG_TYPE_INT_ARRAY:
		c.Op = []modelv1.Condition_BinaryOp{modelv1.Condition_BINARY_OP_HAVING, modelv1.Condition_BINARY_OP_NOT_HAVING}[tp.Choose(2)]
		src := written.GetIntArray().GetValue()
		list := []int64{src[tp.Choose(len(src))]}
		if tp.Bool(1, 2) {
			o := rows[tp.Choose(len(rows))][t.Name].GetIntArray().GetValue()
			list = append(list, o[tp.Choose(len(o))])
		}
		c.Val = TIntArr(list)
	case databasev1.TagType_TAG_TYPE_STRING_ARRAY:
		c.Op = []modelv1.Condition_BinaryOp{modelv1.Condition_BINARY_OP_HAVING, modelv1.Condition_BINARY_OP_NOT_HAVING}[tp.Choose(2)]
		src := written.GetStrArray().GetValue()
		list := []string{src[tp.Choose(len(src))]}
		if tp.Bool(1, 2) {
			o := rows[tp.Choose(len(rows))][t.Name].GetStrArray().GetValue()
			list = append(list, o[tp.Choose(len(o))])
		}
		c.Val = TStrArr(list)
	}
	return c
}

// PlainTag draws a small-domain, never-null, never-empty value (many repeats: selective and unselective predicates).
func PlainTag(tp *simcore.Tape, t databasev1.TagType) *modelv1.TagValue {
	si := func() int64 {
		if tp.Bool(1, 8) {
			return IntPool[tp.Choose(len(IntPool))]
		}
		return int64(tp.Choose(8))
	}
	ss := func() string { return []string{"a", "b", "c", "svc-1", "svc-2", "a|b", "üñí", "z"}[tp.Choose(8)] }
	switch t {
	case databasev1.TagType_TAG_TYPE_INT:
		return TInt(si())
	case databasev1.TagType_TAG_TYPE_STRING:
		return TStr(ss())
	case databasev1.TagType_TAG_TYPE_INT_ARRAY:
		n := tp.Range(1, 3)
		a := make([]int64, n)
		for i := range a {
			a[i] = si()
		}
		return TIntArr(a)
	case databasev1.TagType_TAG_TYPE_STRING_ARRAY:
		n := tp.Range(1, 3)
		a := make([]string, n)
		for i := range a {
			a[i] = ss()
		}
		return TStrArr(a)
	case databasev1.TagType_TAG_TYPE_DATA_BINARY:
		return TBin(Blob(tp.Range(1, 6), tp.Choose(16)))
	}
	return TNull()
}
