package wl

import (
	"bytes"
	"context"
	"fmt"
	"sort"
	"time"

	"google.golang.org/protobuf/types/known/timestamppb"

	commonv1 "github.com/apache/skywalking-banyandb/api/proto/banyandb/common/v1"
	databasev1 "github.com/apache/skywalking-banyandb/api/proto/banyandb/database/v1"
	modelv1 "github.com/apache/skywalking-banyandb/api/proto/banyandb/model/v1"
	tracev1 "github.com/apache/skywalking-banyandb/api/proto/banyandb/trace/v1"
	"github.com/apache/skywalking-banyandb/banyand/internal/verif/simmeta"
	"github.com/apache/skywalking-banyandb/pkg/verif/simcore"
)

// Names of the fixed tags of every generated trace schema.
const (
	TraceIDTag   = "trace_id"
	SpanIDTag    = "span_id"
	TraceTsTag   = "ts"
	TraceWidTag  = "wid"
	TraceDurTag  = "dur"
	TraceSvcTag  = "svc"
	TraceDurRule = "r_dur"
	TraceTsRule  = "r_ts"
)

// TraceSchema is a generated group + trace resource. The identity tags (trace id, span id, timestamp) and
// the unique int tag "wid" are always present; "dur" (int) and "svc" (string) exist when an ordered (TYPE_TREE)
// index rule is bound; 0-3 further tags of storable types follow.
type TraceSchema struct {
	Group   string
	Name    string
	Tags    []TagSpec // schema order
	Shards  uint32
	SegDays uint32
	TTLDays uint32
	// DurRule: ordered secondary index keyed by "dur"; DurRuleTags are the rule's tags (optional "svc" prefix + "dur").
	DurRule     bool
	DurRuleTags []string
	// TsRule: a second ordered index keyed by the timestamp tag.
	TsRule bool
}

// TraceSchemaOpts narrows trace schema generation.
type TraceSchemaOpts struct {
	MaxShards  int
	TTLDays    int
	ForceIndex bool // always bind the ordered index on "dur"
	NoIndex    bool
}

var traceExtraTypes = []databasev1.TagType{
	databasev1.TagType_TAG_TYPE_STRING, databasev1.TagType_TAG_TYPE_INT, databasev1.TagType_TAG_TYPE_STRING_ARRAY,
	databasev1.TagType_TAG_TYPE_INT_ARRAY, databasev1.TagType_TAG_TYPE_DATA_BINARY,
}

// GenTraceSchema draws a trace schema.
func GenTraceSchema(tp *simcore.Tape, o TraceSchemaOpts) *TraceSchema {
	maxShards := o.MaxShards
	if maxShards == 0 {
		maxShards = 3
	}
	s := &TraceSchema{Group: "tg1", Name: "tr1", Shards: uint32(tp.Range(1, maxShards)), SegDays: 1, TTLDays: 60}
	if o.TTLDays > 0 {
		s.TTLDays = uint32(o.TTLDays)
	}
	str, i64 := databasev1.TagType_TAG_TYPE_STRING, databasev1.TagType_TAG_TYPE_INT
	fixed := []TagSpec{
		{Name: TraceIDTag, Type: str}, {Name: SpanIDTag, Type: str},
		{Name: TraceTsTag, Type: databasev1.TagType_TAG_TYPE_TIMESTAMP}, {Name: TraceWidTag, Type: i64},
	}
	// value 0 = the plainest layout (identity tags first); otherwise the identity tags sit behind "wid"
	if tp.Bool(1, 4) {
		fixed = []TagSpec{fixed[3], fixed[2], fixed[1], fixed[0]}
	}
	s.Tags = append(s.Tags, fixed...)
	s.DurRule = !o.NoIndex && (o.ForceIndex || tp.Bool(2, 3))
	if s.DurRule {
		s.Tags = append(s.Tags, TagSpec{Name: TraceDurTag, Type: i64, Indexed: true})
		if tp.Bool(1, 2) {
			s.Tags = append(s.Tags, TagSpec{Name: TraceSvcTag, Type: str, Indexed: true})
			s.DurRuleTags = []string{TraceSvcTag, TraceDurTag}
		} else {
			s.DurRuleTags = []string{TraceDurTag}
		}
		s.TsRule = tp.Bool(1, 3)
	}
	for i, n := 0, tp.Weighted(3, 3, 2, 1); i < n; i++ {
		s.Tags = append(s.Tags, TagSpec{Name: fmt.Sprintf("x%d", i), Type: traceExtraTypes[tp.Choose(len(traceExtraTypes))]})
	}
	return s
}

// Has reports whether the schema defines the tag.
func (s *TraceSchema) Has(name string) bool {
	for _, t := range s.Tags {
		if t.Name == name {
			return true
		}
	}
	return false
}

// Install registers group, index rules, binding and the trace resource.
func (s *TraceSchema) Install(repo *simmeta.Repo) {
	ctx := context.Background()
	_, _ = repo.CreateGroup(ctx, &commonv1.Group{
		Metadata: &commonv1.Metadata{Name: s.Group},
		Catalog:  commonv1.Catalog_CATALOG_TRACE,
		ResourceOpts: &commonv1.ResourceOpts{
			ShardNum:        s.Shards,
			SegmentInterval: &commonv1.IntervalRule{Unit: commonv1.IntervalRule_UNIT_DAY, Num: s.SegDays},
			Ttl:             &commonv1.IntervalRule{Unit: commonv1.IntervalRule_UNIT_DAY, Num: s.TTLDays},
		},
	})
	var rules []string
	if s.DurRule {
		_, _ = repo.CreateIndexRule(ctx, &databasev1.IndexRule{
			Metadata: &commonv1.Metadata{Name: TraceDurRule, Group: s.Group, Id: 71},
			Tags:     s.DurRuleTags, Type: databasev1.IndexRule_TYPE_TREE,
		})
		rules = append(rules, TraceDurRule)
	}
	if s.TsRule {
		_, _ = repo.CreateIndexRule(ctx, &databasev1.IndexRule{
			Metadata: &commonv1.Metadata{Name: TraceTsRule, Group: s.Group, Id: 72},
			Tags:     []string{TraceTsTag}, Type: databasev1.IndexRule_TYPE_TREE,
		})
		rules = append(rules, TraceTsRule)
	}
	if len(rules) > 0 {
		_, _ = repo.CreateIndexRuleBinding(ctx, &databasev1.IndexRuleBinding{
			Metadata: &commonv1.Metadata{Name: "bind_" + s.Name, Group: s.Group},
			Rules:    rules,
			Subject:  &databasev1.Subject{Catalog: commonv1.Catalog_CATALOG_TRACE, Name: s.Name},
			BeginAt:  timestamppb.New(time.Unix(0, 0)),
			ExpireAt: timestamppb.New(time.Date(2100, 1, 1, 0, 0, 0, 0, time.UTC)),
		})
	}
	tr := &databasev1.Trace{
		Metadata:         &commonv1.Metadata{Name: s.Name, Group: s.Group},
		TraceIdTagName:   TraceIDTag,
		SpanIdTagName:    SpanIDTag,
		TimestampTagName: TraceTsTag,
	}
	for _, t := range s.Tags {
		tr.Tags = append(tr.Tags, &databasev1.TraceTagSpec{Name: t.Name, Type: t.Type})
	}
	_, _ = repo.CreateTrace(ctx, tr)
}

// Span is one written span.
type Span struct {
	Tags    map[string]*modelv1.TagValue
	TraceID string
	SpanID  string
	Payload []byte
	Ts      int64 // unix ms
	Wid     int64
	Dur     int64
	Batch   int
}

// TraceModel is the reference store: trace id -> acknowledged spans in acknowledgement order.
type TraceModel struct {
	S      *TraceSchema
	Traces map[string][]*Span
	IDs    []string // trace ids in order of first acknowledgement
	byWid  map[int64]*Span
	nextW  int64
	// TolerateTag, when set, is asked for every tag-value difference kind "<written>-><returned>" (kinds as in C01's
	// classes: emptyarr, null, emptystr, ...); true = not a violation of the caller's property
	TolerateTag func(kind string) bool
}

// NewTraceModel returns an empty model.
// (TraceModel.TolerateTag, when set, is asked for every tag-value difference kind "<written>-><returned>".)

func NewTraceModel(s *TraceSchema) *TraceModel {
	return &TraceModel{S: s, Traces: map[string][]*Span{}, byWid: map[int64]*Span{}}
}

// TracePlan is a generated arrival history: every span of every trace, grouped in write batches.
type TracePlan struct {
	TraceIDs []string
	Batches  [][]*Span
}

// TracePlanOpts shapes a generated history.
type TracePlanOpts struct {
	NowMs       int64 // "now" of the simulated clock
	MaxDaysBack int   // trace base timestamps spread over [now-MaxDaysBack days, now]
	SpreadMs    int64 // maximum distance between the timestamps of two spans of one trace
	MinTraces   int
	MaxTraces   int
	MaxSpans    int
	Big         bool // a few spans carry ~700 KiB payloads (a trace then exceeds one storage block)
	NullOK      bool
}

// NewSpan draws one span of traceID stamped ts (unix ms).
func (m *TraceModel) NewSpan(tp *simcore.Tape, traceID string, ts int64, big, nullOK bool) *Span {
	m.nextW++
	sp := &Span{TraceID: traceID, Ts: ts, Wid: m.nextW, SpanID: fmt.Sprintf("s%d", m.nextW), Tags: map[string]*modelv1.TagValue{}}
	head := []byte(fmt.Sprintf("payload-of-w%d/", sp.Wid))
	switch {
	case big:
		sp.Payload = append(head, Blob(700<<10, int(sp.Wid))...)
	default:
		sp.Payload = append(head, Blob(tp.Weighted(4, 3, 2, 1)*tp.Range(0, 60), int(sp.Wid))...)
	}
	sp.Dur = int64(tp.Choose(50))
	if tp.Bool(1, 6) {
		sp.Dur = int64(tp.Choose(5000)) - 100
	}
	for _, t := range m.S.Tags {
		switch t.Name {
		case TraceIDTag:
			sp.Tags[t.Name] = TStr(traceID)
		case SpanIDTag:
			sp.Tags[t.Name] = TStr(sp.SpanID)
		case TraceTsTag:
			sp.Tags[t.Name] = &modelv1.TagValue{Value: &modelv1.TagValue_Timestamp{Timestamp: timestamppb.New(time.UnixMilli(ts))}}
		case TraceWidTag:
			sp.Tags[t.Name] = TInt(sp.Wid)
		case TraceDurTag:
			sp.Tags[t.Name] = TInt(sp.Dur)
		case TraceSvcTag:
			sp.Tags[t.Name] = TStr(fmt.Sprintf("svc-%d", tp.Choose(3)))
		default:
			sp.Tags[t.Name] = GenTag(tp, t.Type, nullOK)
		}
	}
	return sp
}

// GenPlan draws traces and an out-of-order, multi-batch arrival history for all their spans.
func (m *TraceModel) GenPlan(tp *simcore.Tape, o TracePlanOpts) *TracePlan {
	p := &TracePlan{}
	nTraces := tp.Range(o.MinTraces, o.MaxTraces)
	var all []*Span
	bigLeft := 0
	if o.Big {
		bigLeft = 4
	}
	for i := 0; i < nTraces; i++ {
		id := fmt.Sprintf("t%02d-%x", i, uint32(tp.U64()))
		if tp.Bool(1, 8) {
			id = fmt.Sprintf("%s-%s", id, LongStr(tp.Range(10, 90), i)) // long ids
		}
		p.TraceIDs = append(p.TraceIDs, id)
		// base timestamp: somewhere in the last MaxDaysBack days, biased to day edges
		var back int64
		day := int64(86400_000)
		switch tp.Weighted(3, 2, 2) {
		case 0:
			back = int64(tp.Choose(int(int64(o.MaxDaysBack)*day/1000)+1)) * 1000
		case 1: // just before / after a day boundary
			back = int64(tp.Choose(o.MaxDaysBack+1))*day + int64(tp.Choose(2000)) - 1000
		default:
			back = int64(tp.Choose(3600_000))
		}
		if back < 0 {
			back = 0
		}
		base := o.NowMs - back
		nSpans := 1 + tp.Weighted(2, 3, 3, 2, 2, 1, 1, 1)
		if nSpans > o.MaxSpans {
			nSpans = o.MaxSpans
		}
		for j := 0; j < nSpans; j++ {
			ts := base
			if o.SpreadMs > 0 && j > 0 {
				ts = base - int64(tp.Choose(int(o.SpreadMs)+1))
			}
			big := bigLeft > 0 && tp.Bool(1, 3)
			if big {
				bigLeft--
			}
			all = append(all, m.NewSpan(tp, id, ts, big, o.NullOK))
		}
	}
	// arrival order: a tape-driven shuffle (value 0 keeps generation order)
	for i := len(all) - 1; i > 0; i-- {
		if j := i - tp.Choose(i+1); j != i {
			all[i], all[j] = all[j], all[i]
		}
	}
	// cut into batches
	for len(all) > 0 {
		n := 1 + tp.Weighted(2, 3, 3, 2)*tp.Range(1, 4)
		if n > len(all) {
			n = len(all)
		}
		b := all[:n]
		all = all[n:]
		for _, sp := range b {
			sp.Batch = len(p.Batches)
		}
		p.Batches = append(p.Batches, b)
	}
	return p
}

// ToRequests converts spans to client write requests (tags in schema order, metadata on the first).
func (m *TraceModel) ToRequests(spans []*Span, firstVersion uint64) []*tracev1.WriteRequest {
	var out []*tracev1.WriteRequest
	for i, sp := range spans {
		wr := &tracev1.WriteRequest{Span: sp.Payload, Version: firstVersion + uint64(i)}
		for _, t := range m.S.Tags {
			wr.Tags = append(wr.Tags, sp.Tags[t.Name])
		}
		if i == 0 {
			wr.Metadata = &commonv1.Metadata{Name: m.S.Name, Group: m.S.Group}
		}
		out = append(out, wr)
	}
	return out
}

// Ack records spans as acknowledged.
func (m *TraceModel) Ack(spans []*Span) {
	for _, sp := range spans {
		if _, ok := m.Traces[sp.TraceID]; !ok {
			m.IDs = append(m.IDs, sp.TraceID)
		}
		m.Traces[sp.TraceID] = append(m.Traces[sp.TraceID], sp)
		m.byWid[sp.Wid] = sp
	}
}

// Bounds returns the [lo,hi] unix-ms range that covers every acknowledged span (with a margin).
func (m *TraceModel) Bounds(nowMs int64) (int64, int64) {
	lo, hi := nowMs-86400_000, nowMs+86400_000
	for _, sps := range m.Traces {
		for _, sp := range sps {
			lo, hi = min(lo, sp.Ts-1000), max(hi, sp.Ts+1000)
		}
	}
	return lo, hi
}

func (s *TraceSchema) baseQuery(beginMs, endMs int64, projection []string) *tracev1.QueryRequest {
	return &tracev1.QueryRequest{
		Groups: []string{s.Group}, Name: s.Name,
		TimeRange:     &modelv1.TimeRange{Begin: timestamppb.New(time.UnixMilli(beginMs)), End: timestamppb.New(time.UnixMilli(endMs))},
		Limit:         100000,
		TagProjection: projection,
	}
}

// QueryByTraceID builds "trace_id = id" over [beginMs,endMs]. The projection always contains wid.
func (s *TraceSchema) QueryByTraceID(id string, beginMs, endMs int64, projection []string) *tracev1.QueryRequest {
	req := s.baseQuery(beginMs, endMs, projection)
	req.Criteria = &modelv1.Criteria{Exp: &modelv1.Criteria_Condition{Condition: &modelv1.Condition{
		Name: TraceIDTag, Op: modelv1.Condition_BINARY_OP_EQ, Value: TStr(id),
	}}}
	return req
}

// QueryByTraceIDs builds "trace_id IN ids".
func (s *TraceSchema) QueryByTraceIDs(ids []string, beginMs, endMs int64, projection []string) *tracev1.QueryRequest {
	req := s.baseQuery(beginMs, endMs, projection)
	req.Criteria = &modelv1.Criteria{Exp: &modelv1.Criteria_Condition{Condition: &modelv1.Condition{
		Name: TraceIDTag, Op: modelv1.Condition_BINARY_OP_IN, Value: TStrArr(ids),
	}}}
	return req
}

// QueryOrdered builds an ordered query over rule (TraceDurRule/TraceTsRule). cond (optional) is a condition
// on one tag, e.g. RangeCond(TraceWidTag, ...).
func (s *TraceSchema) QueryOrdered(rule string, desc bool, beginMs, endMs int64, projection []string, cond *modelv1.Criteria) *tracev1.QueryRequest {
	req := s.baseQuery(beginMs, endMs, projection)
	sortDir := modelv1.Sort_SORT_ASC
	if desc {
		sortDir = modelv1.Sort_SORT_DESC
	}
	req.OrderBy = &modelv1.QueryOrder{IndexRuleName: rule, Sort: sortDir}
	req.Criteria = cond
	return req
}

// RangeCond builds "tag >= lo AND tag <= hi" on an int tag.
func RangeCond(tag string, lo, hi int64) *modelv1.Criteria {
	ge := &modelv1.Criteria{Exp: &modelv1.Criteria_Condition{Condition: &modelv1.Condition{Name: tag, Op: modelv1.Condition_BINARY_OP_GE, Value: TInt(lo)}}}
	le := &modelv1.Criteria{Exp: &modelv1.Criteria_Condition{Condition: &modelv1.Condition{Name: tag, Op: modelv1.Condition_BINARY_OP_LE, Value: TInt(hi)}}}
	return &modelv1.Criteria{Exp: &modelv1.Criteria_Le{Le: &modelv1.LogicalExpression{Op: modelv1.LogicalExpression_LOGICAL_OP_AND, Left: ge, Right: le}}}
}

// Projection draws a tag projection that always contains wid.
func (s *TraceSchema) Projection(tp *simcore.Tape) []string {
	out := []string{TraceWidTag}
	if tp.Bool(1, 2) {
		return out
	}
	for _, t := range s.Tags {
		if t.Name != TraceWidTag && tp.Bool(1, 2) {
			out = append(out, t.Name)
		}
	}
	return out
}

func spanWid(sp *tracev1.Span) (int64, bool) {
	for _, t := range sp.GetTags() {
		if t.GetKey() == TraceWidTag {
			if iv := t.GetValue().GetInt(); iv != nil {
				return iv.GetValue(), true
			}
		}
	}
	return 0, false
}

// Returned is the content of an answer for one trace id: the wids of its spans (with multiplicity).
type Returned struct {
	Wids    []int64
	Entries int // number of Trace entries of the response carrying this id
	Pos     int // position of the first Trace entry with this id in the response
}

// Collect groups an answer by trace id and verifies that every returned span is attributable to an
// acknowledged span of that very trace with identical payload bytes and span id. class "" = fine.
func (m *TraceModel) Collect(traces []*tracev1.Trace) (got map[string]*Returned, class, msg string) {
	got = map[string]*Returned{}
	for _, tr := range traces {
		r := got[tr.GetTraceId()]
		if r == nil {
			r = &Returned{Pos: len(got)}
			got[tr.GetTraceId()] = r
		}
		r.Entries++
		for _, sp := range tr.GetSpans() {
			w, ok := spanWid(sp)
			if !ok {
				return got, "span-without-wid", fmt.Sprintf("trace %q: a returned span (span id %q) carries no wid tag although wid was projected", tr.GetTraceId(), sp.GetSpanId())
			}
			ref := m.byWid[w]
			if ref == nil {
				return got, "span-never-written", fmt.Sprintf("trace %q: returned span w%d was never acknowledged", tr.GetTraceId(), w)
			}
			if ref.TraceID != tr.GetTraceId() {
				return got, "span-under-wrong-trace", fmt.Sprintf("span w%d of trace %q returned under trace %q", w, ref.TraceID, tr.GetTraceId())
			}
			if !bytes.Equal(ref.Payload, sp.GetSpan()) {
				return got, "span-payload-differs", fmt.Sprintf("trace %q span w%d: payload differs: written %s returned %s", tr.GetTraceId(), w, hexShort(ref.Payload), hexShort(sp.GetSpan()))
			}
			if ref.SpanID != sp.GetSpanId() {
				return got, "span-id-differs", fmt.Sprintf("trace %q span w%d: span id written %q returned %q", tr.GetTraceId(), w, ref.SpanID, sp.GetSpanId())
			}
			// value fidelity of the projected tags (C01's clause for the trace engine)
			for _, t := range sp.GetTags() {
				wv, known := ref.Tags[t.GetKey()]
				if !known {
					continue
				}
				if a, b := CanonTag(wv), CanonTag(t.GetValue()); a != b {
					if m.TolerateTag != nil && m.TolerateTag(kindOf(a)+"->"+kindOf(b)) {
						continue
					}
					return got, "tag-value-differs:" + kindOf(a) + "->" + kindOf(b), fmt.Sprintf("trace %q span w%d tag %s: written %s returned %s", tr.GetTraceId(), w, t.GetKey(), a, b)
				}
			}
			r.Wids = append(r.Wids, w)
		}
	}
	for _, r := range got {
		sort.Slice(r.Wids, func(i, j int) bool { return r.Wids[i] < r.Wids[j] })
	}
	return got, "", ""
}

// SpanByWid returns the acknowledged span with the given wid (nil if unknown).
func (m *TraceModel) SpanByWid(w int64) *Span { return m.byWid[w] }

// AckedWids returns the sorted wids acknowledged for a trace.
func (m *TraceModel) AckedWids(id string) []int64 {
	var out []int64
	for _, sp := range m.Traces[id] {
		out = append(out, sp.Wid)
	}
	sort.Slice(out, func(i, j int) bool { return out[i] < out[j] })
	return out
}

// CompareWhole checks that the returned wids of trace id are exactly its acknowledged spans.
func (m *TraceModel) CompareWhole(id string, r *Returned) (class, msg string) {
	want := m.AckedWids(id)
	var have []int64
	if r != nil {
		have = r.Wids
	}
	seen := map[int64]int{}
	for _, w := range have {
		seen[w]++
		if seen[w] == 2 {
			return "span-returned-twice", fmt.Sprintf("trace %q: span w%d returned more than once (returned %v, acknowledged %v)", id, w, have, want)
		}
	}
	var missing []int64
	for _, w := range want {
		if seen[w] == 0 {
			missing = append(missing, w)
		}
	}
	if len(missing) > 0 {
		cls := "spans-missing"
		if len(have) == 0 {
			cls = "trace-missing"
		}
		return cls, fmt.Sprintf("trace %q: %d of %d acknowledged spans missing %v (returned %v)", id, len(missing), len(want), describeSpans(m, missing), have)
	}
	return "", ""
}

func describeSpans(m *TraceModel, wids []int64) string {
	s := "["
	for i, w := range wids {
		if i > 0 {
			s += " "
		}
		if i == 6 {
			s += "..."
			break
		}
		sp := m.byWid[w]
		s += fmt.Sprintf("w%d(batch %d, ts %s)", w, sp.Batch, time.UnixMilli(sp.Ts).UTC().Format("01-02T15:04:05.000"))
	}
	return s + "]"
}
