package wl

import (
	"context"
	"fmt"
	"sort"
	"strings"
	"time"

	"google.golang.org/protobuf/types/known/timestamppb"

	commonv1 "github.com/apache/skywalking-banyandb/api/proto/banyandb/common/v1"
	databasev1 "github.com/apache/skywalking-banyandb/api/proto/banyandb/database/v1"
	modelv1 "github.com/apache/skywalking-banyandb/api/proto/banyandb/model/v1"
	streamv1 "github.com/apache/skywalking-banyandb/api/proto/banyandb/stream/v1"
	"github.com/apache/skywalking-banyandb/banyand/internal/verif/simmeta"
	"github.com/apache/skywalking-banyandb/pkg/verif/simcore"
)

// StreamSchema is a generated group+stream. Tag.Indexed means an inverted rule, Skipping a skipping rule.
type StreamSchema struct {
	Group      string
	Name       string
	Tags       []TagSpec
	Skipping   map[string]bool
	Families   []string
	EntityTags []string
	Shards     uint32
	Replicas   uint32
	SegDays    uint32
	TTLDays    uint32
}

// GenStreamSchema draws a stream schema ("wid" int tag carries the unique write id).
func GenStreamSchema(tp *simcore.Tape, o SchemaOpts) *StreamSchema {
	maxShards := o.MaxShards
	if maxShards == 0 {
		maxShards = 3
	}
	s := &StreamSchema{Group: "sg1", Name: "s1", Shards: uint32(tp.Range(1, maxShards)), SegDays: 1, TTLDays: 30, Skipping: map[string]bool{}}
	nEnt := tp.Weighted(5, 3, 1) + 1
	fam := "searchable"
	s.Families = []string{fam}
	for i := 0; i < nEnt; i++ {
		t := databasev1.TagType_TAG_TYPE_STRING
		if i > 0 && tp.Bool(1, 2) {
			t = databasev1.TagType_TAG_TYPE_INT
		}
		name := fmt.Sprintf("e%d", i)
		s.Tags = append(s.Tags, TagSpec{Name: name, Family: fam, Type: t, Entity: true})
		s.EntityTags = append(s.EntityTags, name)
	}
	s.Tags = append(s.Tags, TagSpec{Name: "wid", Family: fam, Type: databasev1.TagType_TAG_TYPE_INT})
	nTags := tp.Weighted(2, 3, 3, 2, 1)
	// 0 = index rules drawn per tag; 1 = a skipping rule on every string/int tag (several block filters per tag
	// family); 2 = an inverted rule on every tag
	indexMode := tp.Side().Weighted(3, 1, 1)
	if indexMode == 1 && tp.Side().Bool(1, 2) { // and mostly string tags: dictionary-encoded columns next to each other
		nTags = max(nTags, 3)
	}
	for i := 0; i < nTags; i++ {
		if i == 2 && tp.Bool(1, 2) {
			fam = "data"
			s.Families = append(s.Families, fam)
		}
		t := tagTypesNonEntity[tp.Choose(len(tagTypesNonEntity))]
		if indexMode == 1 && tp.Side().Bool(2, 3) {
			t = databasev1.TagType_TAG_TYPE_STRING
		}
		ts := TagSpec{Name: fmt.Sprintf("t%d", i), Family: fam, Type: t}
		if !o.NoIndexRules && t != databasev1.TagType_TAG_TYPE_DATA_BINARY {
			pick := tp.Weighted(4, 2, 1)
			switch indexMode { // side-tape facet: every tag that can carry the rule gets it
			case 1:
				pick = 2
			case 2:
				pick = 1
			}
			switch pick {
			case 1:
				ts.Indexed = true
			case 2:
				if t == databasev1.TagType_TAG_TYPE_STRING || t == databasev1.TagType_TAG_TYPE_INT {
					s.Skipping[ts.Name] = true
				}
			}
		}
		if o.ForceIndex != nil {
			ts.Indexed = o.ForceIndex[ts.Name]
			delete(s.Skipping, ts.Name)
		}
		s.Tags = append(s.Tags, ts)
	}
	return s
}

// Install registers the schema.
func (s *StreamSchema) Install(repo *simmeta.Repo) {
	ctx := context.Background()
	_, _ = repo.CreateGroup(ctx, &commonv1.Group{
		Metadata: &commonv1.Metadata{Name: s.Group},
		Catalog:  commonv1.Catalog_CATALOG_STREAM,
		ResourceOpts: &commonv1.ResourceOpts{
			ShardNum:        s.Shards,
			Replicas:        s.Replicas,
			SegmentInterval: &commonv1.IntervalRule{Unit: commonv1.IntervalRule_UNIT_DAY, Num: s.SegDays},
			Ttl:             &commonv1.IntervalRule{Unit: commonv1.IntervalRule_UNIT_DAY, Num: s.TTLDays},
		},
	})
	var rules []string
	id := uint32(30)
	for _, t := range s.Tags {
		typ := databasev1.IndexRule_TYPE_UNSPECIFIED
		if t.Indexed {
			typ = databasev1.IndexRule_TYPE_INVERTED
		} else if s.Skipping[t.Name] {
			typ = databasev1.IndexRule_TYPE_SKIPPING
		}
		if typ == databasev1.IndexRule_TYPE_UNSPECIFIED {
			continue
		}
		id++
		rn := "sidx_" + t.Name
		_, _ = repo.CreateIndexRule(ctx, &databasev1.IndexRule{
			Metadata: &commonv1.Metadata{Name: rn, Group: s.Group, Id: id},
			Tags:     []string{t.Name}, Type: typ,
		})
		rules = append(rules, rn)
	}
	if len(rules) > 0 {
		_, _ = repo.CreateIndexRuleBinding(ctx, &databasev1.IndexRuleBinding{
			Metadata: &commonv1.Metadata{Name: "bind_" + s.Name, Group: s.Group},
			Rules:    rules,
			Subject:  &databasev1.Subject{Catalog: commonv1.Catalog_CATALOG_STREAM, Name: s.Name},
			BeginAt:  timestamppb.New(time.Unix(0, 0)),
			ExpireAt: timestamppb.New(time.Date(2100, 1, 1, 0, 0, 0, 0, time.UTC)),
		})
	}
	st := &databasev1.Stream{
		Metadata: &commonv1.Metadata{Name: s.Name, Group: s.Group},
		Entity:   &databasev1.Entity{TagNames: s.EntityTags},
	}
	for _, fam := range s.Families {
		tf := &databasev1.TagFamilySpec{Name: fam}
		for _, t := range s.Tags {
			if t.Family == fam {
				tf.Tags = append(tf.Tags, &databasev1.TagSpec{Name: t.Name, Type: t.Type})
			}
		}
		st.TagFamilies = append(st.TagFamilies, tf)
	}
	_, _ = repo.CreateStream(ctx, st)
}

// SRow is one written element.
type SRow struct {
	Tags   map[string]*modelv1.TagValue
	Series string
	Ts     int64
	Wid    int64
	Batch  int
}

// StreamModel is the reference element store.
type StreamModel struct {
	S        *StreamSchema
	series   map[string]map[string]*modelv1.TagValue
	Tolerate func(class string) bool
	Keys     []string
	Rows     []*SRow
	nextW    int64
}

// NewStreamModel returns an empty model.
func NewStreamModel(s *StreamSchema) *StreamModel {
	return &StreamModel{S: s, series: map[string]map[string]*modelv1.TagValue{}}
}

func (m *StreamModel) pickSeries(tp *simcore.Tape, maxSeries int) string {
	if len(m.Keys) < maxSeries && (len(m.Keys) == 0 || tp.Bool(1, 3)) {
		for try := 0; try < 8; try++ {
			vals := map[string]*modelv1.TagValue{}
			var kp []string
			for _, t := range m.S.Tags {
				if !t.Entity {
					continue
				}
				var v *modelv1.TagValue
				if t.Type == databasev1.TagType_TAG_TYPE_INT {
					v = TInt(GenInt(tp))
				} else {
					sv := GenStr(tp)
					if sv == "" {
						sv = "e"
					}
					v = TStr(sv)
				}
				vals[t.Name] = v
				kp = append(kp, CanonTag(v))
			}
			k := strings.Join(kp, "|")
			if _, dup := m.series[k]; dup {
				continue
			}
			m.series[k] = vals
			m.Keys = append(m.Keys, k)
			return k
		}
	}
	return m.Keys[tp.Choose(len(m.Keys))]
}

// GenBatch draws a batch of elements.
func (m *StreamModel) GenBatch(tp *simcore.Tape, o BatchOpts, batchNo int) []*SRow {
	n := 1
	switch tp.Weighted(3, 4, 2, 1) {
	case 0:
		n = tp.Range(1, 3)
	case 1:
		n = tp.Range(4, 40)
	case 2:
		n = tp.Range(41, 400)
	default:
		n = o.MaxRows
	}
	n = min(n, o.MaxRows)
	hot := tp.Bool(1, 4)
	var hotKey string
	var hotTs int64
	if hot {
		hotKey = m.pickSeries(tp, o.MaxSeries)
		hotTs = o.BaseMs - int64(tp.Choose(int(o.SpanMs)+1))
	}
	step := int64([]int{1, 1000, 0, 7}[tp.Choose(4)])
	var out []*SRow
	for i := 0; i < n; i++ {
		r := &SRow{Tags: map[string]*modelv1.TagValue{}, Batch: batchNo}
		if hot {
			r.Series, r.Ts = hotKey, hotTs+int64(i)*step
		} else {
			r.Series = m.pickSeries(tp, o.MaxSeries)
			r.Ts = o.BaseMs - int64(tp.Choose(int(o.SpanMs)+1))
			if len(o.FixedTimes) > 0 && tp.Side().Bool(1, 4) { // e.g. exactly on a segment boundary
				r.Ts = o.FixedTimes[tp.Side().Choose(len(o.FixedTimes))]
			}
			if len(o.BoundaryTimes) > 0 && tp.Side().Bool(1, 6) {
				r.Ts = o.BoundaryTimes[tp.Side().Choose(len(o.BoundaryTimes))]
			}
		}
		m.nextW++
		r.Wid = m.nextW
		sv := m.series[r.Series]
		for _, t := range m.S.Tags {
			switch {
			case t.Entity:
				r.Tags[t.Name] = sv[t.Name]
			case t.Name == "wid":
				r.Tags[t.Name] = TInt(r.Wid)
			default:
				if o.Plain {
					r.Tags[t.Name] = PlainTag(tp, t.Type)
				} else {
					r.Tags[t.Name] = GenTag(tp, t.Type, o.NullOK)
				}
			}
		}
		out = append(out, r)
	}
	return out
}

// ToRequests converts elements to client write requests.
func (m *StreamModel) ToRequests(rows []*SRow, firstMsgID uint64) []*streamv1.WriteRequest {
	var out []*streamv1.WriteRequest
	for i, r := range rows {
		el := &streamv1.ElementValue{ElementId: fmt.Sprintf("w%d", r.Wid), Timestamp: timestamppb.New(time.UnixMilli(r.Ts))}
		for _, fam := range m.S.Families {
			tf := &modelv1.TagFamilyForWrite{}
			for _, t := range m.S.Tags {
				if t.Family == fam {
					tf.Tags = append(tf.Tags, r.Tags[t.Name])
				}
			}
			el.TagFamilies = append(el.TagFamilies, tf)
		}
		wr := &streamv1.WriteRequest{Element: el, MessageId: firstMsgID + uint64(i)}
		if i == 0 {
			wr.Metadata = &commonv1.Metadata{Name: m.S.Name, Group: m.S.Group}
		}
		out = append(out, wr)
	}
	return out
}

// Ack records elements as acknowledged.
func (m *StreamModel) Ack(rows []*SRow) { m.Rows = append(m.Rows, rows...) }

// FullProjection projects every tag.
func (s *StreamSchema) FullProjection() Projection {
	var p Projection
	for _, t := range s.Tags {
		p.Tags = append(p.Tags, t.Name)
	}
	return p
}

// GenProjection draws a projection that contains "wid".
func (s *StreamSchema) GenProjection(tp *simcore.Tape) Projection {
	if tp.Bool(1, 2) {
		return s.FullProjection()
	}
	var p Projection
	for _, t := range s.Tags {
		if t.Name == "wid" || tp.Bool(1, 2) {
			p.Tags = append(p.Tags, t.Name)
		}
	}
	return p
}

// QueryRequest builds a stream query.
func (s *StreamSchema) QueryRequest(beginMs, endMs int64, p Projection, limit uint32) *streamv1.QueryRequest {
	req := &streamv1.QueryRequest{
		Groups: []string{s.Group}, Name: s.Name,
		TimeRange: &modelv1.TimeRange{Begin: timestamppb.New(time.UnixMilli(beginMs)), End: timestamppb.New(time.UnixMilli(endMs))},
		Limit:     limit,
	}
	tpj := &modelv1.TagProjection{}
	for _, fam := range s.Families {
		f := &modelv1.TagProjection_TagFamily{Name: fam}
		for _, t := range s.Tags {
			if t.Family != fam {
				continue
			}
			for _, want := range p.Tags {
				if want == t.Name {
					f.Tags = append(f.Tags, t.Name)
				}
			}
		}
		if len(f.Tags) > 0 {
			tpj.TagFamilies = append(tpj.TagFamilies, f)
		}
	}
	req.Projection = tpj
	return req
}

func canonSRow(r *SRow, p Projection) string {
	var b strings.Builder
	fmt.Fprintf(&b, "ts=%d", r.Ts) // the element id is returned as a hash by design; it is neither a tag nor a field
	for _, t := range p.Tags {
		fmt.Fprintf(&b, " %s=%s", t, CanonTag(r.Tags[t]))
	}
	return b.String()
}

func canonElement(el *streamv1.Element, p Projection) string {
	tags := map[string]*modelv1.TagValue{}
	for _, tf := range el.GetTagFamilies() {
		for _, t := range tf.GetTags() {
			tags[t.GetKey()] = t.GetValue()
		}
	}
	var b strings.Builder
	fmt.Fprintf(&b, "ts=%d", el.GetTimestamp().AsTime().UnixMilli())
	for _, t := range p.Tags {
		if v, ok := tags[t]; ok {
			fmt.Fprintf(&b, " %s=%s", t, CanonTag(v))
		} else {
			fmt.Fprintf(&b, " %s=<absent>", t)
		}
	}
	return b.String()
}

func elementWid(el *streamv1.Element) int64 {
	for _, tf := range el.GetTagFamilies() {
		for _, t := range tf.GetTags() {
			if t.GetKey() == "wid" {
				if iv := t.GetValue().GetInt(); iv != nil {
					return iv.GetValue()
				}
			}
		}
	}
	return -1
}

// Mismatch compares a stream answer with the model: every acknowledged element accepted by keep exactly
// once, bit-exact, nothing else.
func (m *StreamModel) Mismatch(els []*streamv1.Element, p Projection, keep func(*SRow) bool) (class, msg string) {
	want := map[int64]*SRow{}
	for _, r := range m.Rows {
		if keep == nil || keep(r) {
			want[r.Wid] = r
		}
	}
	seen := map[int64]bool{}
	for _, el := range els {
		w := elementWid(el)
		r, ok := want[w]
		if !ok {
			for _, x := range m.Rows {
				if x.Wid == w {
					return "row-outside-query", fmt.Sprintf("query returned an element outside its range/criteria: %s", canonElement(el, p))
				}
			}
			return "extra-row", fmt.Sprintf("query returned an element that was never written: %s", canonElement(el, p))
		}
		if seen[w] {
			return "duplicate-row", fmt.Sprintf("element w%d returned twice", w)
		}
		seen[w] = true
		ws, gs := canonSRow(r, p), canonElement(el, p)
		if ws != gs {
			for _, cls := range diffKinds(ws, gs) {
				if m.Tolerate != nil && m.Tolerate("value-differs"+cls) {
					continue
				}
				return "value-differs" + cls, fmt.Sprintf("element w%d returned with different content:\n  written : %s\n  returned: %s", w, ws, gs)
			}
		}
	}
	if len(seen) != len(want) {
		var miss []int64
		for w := range want {
			if !seen[w] {
				miss = append(miss, w)
			}
		}
		sort.Slice(miss, func(i, j int) bool { return miss[i] < miss[j] })
		return "missing-row", fmt.Sprintf("%d acknowledged element(s) missing from the answer (%d expected, %d returned); first: %s", len(miss), len(want), len(els), canonSRow(want[miss[0]], p))
	}
	return "", ""
}
