package wl

import streamv1 "github.com/apache/skywalking-banyandb/api/proto/banyandb/stream/v1"

// ElementWid extracts the write id of a returned element (-1 if absent).
func ElementWid(el *streamv1.Element) int64 { return elementWid(el) }

// CanonElement renders a returned element under a projection.
func CanonElement(el *streamv1.Element, p Projection) string { return canonElement(el, p) }
