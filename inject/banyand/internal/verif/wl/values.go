// Package wl holds the workload generators (schemas, values, batches, queries) and the reference
// models (row store, naive query evaluator) shared by the node-level property checks. The models know
// nothing about parts, blocks, encodings, indexes or merge policy.
package wl

import (
	"encoding/hex"
	"fmt"
	"math"
	"strconv"
	"strings"

	"google.golang.org/protobuf/types/known/structpb"

	databasev1 "github.com/apache/skywalking-banyandb/api/proto/banyandb/database/v1"
	modelv1 "github.com/apache/skywalking-banyandb/api/proto/banyandb/model/v1"
	"github.com/apache/skywalking-banyandb/pkg/verif/simcore"
)

// Boundary-biased value pools.
var (
	IntPool = []int64{
		0, 1, -1, 2, 7, 100, -100, 255, 256, 65535, 1 << 31, -(1 << 31), 1<<53 - 1, 1 << 53, 1<<53 + 1, -(1<<53 + 1),
		math.MaxInt64, math.MinInt64, math.MaxInt64 - 1, math.MinInt64 + 1, 1234567890123, -987654321,
	}
	FloatPool = []float64{
		0, 1, -1, 1.5, -2.25, 0.1, 0.2, 0.30000000000000004, 1e-7, 123456.789, -0.000123, 3.141592653589793,
		math.MaxFloat64, -math.MaxFloat64, math.SmallestNonzeroFloat64, 2.2250738585072014e-308, 4.9406564584124654e-320,
		9007199254740993.0, 9007199254740992.0, 0.12345678901234567, 123456789.12345678, 1.7976931348623157e308,
		math.Copysign(0, -1), math.Inf(1), math.Inf(-1), 1e15 + 0.3, 9.999999999999999e22, 5e-324, 65.125, 1e21,
	}
	StrPool = []string{
		"", "a", "b", "ab", "a|b", "|", "\\", "x\\|y", "z\x00w", "\x00", "üñí", "€𝄞", " ", "svc-1", "svc-2", "svc-10",
		"A", "aa", "0", "-1", "null", "a\nb", "'", "\"q\"",
	}
)

// LongStr returns a deterministic long string.
func LongStr(n int, salt int) string {
	var b strings.Builder
	for i := 0; b.Len() < n; i++ {
		b.WriteString(strconv.Itoa((i*7919 + salt) % 100003))
		b.WriteByte('/')
	}
	return b.String()[:n]
}

// Blob returns a deterministic byte blob.
func Blob(n int, salt int) []byte {
	b := make([]byte, n)
	for i := range b {
		b[i] = byte(i*31 + salt + i/253)
	}
	return b
}

// GenInt draws an int64.
func GenInt(tp *simcore.Tape) int64 {
	switch tp.Weighted(4, 3, 2) {
	case 0:
		return int64(tp.Choose(16))
	case 1:
		return IntPool[tp.Choose(len(IntPool))]
	default:
		return int64(tp.U64())
	}
}

// GenFloat draws a float64 (never NaN: NaN != NaN makes attribution impossible; NaN is covered separately).
func GenFloat(tp *simcore.Tape) float64 {
	switch tp.Weighted(3, 4, 2, 1) {
	case 0:
		return float64(tp.Choose(16)) / 4
	case 1:
		return FloatPool[tp.Choose(len(FloatPool))]
	case 2:
		// decimal with many significant digits
		m := int64(tp.U64() >> 4)
		if tp.Bool(1, 2) {
			m = -m
		}
		return float64(m) / math.Pow10(tp.Range(0, 18))
	default:
		f := math.Float64frombits(tp.U64())
		if math.IsNaN(f) {
			return 1.25
		}
		return f
	}
}

// GenStr draws a string.
func GenStr(tp *simcore.Tape) string {
	switch tp.Weighted(3, 5, 1, 1) {
	case 0:
		return "v" + strconv.Itoa(tp.Choose(8))
	case 1:
		return StrPool[tp.Choose(len(StrPool))]
	case 2:
		return LongStr(tp.Range(30, 400), tp.Choose(1000))
	default:
		return "s" + strconv.Itoa(tp.Choose(1000))
	}
}

// GenBytes draws a blob.
func GenBytes(tp *simcore.Tape, big bool) []byte {
	switch tp.Weighted(2, 3, 2, 1) {
	case 0:
		return []byte{}
	case 1:
		return Blob(tp.Range(1, 8), tp.Choose(256))
	case 2:
		return Blob(tp.Range(9, 300), tp.Choose(256))
	default:
		if big {
			return Blob(64<<10, tp.Choose(256))
		}
		return Blob(1000, tp.Choose(256))
	}
}

// Tag value constructors.
func TStr(s string) *modelv1.TagValue {
	return &modelv1.TagValue{Value: &modelv1.TagValue_Str{Str: &modelv1.Str{Value: s}}}
}
func TInt(i int64) *modelv1.TagValue {
	return &modelv1.TagValue{Value: &modelv1.TagValue_Int{Int: &modelv1.Int{Value: i}}}
}
func TNull() *modelv1.TagValue {
	return &modelv1.TagValue{Value: &modelv1.TagValue_Null{Null: structpb.NullValue_NULL_VALUE}}
}
func TBin(b []byte) *modelv1.TagValue {
	return &modelv1.TagValue{Value: &modelv1.TagValue_BinaryData{BinaryData: b}}
}
func TStrArr(a []string) *modelv1.TagValue {
	return &modelv1.TagValue{Value: &modelv1.TagValue_StrArray{StrArray: &modelv1.StrArray{Value: a}}}
}
func TIntArr(a []int64) *modelv1.TagValue {
	return &modelv1.TagValue{Value: &modelv1.TagValue_IntArray{IntArray: &modelv1.IntArray{Value: a}}}
}

// Field value constructors.
func FInt(i int64) *modelv1.FieldValue {
	return &modelv1.FieldValue{Value: &modelv1.FieldValue_Int{Int: &modelv1.Int{Value: i}}}
}
func FFloat(f float64) *modelv1.FieldValue {
	return &modelv1.FieldValue{Value: &modelv1.FieldValue_Float{Float: &modelv1.Float{Value: f}}}
}
func FStr(s string) *modelv1.FieldValue {
	return &modelv1.FieldValue{Value: &modelv1.FieldValue_Str{Str: &modelv1.Str{Value: s}}}
}
func FBin(b []byte) *modelv1.FieldValue {
	return &modelv1.FieldValue{Value: &modelv1.FieldValue_BinaryData{BinaryData: b}}
}
func FNull() *modelv1.FieldValue {
	return &modelv1.FieldValue{Value: &modelv1.FieldValue_Null{Null: structpb.NullValue_NULL_VALUE}}
}

// GenTag draws a value of the given tag type. nullOK allows an explicit null.
func GenTag(tp *simcore.Tape, t databasev1.TagType, nullOK bool) *modelv1.TagValue {
	if nullOK && tp.Bool(1, 10) {
		return TNull()
	}
	switch t {
	case databasev1.TagType_TAG_TYPE_STRING:
		return TStr(GenStr(tp))
	case databasev1.TagType_TAG_TYPE_INT:
		return TInt(GenInt(tp))
	case databasev1.TagType_TAG_TYPE_DATA_BINARY:
		return TBin(GenBytes(tp, false))
	case databasev1.TagType_TAG_TYPE_STRING_ARRAY:
		n := tp.Weighted(2, 3, 2, 1)
		a := make([]string, n)
		for i := range a {
			a[i] = GenStr(tp)
		}
		return TStrArr(a)
	case databasev1.TagType_TAG_TYPE_INT_ARRAY:
		n := tp.Weighted(2, 3, 2, 1)
		a := make([]int64, n)
		for i := range a {
			a[i] = GenInt(tp)
		}
		return TIntArr(a)
	}
	return TNull()
}

// GenField draws a value of the given field type.
func GenField(tp *simcore.Tape, t databasev1.FieldType, nullOK bool) *modelv1.FieldValue {
	if nullOK && tp.Bool(1, 12) {
		return FNull()
	}
	switch t {
	case databasev1.FieldType_FIELD_TYPE_INT:
		return FInt(GenInt(tp))
	case databasev1.FieldType_FIELD_TYPE_FLOAT:
		return FFloat(GenFloat(tp))
	case databasev1.FieldType_FIELD_TYPE_STRING:
		return FStr(GenStr(tp))
	case databasev1.FieldType_FIELD_TYPE_DATA_BINARY:
		return FBin(GenBytes(tp, tp.Bool(1, 30)))
	}
	return FNull()
}

func q(s string) string { return strconv.Quote(s) }

// CanonTag is the canonical, bit-exact text of a tag value (type included).
func CanonTag(v *modelv1.TagValue) string {
	if v == nil {
		return "null"
	}
	switch x := v.GetValue().(type) {
	case nil, *modelv1.TagValue_Null:
		return "null"
	case *modelv1.TagValue_Str:
		return "s:" + q(x.Str.GetValue())
	case *modelv1.TagValue_Int:
		return "i:" + strconv.FormatInt(x.Int.GetValue(), 10)
	case *modelv1.TagValue_BinaryData:
		return "b:" + hexShort(x.BinaryData)
	case *modelv1.TagValue_StrArray:
		var p []string
		for _, s := range x.StrArray.GetValue() {
			p = append(p, q(s))
		}
		return "S:[" + strings.Join(p, ",") + "]"
	case *modelv1.TagValue_IntArray:
		var p []string
		for _, s := range x.IntArray.GetValue() {
			p = append(p, strconv.FormatInt(s, 10))
		}
		return "I:[" + strings.Join(p, ",") + "]"
	case *modelv1.TagValue_Timestamp:
		return fmt.Sprintf("t:%d.%09d", x.Timestamp.GetSeconds(), x.Timestamp.GetNanos())
	}
	return "?"
}

// CanonField is the canonical, bit-exact text of a field value.
func CanonField(v *modelv1.FieldValue) string {
	if v == nil {
		return "null"
	}
	switch x := v.GetValue().(type) {
	case nil, *modelv1.FieldValue_Null:
		return "null"
	case *modelv1.FieldValue_Str:
		return "s:" + q(x.Str.GetValue())
	case *modelv1.FieldValue_Int:
		return "i:" + strconv.FormatInt(x.Int.GetValue(), 10)
	case *modelv1.FieldValue_Float:
		return fmt.Sprintf("f:%016x(%v)", math.Float64bits(x.Float.GetValue()), x.Float.GetValue())
	case *modelv1.FieldValue_BinaryData:
		return "b:" + hexShort(x.BinaryData)
	}
	return "?"
}

func hexShort(b []byte) string {
	if len(b) <= 24 {
		return hex.EncodeToString(b)
	}
	// long blobs: length + fnv-style digest + edges keep messages readable and still exact enough
	var h uint64 = 1469598103934665603
	for _, c := range b {
		h ^= uint64(c)
		h *= 1099511628211
	}
	return fmt.Sprintf("%s..%s(len=%d,h=%016x)", hex.EncodeToString(b[:6]), hex.EncodeToString(b[len(b)-6:]), len(b), h)
}
