package wl

import (
	"math"
	"context"
	"fmt"
	"sort"
	"strings"
	"time"

	"google.golang.org/protobuf/types/known/timestamppb"

	commonv1 "github.com/apache/skywalking-banyandb/api/proto/banyandb/common/v1"
	databasev1 "github.com/apache/skywalking-banyandb/api/proto/banyandb/database/v1"
	measurev1 "github.com/apache/skywalking-banyandb/api/proto/banyandb/measure/v1"
	modelv1 "github.com/apache/skywalking-banyandb/api/proto/banyandb/model/v1"
	"github.com/apache/skywalking-banyandb/banyand/internal/verif/simmeta"
	"github.com/apache/skywalking-banyandb/pkg/verif/simcore"
)

// TagSpec is one tag of a generated schema.
type TagSpec struct {
	Name    string
	Family  string
	Type    databasev1.TagType
	Entity  bool
	Indexed bool // covered by an inverted index rule; in a measure such a tag is series-level (constant per series)
}

// FieldSpec is one field of a generated measure.
type FieldSpec struct {
	Name string
	Type databasev1.FieldType
}

// MeasureSchema is a generated group+measure.
type MeasureSchema struct {
	Group      string
	Name       string
	Tags       []TagSpec // in schema order (families contiguous)
	Fields     []FieldSpec
	Shards     uint32
	Replicas   uint32
	SegDays    uint32
	TTLDays    uint32
	IndexMode  bool
	Families   []string
	EntityTags []string
}

// SchemaOpts narrows schema generation.
type SchemaOpts struct {
	NoIndexRules bool
	ForceIndex   map[string]bool // tag name -> indexed (twin runs)
	IntFieldOnly bool
	MaxShards    int
	TTLDays      int
}

var tagTypesNonEntity = []databasev1.TagType{
	databasev1.TagType_TAG_TYPE_STRING, databasev1.TagType_TAG_TYPE_INT, databasev1.TagType_TAG_TYPE_STRING_ARRAY,
	databasev1.TagType_TAG_TYPE_INT_ARRAY, databasev1.TagType_TAG_TYPE_DATA_BINARY,
}

// GenMeasureSchema draws a schema. The first non-entity tag is always the int tag "wid" carrying a
// unique write id so that every returned row is attributable to one write.
func GenMeasureSchema(tp *simcore.Tape, o SchemaOpts) *MeasureSchema {
	maxShards := o.MaxShards
	if maxShards == 0 {
		maxShards = 3
	}
	s := &MeasureSchema{Group: "g1", Name: "m1", Shards: uint32(tp.Range(1, maxShards)), SegDays: 1, TTLDays: 30}
	if o.TTLDays > 0 {
		s.TTLDays = uint32(o.TTLDays)
	}
	nEnt := tp.Weighted(5, 3, 1) + 1
	fam := "default"
	s.Families = []string{fam}
	for i := 0; i < nEnt; i++ {
		t := databasev1.TagType_TAG_TYPE_STRING
		if i > 0 && tp.Bool(1, 2) {
			t = databasev1.TagType_TAG_TYPE_INT
		}
		name := fmt.Sprintf("e%d", i)
		s.Tags = append(s.Tags, TagSpec{Name: name, Family: fam, Type: t, Entity: true})
		s.EntityTags = append(s.EntityTags, name)
	}
	s.Tags = append(s.Tags, TagSpec{Name: "wid", Family: fam, Type: databasev1.TagType_TAG_TYPE_INT})
	nTags := tp.Weighted(2, 3, 3, 2, 1)
	for i := 0; i < nTags; i++ {
		if i == 2 && tp.Bool(1, 2) {
			fam = "extra"
			s.Families = append(s.Families, fam)
		}
		t := tagTypesNonEntity[tp.Choose(len(tagTypesNonEntity))]
		ts := TagSpec{Name: fmt.Sprintf("t%d", i), Family: fam, Type: t}
		if !o.NoIndexRules && (t == databasev1.TagType_TAG_TYPE_STRING || t == databasev1.TagType_TAG_TYPE_INT) && tp.Bool(1, 4) {
			ts.Indexed = true
		}
		if o.ForceIndex != nil {
			ts.Indexed = o.ForceIndex[ts.Name]
		}
		s.Tags = append(s.Tags, ts)
	}
	nFields := tp.Weighted(1, 4, 3, 2)
	ft := []databasev1.FieldType{databasev1.FieldType_FIELD_TYPE_INT, databasev1.FieldType_FIELD_TYPE_FLOAT, databasev1.FieldType_FIELD_TYPE_STRING, databasev1.FieldType_FIELD_TYPE_DATA_BINARY}
	for i := 0; i < nFields; i++ {
		t := ft[tp.Weighted(4, 4, 2, 1)]
		if o.IntFieldOnly {
			t = databasev1.FieldType_FIELD_TYPE_INT
		}
		s.Fields = append(s.Fields, FieldSpec{Name: fmt.Sprintf("f%d", i), Type: t})
	}
	return s
}

// Install registers the schema with the registry (before or after boot).
func (s *MeasureSchema) Install(repo *simmeta.Repo) {
	ctx := context.Background()
	_, _ = repo.CreateGroup(ctx, &commonv1.Group{
		Metadata: &commonv1.Metadata{Name: s.Group},
		Catalog:  commonv1.Catalog_CATALOG_MEASURE,
		ResourceOpts: &commonv1.ResourceOpts{
			ShardNum:        s.Shards,
			Replicas:        s.Replicas,
			SegmentInterval: &commonv1.IntervalRule{Unit: commonv1.IntervalRule_UNIT_DAY, Num: s.SegDays},
			Ttl:             &commonv1.IntervalRule{Unit: commonv1.IntervalRule_UNIT_DAY, Num: s.TTLDays},
		},
	})
	var rules []string
	id := uint32(10)
	for _, t := range s.Tags {
		if !t.Indexed {
			continue
		}
		id++
		rn := "idx_" + t.Name
		_, _ = repo.CreateIndexRule(ctx, &databasev1.IndexRule{
			Metadata: &commonv1.Metadata{Name: rn, Group: s.Group, Id: id},
			Tags:     []string{t.Name}, Type: databasev1.IndexRule_TYPE_INVERTED,
		})
		rules = append(rules, rn)
	}
	if len(rules) > 0 {
		_, _ = repo.CreateIndexRuleBinding(ctx, &databasev1.IndexRuleBinding{
			Metadata: &commonv1.Metadata{Name: "bind_" + s.Name, Group: s.Group},
			Rules:    rules,
			Subject:  &databasev1.Subject{Catalog: commonv1.Catalog_CATALOG_MEASURE, Name: s.Name},
			BeginAt:  timestamppb.New(time.Unix(0, 0)),
			ExpireAt: timestamppb.New(time.Date(2100, 1, 1, 0, 0, 0, 0, time.UTC)),
		})
	}
	_, _ = repo.CreateMeasure(ctx, s.Proto())
}

// Proto builds the measure definition.
func (s *MeasureSchema) Proto() *databasev1.Measure {
	m := &databasev1.Measure{
		Metadata:  &commonv1.Metadata{Name: s.Name, Group: s.Group},
		Entity:    &databasev1.Entity{TagNames: s.EntityTags},
		IndexMode: s.IndexMode,
	}
	for _, fam := range s.Families {
		tf := &databasev1.TagFamilySpec{Name: fam}
		for _, t := range s.Tags {
			if t.Family == fam {
				tf.Tags = append(tf.Tags, &databasev1.TagSpec{Name: t.Name, Type: t.Type})
			}
		}
		m.TagFamilies = append(m.TagFamilies, tf)
	}
	for _, f := range s.Fields {
		m.Fields = append(m.Fields, &databasev1.FieldSpec{
			Name: f.Name, FieldType: f.Type,
			EncodingMethod: databasev1.EncodingMethod_ENCODING_METHOD_GORILLA, CompressionMethod: databasev1.CompressionMethod_COMPRESSION_METHOD_ZSTD,
		})
	}
	return m
}

// MRow is one written data point in the model.
type MRow struct {
	Tags    map[string]*modelv1.TagValue
	Fields  map[string]*modelv1.FieldValue
	Series  string
	Ts      int64 // unix millis
	Version int64
	Wid     int64
	Batch   int
}

// MeasureModel is the reference row store.
type MeasureModel struct {
	S      *MeasureSchema
	series map[string]map[string]*modelv1.TagValue // series key -> entity+indexed (series-level) tag values
	Keys   []string                                 // series keys in creation order
	Rows   []*MRow                                  // every acknowledged row, in ack order
	// Tolerate, when set, is asked for each value-difference class whether it is a listed known finding
	// (the caller counts it); anything else is a violation.
	Tolerate func(class string) bool
	nextW    int64
}

// NewMeasureModel returns an empty model.
func NewMeasureModel(s *MeasureSchema) *MeasureModel {
	return &MeasureModel{S: s, series: map[string]map[string]*modelv1.TagValue{}}
}

// GenSeries makes sure at least n series exist and returns a tape-chosen one.
func (m *MeasureModel) pickSeries(tp *simcore.Tape, maxSeries int) string {
	if len(m.Keys) < maxSeries && (len(m.Keys) == 0 || tp.Bool(1, 3)) {
		for try := 0; try < 8; try++ {
			vals := map[string]*modelv1.TagValue{}
			var kp []string
			for _, t := range m.S.Tags {
				if t.Entity {
					var v *modelv1.TagValue
					if t.Type == databasev1.TagType_TAG_TYPE_INT {
						v = TInt(GenInt(tp))
					} else {
						sv := GenStr(tp)
						if sv == "" { // an empty entity value reads back as null by documented design (C12); keep entities non-empty
							sv = "e"
						}
						v = TStr(sv)
					}
					vals[t.Name] = v
					kp = append(kp, CanonTag(v))
				}
			}
			k := strings.Join(kp, "|")
			if _, dup := m.series[k]; dup {
				continue
			}
			for _, t := range m.S.Tags {
				if t.Indexed {
					vals[t.Name] = PlainTag(tp, t.Type)
				}
			}
			m.series[k] = vals
			m.Keys = append(m.Keys, k)
			return k
		}
	}
	return m.Keys[tp.Choose(len(m.Keys))]
}

// BatchOpts shapes a generated batch.
type BatchOpts struct {
	BaseMs     int64 // "now" in unix millis
	SpanMs     int64 // timestamps are drawn from [BaseMs-SpanMs, BaseMs]
	MaxRows    int
	MaxSeries  int
	Collide    bool // allow (series, ts) collisions with explicit versions (C02)
	NullOK     bool
	NoHot      bool
	Plain      bool // small-domain, never-null, never-empty tag values (criteria workloads)
	BoundaryTimes []int64 // timestamps (e.g. segment boundaries) that rows land on exactly now and then (side tape)
	// > 0: every non-entity tag / every field is null with probability 1/rate (also with Plain/SmallField)
	NullTagRate, NullFieldRate int
	EmptyStrRate               int // > 0: a string tag is the empty string with probability 1/rate
	SmallField bool // int fields in [-100,100] (rarely int64 extremes), float fields k/4: sums are exact in any order
	FixedTimes []int64
}

// GenBatch draws a batch of rows (not yet acknowledged).
func (m *MeasureModel) GenBatch(tp *simcore.Tape, o BatchOpts, batchNo int) []*MRow {
	n := 1
	switch tp.Weighted(3, 4, 2, 1) {
	case 0:
		n = tp.Range(1, 3)
	case 1:
		n = tp.Range(4, 40)
	case 2:
		n = tp.Range(41, 400)
	default:
		n = o.MaxRows
	}
	if n > o.MaxRows {
		n = o.MaxRows
	}
	used := map[string]bool{}
	for _, r := range m.Rows {
		used[fmt.Sprintf("%s@%d", r.Series, r.Ts)] = true
	}
	hot := !o.NoHot && tp.Bool(1, 4) // one hot series with consecutive timestamps (delta/const encodings, block splits)
	var hotKey string
	var hotTs int64
	if hot {
		hotKey = m.pickSeries(tp, o.MaxSeries)
		hotTs = o.BaseMs - int64(tp.Choose(int(o.SpanMs)+1))
	}
	step := int64([]int{1, 1000, 60000, 7}[tp.Choose(4)])
	var out []*MRow
	for i := 0; i < n; i++ {
		r := &MRow{Tags: map[string]*modelv1.TagValue{}, Fields: map[string]*modelv1.FieldValue{}, Batch: batchNo}
		if hot {
			r.Series = hotKey
			r.Ts = hotTs + int64(i)*step
		} else {
			r.Series = m.pickSeries(tp, o.MaxSeries)
			if len(o.FixedTimes) > 0 && tp.Bool(1, 2) {
				r.Ts = o.FixedTimes[tp.Choose(len(o.FixedTimes))]
			} else {
				r.Ts = o.BaseMs - int64(tp.Choose(int(o.SpanMs)+1))
			}
		}
		if len(o.BoundaryTimes) > 0 && tp.Side().Bool(1, 6) { // exactly on a segment boundary
			r.Ts = o.BoundaryTimes[tp.Side().Choose(len(o.BoundaryTimes))]
		}
		k := fmt.Sprintf("%s@%d", r.Series, r.Ts)
		if used[k] && !o.Collide {
			// find a free neighbour timestamp
			for used[k] {
				r.Ts++
				k = fmt.Sprintf("%s@%d", r.Series, r.Ts)
			}
		}
		used[k] = true
		m.nextW++
		r.Wid = m.nextW
		if o.Collide {
			r.Version = int64(tp.Range(1, 6))
		} else {
			r.Version = int64(tp.Range(1, 1000))
		}
		sv := m.series[r.Series]
		for _, t := range m.S.Tags {
			switch {
			case t.Entity || t.Indexed:
				r.Tags[t.Name] = sv[t.Name]
			case t.Name == "wid":
				r.Tags[t.Name] = TInt(r.Wid)
			default:
				if o.Plain {
					r.Tags[t.Name] = PlainTag(tp, t.Type)
				} else {
					r.Tags[t.Name] = GenTag(tp, t.Type, o.NullOK)
				}
				if o.NullTagRate > 0 && tp.Bool(1, o.NullTagRate) {
					r.Tags[t.Name] = TNull()
				} else if o.EmptyStrRate > 0 && t.Type == databasev1.TagType_TAG_TYPE_STRING && tp.Bool(1, o.EmptyStrRate) {
					r.Tags[t.Name] = TStr("") // present but empty: not the same as absent
				}
			}
		}
		for _, f := range m.S.Fields {
			if o.NullFieldRate > 0 && tp.Bool(1, o.NullFieldRate) {
				r.Fields[f.Name] = FNull()
				continue
			}
			switch {
			case o.SmallField && f.Type == databasev1.FieldType_FIELD_TYPE_INT:
				v := int64(tp.Range(-100, 100))
				switch tp.Weighted(30, 2, 6, 6) {
				case 1:
					v = []int64{1 << 40, -(1 << 40), 1<<62 - 1, -(1 << 62), math.MaxInt64, math.MinInt64}[tp.Choose(6)]
				case 2: // zeros: partial sums that are exactly zero
					v = 0
				case 3: // cancels the previous row's value
					if len(out) > 0 {
						v = -out[len(out)-1].Fields[f.Name].GetInt().GetValue()
					}
				}
				r.Fields[f.Name] = FInt(v)
			case o.SmallField && f.Type == databasev1.FieldType_FIELD_TYPE_FLOAT:
				v := float64(tp.Range(-2000, 2000)) / 4
				switch tp.Weighted(8, 1, 1) {
				case 1:
					v = 0
				case 2:
					if len(out) > 0 {
						v = -out[len(out)-1].Fields[f.Name].GetFloat().GetValue()
					}
				}
				r.Fields[f.Name] = FFloat(v)
			default:
				r.Fields[f.Name] = GenField(tp, f.Type, o.NullOK)
			}
		}
		out = append(out, r)
	}
	return out
}

// ToRequests converts rows into client write requests (schema order).
func (m *MeasureModel) ToRequests(rows []*MRow, firstMsgID uint64) []*measurev1.WriteRequest {
	var out []*measurev1.WriteRequest
	for i, r := range rows {
		dp := &measurev1.DataPointValue{Timestamp: timestamppb.New(time.UnixMilli(r.Ts)), Version: r.Version}
		for _, fam := range m.S.Families {
			tf := &modelv1.TagFamilyForWrite{}
			for _, t := range m.S.Tags {
				if t.Family == fam {
					tf.Tags = append(tf.Tags, r.Tags[t.Name])
				}
			}
			dp.TagFamilies = append(dp.TagFamilies, tf)
		}
		for _, f := range m.S.Fields {
			dp.Fields = append(dp.Fields, r.Fields[f.Name])
		}
		wr := &measurev1.WriteRequest{DataPoint: dp, MessageId: firstMsgID + uint64(i)}
		if i == 0 {
			wr.Metadata = &commonv1.Metadata{Name: m.S.Name, Group: m.S.Group}
		}
		out = append(out, wr)
	}
	return out
}

// Ack records rows as acknowledged.
func (m *MeasureModel) Ack(rows []*MRow) { m.Rows = append(m.Rows, rows...) }

// Visible returns, per (series, ts), the admissible winners (rows with the maximal version) among rows
// accepted by keep.
func (m *MeasureModel) Visible(keep func(*MRow) bool) map[string][]*MRow {
	out := map[string][]*MRow{}
	for _, r := range m.Rows {
		if keep != nil && !keep(r) {
			continue
		}
		k := fmt.Sprintf("%s@%d", r.Series, r.Ts)
		cur := out[k]
		switch {
		case len(cur) == 0 || r.Version > cur[0].Version:
			out[k] = []*MRow{r}
		case r.Version == cur[0].Version:
			out[k] = append(cur, r)
		}
	}
	return out
}

// Projection is what a query asks back.
type Projection struct {
	Tags   []string
	Fields []string
}

// FullProjection projects everything.
func (s *MeasureSchema) FullProjection() Projection {
	var p Projection
	for _, t := range s.Tags {
		p.Tags = append(p.Tags, t.Name)
	}
	for _, f := range s.Fields {
		p.Fields = append(p.Fields, f.Name)
	}
	return p
}

// GenProjection draws a projection that always contains "wid".
func (s *MeasureSchema) GenProjection(tp *simcore.Tape) Projection {
	if tp.Bool(1, 2) {
		return s.FullProjection()
	}
	p := Projection{}
	for _, t := range s.Tags {
		if t.Name == "wid" || tp.Bool(1, 2) {
			p.Tags = append(p.Tags, t.Name)
		}
	}
	for _, f := range s.Fields {
		if tp.Bool(1, 2) {
			p.Fields = append(p.Fields, f.Name)
		}
	}
	return p
}

// QueryRequest builds the request for a time range [beginMs, endMs) and projection.
func (s *MeasureSchema) QueryRequest(beginMs, endMs int64, p Projection, limit uint32) *measurev1.QueryRequest {
	req := &measurev1.QueryRequest{
		Groups: []string{s.Group}, Name: s.Name,
		TimeRange: &modelv1.TimeRange{Begin: timestamppb.New(time.UnixMilli(beginMs)), End: timestamppb.New(time.UnixMilli(endMs))},
		Limit:     limit,
	}
	tpj := &modelv1.TagProjection{}
	for _, fam := range s.Families {
		f := &modelv1.TagProjection_TagFamily{Name: fam}
		for _, t := range s.Tags {
			if t.Family != fam {
				continue
			}
			for _, want := range p.Tags {
				if want == t.Name {
					f.Tags = append(f.Tags, t.Name)
				}
			}
		}
		if len(f.Tags) > 0 {
			tpj.TagFamilies = append(tpj.TagFamilies, f)
		}
	}
	req.TagProjection = tpj
	if len(p.Fields) > 0 {
		req.FieldProjection = &measurev1.QueryRequest_FieldProjection{Names: p.Fields}
	}
	return req
}

// CanonRow renders a model row under a projection.
func CanonRow(r *MRow, p Projection) string {
	var b strings.Builder
	fmt.Fprintf(&b, "ts=%d", r.Ts)
	for _, t := range p.Tags {
		fmt.Fprintf(&b, " %s=%s", t, CanonTag(r.Tags[t]))
	}
	for _, f := range p.Fields {
		fmt.Fprintf(&b, " %s=%s", f, CanonField(r.Fields[f]))
	}
	return b.String()
}

// CanonDataPoint renders a returned data point under a projection; missing projected tags/fields are
// rendered as "<absent>" (which never equals a written value).
func CanonDataPoint(dp *measurev1.DataPoint, p Projection) string {
	tags := map[string]*modelv1.TagValue{}
	for _, tf := range dp.GetTagFamilies() {
		for _, t := range tf.GetTags() {
			tags[t.GetKey()] = t.GetValue()
		}
	}
	fields := map[string]*modelv1.FieldValue{}
	for _, f := range dp.GetFields() {
		fields[f.GetName()] = f.GetValue()
	}
	var b strings.Builder
	fmt.Fprintf(&b, "ts=%d", dp.GetTimestamp().AsTime().UnixMilli())
	if ns := dp.GetTimestamp().GetNanos() % 1000000; ns != 0 {
		fmt.Fprintf(&b, "+%dns", ns)
	}
	for _, t := range p.Tags {
		if v, ok := tags[t]; ok {
			fmt.Fprintf(&b, " %s=%s", t, CanonTag(v))
		} else {
			fmt.Fprintf(&b, " %s=<absent>", t)
		}
	}
	for _, f := range p.Fields {
		if v, ok := fields[f]; ok {
			fmt.Fprintf(&b, " %s=%s", f, CanonField(v))
		} else {
			fmt.Fprintf(&b, " %s=<absent>", f)
		}
	}
	return b.String()
}

// Wid extracts the write id of a returned data point (-1 if absent).
func Wid(dp *measurev1.DataPoint) int64 {
	for _, tf := range dp.GetTagFamilies() {
		for _, t := range tf.GetTags() {
			if t.GetKey() == "wid" {
				if iv := t.GetValue().GetInt(); iv != nil {
					return iv.GetValue()
				}
			}
		}
	}
	return -1
}

// Mismatch describes the first difference between a response and the model, or "" if they agree.
// Each (series,ts) key must be answered by exactly one row which is one of the admissible winners,
// rendered bit-exactly; nothing else may be returned.
func (m *MeasureModel) Mismatch(dps []*measurev1.DataPoint, p Projection, keep func(*MRow) bool) (class, msg string) {
	vis := m.Visible(keep)
	byWid := map[int64]*MRow{}
	keyOf := map[int64]string{}
	for k, rs := range vis {
		for _, r := range rs {
			byWid[r.Wid] = r
			keyOf[r.Wid] = k
		}
	}
	seenKey := map[string]int64{}
	for _, dp := range dps {
		w := Wid(dp)
		r, ok := byWid[w]
		if !ok {
			var all *MRow
			for _, x := range m.Rows {
				if x.Wid == w {
					all = x
				}
			}
			switch {
			case all == nil:
				return "extra-row", fmt.Sprintf("query returned a row that was never written: %s", CanonDataPoint(dp, p))
			case keep != nil && !keep(all):
				return "row-outside-query", fmt.Sprintf("query returned a row outside its range/criteria: %s", CanonDataPoint(dp, p))
			default:
				return "stale-version", fmt.Sprintf("query returned write #%d (version %d) although a higher version exists for %s@%d", w, all.Version, all.Series, all.Ts)
			}
		}
		k := keyOf[w]
		if prev, dup := seenKey[k]; dup {
			return "duplicate-row", fmt.Sprintf("two rows returned for series %s ts %d (writes #%d and #%d)", r.Series, r.Ts, prev, w)
		}
		seenKey[k] = w
		want, got := CanonRow(r, p), CanonDataPoint(dp, p)
		if want != got {
			for _, cls := range diffKinds(want, got) {
				if m.Tolerate != nil && m.Tolerate("value-differs"+cls) {
					continue
				}
				return "value-differs" + cls, fmt.Sprintf("write #%d returned with different content:\n  written : %s\n  returned: %s", w, want, got)
			}
		}
	}
	if len(seenKey) != len(vis) {
		keys := make([]string, 0, len(vis))
		for k := range vis {
			if _, ok := seenKey[k]; !ok {
				keys = append(keys, k)
			}
		}
		sort.Strings(keys)
		r := vis[keys[0]][0]
		return "missing-row", fmt.Sprintf("%d acknowledged row(s) missing from the answer (%d expected, %d returned); first: %s", len(keys), len(vis), len(dps), CanonRow(r, p))
	}
	return "", ""
}

// diffKinds classifies every differing column by the kinds of the written and the returned value
// (stable class names, no run-specific values).
func diffKinds(want, got string) []string {
	ws, gs := splitCols(want), splitCols(got)
	var out []string
	for i := range ws {
		if i >= len(gs) {
			out = append(out, ":truncated")
			break
		}
		if ws[i] != gs[i] {
			wv := ws[i][strings.Index(ws[i], "=")+1:]
			gv := gs[i][strings.Index(gs[i], "=")+1:]
			out = append(out, ":"+kindOf(wv)+"->"+kindOf(gv))
		}
	}
	if len(out) == 0 {
		out = append(out, ":unknown")
	}
	return out
}

// splitCols splits a canonical row at the " name=" boundaries (values may contain spaces inside quotes).
func splitCols(s string) []string {
	var out []string
	inq := false
	start := 0
	for i := 0; i < len(s); i++ {
		switch {
		case s[i] == '\\' && inq:
			i++
		case s[i] == '"':
			inq = !inq
		case s[i] == ' ' && !inq:
			out = append(out, s[start:i])
			start = i + 1
		}
	}
	return append(out, s[start:])
}

func kindOf(v string) string {
	switch {
	case v == "null":
		return "null"
	case v == "<absent>":
		return "absent"
	case v == `s:""`:
		return "emptystr"
	case v == "b:":
		return "emptybin"
	case v == "S:[]" || v == "I:[]":
		return "emptyarr"
	case strings.HasPrefix(v, "f:8000000000000000"):
		return "negzero"
	case strings.HasPrefix(v, "f:"):
		return "float"
	case len(v) > 1 && v[1] == ':':
		return v[:1]
	}
	return "ts"
}
