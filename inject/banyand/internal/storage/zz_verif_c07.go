//go:build verif

package storage

import "github.com/apache/skywalking-banyandb/banyand/observability"

// VerifC07ForcedCleanupOnce runs one forced-cleanup deletion of the disk monitor (DiskMonitor.deleteOldestSegment: pick
// the group that holds the globally oldest segment, delete that group's oldest segment) over the given service.
// Accessor only: the monitor's periodic loop and the disk-usage probe are not started.
func VerifC07ForcedCleanupOnce(svc RetentionService) bool {
	dm := NewDiskMonitor(svc, RetentionConfig{}, observability.BypassRegistry)
	return dm.deleteOldestSegment(svc.GetServiceName())
}
