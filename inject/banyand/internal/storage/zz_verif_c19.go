//go:build verif

package storage

import "sync/atomic"

// Accessors for property C19 (file snapshot). Read-only, unsynchronised (call at quiescent points: a parked
// actor may hold a segment's mutex); no logic of their own.

// VerifC19Seg is a view of one segment of a TSDB.
type VerifC19Seg struct {
	Suffix        string
	Location      string
	StartMs       int64
	EndMs         int64
	RefCount      int32
	IndexOpen     bool
	MustBeDeleted bool
}

// VerifC19Segments lists the controller's segments with their open/closed state (index != nil).
func VerifC19Segments[T TSTable, O any](db TSDB[T, O]) []VerifC19Seg {
	sc := db.(*database[T, O]).segmentController
	out := make([]VerifC19Seg, 0, len(sc.lst))
	for _, s := range sc.lst {
		out = append(out, VerifC19Seg{
			Suffix:        s.suffix,
			Location:      s.location,
			StartMs:       s.Start.UnixMilli(),
			EndMs:         s.End.UnixMilli(),
			RefCount:      atomic.LoadInt32(&s.refCount),
			IndexOpen:     s.index != nil,
			MustBeDeleted: atomic.LoadUint32(&s.mustBeDeleted) != 0,
		})
	}
	return out
}
