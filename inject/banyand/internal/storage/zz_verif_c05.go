//go:build verif

package storage

// Accessors for property C05 (queries see one consistent snapshot). Read-only, unsynchronised (call at
// quiescent points); no logic of their own.

// VerifC05Table is one open table (segment x shard) of a TSDB.
type VerifC05Table[T TSTable] struct {
	Table    T
	Suffix   string
	Location string
	StartMs  int64
	EndMs    int64
	Shard    int
}

// VerifC05Tables lists the open tables of every segment the controller knows, in segment then shard order.
func VerifC05Tables[T TSTable, O any](db TSDB[T, O]) []VerifC05Table[T] {
	sc := db.(*database[T, O]).segmentController
	var out []VerifC05Table[T]
	for _, s := range sc.lst {
		sLst := s.sLst.Load()
		if sLst == nil {
			continue
		}
		for _, sh := range *sLst {
			out = append(out, VerifC05Table[T]{
				Table: sh.table, Suffix: s.suffix, Location: sh.location, Shard: int(sh.id),
				StartMs: s.Start.UnixMilli(), EndMs: s.End.UnixMilli(),
			})
		}
	}
	return out
}
