//go:build verif

package storage

import (
	"context"
	"reflect"
	"sync/atomic"
)

// Accessors for property C14 (segment life cycle). They only read engine state or call an existing
// unexported function; no logic of their own. The read-only views take NO lock (a parked actor may hold
// s.mu or the controller lock): call them at quiescent points only.

// VerifC14SegState is an unsynchronised read-only view of one segment.
type VerifC14SegState struct {
	RefCount      int32
	Shards        int
	IndexOpen     bool
	MustBeDeleted bool
}

// verifC14Inner returns the *segment behind a Segment value: the value itself, or the first field of a wrapper
// struct that embeds *segment (a fix may hand out such wrappers for results it did not pin).
func verifC14Inner[T TSTable, O any](sg Segment[T, O]) *segment[T, O] {
	if s, ok := sg.(*segment[T, O]); ok {
		return s
	}
	v := reflect.ValueOf(sg)
	for v.Kind() == reflect.Ptr && !v.IsNil() && v.Elem().Kind() == reflect.Struct {
		v = v.Elem()
	}
	if v.Kind() == reflect.Struct && v.NumField() > 0 {
		if f := v.Field(0); f.Type() == reflect.TypeOf((*segment[T, O])(nil)) {
			return (*segment[T, O])(f.UnsafePointer())
		}
	}
	panic("verif: unknown Segment implementation " + v.Type().String())
}

// VerifC14Canon returns the segment object itself for any Segment value that stands for it.
func VerifC14Canon[T TSTable, O any](sg Segment[T, O]) Segment[T, O] {
	return verifC14Inner[T, O](sg)
}

// VerifC14State reads refCount, index!=nil, mustBeDeleted and the shard count of a segment.
func VerifC14State[T TSTable, O any](sg Segment[T, O]) VerifC14SegState {
	s := verifC14Inner[T, O](sg)
	st := VerifC14SegState{
		RefCount:      atomic.LoadInt32(&s.refCount),
		IndexOpen:     s.index != nil,
		MustBeDeleted: atomic.LoadUint32(&s.mustBeDeleted) != 0,
	}
	if l := s.sLst.Load(); l != nil {
		st.Shards = len(*l)
	}
	return st
}

// VerifC14Segments returns the controller's current segment list (unsynchronised copy).
func VerifC14Segments[T TSTable, O any](db TSDB[T, O]) []Segment[T, O] {
	sc := db.(*database[T, O]).segmentController
	out := make([]Segment[T, O], 0, len(sc.lst))
	for _, s := range sc.lst {
		out = append(out, s)
	}
	return out
}

// VerifC14CloseIdle runs one idle-reclaim pass (what the rotation goroutine does on its 10-minute ticker).
func VerifC14CloseIdle[T TSTable, O any](db TSDB[T, O]) int {
	return db.(*database[T, O]).segmentController.closeIdleSegments()
}

// VerifC14Retention runs the retention task once at the controller clock's now (what the cron job and the
// rotation goroutine do), including the retention gate shared with DeleteOldestSegment.
func VerifC14Retention[T TSTable, O any](db TSDB[T, O]) {
	d := db.(*database[T, O])
	if d.disableRetention {
		return
	}
	rt := newRetentionTask(d, d.segmentController.getOptions().TTL)
	rt.run(context.Background(), d.segmentController.clock.Now(), d.logger)
}

// VerifC14Collect runs the metrics collection callback registered with the metrics collector.
func VerifC14Collect[T TSTable, O any](db TSDB[T, O]) {
	db.(*database[T, O]).collect()
}

// VerifC14Closed reports whether Close has been called on the database.
func VerifC14Closed[T TSTable, O any](db TSDB[T, O]) bool {
	return db.(*database[T, O]).closed.Load()
}

// VerifC14ControllerClose runs the controller's close() once more (end-of-run cleanup of segments that a
// create racing with Close appended after the shutdown pass; the bubble cannot end with open indexes).
func VerifC14ControllerClose[T TSTable, O any](db TSDB[T, O]) {
	db.(*database[T, O]).segmentController.close()
}

// VerifC14Cleanup closes the resources of one segment (after a recorded violation only: lets the bubble end).
func VerifC14Cleanup[T TSTable, O any](sg Segment[T, O]) {
	s := verifC14Inner[T, O](sg)
	s.mu.Lock()
	defer s.mu.Unlock()
	s.closeResourcesLocked()
}
