//go:build verif

package sidx

import "sync/atomic"

// VerifC05Part is one member of the current snapshot (read-only view for the C05 check).
type VerifC05Part struct {
	ID        uint64
	Ref       int32
	Mem       bool
	Removable bool
}

// VerifC05View returns the current snapshot's reference count and members without pinning it.
func VerifC05View(x SIDX) (ref int32, parts []VerifC05Part, ok bool) {
	s, isS := x.(*sidx)
	if !isS {
		return 0, nil, false
	}
	s.mu.RLock()
	defer s.mu.RUnlock()
	if s.snapshot == nil {
		return 0, nil, false
	}
	for _, pw := range s.snapshot.parts {
		parts = append(parts, VerifC05Part{ID: pw.ID(), Ref: atomic.LoadInt32(&pw.ref), Mem: pw.isMemPart(), Removable: pw.removable.Load()})
	}
	return atomic.LoadInt32(&s.snapshot.ref), parts, true
}
