"""Check configuration for C19 (loaded by bin/props.py)."""
from props_common import STD_ASSUME

CFG = {
    "pkg": "banyand/internal/verif/props/c19",
    "level": "exploration",
    "fs_shim": True,
    "gates": [
        {"files": ["banyand/measure/snapshot.go", "banyand/measure/introducer.go", "banyand/measure/flusher.go", "banyand/measure/merger.go", "banyand/measure/tstable.go",
                   "banyand/stream/snapshot.go", "banyand/stream/introducer.go", "banyand/stream/flusher.go", "banyand/stream/merger.go", "banyand/stream/tstable.go",
                   "banyand/trace/snapshot.go", "banyand/trace/introducer.go", "banyand/trace/flusher.go", "banyand/trace/merger.go", "banyand/trace/tstable.go",
                   "pkg/run/goroutine.go", "pkg/timestamp/scheduler.go"], "mode": "A"},
        # cooperative locks in the segment life cycle: the idle reclaimer holds segment.mu while it waits for a shard's loops to exit (tsTable.Close); with plain
        # locks a loop parked at a gate plus a snapshot request blocked on that mutex is a hang of the harness (seen on the first runs)
        {"files": ["banyand/internal/storage/segment.go", "banyand/internal/storage/tsdb.go", "banyand/internal/storage/rotation.go"], "mode": "B"},
    ],
    "level_text": ("schedule exploration on a real standalone node (measure, stream or trace engine, liaison front-end, query path) in a fake-clock bubble on a journaling disk shim: a tape-chosen history of acknowledged "
                   "batches and clock advances (flushes, merges, day rotation, idle-closing of older segments after 1 h) is followed by a race phase in which the production snapshot request "
                   "(data.TopicSnapshot published on the node's local pipeline, exactly what the liaison Snapshot RPC does) runs in its own goroutine while writers, flusher, merger, introducer, "
                   "rotation and idle-close goroutines are parked at armed gates (tools/gaterw, mode A) and released one at a time by the tape, with clock advances in between; afterwards more batches "
                   "are written and flushed, then the snapshot directory is examined, turned into a data directory (either by the real backup upload + restore download against the file:// store "
                   "or by the same file-by-file copy) and a NEW node is booted on it and queried for everything"),
    "level_note": ("measure/stream/trace table files: gates outside critical sections (mode A), interleavings inside the tsTable mutex are not explored; storage segment.go/tsdb.go/rotation.go: cooperative locks (mode B), a holder of segment.mu or the controller lock may park; bluge (series index) and pkg/fs run atomically between gates. "
                   "Retention deletes nothing in these runs (TTL 30 d; the cron job and the rotation task do run). Value fidelity of restored rows is C01's subject: rows are attributed by their unique write id and timestamp. "
                   "Disk errors are injected only into link/mkdir calls below the snapshots directory. The snapshot listener holds its snapshotMux for the whole request; the harness drops that mutex from "
                   "gaterw's held-lock count at the request's first disk operation (one request per run), otherwise no gate below it would park. Engine loops never park in front of their select (Go picks at "
                   "random among ready cases) and actor names are ordered number-aware because spawn ordinals shift with the number of schema-watcher workers (= GOMAXPROCS). "
                   "Scenario trace-snapshot: a row is a span (unique write id tag), a unit is the spans of one batch per (day, trace id); everything is read back by trace_id IN (all ids); tag values other than the "
                   "identity tags are not compared (C01's subject; C19_TRACE_TAGS=1 compares them). The trace engine has no min-merge-multiplier switch: instead 2 of 5 runs send equally sized batches of 'now' traffic "
                   "for two long-running traces (parts of one table of similar size, which the merge policy merges) and 1 of 5 equally sized batches anywhere. Gates of banyand/trace (mode A) sit between the pin of a "
                   "table's parts and each hard link (snapshot.go:TakeFileSnapshot#2/#3); in half of the runs (side tape) the request, once chosen, runs on until it is parked there. The trace merger's lane workers "
                   "(count = GOMAXPROCS/2 per table) and its dispatcher are chained by channels and timers: about 1 in 50 trace runs differed between GOMAXPROCS 1 and 4 in the self-test (a merge parked in "
                   "mergeBlocks at one setting and not yet dispatched at the other); the package's global semaphores are fixed at 4 slots"),
    "budget": {"quick": 60, "thorough": 1200},
    "det_n": {"quick": 24, "thorough": 64},
    "rule": ("each seed draws engine (measure 3 : stream 2 : trace 2), schema (1-2 shards), flush timeout 1/3/10 s, merge fan-in 2-6, eager merging (1 in 2), 2-9 history operations (batch of 1-60 rows spanning 1 s..2 days / "
             "advance 0.5 s..26 h), an optional idle period of 75-200 min (older segments idle-close), 0-2 late batches; then the race: gates on in 4 of 5 runs (the request and the concurrent writers park at every "
             "site they reach; engine goroutines park only in the middle of a flush/merge and/or of an idle-close/reopen/retention pass, per run), run-until-yield bursts of 1/4/13/51 gates, step limit 40/150/400/1000, "
             "0-2 concurrent writers, 0-3 clock advances of 0.5 s..11 min (favoured while the request is in progress), optionally one injected EIO on the k-th link or mkdir below the snapshots directory; afterwards "
             "the request and the writers finish gate by gate in a fixed fair order, 0-2 more batches are written and flushed, and the copy is restored by the backup tool or by file copy. Non-trivial = a snapshot was "
             "reported successful, restored and compared, or an injected fault fired; distinct = canonical event-log digests"),
    "expected_probes": ["fault.stale_manifest_tmp_in_shard_root", "reach.snapshot_ok", "reach.restored_and_compared", "reach.restored_nonempty", "reach.snapshot_raced_writer", "reach.snapshot_raced_maintenance",
                        "reach.closed_segment_in_snapshot", "reach.closed_segments_stayed_closed", "reach.restore_via_backup_tool", "reach.restore_via_copy",
                        "reach.post_snapshot_batches_excluded", "reach.snapshot_older_than_acknowledged_state", "reach.flush_during_snapshot_request",
                        "reach.advance_while_request_links_a_table", "reach.merge_during_snapshot_request", "fault.link_eio", "fault.mkdir_eio", "reach.failed_snapshot_reported"],
    "real_vs_stub": {
        "real": ["measure/stream/trace snapshotListener.Rev (trace: standaloneSnapshotListener), takeGroupSnapshot, storage database.TakeFileSnapshot, segment.snapshotInto/snapshotOpen/snapshotClosed, tsTable.TakeFileSnapshot/createMetadata (trace: incl. sidx TakeFileSnapshot of the ordered indexes), pkg/fs CreateHardLink, bluge Backup of the series index",
                 "write path, introducer, flusher, merger (trace: dispatcher + lane workers), gc, rotation, idle reclaimer (all live during the snapshot)", "banyand/backup backupSnapshot + restoreByName with pkg/fs/remote/local",
                 "start-up of a node on the restored directory, query path"],
        "stub": ["syscalls below pkg/fs: real files on tmpfs + journal + error injection (simos)", "metadata registry (simmeta)", "gRPC transport (the Snapshot RPC's one-line body is replicated: Publish on the local pipeline)", "clock (testing/synctest)"],
    },
    "assumptions": STD_ASSUME + [
        "'flushed before the call' means acknowledged at least two flush periods before the quiescent point at which the race phase starts",
        "a batch whose write was invoked but not yet acknowledged when the snapshot returned may be contained (whole) in the snapshot",
        "order between two batches of one table is demanded only when the first was acknowledged before the second was invoked",
        "a shard directory without any part and without manifest (only memory parts at snapshot time) is accepted as an empty shard",
    ],
}
