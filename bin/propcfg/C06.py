"""Check configuration for C06 (loaded by bin/props.py)."""
from props_common import STD_ASSUME

CFG = {
    "pkg": "banyand/internal/verif/props/c06",
    "level": "exploration",
    "level_text": ("seeded exploration of segment life-cycle histories on the real storage.OpenTSDB (segment controller, rotation task, on-disk segment metadata, reopen) in a fake-clock bubble, "
                   "under a tape-chosen time zone and interval rule, against an interval-set oracle: ranges ordered and disjoint, every accepted timestamp in exactly one segment and in the segment "
                   "handed out for it, boundaries unchanged by interval updates and reopen cycles"),
    "level_note": "trusted: the interval-set oracle; a trivial table type stands for the engines' tables; the clock is the bubble clock and time.Local is set per run",
    "budget": {"quick": 40, "thorough": 900},
    "rule": ("each seed draws a zone (UTC, New_York, Berlin, Lord_Howe with its 30-minute DST, Kolkata, Sao_Paulo), an interval rule (HOUR|DAY x 1,2,3,6,7,12,24), a focus date (ordinary or a DST-change day) "
             "and 3-20 operations: create-on-demand for a timestamp (anywhere within 3 days, exactly on / 1 ms around local hour and midnight boundaries, the small hours of the focus day, far away), "
             "tick (rotation pre-creates), clock advance, UpdateOptions with a new multiple, close+reopen possibly under a new multiple (existing segments become off-grid legacy ones). "
             "Non-trivial = at least one timestamp accepted; distinct = canonical event-log digests"),
    "expected_probes": ["reach.tick", "reach.interval_changed", "reach.reopen", "reach.segments_checked"],
    "real_vs_stub": {
        "real": ["banyand/internal/storage: OpenTSDB, segmentController (create/open/load/select), rotation task, IntervalRule grid arithmetic, segment metadata files, series index open/close"],
        "stub": ["table type (trivial)", "clock (testing/synctest)", "time zone (time.Local assigned per run)"],
    },
    "assumptions": STD_ASSUME + ["the unit (HOUR/DAY) of a database does not change over its life, only the multiple does"],
}
