"""Check configuration for C14 (loaded by bin/props.py)."""
from props_common import STD_ASSUME

CFG = {
    "pkg": "banyand/internal/verif/props/c14",
    "level": "exploration",
    "level_text": ("schedule exploration of the real segment life cycle (storage.OpenTSDB: segment.incRef/acquire/DecRef/closeIfIdle/performDelete/delete, segmentController select/segments/remove/removeOldest/"
                   "closeIdleSegments/close, tsdb.go SelectSegments/TakeFileSnapshot/collect/Close, the rotation goroutine and the cron retention task) with the storage package's lock-taking files rewritten "
                   "to cooperative locks (mode B), so that 2-4 named actor goroutines are interleaved at every atomic load/CAS/store, lock acquisition and directory operation, also inside critical sections; "
                   "oracle = holder-count reference model checked after every driver step (held => index open, tables open, directory on disk, refCount >= holders; flagged => removed exactly when the last "
                   "holder is gone and never reopened; at the end all counts 0, idle reclaim closes everything, closed segments reopen with their data, retention removes everything expired). "
                   "Scenario 'enumerate' additionally enumerates schedules of <=3 actors x <=3 operations with ALL gates armed: every schedule is re-run from the start with a forced list of choices "
                   "('which parked goroutine next'), remaining choices = first of the parked list (rotated so that the goroutine that ran last continues until it yields at a harness gate, then round-robin), "
                   "explored breadth-first by the number of deviations from that default schedule"),
    "level_note": ("scenario node-balance checks 'never leaks' on a real measure or stream node: writes in the last hour of a day (rotation pre-creates the next, shard-less segment), ordered/unordered queries with ranges reaching beyond now, then ttl+4 quiet days with a retention run each, after which every segment directory lying more than a day before now-TTL must be gone (a leaked reference defers deletion forever); trusted: the holder-count model, the gate inserter (tools/gaterw) and simcore's cooperative locks; 'enumerate' is exhaustive only at gate granularity (not machine instructions), only for the "
                   "actor programs sampled by the seed, and only up to the per-seed budget of 300 schedules: all schedules with 0 and 1 deviations from the default schedule are covered (probe "
                   "reach.enum_level1_complete), those with 2 deviations only for small programs (reach.enum_level2_complete), deeper levels are cut by the budget (reach.enum_budget_exhausted; "
                   "reach.enum_all_schedules_complete counts the seeds whose whole schedule tree fitted); in 'enumerate' the reopen+retention epilogue runs for every 4th schedule only; "
                   "after 100 (140) fine-grained driver steps only harness gates and lock waits still park; bluge and the file system run atomically between gates. "
                   "The in-use:holder-reference-stolen:* family found by this check is fixed in /repo (known-findings.txt); half of the seeds ('pinned_only') still avoid peek selects and retention passes so that the rest of the oracle is judged without them"),
    "budget": {"quick": 60, "thorough": 900},
    "rule": ("'schedules': each seed draws 1-4 day segments (open-dormant, idle-eligible or idle-closed; some already past the TTL), idle timeout, TTL (1-3 days), a ~50% subset of armed gate sites (35/50/65/100%), "
             "optionally one of two focused mixes (retention pass against a multi-segment query; release + forced delete + re-create of the oldest day) and for each of 2-4 actors "
             "a program of 1-4 operations from {SelectSegments(range, reopen) hold DecRef, SelectSegments(range, peek) hold DecRef, CreateSegmentIfNotExist hold DecRef, idle-reclaim pass, retention run, "
             "DeleteOldestSegment, TakeFileSnapshot, metrics collect, Tick, clock advance (10-minute ticker / idle timeout / next 00:05 cron), Close}; the tape then picks which parked goroutine proceeds at "
             "every quiescent point (<=100 steps). 'enumerate': 2-3 actors x 1-3 operations, all gates armed, up to 300 schedules per seed. Non-trivial = at least two actors were inside the engine at the "
             "same time on the same database; distinct = canonical event-log digests"),
    "expected_probes": ["reach.clock_in_rotation_window", "reach.query_reaches_beyond_now", "reach.all_expired_segments_removed", "reach.cas_fast_path", "reach.slow_path_acquire", "reach.acquire_found_holder_after_lock", "reach.reopen_closed_segment", "reach.acquire_refused_closed",
                        "reach.idle_close_raced_acquire", "reach.deferred_delete_at_last_decref", "reach.peek_path_unpinned", "reach.peek_filtered_expired_segment", "reach.idle_close_closed_segment",
                        "reach.retention_deleted_segment", "reach.forced_delete", "reach.lock_wait_parked", "reach.schedules_enumerated", "reach.enum_level1_complete",
                        "reach.final_idle_close_checked", "reach.final_retention_checked", "reach.close_checked"],
    "gates": [
        {"files": ["banyand/internal/storage/segment.go", "banyand/internal/storage/tsdb.go", "banyand/internal/storage/rotation.go"], "mode": "B"},
        # only so that the rotation goroutine, the cron task and its action goroutine get deterministic actor names and cooperative locks
        {"files": ["pkg/run/goroutine.go", "pkg/timestamp/scheduler.go"], "mode": "B"},
    ],
    "real_vs_stub": {
        "real": ["banyand/internal/storage: OpenTSDB, segment + segmentController reference counting, idle reclaim, deferred delete, retention task + retention gate, forced cleanup, file snapshot, "
                 "metrics collect, Close, rotation goroutine; pkg/timestamp scheduler (cron); bluge series index open/close on real files"],
        "stub": ["table type (records open/close, keeps one marker file)", "clock (testing/synctest)", "metrics factory (observability bypass registry)"],
    },
    "assumptions": STD_ASSUME + [
        "Close() releases every segment regardless of holders by design (callers stop their users first): from the moment Close is called the 'held => open' obligations are void; only crashes, "
        "directories of unflagged segments and never-recreated directories are still checked",
        "an operation that Close overtakes may fail or panic (e.g. TakeFileSnapshot dereferences the index Close has just released); counted by reach.op_panicked_during_close, not judged",
        "the accessor views (refCount, index open, mustBeDeleted) are read without locks at quiescent points",
        "debugging aid: VERIF_C14_TOLERATE=<class prefix>,... abandons schedules that hit these classes instead of reporting them (used for sensitivity drills; never set by bin/check)",
    ],
}
