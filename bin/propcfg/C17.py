"""Check configuration for C17 (loaded by bin/props.py)."""
from props_common import STD_ASSUME

CFG = {
    "pkg": "banyand/internal/verif/props/c17",
    "level": "exploration",
    "level_text": ("seeded exploration of part-transfer sessions: the real pub chunk sender talks to the real sub.SyncPart receiver state machine over an in-memory "
                   "stream on which each request/response can be bit-flipped, truncated, dropped, duplicated, reordered or the stream cut; oracle: an install is byte-identical "
                   "to the sender's part or does not happen, a sender told 'success' implies exactly one install, a fault-free retry installs exactly once"),
    "level_note": "scenario cluster-trace: the same span batches go to a cluster (liaison with the real trace write queue, in-memory merge and syncer, 1-3 data nodes) and to a standalone trace node; span times straddle midnights inside one write batch, batches arrive back to back and with clock steps; after the queue drained every trace is queried by id over the whole range and over ranges inside ONE day segment (cluster = standalone, spans stamped inside the range all returned once); scenario cluster-stream is the stream counterpart of cluster-measure (liaison write queue, part sync to 1-3 data nodes, distributed query; element timestamps also exactly on day-segment boundaries); trusted: the recording part handler stands for the engines' handlers (install = FinishSync, discard = Close); gRPC transport itself is replaced by the in-memory stream pair",
    "budget": {"quick": 40, "thorough": 900},
    "rule": ("each seed draws chunk size (1 byte .. > part), 1-3 parts with 1-3 part types and 1-5 files of boundary sizes (0,1,chunk-1,chunk,chunk+1,2*chunk..), receiver ordering knobs, "
             "and 0-2 wire faults at tape-chosen message positions; lockstep scenario = real sender+receiver, pipelined scenario = recorded real request sequence replayed with "
             "reorder/dup/drop/flip/early end. Non-trivial = at least one fault fired; distinct = distinct canonical event-log digests"),
    "expected_probes": ["fault.short_reads_of_part_files", "fault.req.flip-data", "fault.req.dup", "fault.req.drop", "fault.req.cut", "fault.resp.drop", "fault.reorder_delay", "fault.early_stream_end",
                        "reach.session_failed_cleanly", "reach.faulted_session_still_succeeded",
                        "reach.several_data_nodes", "reach.batch_straddles_segment_boundary", "reach.narrow_query_in_newer_segment_compared", "reach.cluster_trace_answers_compared"],
    "real_vs_stub": {
        "real": ["banyand/queue/pub chunkedSyncClient (SyncStreamingParts, chunking, retries)", "banyand/queue/sub server.SyncPart (sessions, reorder buffer, checksum, completion)"],
        "stub": ["gRPC/HTTP2 transport (in-memory stream pair through a hook in the generated client constructor)", "engine part handlers (recording handler)", "clock (synctest)"],
    },
    "assumptions": STD_ASSUME + ["a silently dropped message is modelled as loss followed by the 30 s (simulated) session deadline"],
}
