"""Check configuration for C01 (loaded by bin/props.py)."""
from props_common import STD_ASSUME, KNOBS_ENGINES, KNOBS_ASSUME

CFG = {
    "knobs": KNOBS_ENGINES,
    "pkg": "banyand/internal/verif/props/c01",
    "level": "exploration",
    "level_text": ("seeded exploration of write/clock/query histories on a real standalone node (liaison front-end services + engines + query processors) inside a fake-clock bubble, "
                   "against a row-store reference model: every covering query must return exactly the acknowledged rows, bit-exact, nothing extra"),
    "level_note": "trusted: the in-memory metadata registry stub, the row model and the canonical value rendering; gRPC transport is bypassed (services are called with in-memory streams)",
    "budget": {"quick": 60, "thorough": 1200},
    "rule": ("each seed draws a schema (1-3 entity tags, 0-4 further tags of every storable tag type, 0-3 fields of every field type, 1-3 shards, optional inverted index rules), "
             "a flush timeout and merge fan-in, then 2-14 operations: write a batch (1..400 rows, rarely 9000 to cross the block row limit; boundary-biased values; hot series with regular "
             "timestamps or scattered series/timestamps over up to 3 days of segments), advance the clock (1s..3min: flushes and merges happen), or query (full range or a sub-range with "
             "edges on written timestamps, random projection) and compare with the model. Non-trivial = at least one row acknowledged; distinct = distinct canonical event-log digests"),
    "expected_probes": ["reach.clock_advanced_past_flush", "reach.subrange_query", "reach.batch_over_block_row_limit"],
    "real_vs_stub": {
        "real": ["banyand/liaison/grpc measure/stream/trace Write+Query services", "banyand/measure (write callback, tsTable, parts, flusher, merger, query)", "banyand/internal/storage (segments, series index)", "banyand/query processors", "pkg/query/logical + executors", "pkg/index/inverted (bluge)", "pkg/fs on tmpfs"],
        "stub": ["metadata registry (simmeta)", "gRPC transport (in-memory server streams)", "clock (testing/synctest)", "observability (bypass registry), protector (Nop)"],
    },
    "assumptions": STD_ASSUME + [KNOBS_ASSUME, "fault-free configuration: no crashes or I/O errors are injected for this property (those belong to C04); schedule variety comes from the fake clock only"],
}
