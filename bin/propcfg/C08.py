"""Check configuration for C08 (loaded by bin/props.py)."""
from props_common import STD_ASSUME, KNOBS_ENGINES, KNOBS_ASSUME

CFG = {
    "knobs": KNOBS_ENGINES,
    "pkg": "banyand/internal/verif/props/c08",
    "level": "exploration",
    "level_text": ("differential + model check on simulated states: the same generated write/clock history is executed on twin real standalone nodes that differ only in index-rule configuration "
                   "(per tag inverted / skipping / none as generated vs. no rule at all); generated criteria trees whose constants sit on written values (+-1) are answered by both and compared with a "
                   "brute-force predicate over the model rows and with each other. The simulator's contribution is the state: part layouts, block boundaries and pruning structures come from real flushes and merges driven by the fake clock"),
    "level_note": "trusted: the brute-force evaluator (EQ NE LT GT LE GE IN NOT_IN HAVING NOT_HAVING, AND/OR) and the generator's rule that criteria tags are never null/empty (where operator meaning is unambiguous); MATCH is never generated",
    "budget": {"quick": 60, "thorough": 1200},
    "rule": ("each seed draws a schema, a history of 2-9 steps (batches of up to 200 rows with small-domain tag values / clock advances 1s-2min), 3-10 queries (criteria depth 0-3, optional time bounds on written timestamps); "
             "both twins replay the history and answer every query. Non-trivial = both twins answered everything; distinct = canonical event-log digests"),
    "expected_probes": ["reach.selective_predicate"],
    "real_vs_stub": {
        "real": ["banyand/stream + banyand/measure engines (element index, skipping index, tag filters, block/part pruning)", "pkg/query/logical (criteria -> index filters / tag filters)", "pkg/index/inverted (bluge)", "liaison front-end, banyand/query"],
        "stub": ["metadata registry (simmeta)", "gRPC transport", "clock (testing/synctest)"],
    },
    "assumptions": STD_ASSUME + [KNOBS_ASSUME],
}
