"""Check configuration for C05 (loaded by bin/props.py)."""
from props_common import STD_ASSUME

CFG = {
    "pkg": "banyand/internal/verif/props/c05",
    "level": "exploration",
    "fs_shim": True,
    "gates": [
        {"files": ["banyand/measure/tstable.go", "banyand/measure/introducer.go", "banyand/measure/flusher.go", "banyand/measure/merger.go",
                   "banyand/measure/gc.go", "banyand/measure/part.go", "banyand/measure/query.go", "banyand/measure/query_batch.go",
                   "banyand/stream/tstable.go", "banyand/stream/introducer.go", "banyand/stream/flusher.go", "banyand/stream/merger.go",
                   "banyand/stream/gc.go", "banyand/stream/part.go", "banyand/stream/query.go", "banyand/stream/block_scanner.go", "banyand/stream/query_by_ts.go",
                   "banyand/stream/query_by_idx.go", "banyand/stream/query_vectorized.go",
                   "pkg/run/goroutine.go", "pkg/timestamp/scheduler.go"], "mode": "A"},
        # the snapshot pin itself: also a preemption point right after every explicit unlock (a pointer read under the lock and used after it)
        {"files": ["banyand/measure/snapshot.go", "banyand/stream/snapshot.go"], "mode": "A", "after_unlock": True},
        # scenario sidx-concurrent: the ordered secondary index. Its snapshot pin (sidx.currentSnapshot) releases the lock in a deferred
        # unlock inside the callee, so the preemption point "pointer read under the lock, used after it" belongs right after the CALL
        # (after_call), in the query paths (between the pin and the part selection) and in every publication (between reading the
        # current snapshot, Snapshot.remove() marking the inputs removable, and replaceSnapshot)
        {"files": ["banyand/internal/sidx/sidx.go", "banyand/internal/sidx/introducer.go", "banyand/internal/sidx/query.go", "banyand/internal/sidx/merge.go",
                   "banyand/internal/sidx/snapshot.go", "banyand/internal/sidx/part_wrapper.go", "banyand/internal/sidx/block_scanner.go"],
         "mode": "A", "after_unlock": True, "after_call": ["currentSnapshot", "remove"]},
        # cooperative locks in the segment life cycle (as in C19): a query or writer contending for a segment lock parks instead of blocking inside the runtime
        {"files": ["banyand/internal/storage/segment.go", "banyand/internal/storage/tsdb.go", "banyand/internal/storage/rotation.go"], "mode": "B"},
    ],
    "level_text": ("schedule exploration on a real standalone node (measure or stream engine, liaison front-end, query processor, row-at-a-time and vectorized query path) in a fake-clock bubble on a journaling "
                   "disk shim: 1-5 writer actors (acknowledged batches of 1-12 rows with unique (series, timestamp), spanning 1-3 day segments, 1-2 shards), 2-6 query actors (full-range, 1 in 4 a sub-range) and the "
                   "engine's own introducer / flusher / merger loops and part-removal goroutines run as named actors parked at gates (tools/gaterw, mode A) in front of every send to a table's introducer, between that "
                   "send and the wait for 'applied', before a merge writes its output, before the introducer publishes a snapshot (replaceSnapshot), before a query pins a table's snapshot (currentSnapshot), "
                   "between its last pin and its first block read, before each snapshot release and before a part directory is removed; the tape picks which parked actor proceeds at every quiescent point, "
                   "interleaved with clock advances (flush timeout 1/2/5 s, so the real flusher and merger run). Oracles after every driver step: (1) no query error, no panic (query goroutine, recovered engine-loop "
                   "panics via panicdiag's reporter; an unrecovered one kills the worker = crash class); (2) per table the batches a query returns are whole, contain every batch acknowledged before the query was "
                   "invoked and form a prefix of the table's batch order (interval check on driver sequence numbers of invoke / acknowledge / return); (3) no write id twice, and at every quiescent point the row "
                   "counts of the parts of each segment's current snapshots lie between 'rows acknowledged' and 'rows ever written' (a merged part together with its inputs, or neither, shows up here even where the "
                   "measure query path de-duplicates); (4) from the disk journal: every part directory is removed at most once, never while it is a member of the table's current snapshot, and never between the "
                   "moment a full-range query pinned a snapshot containing it (attributed through the snapshot's reference count before/after the query passed currentSnapshot) and the moment the driver lets that "
                   "query into the matching snapshot release; (5) after all queries returned and maintenance came to rest: the final full-range answer equals the acknowledged rows, the part directories on disk are "
                   "exactly the parts of the final snapshots, and every snapshot / part reference count is back at 1. "
                   "Scenario sidx-concurrent (weight 1 of 6): the ordered secondary index (banyand/internal/sidx) on its own, driven through the public step API the trace introducer uses: one maintenance actor at a "
                   "time publishes memory parts (batches of 1-40 entries with unique payloads, 1-3 series, key range 4/40/100000), flushes of tape-chosen memory parts, merges of ARBITRARY subsets (>= 2) of the file "
                   "parts and part synchronisations (removal of tape-chosen file parts), 3 in 4 as ConvertToMemPart/Flush/Merge -> snapshot.NewTransition(sidx, sidx.Prepare*) -> Commit -> Release with a hand-written gate "
                   "between the steps (output built / prepared = inputs already marked removable by Snapshot.remove() / committed), 1 in 4 through the one-shot Introduce* calls; 1-3 query actors (QuerySync or "
                   "StreamingQuery, series subset, 1 in 3 a key sub-range, asc/desc, complete answers) park at gaterw gates in front of the snapshot pin, between the pin and the part selection (gate after the "
                   "currentSnapshot() call), between the part selection and the first block read, and in front of the snapshot release; per-run knobs also park the maintenance actor at the index's own gates (after "
                   "reading the current snapshot, per kept part inside Snapshot.remove(), after remove(), in front of replaceSnapshot / ReplaceSnapshot, in front of snapshot releases) and the goroutines that remove "
                   "part directories; the tape picks who continues at every quiescent point. Oracle per returned query against a reference list of written entries: nothing never written or outside the request, no "
                   "entry twice, every entry acknowledged (written and introduced) before the invocation and not removed by a synchronisation begun before the return is there, the answer equals ONE content state "
                   "(entry set after a write or sync publication) published between invocation and return, and the parts it came from (QueryResponse.PartIDs) never include a merged part together with one of its "
                   "(transitive) inputs; no error, no panic (recovered ones via panicdiag). End state: both interfaces return exactly the final content state, the current snapshot holds exactly the parts of the "
                   "driver's part model (memory / file) with all reference counts at 1 and nothing marked removable, and the part directories on disk are exactly its file parts"),
    "level_note": ("gates outside critical sections (mode A): interleavings inside tsTable's mutex are not explored; bluge (series index) and pkg/fs run atomically between gates. To keep runs a function of the tape the driver never "
                   "lets an engine loop find two ready select cases (Go picks at random): nobody is released into a send to an introducer, or past the wait for 'applied', while an introducer is parked in the middle of a "
                   "publication, and a merger is not released into re-registering with its flusher while that flusher is parked in mid-cycle; the scripted history, the step-limit drain and the race itself all run under "
                   "these rules, so schedules in which two senders pile up at one introducer are not explored. The package-level merge semaphore (made at init outside the bubble, sized by the CPU count) is re-created "
                   "inside the bubble with 8/1/2 slots. Pin tracking (oracle 4) covers full-range queries only; sub-range queries are judged by oracles 1-3. 'Stop the node while a query is parked' is NOT part of the check "
                   "(exploration aid C05_STOP=1): simnode.Stop closes the engines without draining in-flight requests, which a real node's gRPC server does first; under it a released stream query was seen to return "
                   "'segment closed', a recovered panic ('invalid query message'), or a successful answer lacking the rows of a segment closed underneath it, depending on the Go scheduler. The ordered index itself is covered by scenario sidx-concurrent (single maintenance actor, as the trace introducer serialises all transitions of a table; its "
                   "queries dedup by payload, so 'merged part and inputs both visible' is judged from the part ids of the answer, not from duplicates; interleavings inside sidx.mu and inside the block readers are not "
                   "explored). The cross-structure clause of trace ordered queries (an index entry whose spans are not visible in the core snapshot pinned by the same query) is not covered by this check"),
    "budget": {"quick": 60, "thorough": 1200},
    "det_n": {"quick": 64, "thorough": 128},
    "rule": ("each seed draws engine (measure 3 : stream 2), schema, shards (1 in 2 of 3 runs, else 1-2), query path (row / vectorized with batch size 1024/1/7/64), flush timeout 1/2/5 s, merge fan-in 2/2/3/4, eager merging "
             "(3 in 4), merge semaphore 8/1/2, five arming knobs (query parks before its first block read 3/4, introducer parks before publishing 1/2, merge parks before writing 1/2, part removal parks 1/2, writer "
             "parks before taking its part id 1/3); a scripted history of 0-4 batches with optional advances of two flush periods (first eligible actor released at every step); then up to 50/80/110 race steps in "
             "which the tape chooses among: release one parked actor (run-until-yield bursts of 0/2/5 gates for engine actors), start a query (favoured while a flush or merge output is written but not yet "
             "introduced; at most 3 in flight; hold budget 0/4/10/25 steps during which maintenance and clock advances are favoured over the held query), start a writer (at most 2 in flight), advance the clock "
             "by one flush period / two periods + 1 s / 300 ms (1-6 times); after the step limit the actors in flight finish gate by gate in canonical order. Non-trivial = at least one query was in flight while a "
             "flush or merge was introduced; distinct = canonical event-log digests. Scenario sidx-concurrent (1 seed in 6): draws key range 4/40/100000, 1-3 series, five arming knobs (maintenance parks at the "
             "index's own gates 1/2, queries park before their first block read 3/4, before their snapshot release 1/2, part removals park 1/2, maintenance parks per kept part inside Snapshot.remove() 1/3), at most "
             "1-3 queries in flight; a scripted history of 0-3 writes with optional flush (gates open); then up to 60/100/160 race steps in which the tape chooses among: release one parked actor (a query with a "
             "hold budget 0/3/8/20 is disfavoured and maintenance favoured while it lasts), start a query (2-8 per run, favoured while a maintenance output is built or prepared but not yet published), start the "
             "next of 3-12 maintenance operations (write 5 : flush 3 : merge 5 : sync 1, falling back when no suitable parts exist; two-phase 3 : one-shot 1); after the step limit everybody finishes gate by gate "
             "in canonical order. Non-trivial = a query was in flight while a publication was committed"),
    "expected_probes": ["reach.query_pin_attributed", "reach.query_overlapped_flush", "reach.query_overlapped_merge", "reach.merge_happened", "reach.part_directory_removed",
                        "reach.merge_output_written_before_query", "reach.flush_output_written_before_query", "reach.query_pinned_while_merge_in_progress", "reach.query_pinned_while_flush_in_progress",
                        "reach.query_pinned_while_introducer_mid_publication", "reach.query_pinned_while_writer_between_introductions", "reach.query_parked_between_pin_and_first_read",
                        "reach.query_holds_snapshot_whose_parts_were_replaced", "reach.gc_removed_part_while_query_in_flight", "reach.pinned_part_removed_after_last_reader",
                        "reach.batch_spans_two_segments", "reach.query_saw_unacknowledged_batch",
                        # scenario sidx-concurrent
                        "reach.sidx_query_judged", "reach.sidx_query_invoked_between_publication_steps", "reach.sidx_query_invoked_between_prepare_and_commit", "reach.sidx_query_pinned_between_prepare_and_commit",
                        "reach.sidx_query_parked_between_pin_and_part_selection", "reach.sidx_query_selects_parts_of_old_snapshot_after_inputs_marked_removable",
                        "reach.sidx_query_parked_between_part_selection_and_first_read", "reach.sidx_query_returned_from_a_replaced_snapshot", "reach.sidx_query_overlapped_write_publication",
                        "reach.sidx_query_overlapped_flush_publication", "reach.sidx_query_overlapped_merge_publication", "reach.sidx_query_overlapped_sync_publication",
                        "reach.sidx_maintenance_parked_between_prepare_and_commit", "reach.sidx_maintenance_parked_inside_snapshot_remove", "reach.sidx_part_directory_removed_while_query_in_flight",
                        "reach.sidx_merge_published", "reach.sidx_flush_published", "reach.sidx_sync_published", "reach.sidx_two_phase_publication", "reach.sidx_one_shot_publication"],
    "real_vs_stub": {
        "real": ["measure/stream write path (liaison front-end, write callback, mustAddMemPart), introducer / flusher / merger loops, snapshot and partWrapper reference counting, part removal, gc of manifests",
                 "query path: liaison Query RPC body, query processor, measure Query/Pull/PullBatch/Release, stream tsResult / vectorized scan, block scanner, series index lookup (bluge)",
                 "storage segments and shards (SelectSegments, DecRef, rotation tick)",
                 "scenario sidx-concurrent: banyand/internal/sidx (ConvertToMemPart, Flush, Merge of arbitrary subsets, PrepareMemPart/Flushed/Merged/Synced, CurrentSnapshot/ReplaceSnapshot, one-shot Introduce*, "
                 "QuerySync, StreamingQuery with its scanner and block workers, Snapshot / partWrapper reference counting, part removal) and banyand/internal/snapshot (NewTransition, Commit, Release) on real files"],
        "stub": ["syscalls below pkg/fs: real files on tmpfs + journal (simos)", "metadata registry (simmeta)", "gRPC transport (front-end methods are called directly)", "clock (testing/synctest)",
                 "scheduling at gate granularity: the driver, not the Go scheduler, picks which parked goroutine continues",
                 "scenario sidx-concurrent: the caller of the index (trace tsTable introducer / flusher / merger / syncer loops) is replaced by the driver's maintenance actor issuing the same calls; memory protector with a bypass registry"],
    },
    "assumptions": STD_ASSUME + [
        "'acknowledged' = the client's write stream returned with STATUS_SUCCEED for every request; a batch whose write was invoked but not acknowledged when a query returned may be visible (whole) or not",
        "order between two batches of one table is demanded only when the first was acknowledged before the second was invoked",
        "with 2 shards the shard of a series is not observable from outside: the atomic unit is (batch, day segment, series), a sound refinement of (batch, table)",
        "time ranges are end-inclusive (as in every planner of this tree)",
        "sidx-concurrent: 'acknowledged' = the publication call (Transition.Commit / Introduce*) of the entry's memory part has returned; an entry whose publication has begun but not returned when a query was invoked or returned may be visible or not, but always together with its whole batch; part synchronisation removes the entries of the synced parts from the index (they live on another node from then on)",
        "a query is 'still reading' a pinned snapshot until the driver releases it into the snapshot's decRef; snapshots are released in the order they were pinned (true for full-range queries in both engines)",
    ],
}
