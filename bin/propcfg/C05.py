"""Check configuration for C05 (loaded by bin/props.py)."""
from props_common import STD_ASSUME

CFG = {
    "pkg": "banyand/internal/verif/props/c05",
    "level": "exploration",
    "fs_shim": True,
    "gates": [
        {"files": ["banyand/measure/tstable.go", "banyand/measure/snapshot.go", "banyand/measure/introducer.go", "banyand/measure/flusher.go", "banyand/measure/merger.go",
                   "banyand/measure/gc.go", "banyand/measure/part.go", "banyand/measure/query.go", "banyand/measure/query_batch.go",
                   "banyand/stream/tstable.go", "banyand/stream/snapshot.go", "banyand/stream/introducer.go", "banyand/stream/flusher.go", "banyand/stream/merger.go",
                   "banyand/stream/gc.go", "banyand/stream/part.go", "banyand/stream/query.go",
                   "pkg/run/goroutine.go", "pkg/timestamp/scheduler.go"], "mode": "A"},
        {"files": ["banyand/internal/storage/segment.go", "banyand/internal/storage/tsdb.go", "banyand/internal/storage/rotation.go"], "mode": "B"},
    ],
    "level_text": "TBD",
    "level_note": "TBD",
    "budget": {"quick": 60, "thorough": 1200},
    "det_n": {"quick": 64, "thorough": 128},
    "rule": "TBD",
    "expected_probes": [],
    "real_vs_stub": {"real": [], "stub": []},
    "assumptions": STD_ASSUME + [],
}
