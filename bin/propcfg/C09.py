"""Check configuration for C09 (loaded by bin/props.py)."""
from props_common import STD_ASSUME, KNOBS_ENGINES, KNOBS_ASSUME

CFG = {
    "knobs": KNOBS_ENGINES,
    "pkg": "banyand/internal/verif/props/c09",
    "level": "exploration",
    "level_text": ("seeded exploration on a real standalone node: generated histories spread rows over series, shards (1-3), day segments and parts (real flushes and merges driven by the fake clock); "
                   "ordered queries (by time or by an inverted-indexed int/string tag, asc/desc) with offsets and limits around the result size are checked against a window oracle: the answer is sorted, "
                   "has exactly min(limit, |full|-offset) rows, and for every distinct sort key contains exactly as many rows as the window [offset, offset+limit) of the ordered full result must hold "
                   "(ties may appear in any order)"
                   " A third scenario drives the ordered secondary index through its public step API (arbitrary flush/merge subsets) and checks after every step that the streaming and the synchronous interface return every entry in the requested key range exactly once in key order (with MaxBatchSize>0: the ordered top of the result)."),
    "level_note": "scenario cluster-measure-order asks the same measure windows on 1 liaison + 1-4 data nodes over simnet (each data node returns its sorted rows, the liaison's distributed plan merges them and applies offset/limit; shards 1-3, replicas 0-2, fault-free transport); trusted: the window oracle and the row model; standalone node and the bare ordered index (the cluster merge of partial ordered results is not covered)",
    "budget": {"quick": 60, "thorough": 1200},
    "rule": ("each seed draws a schema, 2-9 history steps (batches up to 120 rows with small-domain values, so sort keys repeat / clock advances), 3-10 ordered queries (optional time bounds on written timestamps; "
             "offset 0 / inside / at the end / beyond; limit tiny / inside / beyond). Non-trivial = all queries answered; distinct = canonical event-log digests"),
    "expected_probes": ["reach.rows_spread_over_data_nodes", "reach.sidx_flush", "reach.sidx_merge_arbitrary_subset", "reach.duplicate_sort_keys", "reach.offset_inside_result", "reach.order_by_indexed_tag"],
    "real_vs_stub": {
        "real": ["banyand/internal/sidx public step API and both query interfaces", "banyand/stream + banyand/measure query paths (sort by time across parts/shards/segments, index-ordered iteration)", "pkg/query/logical + executors (limit/offset)", "pkg/index/inverted", "liaison front-end, banyand/query"],
        "stub": ["metadata registry (simmeta)", "gRPC transport", "clock (testing/synctest)"],
    },
    "assumptions": STD_ASSUME + [KNOBS_ASSUME],
}
