"""Check configuration for C04 (loaded by bin/props.py)."""
from props_common import STD_ASSUME, KNOBS_ENGINES, KNOBS_ASSUME

CFG = {
    "knobs": KNOBS_ENGINES,
    "pkg": "banyand/internal/verif/props/c04",
    "level": "exploration",
    "fs_shim": True,
    "level_text": ("crash-recovery simulation, one scenario per engine (measure-node-crash, stream-node-crash, trace-node-crash): a real standalone measure, stream or trace node runs a generated write/flush/merge history on a journaling disk shim below pkg/fs; from the journal the simulator materialises "
                   "the directory tree a kill -9 or a power loss (ordered-metadata model, torn/short/zero-filled un-synced tails, partially applied namespace operations) at a chosen operation would leave, "
                   "boots the REAL node on it and reads everything back; oracle: start-up succeeds, no garbage or duplicate row, batches recovered whole and as a prefix per table, nothing recoverable "
                   "from an earlier crash point under a harsher model is lost at a later one (a batch whose flush had completed stays readable), and at the final quiescent point every flushed batch is recovered under both models; "
                   "the stream scenario also requires every recovered element to carry the content that was written (a part served without some of its column files answers with holes); "
                   "the trace scenario reads every acknowledged trace back by its id with all tags projected and requires every returned span to be a written span of that trace with its payload bytes and span id"),
    "level_note": "crash points and cuts are sampled from the tape (6-12 per generated history, biased to rename/remove/dir-fsync boundaries and to the inside of writes; in the stream and trace scenarios also to the inside of one part creation, i.e. between the individual files of a flush or merge output, in the trace scenario also to the inside of one manifest publication), not enumerated; the series index (bluge) writes files itself: they are carried into every crash state as they were at the end of the history (index ahead of data), its own crash safety is not examined",
    "budget": {"quick": 90, "thorough": 1500},
    "rule": ("each seed draws a schema (1 shard), flush timeout 1/3/10s and merge fan-in, 3-12 operations (batch of 1-60 rows with acknowledgement / clock advance of 0.5s..90s), a final quiescent point two flush periods later, "
             "then 4-10 crash specifications (model K or P, crash op, bytes of an in-flight write, surviving namespace-op prefix 0/1/3/all, surviving un-synced tail 0/half/all, zero-fill) plus K and harshest P at the final point. "
             "In 6 of 7 seeds the n-th creation of a part directory (flush or merge output) is stalled for 1-3 driver operations, so that batches are acknowledged and manifests published while older maintenance is still writing. "
             "stream-node-crash draws the same history shape over a generated stream schema (1 shard, index rules, 1-2 tag families) and picks each crash op uniformly, at a rename/remove/dir-fsync boundary, or inside the creation of one tape-chosen part "
             "(2/3 exactly between two of its files); the journal is read back for part creations (labelled flush / mem-merge / merge by the engine loop that made the directory) and for published manifests, which only feed the reach.* probes. "
             "trace-node-crash draws a trace schema (1 shard, 0-2 ordered secondary indexes, so every flush and merge also writes secondary-index parts), 2-8 traces of 1-6 spans with unique payloads cut into shuffled batches, merge concurrency 1-3, and the same history shape, stall fault and crash models; "
             "in 5 of 6 seeds the goroutine that writes a snapshot manifest is descheduled for 1us of simulated time right before it creates the tmp file or right before the rename, so that everything the engine allows to run before the manifest is in place "
             "(the asynchronous removers of replaced part directories included) is in the journal before it; each crash op is uniform, at a rename/remove/dir-fsync boundary, inside one part creation, or inside one manifest publication "
             "(tmp creation .. rename; publications that replace completely written file parts, i.e. merge publications, preferred 2:1), the latter accompanied by the harshest power cut right after the last completed part creation as the reference of what was durable before. "
             "Non-trivial = at least one batch written; distinct = canonical event-log digests"),
    "expected_probes": ["fault.crash.kill9", "fault.crash.powerloss", "fault.crash.inside_write", "reach.recovered_nonempty", "reach.final_point_checked",
                        # stream-node-crash
                        "fault.maintenance_stalled_at_part_directory_creation", "reach.batch_acknowledged_while_maintenance_is_stalled", "reach.part_written_by.flush", "reach.part_written_by.mem-merge",
                        "reach.part_written_by.merge", "reach.manifest_published", "reach.crash_inside.flush", "reach.crash_inside.mem-merge", "reach.crash_inside.merge", "reach.crash_between_files_of_a_part",
                        "reach.crash_inside_write_of_a_part_already_named_by_a_manifest", "reach.recovered_nonempty_from_crash_inside_maintenance",
                        # trace-node-crash
                        "fault.manifest_writer_descheduled", "reach.secondary_index_part_written_by.flush", "reach.secondary_index_part_written_by.merge", "reach.crash_inside_secondary_index_part_write",
                        "reach.manifest_published_by.flushed", "reach.manifest_published_by.merged", "reach.manifest_replaces_file_parts", "reach.crash_inside.publication", "reach.crash_inside.merge-publication"],
    "real_vs_stub": {
        "real": ["pkg/fs localFileSystem (CreateFile/Write/WriteAtomic/SyncPath/Close fsync discipline) compiled against the shim", "banyand/measure tsTable start-up (snapshot manifest load, part validation, leftover cleanup), flusher, merger, gc",
                 "banyand/stream tsTable start-up (manifest load, part validation, orphan/leftover cleanup), memPart.mustFlush file protocol, flusher (incl. memory-part merge), merger, gc, element index open (stream-node-crash)", "banyand/trace tsTable start-up (manifest load, part validation, orphan cleanup, secondary-index load from the manifest's part ids), memPart.mustFlush, flusher (incl. memory-part merge), merge dispatcher + lane workers, introducer (snapshot commit, manifest publication, release of replaced parts and their asynchronous removal), gc; banyand/internal/sidx part flush/merge files (trace-node-crash)",
                 "banyand/internal/storage segment open/metadata", "liaison front-end + query path used to read back"],
        "stub": ["syscalls below pkg/fs: real files on tmpfs + journal (simos/simunix)", "crash = journal prefix materialised into a fresh directory", "series index and stream element index durability (bluge files carried as-is)", "metadata registry, clock"],
    },
    "assumptions": STD_ASSUME + [KNOBS_ASSUME, "power-loss model: ordered metadata (namespace operations durable up to the last fsync of any kind, later ones survive as a prefix of their order); file data durable up to the file's own last fsync",
                                "'flushed' means acknowledged at least two flush periods before a quiescent point"],
}
