"""Check configuration for C07 (loaded by bin/props.py)."""
from props_common import STD_ASSUME

CFG = {
    "pkg": "banyand/internal/verif/props/c07",
    "level": "exploration",
    "level_text": ("seeded exploration of retention histories on the real storage.OpenTSDB (segments, rotation task, cron retention at 00:05, retention-on-tick, forced cleanup) whose clock is the bubble clock: "
                   "writes (segment on demand + tick with the data time, as the write path does), clock schedules landing on and around expiry edges and cron times, forced cleanup; oracle at every quiescent point "
                   "with d = now - TTL: a segment ending after d is on disk and visible, one ending before d is never served, a directory disappears only if expired or as the single oldest one per forced-cleanup call, "
                   "and after one more cron time every expired segment is physically gone"),
    "level_note": "scenario disk-pressure-groups runs the disk monitor's forced-cleanup step (deleteOldestSegment, real code through an accessor; the periodic loop and the disk-usage probe are not started) over 2-5 real databases with 1-4 day segments each and a tape-chosen group order: at most one segment is removed per call and it is the globally oldest deletable one; trusted: the deadline oracle; a trivial table type stands for the engines' tables; fixed UTC zone (zones are C06's subject)",
    "budget": {"quick": 40, "thorough": 900},
    "rule": ("each seed draws interval (1-3 days or 1/6/12 hours) and TTL (1-6 days), then 4-24 operations: write at a time within/older than the TTL window, at now, or in the future (clock skew), "
             "advance the clock (minutes, days, exactly +-1ms onto a segment's expiry edge, just past the next 00:05), forced cleanup, 50 ticks at one instant; finally one more cron time. "
             "Non-trivial = more than one segment existed; distinct = canonical event-log digests"),
    "expected_probes": ["reach.forced_cleanup_over_groups_removed_a_segment", "fault.restart_with_changed_segment_interval", "fault.restart", "reach.expired_segment_removed", "reach.expired_but_not_yet_deleted_is_hidden", "reach.clock_lands_on_expiry_edge", "reach.cron_time_passed", "fault.future_timestamp_write", "reach.forced_cleanup_removed_oldest"],
    "real_vs_stub": {
        "real": ["banyand/internal/storage: OpenTSDB, segmentController (select/remove/removeOldest), rotation task, retention task + pkg/timestamp scheduler (cron), retention gate"],
        "stub": ["table type (trivial)", "clock (testing/synctest)"],
    },
    "assumptions": STD_ASSUME + ["at the single instant where a segment's end equals now-TTL either answer (visible or hidden) is accepted"],
}
