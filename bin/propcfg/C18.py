"""Check configuration for C18 (loaded by bin/props.py)."""
from props_common import STD_ASSUME

CFG = {
    "pkg": "banyand/internal/verif/props/c18",
    "level": "exploration",
    "level_text": ("seeded exploration of (a) apply(merge|replace)/delete/query sequences through the real liaison property server over 1-3 real data-node "
                   "property databases, with replicas that miss updates/tombstones/read-repairs, against a plain map model (latest non-deleted value per key, merge/replace "
                   "tag semantics, stable create revision, strictly increasing mod revision, one answer per key however many nodes answer); (b) 2-4 replicas of one shard "
                   "that each saw a subset of a history, then arbitrary pairwise repair exchanges through the real per-key repair code, against monotonicity per exchange "
                   "and convergence after a fair closing pass; sampling is the right level because histories and exchange orders are unbounded and both oracles are exact per history"),
    "level_note": ("trusted: the in-memory queue stand-in (request/response proto round trip, per-message unreachability), the in-memory schema registry, and the driver playing the "
                   "Merkle-tree comparison of the gossip protocol (it decides WHICH keys are exchanged; what happens to a key is the real shard.repair / Database.Repair). "
                   "Operations on one key are sequential (the property quantifies over sequences); concurrent applies to one key are not explored"),
    "budget": {"quick": 40, "thorough": 900},
    "rule": ("lww-map: each seed draws 1-3 data nodes, copies, 1-2 shards, 1-2 property names x 1-3 ids, 6-36 operations (apply merge/replace/default with a tape-chosen tag subset and "
             "values unique per write, delete of one id or of a whole name, query by id / list / list ordered by a tag) with the fake clock advanced >= 1 ms before each; when faults are on, "
             "each operation draws per message kind (update, tombstone, read-repair) which replicas are unreachable (never all of them for the write itself); a delete that a replica missed is followed by 64 immediate queries "
             "(the answer must not depend on which node answers first). long-history (1 run in 24): one key, 60-120 applies through the liaison, then queries. "
             "repair-converge: 2-4 replicas, 1-3 keys, 2-12 updates/deletes each delivered to a tape-chosen subset of replicas (update and its tombstones for older revisions independently), "
             "0-8 arbitrary exchanges (one-way push through Database.Repair or the two-step gossip exchange with send-back, duplicates included), then every ordered pair once. "
             "Non-trivial = at least one write (lww-map) / replicas actually diverged (repair-converge); distinct = distinct canonical event-log digests"),
    "expected_probes": ["fault.replica_missed_update", "fault.replica_missed_delete", "fault.replica_missed_read_repair",
                        "reach.merge_kept_old_tag", "reach.replace_dropped_tag", "reach.create_revision_checked_across_update", "reach.read_repair_delivered",
                        "reach.delete_missed_by_replica", "reach.delete_retried_after_error", "reach.key_with_100_revisions",
                        "reach.replicas_diverged", "reach.tombstone_vs_older_live", "reach.equal_revision_exchange", "reach.equal_revision_tombstone_vs_live",
                        "reach.receiver_holds_newer", "reach.receiver_missing_key", "reach.duplicate_exchange", "reach.converged_checked"],
    "real_vs_stub": {
        "real": ["banyand/liaison/grpc propertyServer Apply/Delete/Query (merge/replace, create/mod revision, dedup by revision, sorted dedup, read-repair queue)",
                 "pkg/node roundRobinSelector + liaison clusterNodeService (replica placement)",
                 "banyand/property update/delete/query/repair listeners", "banyand/property/db OpenDB, shards, update/delete/search, shard.repair, gossip queryProperty (bluge index on tmpfs)"],
        "stub": ["queue pub/sub + gRPC (in-memory stand-in: proto round trip of request and response, listener invoked inline)", "schema registry (simmeta + in-memory property schemas)",
                 "gossip transport, scheduler and Merkle state tree (the driver picks the keys and the direction of every exchange)", "clock (synctest)"],
    },
    "assumptions": STD_ASSUME + ["a replica that misses a message is unreachable for that message only (the sender sees a connection error or skips it as inactive); lost responses are not modelled",
                                 "at equal revision a tombstone is the later write (a delete of revision R happens after R was written)"],
}
