"""Check configuration for C18 (loaded by bin/props.py)."""
from props_common import STD_ASSUME

CFG = {
    "pkg": "banyand/internal/verif/props/c18",
    "level": "exploration",
    "level_text": ("seeded exploration of (a) apply(merge|replace)/delete/query sequences through the real liaison property server over 1-3 real data-node "
                   "property databases, with replicas that miss updates/tombstones/read-repairs, against a plain map model (latest non-deleted value per key, merge/replace "
                   "tag semantics, stable create revision, strictly increasing mod revision, one answer per key however many nodes answer); (b) 2-4 replicas of one shard "
                   "that each saw a subset of a history, then arbitrary pairwise repair exchanges through the real per-key repair code, against monotonicity per exchange "
                   "and convergence after a fair closing pass; (c) 2-3 replicas (repair enabled) of the shards of 1-2 groups that each saw a subset of a history, then the REAL Merkle-tree gossip "
                   "exchange (real repairGossipClient.Rev against the real RepairService handler over an in-memory stream) in tape-chosen directions until a full fair pass changes nothing, "
                   "against monotonicity per exchange, no invented state, every replica at the highest revision of every key at the fixpoint, and one more exchange changing nothing; "
                   "sampling is the right level because histories and exchange orders are unbounded and the oracles are exact per history"),
    "level_note": ("trusted: the in-memory queue stand-in (request/response proto round trip, per-message unreachability), the in-memory schema registry; in repair-converge the driver plays the "
                   "Merkle-tree comparison of the gossip protocol (it decides WHICH keys are exchanged; what happens to a key is the real shard.repair / Database.Repair); in gossip-exchange "
                   "the tree exchange is real and the driver only plays the gossip scheduler (who talks to whom about which group/shard, when the build-tree cron task runs) over an in-memory, "
                   "loss-free stream pair (proto round trip per message, 4096-message buffers standing in for the flow-control window; stream faults are not injected). "
                   "Operations on one key are sequential (the property quantifies over sequences); concurrent applies to one key are not explored"),
    "budget": {"quick": 40, "thorough": 900},
    "rule": ("lww-map: each seed draws 1-3 data nodes, copies, 1-2 shards, 1-2 property names x 1-3 ids, 6-36 operations (apply merge/replace/default with a tape-chosen tag subset and "
             "values unique per write, delete of one id or of a whole name, query by id / list / list ordered by a tag) with the fake clock advanced >= 1 ms before each; when faults are on, "
             "each operation draws per message kind (update, tombstone, read-repair) which replicas are unreachable (never all of them for the write itself); a delete that a replica missed is followed by 64 immediate queries "
             "(the answer must not depend on which node answers first). long-history (1 run in 24): one key, 60-120 applies through the liaison, then queries. "
             "repair-converge: 2-4 replicas, 1-3 keys, 2-12 updates/deletes each delivered to a tape-chosen subset of replicas (update and its tombstones for older revisions independently), "
             "0-8 arbitrary exchanges (one-way push through Database.Repair or the two-step gossip exchange with send-back, duplicates included), then every ordered pair once. "
             "gossip-exchange (weight 1): 2-3 replicas opened with repair enabled (tree slot count 32/1/2/5, build-tree cron hourly or never, quick build 10 min or never), 1-6 keys over 1-2 groups, "
             "3 names (one sorting differently as a tuple and as a joined entity) and ids containing '/', blanks, spaces and non-ASCII, 1-2 shards; 2-14 updates/deletes each delivered to a tape-chosen "
             "subset of replicas; 0-6 arbitrary exchanges (client, server, group/shard drawn; each participant's build-tree task has run or not: no tree aborts, a stale tree is compared as is); "
             "then fair passes (every ordered pair x every group/shard, tape-chosen order, build-tree task run on both sides before each exchange) until one pass changes nothing "
             "(bound 3 + keys x replicas passes), the convergence check, and one more tape-chosen exchange. "
             "Non-trivial = at least one write (lww-map) / replicas actually diverged (repair-converge, gossip-exchange); distinct = distinct canonical event-log digests"),
    "expected_probes": ["reach.stale_replica_left_unrepaired", "fault.replica_missed_update", "fault.replica_missed_delete", "fault.replica_missed_read_repair",
                        "reach.merge_kept_old_tag", "reach.replace_dropped_tag", "reach.create_revision_checked_across_update", "reach.read_repair_delivered",
                        "reach.delete_missed_by_replica", "reach.delete_retried_after_error", "reach.key_with_100_revisions",
                        "reach.replicas_diverged", "reach.tombstone_vs_older_live", "reach.equal_revision_exchange", "reach.equal_revision_tombstone_vs_live",
                        "reach.receiver_holds_newer", "reach.receiver_missing_key", "reach.duplicate_exchange", "reach.converged_checked",
                        "reach.gossip_replicas_diverged", "reach.gossip_stream_opened", "reach.gossip_root_matched", "reach.gossip_trees_differed", "reach.gossip_slots_sent",
                        "reach.gossip_leaves_compared", "reach.gossip_client_sent_property", "reach.gossip_server_sent_back_newer", "reach.gossip_tombstone_shipped",
                        "reach.gossip_id_with_slash_shipped", "reach.gossip_client_updated", "reach.gossip_server_updated", "reach.gossip_id_with_slash_repaired",
                        "reach.gossip_tree_not_rebuilt_before_exchange", "reach.gossip_fixpoint_pass", "reach.gossip_converged_checked"],
    # gossip-exchange has weight 1 of 25 (a handful of runs in a quick check of the whole property); its rarer probes are counted but not demanded there
    # (all non-zero with --scenario gossip-exchange): reach.gossip_property_missing_sent, reach.gossip_server_sent_missing_property, reach.gossip_slot_missing_on_server,
    # reach.gossip_missing_key_delivered, reach.gossip_tombstone_propagated, reach.gossip_both_sides_updated_in_one_exchange, reach.gossip_aborted_no_tree,
    # reach.gossip_server_tree_not_found
    "real_vs_stub": {
        "real": ["banyand/liaison/grpc propertyServer Apply/Delete/Query (merge/replace, create/mod revision, dedup by revision, sorted dedup, read-repair queue)",
                 "pkg/node roundRobinSelector + liaison clusterNodeService (replica placement)",
                 "banyand/property update/delete/query/repair listeners", "banyand/property/db OpenDB, shards, update/delete/search, shard.repair, gossip queryProperty (bluge index on tmpfs)",
                 "gossip-exchange: banyand/property/db Merkle-tree repair exchange end to end: repairScheduler.doBuildTree (file snapshot through Database.TakeSnapShot, buildTree, tree composer/file "
                 "reader), repairGossipClient.Rev (sendTreeSummary, root/slot/leaf comparison, sendPropertyMissing, queryPropertyAndSendToServer, executeRepairWithBudget, tree rebuild after updates) and "
                 "repairGossipServer.Repair (combineTreeSummary, sendDifferSlots, processPropertySync, processPropertyMissing), the generated RepairService request/response messages (proto round trip)"],
        "stub": ["queue pub/sub + gRPC (in-memory stand-in: proto round trip of request and response, listener invoked inline)", "schema registry (simmeta + in-memory property schemas)",
                 "repair-converge: gossip transport, scheduler and Merkle state tree (the driver picks the keys and the direction of every exchange)",
                 "gossip-exchange: banyand/property/gossip service (membership, node selection, propagation/scheduler, tracing) and the repair-trigger cron are played by the driver; the gRPC connection "
                 "of RepairService.Repair is an in-memory loss-free stream pair installed through the generated NewRepairServiceClientHook; the snapshot function is the one-liner of "
                 "banyand/property/service.go re-stated over Database.TakeSnapShot", "clock (synctest)"],
    },
    "assumptions": STD_ASSUME + ["a replica that misses a message is unreachable for that message only (the sender sees a connection error or skips it as inactive); lost responses are not modelled",
                                 "at equal revision a tombstone is the later write (a delete of revision R happens after R was written)"],
}
