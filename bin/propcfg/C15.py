"""Check configuration for C15 (loaded by bin/props.py)."""
from props_common import STD_ASSUME, KNOBS_ENGINES, KNOBS_ASSUME

CFG = {
    "knobs": KNOBS_ENGINES,
    "pkg": "banyand/internal/verif/props/c15",
    "level": "translation_validation",
    "level_text": ("differential validation on simulated states: the same generated write/clock history is executed on twin real standalone nodes, one with the vectorized query path enabled "
                   "(tape-chosen batch size 1/7/64/1024), one with it disabled; every generated request (projections, criteria trees, time bounds, order by time or index with offset/limit, "
                   "group-by/aggregation/top-N, requests the dispatcher refuses) is answered by both and the canonical bit-exact responses (or error classes) must be equal. "
                   "Part layouts come from real flushes and merges driven by the fake clock"),
    "level_note": "scenario trace-twins feeds two standalone trace nodes (vectorized on with batch size 1/7/64/1024, and off) the same span batches and clock steps and compares queries by trace id, by id list and ordered by the dur/timestamp index rules (asc/desc, optional range condition, optional limit, projections): same traces, same spans; scenario cluster-stream-twins runs the stream twins on two CLUSTERS (1 liaison + 1-3 data nodes over simnet): with the flag on the data nodes answer the liaison with columnar frames (stream wire mode raw), with the flag off with protobuf elements; measure requests include group-by without aggregation and null holes in group-by tags / aggregated fields; single node only: the columnar frame wire between data node and coordinator is not exercised (no cluster harness); trusted: the canonical rendering; unordered queries with a limit are compared by size only, ordered ones by sequence",
    "budget": {"quick": 60, "thorough": 1200},
    "rule": ("each seed draws a schema, 2-8 history steps, 4-12 requests of all shapes; both twins replay the history and answer. Non-trivial = all answers equal; distinct = canonical event-log digests"),
    "expected_probes": ["reach.trace_twins_compared", "reach.frames_from_several_data_nodes", "reach.aggregate_over_null_field", "reach.request_refused_or_failed"],
    "real_vs_stub": {
        "real": ["pkg/query/vectorized/** (measure, stream plans, dispatch, batches)", "banyand/measure query_vectorized.go, banyand/stream query_vectorized.go", "row path: pkg/query/logical/** + executors", "banyand/query processors (dispatch/fallback)"],
        "stub": ["metadata registry (simmeta)", "gRPC transport", "clock (testing/synctest)", "no liaison<->data node frames"],
    },
    "assumptions": STD_ASSUME + [KNOBS_ASSUME],
}
