"""Check configuration for C10 (loaded by bin/props.py)."""
from props_common import STD_ASSUME

CFG = {
    "pkg": "banyand/internal/verif/props/c10",
    "level": "exploration",
    "level_text": ("seeded exploration on a real standalone measure node whose rows are spread over series, 1-3 shards, day segments and parts by a generated history with real flushes and merges: "
                   "SUM/COUNT/MIN/MAX/MEAN with or without group-by (1-2 tags) and TOP/BOTTOM-N over the aggregated groups are compared with a reference computed from the model rows "
                   "(exact for integers, float fields use quarter values so sums are exact in any order)"),
    "level_note": ("scenario measure-aggregates runs on the standalone node; scenario cluster-aggregates runs on 1 liaison + 1-4 data nodes over the in-memory cluster transport (simnet over the real sub handlers): "
                   "every data node computes partial aggregates (AggReturnPartial push-down, row or vectorized path), the liaison de-duplicates replica answers and reduces; shards 1-4, replicas 0-2, placements biased to "
                   "'one shard per node' and 'one shard, replicated'. The placement is OBSERVED (shard directories of the data nodes); in placements where the recorded defect partials-not-per-shard applies "
                   "(a node holding two shards for grouped aggregates, several nodes/shards for scalar ones) a disagreement is the known finding, everywhere else exactness is demanded. Transport is fault-free here (C17 injects wire faults)"),
    "budget": {"quick": 60, "thorough": 1200},
    "rule": ("each seed draws a schema (at least one int or float field), 2-8 history steps (batches up to 80 rows with small-domain tags, fields in [-100,100] with rare 2^40..2^62 magnitudes / clock advances), "
             "3-10 aggregate queries (function, field, 0-2 group tags, optional top/bottom N of 1-4, optional time bounds on written timestamps). Non-trivial = queries answered; distinct = canonical event-log digests"),
    "expected_probes": ["reach.several_groups", "reach.aggregate_checked", "reach.top_n_checked", "reach.replicated_shards", "reach.partials_from_several_nodes_reduced", "reach.replicas_answer_for_one_shard", "reach.data_node_without_shard", "reach.placement_affected_by_known_partial_labelling"],
    "real_vs_stub": {
        "real": ["pkg/query/logical/measure (group-by, aggregation, top plans)", "pkg/query/aggregation", "banyand/measure query path over shards/segments/parts", "banyand/query measure processor", "liaison front-end"],
        "stub": ["metadata registry (simmeta)", "gRPC transport", "clock (testing/synctest)", "no data-node/coordinator split: partial aggregates are not on the wire"],
    },
    "assumptions": STD_ASSUME + ["MEAN is SUM/COUNT in the field's own arithmetic (integer division for integer fields)"],
}
