"""Check configuration for C03 (loaded by bin/props.py)."""
from props_common import STD_ASSUME, KNOBS_ENGINES, KNOBS_ASSUME

CFG = {
    "knobs": KNOBS_ENGINES,
    "pkg": "banyand/internal/verif/props/c03",
    "level": "exploration",
    "level_text": ("seeded exploration on a real standalone node in a fake-clock bubble: bursts of acknowledged batches (each its own memory part), a fixed set of queries answered before any maintenance, "
                   "then tape-chosen clock steps that let the real flusher and merger run, the same queries re-asked after every step; every answer must equal the row model and (without version ties) "
                   "the answer given before maintenance. Flushes/merges are observed model-free from the part directories on disk"
                   " A third scenario drives the ordered secondary index (sidx) through its public step API: the simulator flushes tape-chosen memory parts and merges ARBITRARY subsets of file parts, and after every step both query interfaces must return every entry ever written exactly once."),
    "level_note": "trusted: registry stub, row model, the directory-listing observation of flush/merge; which parts merge is decided by the engine's size policy under a tape-chosen fan-in and multiplier (arbitrary subsets through the sidx step API are a separate scenario)",
    "budget": {"quick": 60, "thorough": 1200},
    "rule": ("each seed draws schema, flush timeout, merge fan-in/multiplier; 1-4 rounds of [1-8 batches of 1-300 rows (rarely 9000), 1-3 fixed queries, 1-6 clock steps of 0.5s..11min]. "
             "Non-trivial = at least one flush or merge observed on disk; distinct = canonical event-log digests"),
    "expected_probes": ["reach.sidx_flush", "reach.sidx_merge_arbitrary_subset", "reach.sidx_merge_proper_subset", "reach.flush_created_part", "reach.merge_replaced_parts"],
    "real_vs_stub": {
        "real": ["banyand/internal/sidx (ConvertToMemPart, IntroduceMemPart, Flush, IntroduceFlushed, Merge of arbitrary subsets, IntroduceMerged, StreamingQuery, QuerySync)", "banyand/measure and banyand/stream: introducer, flusher, merger, gc, snapshots, query", "banyand/internal/storage", "liaison front-end services", "banyand/query + pkg/query"],
        "stub": ["metadata registry (simmeta)", "gRPC transport", "clock (testing/synctest)"],
    },
    "assumptions": STD_ASSUME + [KNOBS_ASSUME],
}
