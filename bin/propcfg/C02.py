"""Check configuration for C02 (loaded by bin/props.py)."""
from props_common import STD_ASSUME, KNOBS_ENGINES, KNOBS_ASSUME

CFG = {
    "knobs": KNOBS_ENGINES,
    "pkg": "banyand/internal/verif/props/c02",
    "level": "exploration",
    "level_text": ("seeded exploration of measure write histories full of (series, timestamp) collisions with explicit, tied and defaulted versions, arriving in any order over one or many batches "
                   "while the fake clock drives flushes and merges, on a real standalone node; oracle: exactly one row per key and it is one of the rows carrying the maximal version"),
    "level_note": "trusted: metadata registry stub, row model; merge timing is varied through the clock and merge fan-in only (explicit merge subsets are C03's business)",
    "budget": {"quick": 45, "thorough": 900},
    "rule": ("each seed draws a schema, 1-5 contested timestamps (some in older segments), 1-3 series, and 3-16 operations: write a batch of 1-40 rows whose keys collide on purpose with versions 1-6 "
             "(ties included; one row in ten with version 0 = defaulted from the message id), advance the clock 1s-3min (flush/merge), or query everything and compare. "
             "Unique payload (write id) per row makes the winner attributable. Non-trivial = at least one contested key; distinct = canonical event-log digests"),
    "expected_probes": ["reach.narrow_range_query", "reach.contested_keys", "reach.tied_max_version", "reach.version_defaulted_from_message_id"],
    "real_vs_stub": {
        "real": ["banyand/liaison/grpc measure Write+Query services", "banyand/measure (write path, dedup in mem parts, merger, query heap)", "banyand/internal/storage", "banyand/query + pkg/query"],
        "stub": ["metadata registry (simmeta)", "gRPC transport (in-memory server streams)", "clock (testing/synctest)"],
    },
    "assumptions": STD_ASSUME + [KNOBS_ASSUME, "when the maximal version is tied any of the tied rows is accepted (as the property states)"],
}
