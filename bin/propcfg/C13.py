"""Check configuration for C13 (loaded by bin/props.py)."""
from props_common import STD_ASSUME

CFG = {
    "pkg": "banyand/internal/verif/props/c13",
    "level": "exploration",
    "level_text": "TBD",
    "level_note": "TBD",
    "budget": {"quick": 60, "thorough": 1200},
    "rule": "TBD",
    "expected_probes": [],
    "real_vs_stub": {"real": [], "stub": []},
    "gates": [
        {"files": ["banyand/trace/merger.go", "banyand/trace/tstable.go", "pkg/run/goroutine.go"], "mode": "A"},
    ],
    "assumptions": STD_ASSUME,
}
