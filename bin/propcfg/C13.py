"""Check configuration for C13 (loaded by bin/props.py)."""
from props_common import STD_ASSUME, KNOBS_ENGINES, KNOBS_ASSUME

CFG = {
    "pkg": "banyand/internal/verif/props/c13",
    "level": "exploration",
    "level_text": ("seeded exploration on a real standalone trace node (liaison front end, trace engine with introducer/flusher/merger/finalize scanner, ordered secondary indexes, query processor, both the "
                   "vectorized and the row-at-a-time query path) in a fake-clock bubble: 3-20 traces x 1-8 spans with unique span payloads and a unique int tag, arriving shuffled over several write batches at "
                   "timestamps spread over 1-4 day segments, clock steps in between so that the real flusher, mergers and the finalize scanner run. Scenario 'no-sampler': after every step tape-chosen trace ids "
                   "are queried (trace_id = X, trace_id IN (...)) and must return exactly the acknowledged spans (multiset of write ids, payload bytes and span ids identical); ordered queries over the TYPE_TREE "
                   "rules must return every matching trace with all its spans; a raw scan of every ordered index (sidx.ScanRaw) must hold exactly one row per acknowledged span. Scenario 'sampler': 1-2 in-process "
                   "sdk.Sampler values registered through the engine's own registerSampler, verdict per trace id from the tape (keep / drop / error / wrong-length mask / panic / deadline overrun, the faults 1-2 "
                   "times before the verdict), merge and finalize events, tape-sized global semaphores; oracle: the spans a query no longer returns must be exactly the inputs of merges whose sampler gave a "
                   "well-formed, in-time 'drop' for that trace (the sampler projects span ids, so the merge inputs are observed), and such a merge may only have been honoured if every span acknowledged "
                   "before that Decide call started was among its inputs (otherwise a fragment lived outside); index rows must equal the stored spans; ordered queries must agree with queries by id. "
                   "Scenario 'schedules': the same, with merge goroutines held at five gate sites of merger.go (tools/gaterw) and released in tape-chosen order with writes in between"),
    "level_note": ("samplers ARE driven in process: accessor VerifRegisterSampler calls the unexported registerSampler (the registry reconcilePipeline fills after loading a plugin .so; the .so loader itself is "
                   "not exercised), VerifSetMergeGrace / VerifEnableFinalize call the registry setters. Trusted: registry stub, span model, the ledger that records what each Decide call saw, the directory-listing "
                   "observation of flush/merge. Which parts merge is decided by the engine's policy; merge inputs are observed, not chosen. 'schedules' is only partially gated: the release order of held "
                   "goroutines is tape-driven, every goroutine that is not held is scheduled by the Go runtime, so its canonical history records the tape-level choices and a violation counts only after "
                   "fresh-process replays. Spans acknowledged after a Decide call started are treated as late arrivals (they may survive a drop alone), as the design document accepts. The two process-global "
                   "semaphores of banyand/trace are re-created inside the bubble by simnode.Boot (a channel made outside the bubble freezes the fake clock while contended)"),
    "budget": {"quick": 60, "thorough": 1200},
    "rule": ("each seed draws the schema (identity tags in either order, optional TYPE_TREE rule on dur with optional svc prefix, optional rule on the timestamp, 0-3 extra tags of storable types), shards 1-3, "
             "flush timeout, merge fan-in, query path, arrival history (shuffle, batch cuts, rarely ~700 KiB spans so that a trace exceeds one block), and per step clock advances of 0.5 s .. 45 min; 'sampler' "
             "additionally merge_grace 1 min/10 min/1 h (span timestamps of one trace stay within it, the engine's documented contract), decide timeout, circuit-break count, semaphore sizes 1-4, finalize on/off, "
             "sampler projection (span ids / metadata only / span ids+bodies+tag) and the verdict plan; 'schedules' additionally the armed gate sites and the release choices. Non-trivial = a flush or merge was "
             "seen on disk (no-sampler), a sampler was called (sampler), a merge happened under gates (schedules); distinct = canonical event-log digests"),
    "expected_probes": ["reach.order_of_traces_checked", "knob.sampler_stage_budget_shrunk", "reach.flush_created_part", "reach.merge_happened", "reach.trace_spans_multiple_parts", "reach.trace_spans_multiple_segments", "reach.ordered_query_checked",
                        "reach.sidx_entries_checked", "reach.sampler_called", "reach.sampler_answered_drop", "reach.trace_dropped_whole", "reach.trace_dropped_then_late_spans_kept",
                        "fault.sampler_error", "fault.sampler_panic", "fault.sampler_wrong_length", "fault.sampler_timeout", "reach.sampler_link_ran_after_deadline",
                        "reach.held_goroutine_released", "reach.released_out_of_usual_order", "reach.write_while_merge_goroutine_held"],
    "det_n": {"quick": 24, "thorough": 64},
    "knobs": KNOBS_ENGINES,
    "gates": [
        {"files": ["banyand/trace/merger.go", "banyand/trace/tstable.go", "pkg/run/goroutine.go"], "mode": "A"},
    ],
    "real_vs_stub": {
        "real": ["banyand/trace: write path, memory parts, introducer, flusher (incl. memory-part merge), merge dispatcher and lanes, in-merge sampler hook (staging, chain execution with deadline/circuit breaker, "
                 "fragment guard, drop set, re-validation, lossless retry), finalize scanner and rounds, query (vectorized and row-at-a-time)", "banyand/internal/sidx (ordered secondary index) incl. keep-predicate merges",
                 "banyand/internal/storage (segments, series index)", "pkg/pipeline/sdk chain evaluation", "liaison trace front end (validation, trace-id sharding)", "banyand/query + pkg/query/logical/trace"],
        "stub": ["metadata registry (simmeta)", "gRPC transport", "clock (testing/synctest)", "samplers are Go values registered in process instead of plugin .so files (pipeline_loader.go / sdk.OpenSampler not exercised)",
                 "TracePipelineConfig reconciliation from the group resource (reconcilePipeline) not exercised"],
    },
    "assumptions": STD_ASSUME + [KNOBS_ASSUME,
        "under samplers the timestamps of one trace's spans lie within merge_grace of each other (docs/design/post-trace-pipeline.md 7.1: 'the engine assumes fragments of one trace do not arrive farther apart than this grace'); "
        "wider traces can be dropped fragment-wise by design and are not generated",
        "a span acknowledged after a sampler's Decide call started counts as a late arrival: it may be the only survivor of its trace",
        "two spans of one trace with equal key are two index rows; index rows are compared only when no memory part exists (sidx.ScanRaw refuses memory parts)",
        "ordered queries are asked without condition or with a range on the unique tag wid; a range on the order-by key itself returns nothing on this tree (query planning, outside C13; "
        "VERIF_C13_KEYRANGE=1 + replays/C13-side-finding-keyrange.json shows it)",
    ],
}
