"""Per-property configuration of the check driver: one file per property under bin/propcfg/<ID>.py defining CFG."""
import glob
import importlib.util
import os
import sys

HERE = os.path.dirname(os.path.abspath(__file__))
sys.path.insert(0, HERE)
from props_common import STD_ASSUME  # noqa: E402,F401

PROPS = {}
for _p in sorted(glob.glob(os.path.join(HERE, "propcfg", "C*.py"))):
    _id = os.path.basename(_p)[:-3]
    _spec = importlib.util.spec_from_file_location("propcfg_" + _id, _p)
    _m = importlib.util.module_from_spec(_spec)
    _spec.loader.exec_module(_m)
    PROPS[_id] = _m.CFG

NOT_APPLICABLE = {
    "C11": "pure function of a value sequence / byte string: no schedule, clock, peer, fault or I/O ordering for a simulator to own; input generation alone would be property-based testing in simulator vocabulary (DESIGN.md §4)",
    "C12": "pure relation over pairs of values and an injectivity claim over tuples: nothing concurrent, timed or faulty to simulate (DESIGN.md §4)",
}
NOT_CLAIMED = {}
