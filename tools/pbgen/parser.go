package main

import (
	"fmt"
	"os"
	"strconv"
	"strings"
	"unicode"

	"google.golang.org/protobuf/proto"
	"google.golang.org/protobuf/types/descriptorpb"
)

// A small proto3 parser producing descriptorpb.FileDescriptorProto.
// Custom options (validate, google.api.http, openapiv2) are parsed and dropped.

type tokKind int

const (
	tEOF tokKind = iota
	tIdent
	tInt
	tFloat
	tString
	tSym
)

type token struct {
	kind tokKind
	s    string
	line int
}

type lexer struct {
	src  string
	pos  int
	line int
	file string
}

func (l *lexer) errf(format string, a ...any) error {
	return fmt.Errorf("%s:%d: %s", l.file, l.line, fmt.Sprintf(format, a...))
}

func (l *lexer) next() (token, error) {
	for l.pos < len(l.src) {
		c := l.src[l.pos]
		if c == '\n' {
			l.line++
			l.pos++
			continue
		}
		if c == ' ' || c == '\t' || c == '\r' {
			l.pos++
			continue
		}
		if c == '/' && l.pos+1 < len(l.src) && l.src[l.pos+1] == '/' {
			for l.pos < len(l.src) && l.src[l.pos] != '\n' {
				l.pos++
			}
			continue
		}
		if c == '/' && l.pos+1 < len(l.src) && l.src[l.pos+1] == '*' {
			end := strings.Index(l.src[l.pos+2:], "*/")
			if end < 0 {
				return token{}, l.errf("unterminated comment")
			}
			l.line += strings.Count(l.src[l.pos:l.pos+2+end+2], "\n")
			l.pos += 2 + end + 2
			continue
		}
		break
	}
	if l.pos >= len(l.src) {
		return token{kind: tEOF, line: l.line}, nil
	}
	c := l.src[l.pos]
	start := l.pos
	switch {
	case c == '_' || unicode.IsLetter(rune(c)):
		for l.pos < len(l.src) && (l.src[l.pos] == '_' || unicode.IsLetter(rune(l.src[l.pos])) || unicode.IsDigit(rune(l.src[l.pos]))) {
			l.pos++
		}
		return token{tIdent, l.src[start:l.pos], l.line}, nil
	case unicode.IsDigit(rune(c)) || (c == '.' && l.pos+1 < len(l.src) && unicode.IsDigit(rune(l.src[l.pos+1]))):
		isFloat := false
		for l.pos < len(l.src) {
			ch := l.src[l.pos]
			if unicode.IsDigit(rune(ch)) || ch == 'x' || ch == 'X' || (ch >= 'a' && ch <= 'f') || (ch >= 'A' && ch <= 'F') {
				if (ch == 'e' || ch == 'E') && !strings.HasPrefix(l.src[start:], "0x") && !strings.HasPrefix(l.src[start:], "0X") {
					isFloat = true
					l.pos++
					if l.pos < len(l.src) && (l.src[l.pos] == '+' || l.src[l.pos] == '-') {
						l.pos++
					}
					continue
				}
				l.pos++
				continue
			}
			if ch == '.' {
				isFloat = true
				l.pos++
				continue
			}
			break
		}
		if isFloat {
			return token{tFloat, l.src[start:l.pos], l.line}, nil
		}
		return token{tInt, l.src[start:l.pos], l.line}, nil
	case c == '"' || c == '\'':
		q := c
		l.pos++
		var sb strings.Builder
		for {
			if l.pos >= len(l.src) {
				return token{}, l.errf("unterminated string")
			}
			ch := l.src[l.pos]
			if ch == q {
				l.pos++
				break
			}
			if ch == '\n' {
				return token{}, l.errf("newline in string")
			}
			if ch == '\\' {
				l.pos++
				if l.pos >= len(l.src) {
					return token{}, l.errf("bad escape")
				}
				e := l.src[l.pos]
				l.pos++
				switch e {
				case 'n':
					sb.WriteByte('\n')
				case 't':
					sb.WriteByte('\t')
				case 'r':
					sb.WriteByte('\r')
				case 'a':
					sb.WriteByte('\a')
				case 'b':
					sb.WriteByte('\b')
				case 'f':
					sb.WriteByte('\f')
				case 'v':
					sb.WriteByte('\v')
				case '\\', '\'', '"', '?':
					sb.WriteByte(e)
				case 'x', 'X':
					j := l.pos
					for j < len(l.src) && j < l.pos+2 && isHex(l.src[j]) {
						j++
					}
					v, err := strconv.ParseUint(l.src[l.pos:j], 16, 8)
					if err != nil {
						return token{}, l.errf("bad hex escape")
					}
					sb.WriteByte(byte(v))
					l.pos = j
				case '0', '1', '2', '3', '4', '5', '6', '7':
					j := l.pos
					for j < len(l.src) && j < l.pos+2 && l.src[j] >= '0' && l.src[j] <= '7' {
						j++
					}
					v, err := strconv.ParseUint(l.src[l.pos-1:j], 8, 16)
					if err != nil {
						return token{}, l.errf("bad octal escape")
					}
					sb.WriteByte(byte(v))
					l.pos = j
				default:
					return token{}, l.errf("unsupported escape \\%c", e)
				}
				continue
			}
			sb.WriteByte(ch)
			l.pos++
		}
		return token{tString, sb.String(), l.line}, nil
	default:
		l.pos++
		return token{tSym, string(c), l.line}, nil
	}
}

func isHex(c byte) bool {
	return (c >= '0' && c <= '9') || (c >= 'a' && c <= 'f') || (c >= 'A' && c <= 'F')
}

type parser struct {
	lx   *lexer
	tok  token
	fd   *descriptorpb.FileDescriptorProto
	file string
}

func (p *parser) errf(format string, a ...any) error {
	return fmt.Errorf("%s:%d: %s (at %q)", p.file, p.tok.line, fmt.Sprintf(format, a...), p.tok.s)
}

func (p *parser) advance() error {
	t, err := p.lx.next()
	if err != nil {
		return err
	}
	p.tok = t
	return nil
}

func (p *parser) isSym(s string) bool   { return p.tok.kind == tSym && p.tok.s == s }
func (p *parser) isIdent(s string) bool { return p.tok.kind == tIdent && p.tok.s == s }

func (p *parser) expectSym(s string) error {
	if !p.isSym(s) {
		return p.errf("expected %q", s)
	}
	return p.advance()
}

func (p *parser) ident() (string, error) {
	if p.tok.kind != tIdent {
		return "", p.errf("expected identifier")
	}
	s := p.tok.s
	return s, p.advance()
}

// fullIdent parses a possibly dotted (and possibly leading-dot) identifier.
func (p *parser) fullIdent() (string, error) {
	var sb strings.Builder
	if p.isSym(".") {
		sb.WriteByte('.')
		if err := p.advance(); err != nil {
			return "", err
		}
	}
	for {
		id, err := p.ident()
		if err != nil {
			return "", err
		}
		sb.WriteString(id)
		if p.isSym(".") {
			sb.WriteByte('.')
			if err := p.advance(); err != nil {
				return "", err
			}
			continue
		}
		break
	}
	return sb.String(), nil
}

func (p *parser) stringLit() (string, error) {
	if p.tok.kind != tString {
		return "", p.errf("expected string")
	}
	var sb strings.Builder
	for p.tok.kind == tString { // adjacent string concatenation
		sb.WriteString(p.tok.s)
		if err := p.advance(); err != nil {
			return "", err
		}
	}
	return sb.String(), nil
}

func (p *parser) intLit() (int64, error) {
	neg := false
	if p.isSym("-") {
		neg = true
		if err := p.advance(); err != nil {
			return 0, err
		}
	}
	if p.tok.kind != tInt {
		return 0, p.errf("expected integer")
	}
	v, err := strconv.ParseInt(p.tok.s, 0, 64)
	if err != nil {
		u, uerr := strconv.ParseUint(p.tok.s, 0, 64)
		if uerr != nil {
			return 0, p.errf("bad integer: %v", err)
		}
		v = int64(u)
	}
	if neg {
		v = -v
	}
	return v, p.advance()
}

// optionName parses `name`, `(custom.name)`, `(custom).sub.field` and reports whether it is custom.
func (p *parser) optionName() (string, bool, error) {
	custom := false
	var sb strings.Builder
	for {
		if p.isSym("(") {
			custom = true
			if err := p.advance(); err != nil {
				return "", false, err
			}
			n, err := p.fullIdent()
			if err != nil {
				return "", false, err
			}
			sb.WriteString("(" + n + ")")
			if err := p.expectSym(")"); err != nil {
				return "", false, err
			}
		} else {
			n, err := p.ident()
			if err != nil {
				return "", false, err
			}
			sb.WriteString(n)
		}
		if p.isSym(".") {
			sb.WriteByte('.')
			if err := p.advance(); err != nil {
				return "", false, err
			}
			continue
		}
		break
	}
	return sb.String(), custom, nil
}

type constant struct {
	kind tokKind // tIdent, tInt, tFloat, tString, tSym("{" aggregate)
	s    string
}

// constantValue parses a scalar constant or skips a balanced aggregate.
func (p *parser) constantValue() (constant, error) {
	if p.isSym("{") {
		depth := 0
		for {
			if p.tok.kind == tEOF {
				return constant{}, p.errf("unterminated aggregate")
			}
			if p.isSym("{") {
				depth++
			} else if p.isSym("}") {
				depth--
				if depth == 0 {
					if err := p.advance(); err != nil {
						return constant{}, err
					}
					return constant{kind: tSym, s: "{}"}, nil
				}
			}
			if err := p.advance(); err != nil {
				return constant{}, err
			}
		}
	}
	sign := ""
	if p.isSym("-") || p.isSym("+") {
		sign = p.tok.s
		if err := p.advance(); err != nil {
			return constant{}, err
		}
	}
	switch p.tok.kind {
	case tString:
		s, err := p.stringLit()
		return constant{tString, s}, err
	case tIdent, tInt, tFloat:
		c := constant{p.tok.kind, sign + p.tok.s}
		return c, p.advance()
	}
	return constant{}, p.errf("expected constant")
}

func parseFile(path, name string) (*descriptorpb.FileDescriptorProto, error) {
	b, err := os.ReadFile(path)
	if err != nil {
		return nil, err
	}
	p := &parser{lx: &lexer{src: string(b), line: 1, file: name}, file: name}
	p.fd = &descriptorpb.FileDescriptorProto{Name: proto.String(name)}
	if err := p.advance(); err != nil {
		return nil, err
	}
	for p.tok.kind != tEOF {
		switch {
		case p.isSym(";"):
			if err := p.advance(); err != nil {
				return nil, err
			}
		case p.isIdent("syntax"):
			if err := p.advance(); err != nil {
				return nil, err
			}
			if err := p.expectSym("="); err != nil {
				return nil, err
			}
			s, err := p.stringLit()
			if err != nil {
				return nil, err
			}
			if s != "proto3" {
				return nil, p.errf("only proto3 is supported, got %q", s)
			}
			p.fd.Syntax = proto.String(s)
			if err := p.expectSym(";"); err != nil {
				return nil, err
			}
		case p.isIdent("package"):
			if err := p.advance(); err != nil {
				return nil, err
			}
			n, err := p.fullIdent()
			if err != nil {
				return nil, err
			}
			p.fd.Package = proto.String(n)
			if err := p.expectSym(";"); err != nil {
				return nil, err
			}
		case p.isIdent("import"):
			if err := p.advance(); err != nil {
				return nil, err
			}
			if p.isIdent("public") || p.isIdent("weak") {
				return nil, p.errf("import public/weak unsupported")
			}
			s, err := p.stringLit()
			if err != nil {
				return nil, err
			}
			p.fd.Dependency = append(p.fd.Dependency, s)
			if err := p.expectSym(";"); err != nil {
				return nil, err
			}
		case p.isIdent("option"):
			name, custom, c, err := p.optionStmt()
			if err != nil {
				return nil, err
			}
			if custom {
				continue
			}
			if p.fd.Options == nil {
				p.fd.Options = &descriptorpb.FileOptions{}
			}
			switch name {
			case "go_package":
				p.fd.Options.GoPackage = proto.String(c.s)
			case "java_package":
				p.fd.Options.JavaPackage = proto.String(c.s)
			case "java_multiple_files":
				p.fd.Options.JavaMultipleFiles = proto.Bool(c.s == "true")
			case "java_outer_classname":
				p.fd.Options.JavaOuterClassname = proto.String(c.s)
			default:
				return nil, p.errf("unsupported file option %q", name)
			}
		case p.isIdent("message"):
			m, err := p.message()
			if err != nil {
				return nil, err
			}
			p.fd.MessageType = append(p.fd.MessageType, m)
		case p.isIdent("enum"):
			e, err := p.enum()
			if err != nil {
				return nil, err
			}
			p.fd.EnumType = append(p.fd.EnumType, e)
		case p.isIdent("service"):
			s, err := p.service()
			if err != nil {
				return nil, err
			}
			p.fd.Service = append(p.fd.Service, s)
		default:
			return nil, p.errf("unexpected top-level token")
		}
	}
	if p.fd.Syntax == nil {
		return nil, fmt.Errorf("%s: missing syntax", name)
	}
	return p.fd, nil
}

// optionStmt parses `option name = const;`.
func (p *parser) optionStmt() (string, bool, constant, error) {
	if err := p.advance(); err != nil {
		return "", false, constant{}, err
	}
	name, custom, err := p.optionName()
	if err != nil {
		return "", false, constant{}, err
	}
	if err = p.expectSym("="); err != nil {
		return "", false, constant{}, err
	}
	c, err := p.constantValue()
	if err != nil {
		return "", false, constant{}, err
	}
	return name, custom, c, p.expectSym(";")
}

var scalarTypes = map[string]descriptorpb.FieldDescriptorProto_Type{
	"double":   descriptorpb.FieldDescriptorProto_TYPE_DOUBLE,
	"float":    descriptorpb.FieldDescriptorProto_TYPE_FLOAT,
	"int64":    descriptorpb.FieldDescriptorProto_TYPE_INT64,
	"uint64":   descriptorpb.FieldDescriptorProto_TYPE_UINT64,
	"int32":    descriptorpb.FieldDescriptorProto_TYPE_INT32,
	"fixed64":  descriptorpb.FieldDescriptorProto_TYPE_FIXED64,
	"fixed32":  descriptorpb.FieldDescriptorProto_TYPE_FIXED32,
	"bool":     descriptorpb.FieldDescriptorProto_TYPE_BOOL,
	"string":   descriptorpb.FieldDescriptorProto_TYPE_STRING,
	"bytes":    descriptorpb.FieldDescriptorProto_TYPE_BYTES,
	"uint32":   descriptorpb.FieldDescriptorProto_TYPE_UINT32,
	"sfixed32": descriptorpb.FieldDescriptorProto_TYPE_SFIXED32,
	"sfixed64": descriptorpb.FieldDescriptorProto_TYPE_SFIXED64,
	"sint32":   descriptorpb.FieldDescriptorProto_TYPE_SINT32,
	"sint64":   descriptorpb.FieldDescriptorProto_TYPE_SINT64,
}

func jsonName(s string) string {
	var sb strings.Builder
	up := false
	for _, r := range s {
		if r == '_' {
			up = true
			continue
		}
		if up {
			sb.WriteRune(unicode.ToUpper(r))
			up = false
		} else {
			sb.WriteRune(r)
		}
	}
	return sb.String()
}

func camelEntry(s string) string {
	var sb strings.Builder
	up := true
	for _, r := range s {
		if r == '_' {
			up = true
			continue
		}
		if up {
			sb.WriteRune(unicode.ToUpper(r))
			up = false
		} else {
			sb.WriteRune(r)
		}
	}
	return sb.String() + "Entry"
}

func setType(f *descriptorpb.FieldDescriptorProto, typ string) {
	if t, ok := scalarTypes[typ]; ok {
		f.Type = t.Enum()
		return
	}
	f.TypeName = proto.String(typ) // resolved later
}

// fieldOptions parses `[opt = v, ...]` if present.
func (p *parser) fieldOptions(f *descriptorpb.FieldDescriptorProto) error {
	if !p.isSym("[") {
		return nil
	}
	if err := p.advance(); err != nil {
		return err
	}
	for {
		name, custom, err := p.optionName()
		if err != nil {
			return err
		}
		if err = p.expectSym("="); err != nil {
			return err
		}
		c, err := p.constantValue()
		if err != nil {
			return err
		}
		if !custom && f != nil {
			switch name {
			case "deprecated":
				if f.Options == nil {
					f.Options = &descriptorpb.FieldOptions{}
				}
				f.Options.Deprecated = proto.Bool(c.s == "true")
			case "json_name":
				f.JsonName = proto.String(c.s)
			case "packed":
				if f.Options == nil {
					f.Options = &descriptorpb.FieldOptions{}
				}
				f.Options.Packed = proto.Bool(c.s == "true")
			default:
				return p.errf("unsupported field option %q", name)
			}
		}
		if p.isSym(",") {
			if err := p.advance(); err != nil {
				return err
			}
			continue
		}
		break
	}
	return p.expectSym("]")
}

func (p *parser) reserved() ([]*descriptorpb.DescriptorProto_ReservedRange, []string, error) {
	if err := p.advance(); err != nil {
		return nil, nil, err
	}
	var ranges []*descriptorpb.DescriptorProto_ReservedRange
	var names []string
	for {
		if p.tok.kind == tString {
			s, err := p.stringLit()
			if err != nil {
				return nil, nil, err
			}
			names = append(names, s)
		} else {
			lo, err := p.intLit()
			if err != nil {
				return nil, nil, err
			}
			hi := lo
			if p.isIdent("to") {
				if err = p.advance(); err != nil {
					return nil, nil, err
				}
				if p.isIdent("max") {
					hi = 536870911
					if err = p.advance(); err != nil {
						return nil, nil, err
					}
				} else if hi, err = p.intLit(); err != nil {
					return nil, nil, err
				}
			}
			ranges = append(ranges, &descriptorpb.DescriptorProto_ReservedRange{Start: proto.Int32(int32(lo)), End: proto.Int32(int32(hi) + 1)})
		}
		if p.isSym(",") {
			if err := p.advance(); err != nil {
				return nil, nil, err
			}
			continue
		}
		break
	}
	return ranges, names, p.expectSym(";")
}

func (p *parser) message() (*descriptorpb.DescriptorProto, error) {
	if err := p.advance(); err != nil {
		return nil, err
	}
	name, err := p.ident()
	if err != nil {
		return nil, err
	}
	m := &descriptorpb.DescriptorProto{Name: proto.String(name)}
	if err = p.expectSym("{"); err != nil {
		return nil, err
	}
	for !p.isSym("}") {
		switch {
		case p.tok.kind == tEOF:
			return nil, p.errf("unexpected EOF in message %s", name)
		case p.isSym(";"):
			if err = p.advance(); err != nil {
				return nil, err
			}
		case p.isIdent("message"):
			nm, merr := p.message()
			if merr != nil {
				return nil, merr
			}
			m.NestedType = append(m.NestedType, nm)
		case p.isIdent("enum"):
			ne, eerr := p.enum()
			if eerr != nil {
				return nil, eerr
			}
			m.EnumType = append(m.EnumType, ne)
		case p.isIdent("option"):
			oname, custom, c, oerr := p.optionStmt()
			if oerr != nil {
				return nil, oerr
			}
			if !custom {
				if oname != "deprecated" {
					return nil, p.errf("unsupported message option %q", oname)
				}
				m.Options = &descriptorpb.MessageOptions{Deprecated: proto.Bool(c.s == "true")}
			}
		case p.isIdent("reserved"):
			ranges, names, rerr := p.reserved()
			if rerr != nil {
				return nil, rerr
			}
			m.ReservedRange = append(m.ReservedRange, ranges...)
			m.ReservedName = append(m.ReservedName, names...)
		case p.isIdent("extensions") || p.isIdent("extend") || p.isIdent("group"):
			return nil, p.errf("unsupported construct")
		case p.isIdent("oneof"):
			if err = p.advance(); err != nil {
				return nil, err
			}
			oname, oerr := p.ident()
			if oerr != nil {
				return nil, oerr
			}
			idx := int32(len(m.OneofDecl))
			m.OneofDecl = append(m.OneofDecl, &descriptorpb.OneofDescriptorProto{Name: proto.String(oname)})
			if err = p.expectSym("{"); err != nil {
				return nil, err
			}
			for !p.isSym("}") {
				if p.isSym(";") {
					if err = p.advance(); err != nil {
						return nil, err
					}
					continue
				}
				if p.isIdent("option") {
					if _, custom, _, operr := p.optionStmt(); operr != nil {
						return nil, operr
					} else if !custom {
						return nil, p.errf("unsupported oneof option")
					}
					continue
				}
				f, ferr := p.field(m, false)
				if ferr != nil {
					return nil, ferr
				}
				f.OneofIndex = proto.Int32(idx)
			}
			if err = p.advance(); err != nil {
				return nil, err
			}
		default:
			if _, ferr := p.field(m, true); ferr != nil {
				return nil, ferr
			}
		}
	}
	if err = p.advance(); err != nil {
		return nil, err
	}
	// proto3 optional: synthetic oneofs come after all real oneofs.
	for _, f := range m.Field {
		if f.GetProto3Optional() {
			idx := int32(len(m.OneofDecl))
			m.OneofDecl = append(m.OneofDecl, &descriptorpb.OneofDescriptorProto{Name: proto.String("_" + f.GetName())})
			f.OneofIndex = proto.Int32(idx)
		}
	}
	return m, nil
}

func (p *parser) field(m *descriptorpb.DescriptorProto, allowLabel bool) (*descriptorpb.FieldDescriptorProto, error) {
	f := &descriptorpb.FieldDescriptorProto{Label: descriptorpb.FieldDescriptorProto_LABEL_OPTIONAL.Enum()}
	if allowLabel {
		switch {
		case p.isIdent("repeated"):
			f.Label = descriptorpb.FieldDescriptorProto_LABEL_REPEATED.Enum()
			if err := p.advance(); err != nil {
				return nil, err
			}
		case p.isIdent("optional"):
			f.Proto3Optional = proto.Bool(true)
			if err := p.advance(); err != nil {
				return nil, err
			}
		case p.isIdent("required"):
			return nil, p.errf("required is not proto3")
		}
	}
	if p.isIdent("map") {
		// Could be a type named "map..."? Only treat as map when followed by '<'.
		save := *p.lx
		saveTok := p.tok
		if err := p.advance(); err != nil {
			return nil, err
		}
		if p.isSym("<") {
			if err := p.advance(); err != nil {
				return nil, err
			}
			kt, err := p.fullIdent()
			if err != nil {
				return nil, err
			}
			if err = p.expectSym(","); err != nil {
				return nil, err
			}
			vt, err := p.fullIdent()
			if err != nil {
				return nil, err
			}
			if err = p.expectSym(">"); err != nil {
				return nil, err
			}
			name, err := p.ident()
			if err != nil {
				return nil, err
			}
			if err = p.expectSym("="); err != nil {
				return nil, err
			}
			num, err := p.intLit()
			if err != nil {
				return nil, err
			}
			f.Name = proto.String(name)
			f.JsonName = proto.String(jsonName(name))
			f.Number = proto.Int32(int32(num))
			f.Label = descriptorpb.FieldDescriptorProto_LABEL_REPEATED.Enum()
			if err = p.fieldOptions(f); err != nil {
				return nil, err
			}
			if err = p.expectSym(";"); err != nil {
				return nil, err
			}
			entry := &descriptorpb.DescriptorProto{
				Name:    proto.String(camelEntry(name)),
				Options: &descriptorpb.MessageOptions{MapEntry: proto.Bool(true)},
			}
			kf := &descriptorpb.FieldDescriptorProto{
				Name: proto.String("key"), JsonName: proto.String("key"), Number: proto.Int32(1),
				Label: descriptorpb.FieldDescriptorProto_LABEL_OPTIONAL.Enum(),
			}
			setType(kf, kt)
			vf := &descriptorpb.FieldDescriptorProto{
				Name: proto.String("value"), JsonName: proto.String("value"), Number: proto.Int32(2),
				Label: descriptorpb.FieldDescriptorProto_LABEL_OPTIONAL.Enum(),
			}
			setType(vf, vt)
			entry.Field = []*descriptorpb.FieldDescriptorProto{kf, vf}
			m.NestedType = append(m.NestedType, entry)
			f.TypeName = proto.String(entry.GetName())
			m.Field = append(m.Field, f)
			return f, nil
		}
		*p.lx = save
		p.tok = saveTok
	}
	typ, err := p.fullIdent()
	if err != nil {
		return nil, err
	}
	name, err := p.ident()
	if err != nil {
		return nil, err
	}
	if err = p.expectSym("="); err != nil {
		return nil, err
	}
	num, err := p.intLit()
	if err != nil {
		return nil, err
	}
	f.Name = proto.String(name)
	f.JsonName = proto.String(jsonName(name))
	f.Number = proto.Int32(int32(num))
	setType(f, typ)
	if err = p.fieldOptions(f); err != nil {
		return nil, err
	}
	if err = p.expectSym(";"); err != nil {
		return nil, err
	}
	m.Field = append(m.Field, f)
	return f, nil
}

func (p *parser) enum() (*descriptorpb.EnumDescriptorProto, error) {
	if err := p.advance(); err != nil {
		return nil, err
	}
	name, err := p.ident()
	if err != nil {
		return nil, err
	}
	e := &descriptorpb.EnumDescriptorProto{Name: proto.String(name)}
	if err = p.expectSym("{"); err != nil {
		return nil, err
	}
	for !p.isSym("}") {
		switch {
		case p.tok.kind == tEOF:
			return nil, p.errf("unexpected EOF in enum")
		case p.isSym(";"):
			if err = p.advance(); err != nil {
				return nil, err
			}
		case p.isIdent("option"):
			oname, custom, c, oerr := p.optionStmt()
			if oerr != nil {
				return nil, oerr
			}
			if !custom {
				if e.Options == nil {
					e.Options = &descriptorpb.EnumOptions{}
				}
				switch oname {
				case "allow_alias":
					e.Options.AllowAlias = proto.Bool(c.s == "true")
				case "deprecated":
					e.Options.Deprecated = proto.Bool(c.s == "true")
				default:
					return nil, p.errf("unsupported enum option %q", oname)
				}
			}
		case p.isIdent("reserved"):
			ranges, names, rerr := p.reserved()
			if rerr != nil {
				return nil, rerr
			}
			for _, r := range ranges {
				e.ReservedRange = append(e.ReservedRange, &descriptorpb.EnumDescriptorProto_EnumReservedRange{Start: r.Start, End: proto.Int32(r.GetEnd() - 1)})
			}
			e.ReservedName = append(e.ReservedName, names...)
		default:
			vn, verr := p.ident()
			if verr != nil {
				return nil, verr
			}
			if err = p.expectSym("="); err != nil {
				return nil, err
			}
			num, nerr := p.intLit()
			if nerr != nil {
				return nil, nerr
			}
			v := &descriptorpb.EnumValueDescriptorProto{Name: proto.String(vn), Number: proto.Int32(int32(num))}
			if p.isSym("[") {
				ff := &descriptorpb.FieldDescriptorProto{}
				if err = p.fieldOptions(ff); err != nil {
					return nil, err
				}
				if ff.GetOptions().GetDeprecated() {
					v.Options = &descriptorpb.EnumValueOptions{Deprecated: proto.Bool(true)}
				}
			}
			if err = p.expectSym(";"); err != nil {
				return nil, err
			}
			e.Value = append(e.Value, v)
		}
	}
	return e, p.advance()
}

func (p *parser) service() (*descriptorpb.ServiceDescriptorProto, error) {
	if err := p.advance(); err != nil {
		return nil, err
	}
	name, err := p.ident()
	if err != nil {
		return nil, err
	}
	s := &descriptorpb.ServiceDescriptorProto{Name: proto.String(name)}
	if err = p.expectSym("{"); err != nil {
		return nil, err
	}
	for !p.isSym("}") {
		switch {
		case p.tok.kind == tEOF:
			return nil, p.errf("unexpected EOF in service")
		case p.isSym(";"):
			if err = p.advance(); err != nil {
				return nil, err
			}
		case p.isIdent("option"):
			oname, custom, c, oerr := p.optionStmt()
			if oerr != nil {
				return nil, oerr
			}
			if !custom {
				if oname != "deprecated" {
					return nil, p.errf("unsupported service option %q", oname)
				}
				s.Options = &descriptorpb.ServiceOptions{Deprecated: proto.Bool(c.s == "true")}
			}
		case p.isIdent("rpc"):
			if err = p.advance(); err != nil {
				return nil, err
			}
			mn, merr := p.ident()
			if merr != nil {
				return nil, merr
			}
			md := &descriptorpb.MethodDescriptorProto{Name: proto.String(mn)}
			parseSide := func() (string, bool, error) {
				if serr := p.expectSym("("); serr != nil {
					return "", false, serr
				}
				stream := false
				if p.isIdent("stream") {
					// `stream` followed by a type name; a bare type called "stream" is not used here.
					stream = true
					if serr := p.advance(); serr != nil {
						return "", false, serr
					}
				}
				t, terr := p.fullIdent()
				if terr != nil {
					return "", false, terr
				}
				return t, stream, p.expectSym(")")
			}
			in, cs, ierr := parseSide()
			if ierr != nil {
				return nil, ierr
			}
			if !p.isIdent("returns") {
				return nil, p.errf("expected returns")
			}
			if err = p.advance(); err != nil {
				return nil, err
			}
			out, ss, oerr := parseSide()
			if oerr != nil {
				return nil, oerr
			}
			md.InputType = proto.String(in)
			md.OutputType = proto.String(out)
			if cs {
				md.ClientStreaming = proto.Bool(true)
			}
			if ss {
				md.ServerStreaming = proto.Bool(true)
			}
			if p.isSym("{") {
				if err = p.advance(); err != nil {
					return nil, err
				}
				for !p.isSym("}") {
					if p.isSym(";") {
						if err = p.advance(); err != nil {
							return nil, err
						}
						continue
					}
					if !p.isIdent("option") {
						return nil, p.errf("expected option in rpc body")
					}
					oname, custom, c, operr := p.optionStmt()
					if operr != nil {
						return nil, operr
					}
					if !custom {
						if oname != "deprecated" {
							return nil, p.errf("unsupported method option %q", oname)
						}
						md.Options = &descriptorpb.MethodOptions{Deprecated: proto.Bool(c.s == "true")}
					}
				}
				if err = p.advance(); err != nil {
					return nil, err
				}
			} else if err = p.expectSym(";"); err != nil {
				return nil, err
			}
			s.Method = append(s.Method, md)
		default:
			return nil, p.errf("unexpected token in service")
		}
	}
	return s, p.advance()
}
