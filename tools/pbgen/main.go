package main

import (
	"flag"
	"fmt"
	"io/fs"
	"os"
	"path/filepath"
	"sort"
	"strings"

	"google.golang.org/protobuf/cmd/protoc-gen-go/internal_gengo"
	"google.golang.org/protobuf/compiler/protogen"
	"google.golang.org/protobuf/proto"
	"google.golang.org/protobuf/reflect/protodesc"
	"google.golang.org/protobuf/reflect/protoreflect"
	"google.golang.org/protobuf/reflect/protoregistry"
	"google.golang.org/protobuf/types/descriptorpb"
	"google.golang.org/protobuf/types/pluginpb"

	_ "google.golang.org/protobuf/types/known/anypb"
	_ "google.golang.org/protobuf/types/known/durationpb"
	_ "google.golang.org/protobuf/types/known/structpb"
	_ "google.golang.org/protobuf/types/known/timestamppb"
)

// Imports that only carry custom options, which the parser drops.
var droppedImports = map[string]bool{
	"validate/validate.proto":                        true,
	"google/api/annotations.proto":                   true,
	"protoc-gen-openapiv2/options/annotations.proto": true,
}

func main() {
	root := flag.String("root", "/repo/api/proto", "proto root")
	out := flag.String("out", "", "output root (files written as <out>/<proto dir>/x.pb.go)")
	flag.Parse()
	if *out == "" {
		fmt.Fprintln(os.Stderr, "-out required")
		os.Exit(2)
	}
	if err := run(*root, *out); err != nil {
		fmt.Fprintln(os.Stderr, "pbgen:", err)
		os.Exit(2)
	}
}

func run(root, out string) error {
	var names []string
	err := filepath.WalkDir(root, func(path string, d fs.DirEntry, err error) error {
		if err != nil {
			return err
		}
		if !d.IsDir() && strings.HasSuffix(path, ".proto") {
			rel, rerr := filepath.Rel(root, path)
			if rerr != nil {
				return rerr
			}
			names = append(names, filepath.ToSlash(rel))
		}
		return nil
	})
	if err != nil {
		return err
	}
	sort.Strings(names)
	files := map[string]*descriptorpb.FileDescriptorProto{}
	for _, n := range names {
		fd, perr := parseFile(filepath.Join(root, n), n)
		if perr != nil {
			return perr
		}
		var deps []string
		for _, d := range fd.Dependency {
			if !droppedImports[d] {
				deps = append(deps, d)
			}
		}
		fd.Dependency = deps
		files[n] = fd
	}
	// Well-known types from the Go registry.
	for _, fd := range files {
		for _, d := range fd.Dependency {
			if _, ok := files[d]; ok {
				continue
			}
			if !strings.HasPrefix(d, "google/protobuf/") {
				return fmt.Errorf("%s: unknown import %q", fd.GetName(), d)
			}
		}
	}
	wkt := map[string]*descriptorpb.FileDescriptorProto{}
	for _, fd := range files {
		for _, d := range fd.Dependency {
			if _, ok := files[d]; ok {
				continue
			}
			if _, ok := wkt[d]; ok {
				continue
			}
			rf, ferr := protoregistry.GlobalFiles.FindFileByPath(d)
			if ferr != nil {
				return fmt.Errorf("well-known %q: %w", d, ferr)
			}
			wkt[d] = protodesc.ToFileDescriptorProto(rf)
		}
	}
	// Symbol table.
	syms := map[string]bool{} // full name (no leading dot) -> isEnum
	known := map[string]bool{}
	var addMsg func(prefix string, m *descriptorpb.DescriptorProto)
	addMsg = func(prefix string, m *descriptorpb.DescriptorProto) {
		fn := prefix + "." + m.GetName()
		known[fn] = true
		syms[fn] = false
		for _, e := range m.EnumType {
			known[fn+"."+e.GetName()] = true
			syms[fn+"."+e.GetName()] = true
		}
		for _, n := range m.NestedType {
			addMsg(fn, n)
		}
	}
	addFile := func(fd *descriptorpb.FileDescriptorProto) {
		for _, m := range fd.MessageType {
			addMsg(fd.GetPackage(), m)
		}
		for _, e := range fd.EnumType {
			known[fd.GetPackage()+"."+e.GetName()] = true
			syms[fd.GetPackage()+"."+e.GetName()] = true
		}
	}
	for _, fd := range files {
		addFile(fd)
	}
	for _, fd := range wkt {
		addFile(fd)
	}
	resolve := func(scope, name string) (string, bool, error) {
		if strings.HasPrefix(name, ".") {
			if !known[name[1:]] {
				return "", false, fmt.Errorf("unknown type %q", name)
			}
			return name, syms[name[1:]], nil
		}
		for {
			cand := name
			if scope != "" {
				cand = scope + "." + name
			}
			if known[cand] {
				return "." + cand, syms[cand], nil
			}
			if scope == "" {
				break
			}
			if i := strings.LastIndex(scope, "."); i >= 0 {
				scope = scope[:i]
			} else {
				scope = ""
			}
		}
		return "", false, fmt.Errorf("cannot resolve type %q", name)
	}
	var resolveMsg func(fname, scope string, m *descriptorpb.DescriptorProto) error
	resolveMsg = func(fname, scope string, m *descriptorpb.DescriptorProto) error {
		fn := scope + "." + m.GetName()
		for _, f := range m.Field {
			if f.Type != nil {
				continue
			}
			full, isEnum, rerr := resolve(fn, f.GetTypeName())
			if rerr != nil {
				return fmt.Errorf("%s: %s.%s: %w", fname, fn, f.GetName(), rerr)
			}
			f.TypeName = proto.String(full)
			if isEnum {
				f.Type = descriptorpb.FieldDescriptorProto_TYPE_ENUM.Enum()
			} else {
				f.Type = descriptorpb.FieldDescriptorProto_TYPE_MESSAGE.Enum()
			}
		}
		for _, n := range m.NestedType {
			if rerr := resolveMsg(fname, fn, n); rerr != nil {
				return rerr
			}
		}
		return nil
	}
	for _, fd := range files {
		for _, m := range fd.MessageType {
			if rerr := resolveMsg(fd.GetName(), fd.GetPackage(), m); rerr != nil {
				return rerr
			}
		}
		for _, s := range fd.Service {
			for _, md := range s.Method {
				in, _, rerr := resolve(fd.GetPackage(), md.GetInputType())
				if rerr != nil {
					return fmt.Errorf("%s: %s.%s: %w", fd.GetName(), s.GetName(), md.GetName(), rerr)
				}
				o, _, rerr := resolve(fd.GetPackage(), md.GetOutputType())
				if rerr != nil {
					return fmt.Errorf("%s: %s.%s: %w", fd.GetName(), s.GetName(), md.GetName(), rerr)
				}
				md.InputType, md.OutputType = proto.String(in), proto.String(o)
			}
		}
	}
	// Topological order.
	all := map[string]*descriptorpb.FileDescriptorProto{}
	for k, v := range files {
		all[k] = v
	}
	for k, v := range wkt {
		all[k] = v
	}
	var order []*descriptorpb.FileDescriptorProto
	state := map[string]int{}
	var visit func(n string) error
	visit = func(n string) error {
		switch state[n] {
		case 1:
			return fmt.Errorf("import cycle at %s", n)
		case 2:
			return nil
		}
		state[n] = 1
		fd := all[n]
		if fd == nil {
			return fmt.Errorf("missing file %s", n)
		}
		for _, d := range fd.Dependency {
			if verr := visit(d); verr != nil {
				return verr
			}
		}
		state[n] = 2
		order = append(order, fd)
		return nil
	}
	allNames := make([]string, 0, len(all))
	for k := range all {
		allNames = append(allNames, k)
	}
	sort.Strings(allNames)
	for _, n := range allNames {
		if verr := visit(n); verr != nil {
			return verr
		}
	}
	// Validate through protodesc (same linker the runtime uses).
	reg := &protoregistry.Files{}
	for _, fd := range order {
		rf, nerr := protodesc.NewFile(fd, reg)
		if nerr != nil {
			return fmt.Errorf("descriptor %s: %w", fd.GetName(), nerr)
		}
		if rerr := reg.RegisterFile(rf); rerr != nil {
			return rerr
		}
	}
	req := &pluginpb.CodeGeneratorRequest{
		FileToGenerate: names,
		Parameter:      proto.String("paths=source_relative"),
		ProtoFile:      order,
	}
	gen, err := protogen.Options{}.New(req)
	if err != nil {
		return err
	}
	gen.SupportedFeatures = uint64(pluginpb.CodeGeneratorResponse_FEATURE_PROTO3_OPTIONAL)
	for _, f := range gen.Files {
		if !f.Generate {
			continue
		}
		internal_gengo.GenerateFile(gen, f)
		genValidateStub(gen, f)
		if len(f.Services) > 0 {
			genGRPC(gen, f)
			genGateway(gen, f)
		}
	}
	resp := gen.Response()
	if resp.Error != nil {
		return fmt.Errorf("generator: %s", resp.GetError())
	}
	for _, rf := range resp.File {
		p := filepath.Join(out, rf.GetName())
		if merr := os.MkdirAll(filepath.Dir(p), 0o755); merr != nil {
			return merr
		}
		if werr := os.WriteFile(p, []byte(rf.GetContent()), 0o644); werr != nil {
			return werr
		}
	}
	fmt.Printf("pbgen: %d proto files -> %d go files\n", len(names), len(resp.File))
	return nil
}

var _ = protoreflect.FullName("")
