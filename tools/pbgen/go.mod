module pbgen

go 1.25.13

require google.golang.org/protobuf v1.36.12
