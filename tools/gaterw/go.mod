module gaterw

go 1.25.13
