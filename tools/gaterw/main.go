// gaterw: prototype gate inserter. usage: gaterw <in.go> <out.go> <importpath-of-simcore>
package main

import (
	"bytes"
	"flag"
	"fmt"
	"go/ast"
	"go/format"
	"go/parser"
	"go/token"
	"os"
	"path/filepath"
	"strconv"
	"strings"
)

type rw struct {
	fset  *token.FileSet
	file  string
	fn    string
	n     int
	gates int
}

func isLockCall(s ast.Stmt, names ...string) bool {
	es, ok := s.(*ast.ExprStmt)
	if !ok {
		return false
	}
	return isLockExpr(es.X, names...)
}

func isLockExpr(e ast.Expr, names ...string) bool {
	call, ok := e.(*ast.CallExpr)
	if !ok || len(call.Args) != 0 {
		return false
	}
	sel, ok := call.Fun.(*ast.SelectorExpr)
	if !ok {
		return false
	}
	for _, n := range names {
		if sel.Sel.Name == n {
			return true
		}
	}
	return false
}

// hasTrigger reports whether node (not descending into nested blocks / func literals) contains a trigger.
func hasTrigger(n ast.Node) bool {
	found := false
	ast.Inspect(n, func(x ast.Node) bool {
		if found || x == nil {
			return false
		}
		switch v := x.(type) {
		case *ast.BlockStmt, *ast.FuncLit:
			if x != n {
				return false
			}
		case *ast.CallExpr:
			if sel, ok := v.Fun.(*ast.SelectorExpr); ok {
				if id, ok := sel.X.(*ast.Ident); ok && id.Name == "atomic" {
					found = true
					return false
				}
				if len(v.Args) == 0 && (sel.Sel.Name == "Lock" || sel.Sel.Name == "RLock") {
					found = true
					return false
				}
				switch sel.Sel.Name {
				case "MustRMAll", "CreateHardLink", "MkdirIfNotExist", "MkdirPanicIfExist":
					found = true
					return false
				}
			}
		case *ast.SendStmt:
			found = true
			return false
		case *ast.UnaryExpr:
			if v.Op == token.ARROW {
				found = true
				return false
			}
		case *ast.GoStmt:
			found = true
			return false
		}
		return true
	})
	return found
}

func (r *rw) gate() ast.Stmt {
	r.n++
	r.gates++
	name := fmt.Sprintf("%s:%s#%d", r.file, r.fn, r.n)
	return &ast.ExprStmt{X: &ast.CallExpr{
		Fun:  &ast.SelectorExpr{X: ast.NewIdent("simcore"), Sel: ast.NewIdent("Gate")},
		Args: []ast.Expr{&ast.BasicLit{Kind: token.STRING, Value: strconv.Quote(name)}},
	}}
}

func depthCall(d int) ast.Expr {
	return &ast.CallExpr{
		Fun:  &ast.SelectorExpr{X: ast.NewIdent("simcore"), Sel: ast.NewIdent("LockDepth")},
		Args: []ast.Expr{&ast.BasicLit{Kind: token.INT, Value: strconv.Itoa(d)}},
	}
}

// block rewrites a statement list. depth is the lexical lock depth on entry.
func (r *rw) block(list []ast.Stmt, depth int) []ast.Stmt {
	var out []ast.Stmt
	for _, s := range list {
		switch v := s.(type) {
		case *ast.ExprStmt:
			if modeB && isLockExpr(v.X, "Lock", "RLock") {
				call := v.X.(*ast.CallExpr)
				sel := call.Fun.(*ast.SelectorExpr)
				try := "TryLock"
				if sel.Sel.Name == "RLock" {
					try = "TryRLock"
				}
				out = append(out, r.gate(), &ast.ExprStmt{X: &ast.CallExpr{
					Fun: &ast.SelectorExpr{X: ast.NewIdent("simcore"), Sel: ast.NewIdent("CoLock")},
					Args: []ast.Expr{
						&ast.SelectorExpr{X: sel.X, Sel: ast.NewIdent(try)},
						&ast.SelectorExpr{X: sel.X, Sel: ast.NewIdent(sel.Sel.Name)},
					},
				}})
				continue
			}
			if !modeB && isLockExpr(v.X, "Lock", "RLock") {
				if depth == 0 {
					out = append(out, r.gate())
				}
				out = append(out, s, &ast.ExprStmt{X: depthCall(1)})
				depth++
				continue
			}
			if !modeB && isLockExpr(v.X, "Unlock", "RUnlock") {
				out = append(out, &ast.ExprStmt{X: depthCall(-1)}, s)
				if depth > 0 {
					depth--
				}
				if afterUnlock && depth == 0 {
					// a preemption point right after an explicit unlock: what the code does next is no longer
					// protected (a value read under the lock and used after it)
					out = append(out, r.gate())
				}
				continue
			}
		case *ast.DeferStmt:
			if !modeB && isLockExpr(v.Call, "Unlock", "RUnlock") {
				// our defer is registered after => runs before the unlock
				out = append(out, s, &ast.DeferStmt{Call: depthCall(-1).(*ast.CallExpr)})
				continue
			}
		}
		if gs, ok := s.(*ast.GoStmt); ok {
			if fl, isLit := gs.Call.Fun.(*ast.FuncLit); isLit && len(gs.Call.Args) == 0 {
				fl.Body.List = r.block(fl.Body.List, 0)
				r.n++
				site := fmt.Sprintf("%s:%s#go%d", r.file, r.fn, r.n)
				if depth == 0 {
					out = append(out, r.gate())
				}
				out = append(out, &ast.ExprStmt{X: &ast.CallExpr{
					Fun:  &ast.SelectorExpr{X: ast.NewIdent("simcore"), Sel: ast.NewIdent("Go")},
					Args: []ast.Expr{&ast.BasicLit{Kind: token.STRING, Value: strconv.Quote(site)}, fl},
				}})
				continue
			}
		}
		// recurse into nested bodies first
		r.nested(s, depth)
		if depth == 0 && headerTrigger(s) {
			out = append(out, r.gate())
		}
		out = append(out, s)
		if !modeB && depth == 0 && len(afterCall) > 0 && callsNamed(s) {
			// a preemption point right after a call that returns a value read under a lock the CALLEE took and
			// released (deferred unlock): what the caller does with the value next is no longer protected
			out = append(out, r.gate())
		}
	}
	return out
}

// callsNamed: s is `x := recv.name(...)`, `x = name(...)` or `recv.name(...)` with name listed in -aftercall.
func callsNamed(s ast.Stmt) bool {
	var e ast.Expr
	switch v := s.(type) {
	case *ast.AssignStmt:
		if len(v.Rhs) != 1 {
			return false
		}
		e = v.Rhs[0]
	case *ast.ExprStmt:
		e = v.X
	default:
		return false
	}
	call, ok := e.(*ast.CallExpr)
	if !ok {
		return false
	}
	switch f := call.Fun.(type) {
	case *ast.SelectorExpr:
		return afterCall[f.Sel.Name]
	case *ast.Ident:
		return afterCall[f.Name]
	}
	return false
}

// headerTrigger: trigger in the statement itself excluding nested block bodies.
func headerTrigger(s ast.Stmt) bool {
	switch v := s.(type) {
	case *ast.IfStmt:
		if v.Init != nil && hasTrigger(v.Init) {
			return true
		}
		return hasTrigger(v.Cond)
	case *ast.ForStmt:
		return (v.Init != nil && hasTrigger(v.Init)) || (v.Cond != nil && hasTrigger(v.Cond))
	case *ast.RangeStmt:
		return hasTrigger(v.X)
	case *ast.SwitchStmt:
		return (v.Init != nil && hasTrigger(v.Init)) || (v.Tag != nil && hasTrigger(v.Tag))
	case *ast.TypeSwitchStmt, *ast.BlockStmt, *ast.LabeledStmt:
		return false
	case *ast.SelectStmt:
		return true
	case *ast.DeferStmt:
		return false
	default:
		return hasTrigger(s)
	}
}

func (r *rw) nested(s ast.Stmt, depth int) {
	switch v := s.(type) {
	case *ast.BlockStmt:
		v.List = r.block(v.List, depth)
	case *ast.IfStmt:
		v.Body.List = r.block(v.Body.List, depth)
		if v.Else != nil {
			r.nested(v.Else, depth)
		}
	case *ast.ForStmt:
		v.Body.List = r.block(v.Body.List, depth)
	case *ast.RangeStmt:
		v.Body.List = r.block(v.Body.List, depth)
	case *ast.SwitchStmt:
		for _, c := range v.Body.List {
			cc := c.(*ast.CaseClause)
			cc.Body = r.block(cc.Body, depth)
		}
	case *ast.TypeSwitchStmt:
		for _, c := range v.Body.List {
			cc := c.(*ast.CaseClause)
			cc.Body = r.block(cc.Body, depth)
		}
	case *ast.SelectStmt:
		for _, c := range v.Body.List {
			cc := c.(*ast.CommClause)
			cc.Body = r.block(cc.Body, depth)
		}
	case *ast.LabeledStmt:
		r.nested(v.Stmt, depth)
	}
	// function literals inside expressions: rewrite their bodies as fresh functions
	ast.Inspect(s, func(x ast.Node) bool {
		if fl, ok := x.(*ast.FuncLit); ok {
			fl.Body.List = r.block(fl.Body.List, 0)
			return false
		}
		if _, ok := x.(*ast.BlockStmt); ok && x != s {
			return false
		}
		return true
	})
}

var modeB, afterUnlock bool

// afterCall: function / method names after whose call statement a gate is inserted (mode A, -aftercall a,b).
var afterCall = map[string]bool{}

const simcorePath = "github.com/apache/skywalking-banyandb/pkg/verif/simcore"

func main() {
	in := flag.String("in", "", "input go file")
	out := flag.String("out", "", "output go file")
	name := flag.String("name", "", "name used in gate sites (repo-relative path)")
	mode := flag.String("mode", "A", "A: gates outside critical sections; B: cooperative locks, gates everywhere")
	flag.Bool("locksonly", false, "unused")
	flag.BoolVar(&afterUnlock, "afterunlock", false, "mode A: also gate right after an explicit Unlock/RUnlock that leaves the critical section")
	ac := flag.String("aftercall", "", "mode A: comma-separated function/method names; also gate right after a statement `x := f(...)` / `f(...)` calling one of them")
	flag.Parse()
	modeB = *mode == "B"
	for _, n := range strings.Split(*ac, ",") {
		if n != "" {
			afterCall[n] = true
		}
	}
	fset := token.NewFileSet()
	f, err := parser.ParseFile(fset, *in, nil, parser.ParseComments)
	if err != nil {
		fmt.Fprintln(os.Stderr, err)
		os.Exit(1)
	}
	site := *name
	if site == "" {
		site = filepath.Base(*in)
	}
	r := &rw{fset: fset, file: filepath.Base(site)}
	for _, d := range f.Decls {
		fd, ok := d.(*ast.FuncDecl)
		if !ok || fd.Body == nil {
			continue
		}
		r.fn = fd.Name.Name
		r.n = 0
		fd.Body.List = r.block(fd.Body.List, 0)
	}
	var buf bytes.Buffer
	if err := format.Node(&buf, fset, f); err != nil {
		fmt.Fprintln(os.Stderr, err)
		os.Exit(1)
	}
	text := buf.Bytes()
	if bytes.Contains(text, []byte("simcore.")) {
		// add the import only when the rewritten file uses it
		done := false
		for _, d := range f.Decls {
			if gd, ok := d.(*ast.GenDecl); ok && gd.Tok == token.IMPORT {
				gd.Specs = append(gd.Specs, &ast.ImportSpec{Name: ast.NewIdent("simcore"), Path: &ast.BasicLit{Kind: token.STRING, Value: strconv.Quote(simcorePath)}})
				done = true
				break
			}
		}
		if !done {
			gd := &ast.GenDecl{Tok: token.IMPORT, Specs: []ast.Spec{&ast.ImportSpec{Name: ast.NewIdent("simcore"), Path: &ast.BasicLit{Kind: token.STRING, Value: strconv.Quote(simcorePath)}}}}
			f.Decls = append([]ast.Decl{gd}, f.Decls...)
		}
		buf.Reset()
		if err := format.Node(&buf, fset, f); err != nil {
			fmt.Fprintln(os.Stderr, err)
			os.Exit(1)
		}
		text = buf.Bytes()
	}
	if err := os.WriteFile(*out, text, 0o644); err != nil {
		fmt.Fprintln(os.Stderr, err)
		os.Exit(1)
	}
	fmt.Printf("gaterw: %s: gates %d\n", site, r.gates)
}
